(* Lemmas about Model/Clockwork.v, part 9: schedule() returns normally (no exception, no divergence) when batch sizes
   are >= 1, every offered request has a known profile with a strategy, and no strategy asks for the same resource
   name twice (the case refuted by returns_normally_refuted). *)
From Coq Require Import ZArith Bool List Lia ZifyBool Sorting.Sorted Permutation.
Import ListNotations.
From Verif Require Import Model.Val Gen.Src_Clockwork Model.Clockwork Proofs.ClockworkP Proofs.ClockworkP2 Proofs.ClockworkP3
  Proofs.ClockworkP4 Proofs.ClockworkP5 Proofs.ClockworkP6 Proofs.ClockworkP7 Proofs.ClockworkP8.
Open Scope Z_scope.

(* ------------------------------------------------------------------ resources: what fits can be allocated *)
Definition res_nonneg (v : resvec) : Prop := Forall (fun e => 0 <= snd e) v.
Definition world_nonneg (wd : world) : Prop := forall mid ss s, zassoc mid wd = Some ss -> In s ss -> res_nonneg (s_res s).
Definition pools_nonneg (ps : list pool) : Prop := Forall (fun p => Forall (fun w => res_nonneg (w_res w)) (p_workers p)) ps.

Lemma take_zero : forall v n i, take_loop v n i 0 = (v, 0).
Proof.
  induction v as [|[[a b] c] v IH]; intros n i; cbn [take_loop]; [reflexivity|].
  rewrite andb_false_r, IH. reflexivity.
Qed.
Lemma res_avail_nonneg : forall v n i, res_nonneg v -> 0 <= res_avail v n i.
Proof.
  induction v as [|[[a b] c] v IH]; intros n i H; cbn [res_avail]; [lia|]. inversion H as [|? ? Hc Hv]; subst. cbn in Hc.
  specialize (IH n i Hv). destruct (res_match n i a b); lia.
Qed.
(* the scratch play of one request and Resources.allocate do the same thing to the vector *)
Lemma take_alloc : forall v n i rem v' r, res_nonneg v -> 0 <= rem -> take_loop v n i rem = (v', r) ->
  0 <= r /\ res_nonneg v' /\ res_avail v n i = res_avail v' n i + (rem - r) /\ (r = 0 -> alloc_loop v n i rem = v') /\
  (forall n2 i2, res_avail v' n2 i2 <= res_avail v n2 i2).
Proof.
  induction v as [|[[a b] c] v IH]; intros n i rem v' r Hn Hr H; cbn [take_loop] in H.
  - injection H as <- <-. cbn. split; [lia|]. split; [constructor|]. split; [lia|]. split; [reflexivity|intros; lia].
  - inversion Hn as [|? ? Hc Hv]; subst. cbn in Hc. cbn [alloc_loop res_avail].
    destruct (res_match n i a b) eqn:Em; destruct (0 <? rem) eqn:Er; cbn [andb] in H.
    + destruct (take_loop v n i (rem - Z.min c rem)) as [v'' r0] eqn:Et. injection H as <- <-.
      assert (Hr2 : 0 <= rem - Z.min c rem) by lia.
      destruct (IH n i _ _ _ Hv Hr2 Et) as [A1 [A2 [A3 [A4 A5]]]].
      split; [assumption|]. split; [constructor; [cbn; lia|assumption]|]. cbn [res_avail]. rewrite Em. split; [lia|]. split.
      * intros ->. destruct (rem <=? c) eqn:El.
        -- assert (Em2 : Z.min c rem = rem) by lia. rewrite Em2, Z.sub_diag, take_zero in Et. injection Et as <-. rewrite Em2. reflexivity.
        -- assert (Em2 : Z.min c rem = c) by lia. rewrite Em2 in *. rewrite Z.sub_diag.
           assert (E0 : (if 0 <? c then (a, b, 0) else (a, b, c)) = (a, b, 0)) by (destruct (0 <? c) eqn:E1; [reflexivity|assert (c = 0) by lia; subst; reflexivity]).
           rewrite E0. assert (E2 : rem - c =? 0 = false) by lia. rewrite E2. f_equal. apply A4. reflexivity.
      * intros n2 i2. specialize (A5 n2 i2). destruct (res_match n2 i2 a b); lia.
    + assert (rem = 0) by lia. subst rem. rewrite take_zero in H. injection H as <- <-.
      split; [lia|]. split; [assumption|]. cbn [res_avail]. rewrite Em. split; [lia|]. split; [|intros; lia].
      intros _. assert (E1 : 0 <=? c = true) by lia. rewrite E1, Z.sub_0_r. reflexivity.
    + destruct (take_loop v n i rem) as [v'' r0] eqn:Et. injection H as <- <-.
      destruct (IH n i _ _ _ Hv Hr Et) as [A1 [A2 [A3 [A4 A5]]]].
      split; [assumption|]. split; [constructor; [cbn; lia|assumption]|]. cbn [res_avail]. rewrite Em. split; [lia|]. split.
      * intros E. assert (E2 : rem =? 0 = false) by lia. rewrite E2. f_equal. apply A4. assumption.
      * intros n2 i2. specialize (A5 n2 i2). destruct (res_match n2 i2 a b); lia.
    + assert (rem = 0) by lia. subst rem. rewrite take_zero in H. injection H as <- <-.
      split; [lia|]. split; [assumption|]. cbn [res_avail]. rewrite Em. split; [lia|]. split; [|intros; lia].
      intros _. reflexivity.
Qed.
(* Resources.__gt__ true  ==>  allocate_multiple serves every request *)
Lemma play_allocate : forall req v, res_nonneg v -> res_nonneg req -> res_play v req = true ->
  (forall n i q, In (n, i, q) req -> q <= res_avail v n i) /\ exists v', res_allocate_seq req v = Ok v' /\ res_nonneg v'.
Proof.
  induction req as [|[[n i] q] req IH]; intros v Hv Hq H; cbn [res_play res_allocate_seq] in *.
  - split; [intros ? ? ? []|eauto].
  - inversion Hq as [|? ? Hq0 Hq']; subst. cbn in Hq0.
    destruct (take_loop v n i q) as [v1 r] eqn:Et. destruct (0 <? r) eqn:Er; [discriminate|].
    destruct (take_alloc v n i q v1 r Hv Hq0 Et) as [A1 [A2 [A3 [A4 A5]]]]. assert (r = 0) by lia. subst r.
    pose proof (res_avail_nonneg v1 n i A2) as Hnn.
    destruct (IH v1 A2 Hq' H) as [B1 [v' [B2 B3]]]. split.
    + intros n2 i2 q2 [E|Hin]; [injection E as <- <- <-; lia|]. specialize (B1 _ _ _ Hin). specialize (A5 n2 i2). lia.
    + unfold res_allocate. assert (E0 : q <? 0 = false) by lia. assert (E1 : res_avail v n i <? q = false) by lia.
      rewrite E0, E1, (A4 eq_refl). eauto.
Qed.
Lemma w_place_ok : forall w s ts, fits w s = true -> 1 <= s_bs s -> res_nonneg (w_res w) -> res_nonneg (s_res s) ->
  (forall i, In i ts -> ~ In i (w_placed w)) -> NoDup ts ->
  exists w1, w_place w s ts = Ok w1 /\ res_nonneg (w_res w1) /\ w_placed w1 = w_placed w ++ ts.
Proof.
  intros w s ts Hf Hb Hw Hs Hc Hd. unfold w_place. destruct (s_bs s <? 1) eqn:E; [lia|].
  assert (E1 : existsb (fun i => zmem i (w_placed w)) ts = false).
  { destruct (existsb _ ts) eqn:Ex; [|reflexivity]. apply existsb_exists in Ex. destruct Ex as [i [Hi Hm]]. apply zmem_iff in Hm. exfalso. apply (Hc i); assumption. }
  assert (E2 : znodup ts = true) by (apply znodup_iff; assumption). rewrite E1, E2. cbn [negb orb].
  unfold fits, res_gt in Hf. destruct (play_allocate (s_res s) (w_res w) Hw Hs Hf) as [Hq [v' [Hv Hn]]].
  unfold res_allocate_multiple. destruct (existsb _ (s_res s)) eqn:Ex.
  - apply existsb_exists in Ex. destruct Ex as [[[n i] q] [Hin Hlt]]. specialize (Hq _ _ _ Hin). lia.
  - rewrite Hv. eexists. split; [reflexivity|]. split; [assumption|reflexivity].
Qed.
(* no request of the list is placed on the worker *)
Definition clear (w : worker) (l : list task) : Prop := forall t, In t l -> ~ In (t_id t) (w_placed w).
Definition w_good (w : worker) (l : list task) : Prop := res_nonneg (w_res w) /\ clear w l.
Definition pools_good (ps : list pool) (l : list task) : Prop := Forall (fun p => Forall (fun w => w_good w l) (p_workers p)) ps.
Lemma w_good_incl : forall w l l', incl l' l -> w_good w l -> w_good w l'.
Proof. intros w l l' Hi [H1 H2]. split; [assumption|]. intros t Ht. apply H2. apply Hi. assumption. Qed.

(* ------------------------------------------------------------------ the deque entries describe the current queues *)
Definition fresh (st : cw_state) (x : Z * list strategy) : Prop :=
  exists m, find_model (fst x) st = Some m /\ forall s, In s (snd x) -> exists q, In (s, q) (m_queues m) /\ s_bs s <= zlen q.
Definition esq_fresh (st : cw_state) (e : esq) : Prop := NoDup (map fst e) /\ Forall (fresh st) e.

Lemma fresh_other : forall st m2 x, fst x <> m_id m2 -> fresh st x -> fresh (set_model m2 st) x.
Proof. intros st m2 x Hne [m [Hf Hs]]. exists m. split; [rewrite find_set_other; assumption|assumption]. Qed.
Lemma esq_fresh_perm : forall st e e', Permutation e' e -> esq_fresh st e -> esq_fresh st e'.
Proof.
  intros st e e' Hp [H1 H2]. split.
  - eapply Permutation_NoDup; [apply Permutation_sym; apply Permutation_map; exact Hp|assumption].
  - rewrite Forall_forall in *. intros x Hx. apply H2. eapply Permutation_in; eassumption.
Qed.
Lemma esq_fresh_sort : forall st st0 e, esq_fresh st e -> esq_fresh st (sort_esq st0 e).
Proof. intros. eapply esq_fresh_perm; [apply isort_by_perm|assumption]. Qed.

Lemma build_esq_fresh : forall now st st' e, NoDup (map m_id st) -> Forall Inv_m st -> build_esq now st = Ok (st', e) ->
  map m_id st' = map m_id st /\ incl (map fst e) (map m_id st) /\ NoDup (map fst e) /\
  Forall (fun x => exists m, In m st' /\ m_id m = fst x /\ forall s, In s (snd x) -> exists q, In (s, q) (m_queues m) /\ s_bs s <= zlen q) e.
Proof.
  intros now st. induction st as [|m st IH]; intros st' e Hd Hi H; cbn [build_esq] in H.
  - injection H as <- <-. repeat split; try constructor. intros x [].
  - inversion Hi as [|? ? Him Hi']; subst. cbn [map] in Hd. inversion Hd as [|? ? Hn Hd']; subst.
    destruct (avail_strats now m) as [[m' ss]|] eqn:Ea; [|discriminate].
    destruct (build_esq now st) as [[st'' e0]|] eqn:Eb; [|discriminate]. injection H as <- <-.
    destruct (IH _ _ Hd' Hi' eq_refl) as [H1 [H2 [H3 H4]]].
    destruct (avail_strats_spec now m m' ss Him Ea) as [A1 [[Aid _] [A3 A4]]].
    assert (Hrest : Forall (fun x => exists m0, In m0 (m' :: st'') /\ m_id m0 = fst x /\ forall s, In s (snd x) -> exists q, In (s, q) (m_queues m0) /\ s_bs s <= zlen q) e0).
    { eapply Forall_impl; [|exact H4]. cbn. intros x [m0 [Hm0 Hr]]. exists m0. split; [right; assumption|assumption]. }
    cbn [map]. split; [f_equal; assumption|].
    destruct (nonempty ss).
    + cbn [map fst]. split; [intros y [<-|Hy]; [left; reflexivity|right; apply H2; assumption]|].
      split; [constructor; [intros Hc; apply Hn; apply H2; assumption|assumption]|].
      constructor; [exists m'; split; [left; reflexivity|split; [assumption|assumption]]|assumption].
    + split; [intros y Hy; right; apply H2; assumption|]. split; assumption.
Qed.

Lemma conforms_bs : forall wd m, bs_pos wd -> conforms wd m -> Forall (fun sq => 1 <= s_bs (fst sq)) (m_queues m).
Proof.
  intros wd m Hp Hc. rewrite Forall_forall. intros sq Hsq. eapply Hp; [exact Hc|]. apply in_map. assumption.
Qed.

Lemma infer_loop_ok : forall wd fuel ls now pid w st e acc,
  forall U, id_functional U -> incl (st_recs st) U ->
  world_wf wd -> bs_pos wd -> world_nonneg wd -> w_good w (st_recs st) -> Inv_st wd st -> esq_ok wd e -> esq_fresh st e ->
  (length e + st_total st < fuel)%nat ->
  exists r, infer_loop fuel ls now pid w st e acc = Ok r.
Proof.
  intros wd fuel. induction fuel as [|f IH]; intros ls now pid w st e acc U HU Hsub Hw Hp Hr Hwn Hi He Hfr Hf; [exfalso; lia|]. cbn [infer_loop].
  destruct e as [|[mid ss] e']; [eauto|].
  inversion He as [|? ? [ssw [Hzw Hincl]] He']; subst. cbn [fst snd] in Hzw, Hincl. cbn [length] in Hf.
  destruct Hfr as [Hnd Hfa]. cbn [map fst] in Hnd. inversion Hnd as [|? ? Hnin Hnd']; subst.
  inversion Hfa as [|? ? [m [Hfm Hfq]] Hfa']; subst. cbn [fst snd] in Hfm, Hfq.
  assert (Hfr' : esq_fresh st e') by (split; assumption).
  destruct (cw_not_loaded (w_is_available w mid)); [apply (IH _ _ _ _ _ _ _ U); try assumption; lia|].
  destruct (filter (fits w) ss) as [|s rest] eqn:Efil; [apply (IH _ _ _ _ _ _ _ U); try assumption; lia|].
  rewrite Hfm.
  assert (Hs_in : In s (filter (fits w) ss)) by (rewrite Efil; left; reflexivity).
  apply filter_In in Hs_in. destruct Hs_in as [Hs_ss Hfit].
  assert (Hs_w : In s ssw) by (apply Hincl; assumption).
  destruct (find_model_some _ _ _ Hfm) as [Hmin Hmid].
  pose proof Hi as [Hndst Hinv Hconf].
  assert (Him : Inv_m m) by (rewrite Forall_forall in Hinv; apply Hinv; assumption).
  assert (Hcf : conforms wd m) by (rewrite Forall_forall in Hconf; apply Hconf; assumption).
  destruct (Hfq s Hs_ss) as [q [Hq Hbq]].
  destruct (get_placements_ok s q m Him Hq Hbq) as [ts [m1 Egp]]. rewrite Egp.
  assert (Hbs : 1 <= s_bs s) by exact (Hp mid ssw s Hzw Hs_w).
  destruct (get_placements_spec s m ts m1 Him Egp) as [Him1 [Hsh1 [[s' [q' [Hq' [Hsid [Hts Hlen]]]]] [Hgone [Hsize Hndts]]]]].
  assert (Hts_recs : forall t, In t ts -> In t (map fst (m_tasks m))).
  { intros t Ht. destruct (in_queue_key m (s', q') t Him Hq' (Hts t Ht)) as [n Hn]. apply in_map_iff. exists (t, n). split; [reflexivity|assumption]. }
  assert (Hts_st : incl ts (st_recs st)).
  { intros t Ht. apply st_recs_in. exists m. split; [assumption|apply Hts_recs; assumption]. }
  destruct Hwn as [Hwn Hclr].
  assert (Ewp : exists w1, (if nonempty ts then w_place w s (map t_id ts) else Ok w) = Ok w1 /\ res_nonneg (w_res w1) /\
                           (w_placed w1 = w_placed w \/ w_placed w1 = w_placed w ++ map t_id ts)).
  { destruct (nonempty ts); [|exists w; split; [reflexivity|split; [assumption|left; reflexivity]]].
    destruct (w_place_ok w s (map t_id ts) Hfit Hbs Hwn (Hr mid ssw s Hzw Hs_w)) as [w1 [E1 [E2 E3]]].
    - intros i Hi' Hc'. apply in_map_iff in Hi'. destruct Hi' as [t [<- Ht]]. apply (Hclr t (Hts_st t Ht)). assumption.
    - exact Hndts.
    - exists w1. split; [assumption|]. split; [assumption|right; assumption]. }
  destruct Ewp as [w1 [Ewp [Hwn1 Hpl1]]]. rewrite Ewp.
  assert (Hcf1 : conforms wd m1).
  { unfold conforms in *. rewrite (shrinks_strategies m1 m Hsh1). destruct Hsh1 as [E _]. rewrite E. assumption. }
  destruct (avail_strats_ok now m1 Him1 (conforms_bs wd m1 Hp Hcf1)) as [m2 [ss2 Eav]]. rewrite Eav.
  destruct (avail_strats_spec now m1 m2 ss2 Him1 Eav) as [Him2 [Hsh2 [_ Hav2]]].
  assert (Hsh : shrinks m2 m) by (eapply shrinks_trans; eassumption).
  assert (Hid2 : m_id m2 = mid) by (destruct Hsh as [E _]; lia).
  assert (Hf2 : find_model (m_id m2) st = Some m) by (rewrite Hid2; assumption).
  assert (Hi2 : Inv_st wd (set_model m2 st)) by (eapply set_model_inv_st; eassumption).
  assert (Hlts : (1 <= length ts)%nat) by (specialize (Hlen ltac:(lia)); unfold zlen in Hlen; lia).
  assert (Hl2 : (length (m_tasks m2) <= length (m_tasks m1))%nat).
  { rewrite <- (map_length (fun tn => t_id (fst tn)) (m_tasks m2)), <- (map_length (fun tn => t_id (fst tn)) (m_tasks m1)).
    apply NoDup_incl_length; [apply (inv_keys m2 Him2)|apply (shrinks_keys _ _ Hsh2)]. }
  pose proof (st_total_set_model m2 m st Hf2) as Htot.
  unfold conforms in Hcf. rewrite Hmid, Hzw in Hcf. injection Hcf as Hcf.
  assert (Hnew : esq_ok wd (e' ++ [(mid, ss2)])).
  { apply Forall_app. split; [assumption|]. constructor; [|constructor]. exists ssw. cbn [fst snd]. split; [assumption|].
    intros x Hx. destruct (Hav2 x Hx) as [qx [Hqx _]]. rewrite Hcf, <- (shrinks_strategies m2 m Hsh).
    apply in_map_iff. exists (x, qx). split; [reflexivity|assumption]. }
  assert (Hfr_tail : esq_fresh (set_model m2 st) e').
  { split; [assumption|]. rewrite Forall_forall in *. intros x Hx. apply fresh_other; [|apply Hfa'; assumption].
    rewrite Hid2. intros Hc. apply Hnin. rewrite <- Hc. apply in_map. assumption. }
  assert (Hfr_new : esq_fresh (set_model m2 st) (e' ++ [(mid, ss2)])).
  { destruct Hfr_tail as [T1 T2]. split.
    - rewrite map_app. cbn [map fst]. eapply Permutation_NoDup; [apply Permutation_cons_append|]. constructor; assumption.
    - apply Forall_app. split; [assumption|]. constructor; [|constructor]. exists m2. cbn [fst snd]. split; [|exact Hav2].
      rewrite <- Hid2. apply find_set_same. rewrite Hid2, <- Hmid. apply in_map. assumption. }
  assert (Hrec2 : incl (st_recs (set_model m2 st)) (st_recs st)) by (eapply set_model_recs_incl; eassumption).
  assert (Hts_gone : forall t, In t ts -> ~ In t (st_recs (set_model m2 st))).
  { intros t Ht Hc'. destruct (set_model_recs m2 m st Hndst Hf2 t Hc') as [Hin2|[x [Hx [Hne Hin2]]]].
    - apply (Hgone t Ht). apply (shrinks_keys _ _ Hsh2). apply rec_key. assumption.
    - assert (Hix : Inv_m x) by (rewrite Forall_forall in Hinv; apply Hinv; assumption).
      pose proof (rec_model x t Hix Hin2) as E1. pose proof (rec_model m t Him (Hts_recs t Ht)) as E2. lia. }
  assert (Hgood1 : w_good w1 (st_recs (set_model m2 st))).
  { split; [assumption|]. intros t' Ht' Hc'. destruct Hpl1 as [E|E]; rewrite E in Hc'.
    - apply (Hclr t' (Hrec2 t' Ht')). assumption.
    - apply in_app_or in Hc'. destruct Hc' as [Hc'|Hc']; [apply (Hclr t' (Hrec2 t' Ht')); assumption|].
      apply in_map_iff in Hc'. destruct Hc' as [t [Eid Ht]].
      assert (t = t') by (apply HU; [apply Hsub; apply Hts_st; assumption|apply Hsub; apply Hrec2; assumption|assumption]). subst t'.
      apply (Hts_gone t Ht). assumption. }
  apply (IH _ _ _ _ _ _ _ U); try assumption.
  - exact (incl_tran Hrec2 Hsub).
  - destruct (nonempty ss2); [|assumption]. destruct ls; [apply esq_ok_sort|]; assumption.
  - destruct (nonempty ss2); [|assumption]. destruct ls; [apply esq_fresh_sort|]; assumption.
  - assert (Hle : (length (if nonempty ss2 then if ls then sort_esq (set_model m2 st) (e' ++ [(mid, ss2)]) else e' ++ [(mid, ss2)] else e') <= S (length e'))%nat).
    { destruct (nonempty ss2); [|lia]. destruct ls; [rewrite sort_esq_length|]; rewrite app_length; cbn [length]; lia. }
    eapply Nat.le_lt_trans; [apply Nat.add_le_mono_r; exact Hle|lia].
Qed.

Lemma build_esq_ok : forall wd now st, bs_pos wd -> Forall Inv_m st -> Forall (conforms wd) st -> exists r, build_esq now st = Ok r.
Proof.
  intros wd now st Hp. induction st as [|m st IH]; intros Hi Hc; cbn [build_esq]; [eauto|].
  inversion Hi; subst. inversion Hc; subst.
  destruct (avail_strats_ok now m) as [m' [ss Ea]]; [assumption|eapply conforms_bs; eassumption|]. rewrite Ea.
  destruct IH as [[st'' e0] Eb]; [assumption|assumption|]. rewrite Eb. eauto.
Qed.
Lemma infer_worker_ok : forall wd ls now pid w st acc U, id_functional U -> incl (st_recs st) U ->
  world_wf wd -> bs_pos wd -> world_nonneg wd -> w_good w (st_recs st) -> Inv_st wd st ->
  exists r, infer_worker ls now pid w st acc = Ok r.
Proof.
  intros wd ls now pid w st acc U HU Hsub Hw Hp Hr Hwn Hi. unfold infer_worker.
  destruct (build_esq_ok wd now st Hp (st_inv wd st Hi) (st_conf wd st Hi)) as [[st1 e] Eb]. rewrite Eb.
  destruct (build_esq_aux wd now st st1 e (st_inv wd st Hi) (st_conf wd st Hi) Eb) as [F2 [He _]].
  destruct (forall2_shrinks_facts wd now st1 st Hi F2) as [Hi1 [_ [Hr1 _]]].
  destruct (build_esq_fresh now st st1 e (st_nodup wd st Hi) (st_inv wd st Hi) Eb) as [B1 [B2 [B3 B4]]].
  assert (Hfr : esq_fresh st1 e).
  { split; [assumption|]. eapply Forall_impl; [|exact B4]. cbn. intros x [m [Hm [Eid Hq]]]. exists m. split; [|assumption].
    rewrite <- Eid. apply find_model_in; [apply (st_nodup wd st1 Hi1)|assumption]. }
  assert (He1 : esq_ok wd (if ls then sort_esq st1 e else e)) by (destruct ls; [apply esq_ok_sort|]; assumption).
  assert (Hfr1 : esq_fresh st1 (if ls then sort_esq st1 e else e)) by (destruct ls; [apply esq_fresh_sort|]; assumption).
  assert (Hsub1 : incl (st_recs st1) U) by exact (incl_tran Hr1 Hsub).
  assert (Hwn1 : w_good w (st_recs st1)) by exact (w_good_incl w _ _ Hr1 Hwn).
  match goal with |- context [infer_loop ?fu ?x1 ?x2 ?x3 ?x4 ?x5 ?x6 ?x7] =>
    destruct (infer_loop_ok wd fu x1 x2 x3 x4 x5 x6 x7 U HU Hsub1 Hw Hp Hr Hwn1 Hi1 He1 Hfr1) as [[[w2 st2] acc2] El]; [unfold infer_fuel; lia|rewrite El] end.
  eauto.
Qed.
Lemma infer_workers_ok : forall wd ls now p ws st acc U, id_functional U -> incl (st_recs st) U ->
  world_wf wd -> bs_pos wd -> world_nonneg wd ->
  Forall (fun w => w_good w (st_recs st)) ws -> Inv_st wd st ->
  Forall (batch_ok wd) acc -> once_inv acc st -> exists r, infer_workers ls now p ws st acc = Ok r.
Proof.
  intros wd ls now p ws. induction ws as [|w ws IH]; intros st acc U HU Hsub Hw Hp Hr Hwn Hi Hb Ho; cbn [infer_workers]; [eauto|].
  inversion Hwn as [|? ? Hwn1 Hwn2]; subst.
  destruct (infer_worker_ok wd ls now p w st acc U HU Hsub Hw Hp Hr Hwn1 Hi) as [[st1 acc1] E1]. rewrite E1.
  destruct (infer_worker_spec _ _ _ _ _ _ _ _ _ Hw Hi Hb Ho E1) as [A1 [A2 [A3 [A4 _]]]].
  apply (IH _ _ U); try assumption; [exact (incl_tran A4 Hsub)|].
  eapply Forall_impl; [|exact Hwn2]. intros x Hx. exact (w_good_incl x _ _ A4 Hx).
Qed.
Lemma infer_pools_ok : forall wd ls now ps st acc U, id_functional U -> incl (st_recs st) U ->
  world_wf wd -> bs_pos wd -> world_nonneg wd -> pools_good ps (st_recs st) -> Inv_st wd st ->
  Forall (batch_ok wd) acc -> once_inv acc st -> exists r, infer_pools ls now ps st acc = Ok r.
Proof.
  intros wd ls now ps. induction ps as [|p ps IH]; intros st acc U HU Hsub Hw Hp Hr Hpn Hi Hb Ho; cbn [infer_pools]; [eauto|].
  inversion Hpn as [|? ? Hpn1 Hpn2]; subst.
  destruct (infer_workers_ok wd ls now (p_id p) (p_workers p) st acc U HU Hsub Hw Hp Hr Hpn1 Hi Hb Ho) as [[st1 acc1] E1]. rewrite E1.
  destruct (infer_workers_spec _ _ _ _ _ _ _ _ _ Hw Hi Hb Ho (incl_refl _) E1) as [A1 [A2 [A3 [A4 _]]]].
  apply (IH _ _ U); try assumption; [exact (incl_tran A4 Hsub)|].
  eapply Forall_impl; [|exact Hpn2]. intros q Hq. eapply Forall_impl; [|exact Hq]. intros x Hx. exact (w_good_incl x _ _ A4 Hx).
Qed.

Definition offered_known (wd : world) (inv : invocation) : Prop :=
  Forall (fun t => exists ss, zassoc (t_model t) wd = Some ss /\ ss <> []) (i_offered inv).
(* what the environment must provide for one invocation: known profiles, a request id names one request, non-negative
   quantities on the workers, no pending or offered request is already placed on a worker, and the LOAD/EVICT answer of
   run_load only evicts profiles the named worker holds (load_pools returns) *)
Definition inv_ok (wd : world) (inv : invocation) (st : cw_state) : Prop :=
  offered_known wd inv /\ id_functional (st_recs st ++ i_offered inv) /\
  exists ps, load_pools inv = Ok ps /\ pools_good ps (st_recs st ++ i_offered inv).
(* schedule() returns a decision: no exception, no divergence *)
Lemma cw_schedule_returns : forall wd ls inv st, world_wf wd -> bs_pos wd -> world_nonneg wd -> Inv_st wd st -> inv_ok wd inv st ->
  exists st' d, cw_schedule wd ls inv st = Ok (st', d).
Proof.
  intros wd ls inv st Hw Hp Hr Hi [Ho [HU [ps0 [Hlp Hpn]]]]. unfold cw_schedule. rewrite Hlp.
  destruct (admission_ok wd (i_now inv) (i_offered inv) st [] Ho) as [st1 [c Ea]]. rewrite Ea.
  destruct (admission_inv _ _ _ _ _ _ _ Hw Hi Ea) as [Hi1 Hrec1].
  assert (Hsub : incl (st_recs st1) (st_recs st ++ i_offered inv)).
  { intros t Ht. apply in_or_app. destruct (Hrec1 t Ht) as [Hl|[Hr' _]]; [left|right]; assumption. }
  assert (Ho0 : once_inv [] st1) by (split; [constructor|intros t []]).
  assert (Hg : forall ps, pools_good ps (st_recs st ++ i_offered inv) -> pools_good ps (st_recs st1)).
  { intros ps H. eapply Forall_impl; [|exact H]. intros q Hq. eapply Forall_impl; [|exact Hq]. intros x Hx. exact (w_good_incl x _ _ Hsub Hx). }
  match goal with |- context [infer_pools ?a ?b ?c ?d ?e] =>
    destruct (infer_pools_ok wd a b c d e _ HU Hsub Hw Hp Hr (Hg _ Hpn) Hi1 (Forall_nil _) Ho0) as [[st2 bs] Ei]; rewrite Ei end; eauto.
Qed.
(* every invocation of a run finds its environment in order *)
Fixpoint run_ok (wd : world) (ls : bool) (invs : list invocation) (st : cw_state) : Prop :=
  match invs with
  | [] => True
  | inv :: rest => inv_ok wd inv st /\
      match cw_schedule wd ls inv st with Ok (st', _) => run_ok wd ls rest st' | Err _ => True end
  end.
Lemma run_returns : forall wd ls invs st, world_wf wd -> bs_pos wd -> world_nonneg wd -> Inv_st wd st -> run_ok wd ls invs st ->
  Forall (fun r => exists d, r = Ok d) (cw_run wd ls invs st) /\ length (cw_run wd ls invs st) = length invs.
Proof.
  intros wd ls invs. induction invs as [|inv rest IH]; intros st Hw Hp Hr Hi Ho; cbn [cw_run]; [split; [constructor|reflexivity]|].
  cbn [run_ok] in Ho. destruct Ho as [Ho1 Ho2].
  destruct (cw_schedule_returns wd ls inv st Hw Hp Hr Hi Ho1) as [st' [d Es]]. rewrite Es in *.
  destruct (cw_schedule_spec _ _ _ _ _ _ Hw Hi Es) as [S1 _]. destruct (IH st' Hw Hp Hr S1 Ho2) as [A B].
  split; [constructor; [eauto|assumption]|cbn [length]; f_equal; assumption].
Qed.
Example ex_nonneg : world_nonneg ex_wd.
Proof.
  intros mid ss s H Hs. unfold ex_wd in H. cbn [zassoc] in H. destruct (1 =? mid); [|discriminate]. injection H as <-.
  destruct Hs as [<-|[<-|[]]]; repeat constructor; cbn; lia.
Qed.
(* the worked run returns at every invocation *)
Example ex_returns : Forall (fun r => exists d, r = Ok d) (cw_run ex_wd false ex_invs (cw_start ex_wd [1])).
Proof. vm_compute. repeat constructor; eexists; reflexivity. Qed.
