(* TetriPRefute — witnesses: non-vacuity of the maximality theorem, and the inputs on which the unrestricted
   statement of C14 fails for the formulation as written. *)
From Coq Require Import ZArith Bool List Lia ZifyBool.
Import ListNotations.
From Verif Require Import Model.Val Model.PlanSpec Model.TetriModel Proofs.TetriP Proofs.TetriPSum Proofs.TetriPSound
  Proofs.TetriPCor Proofs.TetriPComplete.
Open Scope Z_scope.

(* ------------------------------------------------------------------ non-vacuity *)
Definition ex2_task (id : Z) : ttask := mkTT id SFree 0 3 [mkStrat 2 [(0, 1)]] [] 0 true.
Definition ex2_inst : tinst := mkTI Gurobi 0 (-1) 1 true true false [ex2_task 0; ex2_task 1] [mkTW 1 [(0, 2)]].
Definition ex2_plan : plan := [mkPl 0 1 0%nat 0; mkPl 1 1 0%nat 0].
Definition ex2_assign : assignment := assign_of_plan ex2_inst (fun _ => 0) ex2_plan.

Lemma maximal_example : exists I rank a, max_hyp I rank /\ optimal I a /\ max_hypb I = true /\
  plan_of (readback I a) = [mkPl 0 1 0%nat 0; mkPl 1 1 0%nat 0] /\ maximal_okb I (plan_of (readback I a)) = true.
Proof.
  exists ex2_inst, (fun _ => 0), ex2_assign.
  assert (W : wf_inst ex2_inst) by (apply wf_instb_sound; vm_compute; reflexivity).
  assert (Hnr : forall x, In x (ti_tasks ex2_inst) -> is_running x = false).
  { intros x [<-|[<-|[]]]; reflexivity. }
  assert (Hs : sat (gen_tetri ex2_inst) ex2_assign = true) by (vm_compute; reflexivity).
  split; [|split; [|split; [|split]]].
  - constructor; auto.
    + cbn. lia.
    + intros x [<-|[<-|[]]]; reflexivity.
    + intros x pid [<-|[<-|[]]] [].
    + intros; lia.
    + intros x s [<-|[<-|[]]] [<-|[]]; cbn; lia.
  - split; [exact Hs|]. intros a' Hs'. pose proof (obj_upper ex2_inst a' W Hnr Hs') as U.
    assert (E : objective (gen_tetri ex2_inst) ex2_assign = 12) by (vm_compute; reflexivity).
    rewrite E. vm_compute in U. vm_compute. exact U.
  - vm_compute. reflexivity.
  - vm_compute. reflexivity.
  - vm_compute. reflexivity.
Qed.

(* ------------------------------------------------------------------ F11-iii: running task charged its full runtime *)
(* worker 1 has one CPU; A (3 us) started at 0, now = 2, so A really ends at 3 but is charged [2, 5);
   B (1 us, deadline 4) fits in [3, 4) *)
Definition run_B : ttask := mkTT 0 SFree 2 4 [mkStrat 1 [(0, 1)]] [] 0 true.
Definition run_A : ttask := mkTT 1 (SRunning 1 (mkStrat 3 [(0, 1)]) 1) 0 3 [mkStrat 3 [(0, 1)]] [] 0 true.
Definition run_inst : tinst := mkTI Gurobi 2 (-1) 1 true true false [run_B; run_A] [mkTW 1 [(0, 1)]].
(* the values Gurobi returns on this instance: B unplaced *)
Definition run_assign : assignment :=
  assign_of_keys [([2; 0; 2], 1); ([2; 0; 3], 1); ([2; 0; 4], 1); ([2; 0; 5], 1); ([2; 0; 6], 1)].

Lemma run_wf : wf_inst run_inst.
Proof. apply wf_instb_sound. vm_compute. reflexivity. Qed.

(* no satisfying assignment places B *)
Lemma run_B_never_placed : forall a', sat (gen_tetri run_inst) a' = true -> readback_task run_inst a' run_B = None.
Proof.
  intros a' Hs. destruct (readback_task run_inst a' run_B) as [pl|] eqn:R; [|reflexivity]. exfalso.
  pose proof (sound_capacity run_inst a' run_wf Hs) as C.
  assert (Epl : plan_of (readback run_inst a') = [pl]).
  { rewrite plan_of_readback. change (free_tasks run_inst) with [run_B]. cbn [flat_map]. unfold rb_list. rewrite R. reflexivity. }
  pose proof R as Rc. apply readback_cell in Rc. destruct Rc as [w [t [i [s [Hw [Ht [Hs' [Hk [_ [_ ->]]]]]]]]]].
  destruct Hw as [<-|[]]. destruct i as [|i]; [|destruct i; discriminate]. cbn in Hs'. inversion Hs'; subst s.
  apply cell_kind_var in Hk. destruct Hk as [_ [Hrel Hdl]]. specialize (Hdl eq_refl). cbn in Hrel, Hdl.
  specialize (C (mkPWorker 1 [(0, 1)]) t (or_introl eq_refl)). cbn [pi_now to_pinst] in C. specialize (C Hrel 0).
  rewrite Epl in C.
  assert (t = 2 \/ t = 3) by lia. destruct H as [-> | ->]; vm_compute in C; apply C; reflexivity.
Qed.

Lemma run_optimal : optimal run_inst run_assign.
Proof.
  split; [vm_compute; reflexivity|]. intros a' Hs'.
  assert (E0 : objective (gen_tetri run_inst) a' = 0).
  { rewrite (obj_eq_gen run_inst a' Hs'). cbn [ti_tasks run_inst sumf]. change (is_running run_B) with false. change (is_running run_A) with true.
    cbv iota. assert (Hf : In run_B (free_tasks run_inst)) by (now left).
    rewrite (taskval_readback run_inst a' run_B Hs' Hf), (run_B_never_placed a' Hs'). destruct (rewarded_fb run_inst run_B); lia. }
  rewrite E0. vm_compute. discriminate.
Qed.

Lemma running_refuted : exists I a x pl,
  wf_inst I /\ optimal I a /\ In x (free_tasks I) /\ rewarded_fb I x = true /\ readback_task I a x = None /\
  pl_task pl = tt_id x /\ feasible (conv_sim_grid I) (to_pinst I) (pl :: plan_of (readback I a)).
Proof.
  exists run_inst, run_assign, run_B, (mkPl 0 1 0%nat 3).
  split; [exact run_wf|]. split; [exact run_optimal|]. split; [now left|]. split; [reflexivity|].
  split; [vm_compute; reflexivity|]. split; [reflexivity|].
  assert (Ep : plan_of (readback run_inst run_assign) = []) by (vm_compute; reflexivity). rewrite Ep.
  split; [|split; [|split]].
  - split; [repeat constructor; intros []|]. repeat constructor.
    exists (to_ptask run_inst run_B), (mkPWorker 1 [(0, 1)]), (mkStrat 1 [(0, 1)]). repeat split.
  - repeat constructor. exists (to_ptask run_inst run_B), (mkStrat 1 [(0, 1)]). repeat split; try (cbn; lia); try (vm_compute; reflexivity).
  - repeat constructor. intros t pid Ft Hpid. vm_compute in Ft. inversion Ft; subst t. destruct Hpid.
  - intros pw tau [<-|[]] Htau r. cbn [pi_now to_pinst run_inst] in Htau.
    assert (Es : pl_strategy (to_pinst run_inst) (mkPl 0 1 0%nat 3) = Some (mkStrat 1 [(0, 1)])) by (vm_compute; reflexivity).
    assert (Ef : fixed_of (to_pinst run_inst) = [mkFixed 1 (mkStrat 3 [(0, 1)]) 1]) by (vm_compute; reflexivity).
    unfold demand, demand_plan, demand_fixed. rewrite Ef. cbn [map fold_right]. unfold pl_active, fx_active, fx_len. rewrite Es.
    cbn [pl_start pl_worker st_runtime st_req fx_worker fx_strat fx_remaining conv_sim_grid cv_closed cv_run_full pi_now to_pinst
         run_inst ti_now rget fst snd pw_id pw_cap tw_idx tw_total].
    cbn [rget fst snd]. repeat match goal with |- context [if ?b then _ else _] => destruct b eqn:? end; lia.
Qed.

(* ------------------------------------------------------------------ whole-graph mode: only sink tasks are rewarded *)
(* chain T0 -> T1 on one CPU, now = 0, deadlines 6: T1 (5 us) would have to start at >= 0 + 2 + 1 = 3 and cannot finish
   by 6, so no assignment places it; T0 (2 us) carries no reward (it is not a sink) and the all-unplaced assignment that
   Gurobi returns is optimal although T0 can be added at slot 0 under the formulation's own convention *)
Definition nsk_T0 : ttask := mkTT 0 SFree 0 6 [mkStrat 2 [(0, 1)]] [] 0 false.
Definition nsk_T1 : ttask := mkTT 1 SFree (-1) 6 [mkStrat 5 [(0, 1)]] [0] 1 true.
Definition nsk_inst : tinst := mkTI Gurobi 0 (-1) 1 true true true [nsk_T0; nsk_T1] [mkTW 1 [(0, 1)]].
Definition nsk_assign : assignment :=
  assign_of_keys [([2; 0; 0], 1); ([2; 0; 1], 1); ([2; 0; 2], 1); ([2; 0; 3], 1); ([2; 0; 4], 1); ([2; 0; 5], 1); ([2; 0; 6], 1);
                  ([2; 1; 0], 1); ([2; 1; 1], 1); ([2; 1; 2], 1); ([2; 1; 3], 1); ([2; 1; 4], 1); ([2; 1; 5], 1); ([2; 1; 6], 1);
                  ([4; 1], 3)].
Lemma nsk_wf : wf_inst nsk_inst.
Proof. apply wf_instb_sound. vm_compute. reflexivity. Qed.

Lemma nsk_T1_never_placed : forall a', sat (gen_tetri nsk_inst) a' = true -> readback_task nsk_inst a' nsk_T1 = None.
Proof.
  intros a' Hs. destruct (readback_task nsk_inst a' nsk_T1) as [pl|] eqn:R; [|reflexivity]. exfalso.
  assert (Hf1 : In nsk_T1 (free_tasks nsk_inst)) by (right; now left).
  pose proof (tetri_precedence_explicit nsk_inst a' nsk_T1 nsk_T0 pl nsk_wf eq_refl Hs Hf1 R (or_introl eq_refl) (or_introl eq_refl)) as P.
  cbn [tt_state nsk_T0] in P. destruct P as [plq [Rq Hle]].
  destruct (readback_meets_deadline nsk_inst a' nsk_T1 pl eq_refl R) as [s [Hs' Hd]].
  apply readback_cell in Rq. destruct Rq as [w [t [i [s0 [_ [Ht [_ [_ [_ [_ ->]]]]]]]]]].
  pose proof (slots_ge_now nsk_inst t (wf_disc _ nsk_wf) Ht) as Hge. cbn [pl_start] in Hle.
  apply readback_cell in R. destruct R as [w1 [t1 [i1 [s1 [_ [_ [Hs1 [_ [_ [_ ->]]]]]]]]]]. cbn [pl_strat pl_start] in *.
  rewrite Hs1 in Hs'. inversion Hs'; subst s1. destruct i1 as [|i1]; [|destruct i1; discriminate]. cbn in Hs1. inversion Hs1; subst s.
  change (slowest_runtime (tt_strats nsk_T0)) with 2 in Hle. change (tt_deadline nsk_T1) with 6 in Hd.
  change (ti_now nsk_inst) with 0 in Hge. cbn [st_runtime] in Hd. lia.
Qed.

Lemma nsk_optimal : optimal nsk_inst nsk_assign.
Proof.
  split; [vm_compute; reflexivity|]. intros a' Hs'.
  assert (E0 : objective (gen_tetri nsk_inst) a' = 0).
  { rewrite (obj_eq_gen nsk_inst a' Hs'). cbn [ti_tasks nsk_inst sumf]. change (is_running nsk_T0) with false. change (is_running nsk_T1) with false.
    cbv iota. change (rewarded_fb nsk_inst nsk_T0) with false. change (rewarded_fb nsk_inst nsk_T1) with true. cbv iota.
    assert (Hf : In nsk_T1 (free_tasks nsk_inst)) by (right; now left).
    rewrite (taskval_readback nsk_inst a' nsk_T1 Hs' Hf), (nsk_T1_never_placed a' Hs'). lia. }
  rewrite E0. vm_compute. discriminate.
Qed.

Lemma nonsink_refuted : exists I a x pl,
  wf_inst I /\ optimal I a /\ In x (free_tasks I) /\ rewarded_fb I x = false /\ readback_task I a x = None /\
  pl_task pl = tt_id x /\ feasible (conv_tetri I) (to_pinst I) (pl :: plan_of (readback I a)).
Proof.
  exists nsk_inst, nsk_assign, nsk_T0, (mkPl 0 1 0%nat 0).
  split; [exact nsk_wf|]. split; [exact nsk_optimal|]. split; [now left|]. split; [reflexivity|].
  split; [vm_compute; reflexivity|]. split; [reflexivity|].
  assert (Ep : plan_of (readback nsk_inst nsk_assign) = []) by (vm_compute; reflexivity). rewrite Ep.
  split; [|split; [|split]].
  - split; [repeat constructor; intros []|]. repeat constructor.
    exists (to_ptask nsk_inst nsk_T0), (mkPWorker 1 [(0, 1)]), (mkStrat 2 [(0, 1)]). repeat split.
  - repeat constructor. exists (to_ptask nsk_inst nsk_T0), (mkStrat 2 [(0, 1)]).
    repeat split; try (cbn; lia); try (vm_compute; reflexivity); try (intros _; cbn; lia).
  - repeat constructor. intros t pid Ft Hpid. vm_compute in Ft. inversion Ft; subst t. destruct Hpid.
  - intros pw tau [<-|[]] Htau r. cbn [pi_now to_pinst nsk_inst] in Htau.
    assert (Es : pl_strategy (to_pinst nsk_inst) (mkPl 0 1 0%nat 0) = Some (mkStrat 2 [(0, 1)])) by (vm_compute; reflexivity).
    assert (Ef : fixed_of (to_pinst nsk_inst) = []) by (vm_compute; reflexivity).
    unfold demand, demand_plan, demand_fixed. rewrite Ef. cbn [map fold_right]. unfold pl_active. rewrite Es.
    cbn [pl_start pl_worker st_runtime st_req conv_tetri cv_closed pi_now to_pinst nsk_inst ti_now rget fst snd pw_id pw_cap tw_idx tw_total].
    cbn [rget fst snd]. repeat match goal with |- context [if ?b then _ else _] => destruct b eqn:? end; lia.
Qed.
