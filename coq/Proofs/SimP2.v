(* Consequences of the machine invariant used by the property files C01 C02 C03 C06. *)
From Coq Require Import ZArith Bool List Lia ZifyBool.
Import ListNotations.
From Verif Require Import Model.Val Gen.Src_Task Gen.Src_Event Model.Sim Proofs.TaskP Proofs.SimP.
Open Scope Z_scope.

Arguments task_step : simpl never.
Arguments task_release : simpl never.
Arguments task_schedule : simpl never.
Arguments task_unschedule : simpl never.
Arguments task_start : simpl never.
Arguments task_finish : simpl never.
Arguments task_cancel : simpl never.

(* ------------------------------------------------------------------ C01 *)
Theorem never_oversubscribed W l s :
  cap_nonneg W -> sim_exec W sim_init l = Some s ->
  (forall w r, used (s_res s) w r <= w_cap W w r) /\ NoDup (ids (s_res s)).
Proof.
  intros HW H. pose proof (reachable_inv W l s HW H) as I. split; [apply (inv_cap W s I)|apply (inv_nodup W s I)].
Qed.

(* a task occupies a worker exactly while it is RUNNING (outside handlers) *)
Theorem resident_iff_running W l s t x :
  cap_nonneg W -> sim_exec W sim_init l = Some s -> s_cur s = None -> s_tasks s t = Some x ->
  (In t (ids (s_res s)) <-> st x = TS_RUNNING).
Proof.
  intros HW H Hc Hx. pose proof (reachable_inv W l s HW H) as I. split.
  - intros Hin. destruct (inv_res W s I t Hin) as [y [E [A|[A [B C]]]]]; rewrite Hx in E; injection E as <-; [exact A|].
    rewrite (cur_is_none s _ _ Hc) in B. discriminate B.
  - intros R. destruct (inv_run W s I t x Hx R) as [A|A]; [exact A|]. rewrite (cur_is_none s _ _ Hc) in A. discriminate A.
Qed.

(* ------------------------------------------------------------------ C02 *)
Definition started (x : tst) : Prop := st x = TS_RUNNING \/ st x = TS_COMPLETED \/ st x = TS_EVICTED.

Theorem starts_after_release_and_parents W l s t x :
  cap_nonneg W -> sim_exec W sim_init l = Some s -> s_tasks s t = Some x -> started x ->
  t_release_time (t_dyn x) <= t_start_time (t_dyn x) /\ parents_done s x /\ t_starts x = 1.
Proof.
  intros HW H Hx S. pose proof (reachable_inv W l s HW H) as I.
  pose proof (inv_tasks W s I t x Hx) as T. destruct T as [T1 T2 T3 T4 T5 T6].
  assert (S1 : t_starts x = 1 /\ t_release_time (t_dyn x) <= t_start_time (t_dyn x)).
  { destruct S as [S|[S|S]].
    - destruct (T5 S) as [A [_ [_ [_ [B _]]]]]. auto.
    - destruct (T6 (or_introl S)) as [A [_ [B _]]]. auto.
    - destruct (T6 (or_intror S)) as [A [_ [B _]]]. auto. }
  destruct S1 as [S1 S2]. split; [exact S2|]. split; [|exact S1]. eapply (inv_dep W s I); eassumption.
Qed.

(* counting the Task.start / Task.finish calls of a log *)
Definition start_inc (e : ev) (t : Z) : Z := match e with EStart t' _ _ => if t' =? t then 1 else 0 | _ => 0 end.
Definition finish_inc (e : ev) (t : Z) : Z := match e with EFinish t' => if t' =? t then 1 else 0 | _ => 0 end.
Fixpoint count_starts (l : list ev) (t : Z) : Z := match l with [] => 0 | e :: r => start_inc e t + count_starts r t end.
Fixpoint count_finishes (l : list ev) (t : Z) : Z := match l with [] => 0 | e :: r => finish_inc e t + count_finishes r t end.

Definition cnt_s (s : sim) (t : Z) : Z := match s_tasks s t with Some x => t_starts x | None => 0 end.
Definition cnt_f (s : sim) (t : Z) : Z := match s_tasks s t with Some x => t_finishes x | None => 0 end.

Lemma upd_cnt f t x' u :
  match upd f t x' u with Some y => t_starts y | None => 0 end =
  if u =? t then t_starts x' else match f u with Some y => t_starts y | None => 0 end.
Proof. unfold upd. destruct (u =? t); reflexivity. Qed.
Lemma upd_cntf f t x' u :
  match upd f t x' u with Some y => t_finishes y | None => 0 end =
  if u =? t then t_finishes x' else match f u with Some y => t_finishes y | None => 0 end.
Proof. unfold upd. destruct (u =? t); reflexivity. Qed.

Lemma step_counts W s e s' u :
  Inv W s -> sim_step W s e = Some s' ->
  cnt_s s' u = cnt_s s u + start_inc e u /\ cnt_f s' u = cnt_f s u + finish_inc e u.
Proof.
  intros I H. unfold cnt_s, cnt_f. destruct e; cbn [sim_step start_inc finish_inc] in *.
  - (* EGraph *) destruct (fresh s ts && nodup_ids ts) eqn:G; [|discriminate]. injection H as <-. cbn [s_tasks].
    apply andb_true_iff in G. destruct G as [G1 G2].
    destruct (in_dec Z.eq_dec u (map (fun e => fst (fst (fst e))) ts)) as [Hin|Hnin].
    + destruct (add_tasks_new ts (s_tasks s) u G2 Hin) as [info [rel [dl E]]]. rewrite E. cbn.
      destruct (s_tasks s u) as [y|] eqn:Ey; [|lia]. exfalso. apply in_map_iff in Hin. destruct Hin as [e [He1 He2]].
      eapply fresh_spec; eassumption.
    + rewrite add_tasks_other; [lia|]. intros e He X. apply Hnin. apply in_map_iff. exists e. auto.
  - (* EStep *) destruct (s_cur s); [discriminate|].
    match type of H with (if ?c then _ else _) = _ => destruct c; [|discriminate] end.
    destruct (step_tasks (s_tasks s) (s_res s) (s_clock s) d) as [f|] eqn:Hst; [|discriminate]. injection H as <-. cbn [s_tasks].
    destruct (step_tasks_spec _ _ _ _ _ Hst (inv_nodup W s I)) as [Out In_].
    destruct (in_dec Z.eq_dec u (ids (s_res s))) as [Hin|Hnin].
    + destruct (In_ u Hin) as [x [dy [b [E [_ Fu]]]]]. rewrite Fu, E. cbn. lia.
    + rewrite (Out u Hnin). lia.
  - destruct (s_cur s); [discriminate|]. destruct (time =? s_clock s); [|discriminate]. injection H as <-. cbn [s_tasks]. lia.
  - destruct (s_cur s); [|discriminate]. destruct (quiescent_ok s); [|discriminate]. injection H as <-. cbn [s_tasks]. lia.
  - destruct (s_tasks s t) as [x|] eqn:Hx; [|discriminate].
    match type of H with (if ?c then _ else _) = _ => destruct c; [|discriminate] end.
    destruct (task_release (t_dyn x) (Some time)) as [[dy v]|c]; [|discriminate]. injection H as <-. cbn [s_tasks with_tasks].
    rewrite upd_cnt, upd_cntf. destruct (u =? t) eqn:E; [assert (u = t) as -> by lia; rewrite Hx; cbn; lia|lia].
  - destruct (s_tasks s t) as [x|] eqn:Hx; [|discriminate].
    match type of H with (if ?c then _ else _) = _ => destruct c; [|discriminate] end.
    destruct (task_schedule (t_dyn x) time runtime) as [[dy v]|c]; [|discriminate]. injection H as <-. cbn [s_tasks with_tasks].
    rewrite upd_cnt, upd_cntf. destruct (u =? t) eqn:E; [assert (u = t) as -> by lia; rewrite Hx; cbn; lia|lia].
  - destruct (s_tasks s t) as [x|] eqn:Hx; [|discriminate].
    match type of H with (if ?c then _ else _) = _ => destruct c; [|discriminate] end.
    destruct (task_unschedule (t_dyn x) time) as [[dy v]|c]; [|discriminate]. injection H as <-. cbn [s_tasks with_tasks].
    rewrite upd_cnt, upd_cntf. destruct (u =? t) eqn:E; [assert (u = t) as -> by lia; rewrite Hx; cbn; lia|lia].
  - destruct (s_tasks s t) as [x|] eqn:Hx; [|discriminate].
    match type of H with (if ?c then _ else _) = _ => destruct c; [|discriminate] end. injection H as <-. cbn [s_tasks]. lia.
  - destruct (s_tasks s t) as [x|] eqn:Hx; [|discriminate].
    match type of H with (if ?c then _ else _) = _ => destruct c; [|discriminate] end.
    destruct (task_start (t_dyn x) (Some time) draw) as [[dy v]|c]; [|discriminate]. injection H as <-. cbn [s_tasks with_tasks].
    rewrite upd_cnt, upd_cntf. destruct (t =? u) eqn:E.
    + assert (t = u) as <- by lia. rewrite Z.eqb_refl, Hx. cbn. lia.
    + replace (u =? t) with false by lia. lia.
  - match type of H with (if ?c then _ else _) = _ => destruct c; [|discriminate] end. injection H as <-. cbn [s_tasks]. lia.
  - destruct (s_tasks s t) as [x|] eqn:Hx; [|discriminate].
    match type of H with (if ?c then _ else _) = _ => destruct c; [|discriminate] end.
    destruct (task_finish (t_dyn x) None) as [[dy v]|c]; [|discriminate]. injection H as <-. cbn [s_tasks].
    rewrite upd_cnt, upd_cntf. destruct (t =? u) eqn:E.
    + assert (t = u) as <- by lia. rewrite Z.eqb_refl, Hx. cbn. lia.
    + replace (u =? t) with false by lia. lia.
  - destruct (s_tasks s t) as [x|] eqn:Hx; [|discriminate].
    match type of H with (if ?c then _ else _) = _ => destruct c; [|discriminate] end.
    destruct (task_cancel (t_dyn x) time) as [[dy v]|c]; [|discriminate]. injection H as <-. cbn [s_tasks with_tasks].
    rewrite upd_cnt, upd_cntf. destruct (u =? t) eqn:E; [assert (u = t) as -> by lia; rewrite Hx; cbn; lia|lia].
Qed.

Lemma exec_counts W l : forall s s' u, Inv W s -> sim_exec W s l = Some s' ->
  cnt_s s' u = cnt_s s u + count_starts l u /\ cnt_f s' u = cnt_f s u + count_finishes l u.
Proof.
  induction l as [|e rest IH]; cbn [sim_exec count_starts count_finishes]; intros s s' u I H.
  - injection H as <-. lia.
  - destruct (sim_step W s e) as [s1|] eqn:E; [|discriminate].
    destruct (step_counts W s e s1 u I E) as [A B].
    destruct (IH s1 s' u (step_preserves_inv W s e s1 I E) H) as [C D]. lia.
Qed.

(* no task is started twice or completed twice in any accepted log (no preemption in this machine) *)
Theorem at_most_one_start_and_finish W l s u :
  cap_nonneg W -> sim_exec W sim_init l = Some s ->
  0 <= count_starts l u <= 1 /\ 0 <= count_finishes l u <= 1 /\ count_finishes l u <= count_starts l u.
Proof.
  intros HW H. pose proof (reachable_inv W l s HW H) as I.
  destruct (exec_counts W l sim_init s u (inv_init W HW) H) as [A B].
  unfold cnt_s, cnt_f in A, B. cbn [sim_init s_tasks] in A, B.
  destruct (s_tasks s u) as [x|] eqn:Hx; [|lia].
  pose proof (inv_tasks W s I u x Hx) as T. destruct T as [T1 T2 T3 T4 T5 T6].
  destruct (st x) eqn:S.
  - destruct (T4 (or_introl eq_refl)); lia.
  - destruct (T4 (or_intror (or_introl eq_refl))); lia.
  - destruct (T4 (or_intror (or_intror (or_introl eq_refl)))); lia.
  - destruct (T5 eq_refl) as [X [Y _]]; lia.
  - contradiction.
  - destruct (T6 (or_intror eq_refl)) as [X [Y _]]; lia.
  - destruct (T6 (or_introl eq_refl)) as [X [Y _]]; lia.
  - destruct (T4 (or_intror (or_intror (or_intror eq_refl)))); lia.
Qed.

(* ------------------------------------------------------------------ C03 *)
Theorem clock_never_goes_back W s e s' : sim_step W s e = Some s' -> s_clock s <= s_clock s'.
Proof.
  intros H. destruct e; cbn [sim_step] in H;
    repeat match type of H with
           | (if ?c then _ else _) = Some _ => destruct c eqn:?; try discriminate H
           | match ?c with _ => _ end = Some _ => destruct c; try discriminate H
           end; injection H as <-; cbn [s_clock with_tasks]; lia.
Qed.

Theorem events_handled_at_their_time W s ty time t s' : sim_step W s (EHandle ty time t) = Some s' -> time = s_clock s.
Proof.
  cbn [sim_step]. destruct (s_cur s); [discriminate|]. destruct (time =? s_clock s) eqn:E; [|discriminate]. intros _. lia.
Qed.

(* a completed task ran for exactly the runtime drawn at its start, and held its worker until then *)
Theorem completion_is_start_plus_runtime W l s t x :
  cap_nonneg W -> sim_exec W sim_init l = Some s -> s_tasks s t = Some x -> st x = TS_COMPLETED ->
  t_completion_time (t_dyn x) = t_start_time (t_dyn x) + t_drawn x /\ t_runtime x <= t_drawn x /\
  t_completion_time (t_dyn x) <= s_clock s.
Proof.
  intros HW H Hx S. pose proof (reachable_inv W l s HW H) as I.
  pose proof (inv_tasks W s I t x Hx) as T. destruct T as [T1 T2 T3 T4 T5 T6].
  destruct (T6 (or_introl S)) as [_ [_ [_ [A [_ [B C]]]]]]. split; [apply C; exact S|]. split; assumption.
Qed.

Theorem running_progress W l s t x :
  cap_nonneg W -> sim_exec W sim_init l = Some s -> s_tasks s t = Some x -> st x = TS_RUNNING ->
  t_start_time (t_dyn x) <= s_clock s <= t_start_time (t_dyn x) + t_drawn x /\
  t_remaining_time (t_dyn x) = t_start_time (t_dyn x) + t_drawn x - s_clock s.
Proof.
  intros HW H Hx S. pose proof (reachable_inv W l s HW H) as I.
  pose proof (inv_tasks W s I t x Hx) as T. destruct T as [T1 T2 T3 T4 T5 T6].
  destruct (T5 S) as [_ [_ [R0 [St [_ [_ [Dr [Pos Zero]]]]]]]].
  destruct (Z.eq_dec (t_remaining_time (t_dyn x)) 0) as [Z0|NZ].
  - destruct (Zero Z0). lia.
  - destruct (Pos ltac:(lia)). lia.
Qed.

(* the drawn runtime respects the configured variance *)
Definition drawn_ok (W : world) (s : sim) : Prop :=
  forall t x, s_tasks s t = Some x -> t_starts x = 1 ->
    100 * t_drawn x <= 100 * t_runtime x + t_runtime x * w_variance W + 50.

Lemma drawn_ok_step W s e s' : Inv W s -> drawn_ok W s -> sim_step W s e = Some s' -> drawn_ok W s'.
Proof.
  intros I D H u y. destruct e; cbn [sim_step] in H.
  - destruct (fresh s ts && nodup_ids ts) eqn:G; [|discriminate]. injection H as <-. cbn [s_tasks].
    apply andb_true_iff in G. destruct G as [G1 G2].
    destruct (in_dec Z.eq_dec u (map (fun e => fst (fst (fst e))) ts)) as [Hin|Hnin].
    + destruct (add_tasks_new ts (s_tasks s) u G2 Hin) as [info [rel [dl E]]]. rewrite E. intros X; injection X as <-. cbn [t_starts]. lia.
    + rewrite add_tasks_other; [apply D|]. intros e He X. apply Hnin. apply in_map_iff. exists e. auto.
  - destruct (s_cur s); [discriminate|].
    match type of H with (if ?c then _ else _) = _ => destruct c; [|discriminate] end.
    destruct (step_tasks (s_tasks s) (s_res s) (s_clock s) d) as [f|] eqn:Hst; [|discriminate]. injection H as <-. cbn [s_tasks].
    destruct (step_tasks_spec _ _ _ _ _ Hst (inv_nodup W s I)) as [Out In_].
    destruct (in_dec Z.eq_dec u (ids (s_res s))) as [Hin|Hnin].
    + destruct (In_ u Hin) as [x [dy [b [E [_ Fu]]]]]. rewrite Fu. intros X; injection X as <-. cbn [set_dyn t_drawn t_runtime t_starts]. apply (D u x E).
    + rewrite (Out u Hnin). apply D.
  - destruct (s_cur s); [discriminate|]. destruct (time =? s_clock s); [|discriminate]. injection H as <-. apply D.
  - destruct (s_cur s); [|discriminate]. destruct (quiescent_ok s); [|discriminate]. injection H as <-. apply D.
  - destruct (s_tasks s t) as [x|] eqn:Hx; [|discriminate].
    match type of H with (if ?c then _ else _) = _ => destruct c; [|discriminate] end.
    destruct (task_release (t_dyn x) (Some time)) as [[dy v]|c]; [|discriminate]. injection H as <-. cbn [s_tasks with_tasks].
    destruct (Z.eq_dec u t) as [->|Hne]; [rewrite upd_same; intros X; injection X as <-; cbn [set_dyn t_drawn t_runtime t_starts]; apply (D t x Hx)|rewrite upd_other by assumption; apply D].
  - destruct (s_tasks s t) as [x|] eqn:Hx; [|discriminate].
    match type of H with (if ?c then _ else _) = _ => destruct c; [|discriminate] end.
    destruct (task_schedule (t_dyn x) time runtime) as [[dy v]|c] eqn:R; [|discriminate]. injection H as <-. cbn [s_tasks with_tasks].
    destruct (Z.eq_dec u t) as [->|Hne]; [|rewrite upd_other by assumption; apply D].
    rewrite upd_same. intros X; injection X as <-. cbn [t_drawn t_runtime t_starts]. intros S1. exfalso.
    apply schedule_spec in R. destruct R as [R _].
    pose proof (inv_tasks W s I t x Hx) as T. destruct T as [T1 T2 T3 T4 T5 T6]. unfold st in *.
    assert (P : pending_state (t_state (t_dyn x))).
    { destruct R as [A|[A|[A|A]]]; unfold pending_state; auto. contradiction. }
    destruct (T4 P). lia.
  - destruct (s_tasks s t) as [x|] eqn:Hx; [|discriminate].
    match type of H with (if ?c then _ else _) = _ => destruct c; [|discriminate] end.
    destruct (task_unschedule (t_dyn x) time) as [[dy v]|c]; [|discriminate]. injection H as <-. cbn [s_tasks with_tasks].
    destruct (Z.eq_dec u t) as [->|Hne]; [rewrite upd_same; intros X; injection X as <-; cbn [set_dyn t_drawn t_runtime t_starts]; apply (D t x Hx)|rewrite upd_other by assumption; apply D].
  - destruct (s_tasks s t) as [x|] eqn:Hx; [|discriminate].
    match type of H with (if ?c then _ else _) = _ => destruct c; [|discriminate] end. injection H as <-. apply D.
  - destruct (s_tasks s t) as [x|] eqn:Hx; [|discriminate].
    match type of H with (if ?c then _ else _) = _ => destruct c eqn:G; [|discriminate] end.
    destruct (task_start (t_dyn x) (Some time) draw) as [[dy v]|c]; [|discriminate]. injection H as <-. cbn [s_tasks with_tasks].
    destruct (Z.eq_dec u t) as [->|Hne]; [|rewrite upd_other by assumption; apply D].
    rewrite upd_same. intros X; injection X as <-. cbn [t_drawn t_runtime t_starts]. intros _. split_andb. lia.
  - match type of H with (if ?c then _ else _) = _ => destruct c; [|discriminate] end. injection H as <-. apply D.
  - destruct (s_tasks s t) as [x|] eqn:Hx; [|discriminate].
    match type of H with (if ?c then _ else _) = _ => destruct c; [|discriminate] end.
    destruct (task_finish (t_dyn x) None) as [[dy v]|c]; [|discriminate]. injection H as <-. cbn [s_tasks].
    destruct (Z.eq_dec u t) as [->|Hne]; [rewrite upd_same; intros X; injection X as <-; cbn [set_dyn t_drawn t_runtime t_starts]; apply (D t x Hx)|rewrite upd_other by assumption; apply D].
  - destruct (s_tasks s t) as [x|] eqn:Hx; [|discriminate].
    match type of H with (if ?c then _ else _) = _ => destruct c; [|discriminate] end.
    destruct (task_cancel (t_dyn x) time) as [[dy v]|c]; [|discriminate]. injection H as <-. cbn [s_tasks with_tasks].
    destruct (Z.eq_dec u t) as [->|Hne]; [rewrite upd_same; intros X; injection X as <-; cbn [set_dyn t_drawn t_runtime t_starts]; apply (D t x Hx)|rewrite upd_other by assumption; apply D].
Qed.

Theorem runtime_within_variance W l s t x :
  cap_nonneg W -> sim_exec W sim_init l = Some s -> s_tasks s t = Some x -> t_starts x = 1 ->
  t_runtime x <= t_drawn x /\ 100 * t_drawn x <= 100 * t_runtime x + t_runtime x * w_variance W + 50.
Proof.
  intros HW H Hx S1.
  assert (G : forall l s0 s1, Inv W s0 -> drawn_ok W s0 -> sim_exec W s0 l = Some s1 -> drawn_ok W s1).
  { clear. induction l as [|e rest IH]; cbn [sim_exec]; intros s0 s1 I D H.
    - injection H as <-. exact D.
    - destruct (sim_step W s0 e) as [s2|] eqn:E; [|discriminate]. eapply IH; [| |exact H].
      + eapply step_preserves_inv; eassumption.
      + eapply drawn_ok_step; eassumption. }
  assert (D : drawn_ok W s).
  { eapply G; [apply inv_init; exact HW| |exact H]. intros u y E. discriminate E. }
  split; [|apply (D t x Hx S1)].
  pose proof (reachable_inv W l s HW H) as I. pose proof (inv_tasks W s I t x Hx) as T. destruct T as [T1 T2 T3 T4 T5 T6].
  destruct (st x) eqn:S.
  - destruct (T4 (or_introl eq_refl)); lia.
  - destruct (T4 (or_intror (or_introl eq_refl))); lia.
  - destruct (T4 (or_intror (or_intror (or_introl eq_refl)))); lia.
  - destruct (T5 eq_refl) as [_ [_ [_ [_ [_ [X _]]]]]]; lia.
  - contradiction.
  - destruct (T6 (or_intror eq_refl)) as [_ [_ [_ [_ [_ [X _]]]]]]; lia.
  - destruct (T6 (or_introl eq_refl)) as [_ [_ [_ [_ [_ [X _]]]]]]; lia.
  - destruct (T4 (or_intror (or_intror (or_intror eq_refl)))); lia.
Qed.

(* ------------------------------------------------------------------ C06 *)
Theorem step_follows_lifecycle W s e s' u x :
  Inv W s -> sim_step W s e = Some s' -> s_tasks s u = Some x ->
  exists x', s_tasks s' u = Some x' /\ (st x' = st x \/ legal_edge (st x) (st x')).
Proof.
  intros I H Hu. pose proof (inv_tasks W s I u x Hu) as T. destruct T as [T1 T2 _ _ _ _].
  destruct ops_follow_lifecycle as [L1 [L2 [L3 [L4 [L5 [L6 L7]]]]]].
  destruct e; cbn [sim_step] in H.
  - destruct (fresh s ts && nodup_ids ts) eqn:G; [|discriminate]. injection H as <-. cbn [s_tasks].
    apply andb_true_iff in G. destruct G as [G1 G2]. exists x. split; [|left; reflexivity].
    rewrite add_tasks_other; [exact Hu|]. eapply fresh_spec; eassumption.
  - destruct (s_cur s); [discriminate|].
    match type of H with (if ?c then _ else _) = _ => destruct c; [|discriminate] end.
    destruct (step_tasks (s_tasks s) (s_res s) (s_clock s) d) as [f|] eqn:Hst; [|discriminate]. injection H as <-. cbn [s_tasks].
    destruct (step_tasks_spec _ _ _ _ _ Hst (inv_nodup W s I)) as [Out In_].
    destruct (in_dec Z.eq_dec u (ids (s_res s))) as [Hin|Hnin].
    + destruct (In_ u Hin) as [x0 [dy [b [E [Ts Fu]]]]]. rewrite Hu in E. injection E as <-.
      exists (set_dyn x dy). split; [exact Fu|]. left. unfold st. cbn [t_dyn set_dyn]. eapply L7; exact Ts.
    + exists x. split; [rewrite (Out u Hnin); exact Hu|left; reflexivity].
  - destruct (s_cur s); [discriminate|]. destruct (time =? s_clock s); [|discriminate]. injection H as <-.
    exists x. split; [exact Hu|left; reflexivity].
  - destruct (s_cur s); [|discriminate]. destruct (quiescent_ok s); [|discriminate]. injection H as <-.
    exists x. split; [exact Hu|left; reflexivity].
  - destruct (s_tasks s t) as [y|] eqn:Hy; [|discriminate].
    match type of H with (if ?c then _ else _) = _ => destruct c; [|discriminate] end.
    destruct (task_release (t_dyn y) (Some time)) as [[dy v]|c] eqn:R; [|discriminate]. injection H as <-. cbn [s_tasks with_tasks].
    destruct (Z.eq_dec u t) as [->|Hne]; [|exists x; split; [rewrite upd_other by assumption; exact Hu|left; reflexivity]].
    rewrite Hu in Hy. injection Hy as <-. exists (set_dyn x dy). split; [apply upd_same|]. unfold st; cbn [t_dyn set_dyn].
    destruct (L1 _ _ _ _ R T2) as [A _]. exact A.
  - destruct (s_tasks s t) as [y|] eqn:Hy; [|discriminate].
    match type of H with (if ?c then _ else _) = _ => destruct c; [|discriminate] end.
    destruct (task_schedule (t_dyn y) time runtime) as [[dy v]|c] eqn:R; [|discriminate]. injection H as <-. cbn [s_tasks with_tasks].
    destruct (Z.eq_dec u t) as [->|Hne]; [|exists x; split; [rewrite upd_other by assumption; exact Hu|left; reflexivity]].
    rewrite Hu in Hy. injection Hy as <-. eexists. split; [apply upd_same|]. unfold st; cbn [t_dyn].
    destruct (L2 _ _ _ _ _ R T2) as [A _]. exact A.
  - destruct (s_tasks s t) as [y|] eqn:Hy; [|discriminate].
    match type of H with (if ?c then _ else _) = _ => destruct c; [|discriminate] end.
    destruct (task_unschedule (t_dyn y) time) as [[dy v]|c] eqn:R; [|discriminate]. injection H as <-. cbn [s_tasks with_tasks].
    destruct (Z.eq_dec u t) as [->|Hne]; [|exists x; split; [rewrite upd_other by assumption; exact Hu|left; reflexivity]].
    rewrite Hu in Hy. injection Hy as <-. exists (set_dyn x dy). split; [apply upd_same|]. unfold st; cbn [t_dyn set_dyn].
    destruct (L3 _ _ _ _ R T2) as [A _]. right. exact A.
  - destruct (s_tasks s t) as [y|] eqn:Hy; [|discriminate].
    match type of H with (if ?c then _ else _) = _ => destruct c; [|discriminate] end. injection H as <-.
    exists x. split; [exact Hu|left; reflexivity].
  - destruct (s_tasks s t) as [y|] eqn:Hy; [|discriminate].
    match type of H with (if ?c then _ else _) = _ => destruct c; [|discriminate] end.
    destruct (task_start (t_dyn y) (Some time) draw) as [[dy v]|c] eqn:R; [|discriminate]. injection H as <-. cbn [s_tasks with_tasks].
    destruct (Z.eq_dec u t) as [->|Hne]; [|exists x; split; [rewrite upd_other by assumption; exact Hu|left; reflexivity]].
    rewrite Hu in Hy. injection Hy as <-. eexists. split; [apply upd_same|]. unfold st; cbn [t_dyn].
    destruct (L4 _ _ _ _ _ R T2) as [A _]. right. exact A.
  - match type of H with (if ?c then _ else _) = _ => destruct c; [|discriminate] end. injection H as <-.
    exists x. split; [exact Hu|left; reflexivity].
  - destruct (s_tasks s t) as [y|] eqn:Hy; [|discriminate].
    match type of H with (if ?c then _ else _) = _ => destruct c; [|discriminate] end.
    destruct (task_finish (t_dyn y) None) as [[dy v]|c] eqn:R; [|discriminate]. injection H as <-. cbn [s_tasks].
    destruct (Z.eq_dec u t) as [->|Hne]; [|exists x; split; [rewrite upd_other by assumption; exact Hu|left; reflexivity]].
    rewrite Hu in Hy. injection Hy as <-. eexists. split; [apply upd_same|]. unfold st; cbn [t_dyn].
    destruct (L5 _ _ _ R T2) as [A _]. right. exact A.
  - destruct (s_tasks s t) as [y|] eqn:Hy; [|discriminate].
    match type of H with (if ?c then _ else _) = _ => destruct c; [|discriminate] end.
    destruct (task_cancel (t_dyn y) time) as [[dy v]|c] eqn:R; [|discriminate]. injection H as <-. cbn [s_tasks with_tasks].
    destruct (Z.eq_dec u t) as [->|Hne]; [|exists x; split; [rewrite upd_other by assumption; exact Hu|left; reflexivity]].
    rewrite Hu in Hy. injection Hy as <-. exists (set_dyn x dy). split; [apply upd_same|]. unfold st; cbn [t_dyn set_dyn].
    destruct (L6 _ _ _ _ R T2) as [A _]. right. exact A.
Qed.

(* along every accepted log a task only moves along lifecycle edges; COMPLETED, CANCELLED, EVICTED are final *)
Inductive path : task_state -> task_state -> Prop :=
| path_refl a : path a a
| path_step a b c : legal_edge a b -> path b c -> path a c.

Lemma path_trans a b c : path a b -> path b c -> path a c.
Proof. induction 1; intros; [assumption|]. econstructor; [eassumption|]. auto. Qed.

Theorem exec_follows_lifecycle W l : forall s s' u x,
  Inv W s -> sim_exec W s l = Some s' -> s_tasks s u = Some x ->
  exists x', s_tasks s' u = Some x' /\ path (st x) (st x').
Proof.
  induction l as [|e rest IH]; cbn [sim_exec]; intros s s' u x I H Hu.
  - injection H as <-. exists x. split; [exact Hu|constructor].
  - destruct (sim_step W s e) as [s1|] eqn:E; [|discriminate].
    destruct (step_follows_lifecycle W s e s1 u x I E Hu) as [x1 [H1 P1]].
    destruct (IH s1 s' u x1 (step_preserves_inv W s e s1 I E) H H1) as [x' [H2 P2]].
    exists x'. split; [exact H2|]. destruct P1 as [P1|P1]; [rewrite <- P1; exact P2|]. econstructor; eassumption.
Qed.

Lemma path_from_final a b : final_state a -> path a b -> b = a.
Proof. intros F P. destruct P; [reflexivity|]. exfalso. eapply legal_from_final; eassumption. Qed.

Theorem final_states_are_final W l s s' u x :
  Inv W s -> sim_exec W s l = Some s' -> s_tasks s u = Some x -> final_state (st x) ->
  exists x', s_tasks s' u = Some x' /\ st x' = st x.
Proof.
  intros I H Hu F. destruct (exec_follows_lifecycle W l s s' u x I H Hu) as [x' [H1 P]].
  exists x'. split; [exact H1|]. eapply path_from_final; eassumption.
Qed.

(* a cancelled task never starts, a started task is never cancelled *)
Theorem cancelled_never_started W l s u x :
  cap_nonneg W -> sim_exec W sim_init l = Some s -> s_tasks s u = Some x -> st x = TS_CANCELLED ->
  count_starts l u = 0.
Proof.
  intros HW H Hx S. pose proof (reachable_inv W l s HW H) as I.
  destruct (exec_counts W l sim_init s u (inv_init W HW) H) as [A _].
  unfold cnt_s in A. cbn [sim_init s_tasks] in A. rewrite Hx in A.
  pose proof (inv_tasks W s I u x Hx) as T. destruct T as [T1 T2 T3 T4 T5 T6].
  destruct (T4 (or_intror (or_intror (or_intror S)))). lia.
Qed.

Example sim_nonvacuous :
  let W := mkWorld (mk_cap [(0, [(0, 2)])]) 0 in
  let l := [EGraph [(0, mkTI [] false, 0, 100); (1, mkTI [0] false, -1, 100)];
            EStep 0 0; EHandle TASK_RELEASE 0 (Some 0); ERelease 0 0; EHandled;
            EStep 0 0; EHandle SCHEDULER_FINISHED 0 None; ESchedule 0 0 0 5; EHandled;
            EStep 0 0; EHandle TASK_PLACEMENT 0 (Some 0); EPlace 0 0 [(0, 2)]; EStart 0 0 5; EHandled;
            EStep 5 9; EStep 0 5; EHandle TASK_FINISHED 5 (Some 0); ERemove 0 0; EFinish 0; EHandled] in
  match sim_exec W sim_init l with
  | Some s => s_clock s = 5 /\ st_of s 0 = Some TS_COMPLETED /\ s_res s = [] /\ count_starts l 0 = 1
  | None => False
  end.
Proof. vm_compute. repeat split; reflexivity. Qed.
