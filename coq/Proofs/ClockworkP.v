(* Lemmas about Model/Clockwork.v, part 1: bridge lemmas to the generated comparisons, the
   fastest-strategy runtime, admission control. *)
From Coq Require Import ZArith Bool List Lia ZifyBool.
Import ListNotations.
From Verif Require Import Model.Val Gen.Src_Clockwork Model.Clockwork.
Open Scope Z_scope.

(* ------------------------------------------------------------------ bridge: source comparisons = documented ones *)
Lemma bridge_enforce : cw_enforce_deadlines = true.
Proof. reflexivity. Qed.
Lemma bridge_hopeless : forall d now f, cw_hopeless true d now f = (d <? now + f).
Proof. intros. unfold cw_hopeless. reflexivity. Qed.
Lemma bridge_expire : forall n hd now rt, cw_expire_cond n hd now rt = (0 <? n) && (hd <? now + rt).
Proof. intros. unfold cw_expire_cond. reflexivity. Qed.
Lemma bridge_ready : forall bs n now rt hd, cw_strategy_ready bs n now rt hd = (bs <=? n) && (now + rt <=? hd).
Proof. intros. unfold cw_strategy_ready. reflexivity. Qed.
Lemma bridge_priority : forall hd rt now, cw_priority hd rt now = hd - rt - now.
Proof. intros. unfold cw_priority. reflexivity. Qed.
Lemma bridge_neg_batch : forall b, cw_neg_batch b = - b.
Proof. intros. unfold cw_neg_batch. reflexivity. Qed.
Lemma bridge_req_lt : forall a b, cw_req_lt a b = (a <? b).
Proof. intros. unfold cw_req_lt. reflexivity. Qed.
Lemma bridge_queue_short : forall n b, cw_queue_short n b = (n <? b).
Proof. intros. unfold cw_queue_short. reflexivity. Qed.
Lemma bridge_not_loaded : forall a, cw_not_loaded a = negb (a =? 0).
Proof. intros. unfold cw_not_loaded. reflexivity. Qed.

(* ExecutionStrategy order: runtime, then batch size, then Resources; equality: all three *)
Lemma bridge_strat_eq : forall a b, strat_eq a b = (s_bs a =? s_bs b) && (s_rt a =? s_rt b) && res_eq (s_res a) (s_res b).
Proof. intros. unfold strat_eq, cw_strategy_eq. reflexivity. Qed.
Lemma bridge_strat_lt : forall a b, strat_lt a b =
  if s_rt a =? s_rt b then (if s_bs a =? s_bs b then res_lt (s_res a) (s_res b) else s_bs a <? s_bs b) else s_rt a <? s_rt b.
Proof. intros. unfold strat_lt, cw_strategy_lt. reflexivity. Qed.

(* ------------------------------------------------------------------ fastest strategy *)
Lemma fold_min_le : forall (l : list strategy) a, fold_left (fun acc x => Z.min acc (s_rt x)) l a <= a.
Proof. induction l as [|x l IH]; intros a; cbn [fold_left]; [lia|]. specialize (IH (Z.min a (s_rt x))). lia. Qed.
Lemma fold_min_lb : forall (l : list strategy) a s, In s l -> fold_left (fun acc x => Z.min acc (s_rt x)) l a <= s_rt s.
Proof.
  induction l as [|x l IH]; intros a s Hin; [destruct Hin|]. cbn [fold_left]. destruct Hin as [->|Hin].
  - pose proof (fold_min_le l (Z.min a (s_rt s))). lia.
  - apply IH; assumption.
Qed.
Lemma fold_min_in : forall (l : list strategy) a,
  fold_left (fun acc x => Z.min acc (s_rt x)) l a = a \/ exists s, In s l /\ fold_left (fun acc x => Z.min acc (s_rt x)) l a = s_rt s.
Proof.
  induction l as [|x l IH]; intros a; cbn [fold_left]; [left; reflexivity|].
  destruct (IH (Z.min a (s_rt x))) as [H|[s [Hs H]]].
  - destruct (Z.min_spec a (s_rt x)) as [[_ E]|[_ E]]; rewrite E in *.
    + left; assumption.
    + right; exists x; split; [left; reflexivity|assumption].
  - right; exists s; split; [right; assumption|assumption].
Qed.
(* get_fastest_strategy().runtime is the least runtime of the profile's strategies *)
Lemma fastest_rt_spec : forall ss f, fastest_rt ss = Some f ->
  (exists s, In s ss /\ s_rt s = f) /\ (forall s, In s ss -> f <= s_rt s).
Proof.
  intros [|s0 l] f H; [discriminate|]. cbn [fastest_rt] in H. injection H as <-. split.
  - destruct (fold_min_in l (s_rt s0)) as [E|[s [Hs E]]].
    + exists s0; split; [left; reflexivity|symmetry; assumption].
    + exists s; split; [right; assumption|symmetry; assumption].
  - intros s [->|Hin]; [apply fold_min_le|apply fold_min_lb; assumption].
Qed.
Lemma fastest_rt_some : forall ss, ss <> [] -> exists f, fastest_rt ss = Some f.
Proof. intros [|s l] H; [congruence|]. eexists; reflexivity. Qed.

(* ------------------------------------------------------------------ admission *)
Definition admit_one (wd : world) (t : task) (st : cw_state) : cw_state :=
  match zassoc (t_model t) wd with Some ss => st_add_task ss t st | None => st end.

Lemma admission_spec : forall wd now offered st c st' c',
  admission wd now offered st c = Ok (st', c') ->
  c' = c ++ filter (hopeless wd now) offered /\
  st' = fold_left (fun s t => admit_one wd t s) (filter (fun t => negb (hopeless wd now t)) offered) st.
Proof.
  intros wd now offered. induction offered as [|t rest IH]; intros st c st' c' H; cbn [admission] in H.
  - injection H as <- <-. cbn. rewrite app_nil_r. split; reflexivity.
  - destruct (zassoc (t_model t) wd) as [ss|] eqn:Ez; [|discriminate].
    destruct (fastest_rt ss) as [f|] eqn:Ef; [|discriminate].
    rewrite bridge_enforce, bridge_hopeless in H.
    assert (Hh : hopeless wd now t = (t_deadline t <? now + f)) by (unfold hopeless; rewrite Ez, Ef; reflexivity).
    assert (Ha : forall s, admit_one wd t s = st_add_task ss t s) by (intros; unfold admit_one; rewrite Ez; reflexivity).
    cbn [filter]. rewrite Hh.
    destruct (t_deadline t <? now + f) eqn:Eh; cbn [negb].
    + apply IH in H. destruct H as [Hc Hs]. split; [rewrite Hc, <- app_assoc; reflexivity|exact Hs].
    + apply IH in H. destruct H as [Hc Hs]. cbn [fold_left]. split; [exact Hc|]. rewrite Ha. exact Hs.
Qed.

(* admission cancels exactly the hopeless requests, in the order they were offered *)
Lemma admission_cancels_exactly : forall wd now offered st st' c',
  admission wd now offered st [] = Ok (st', c') -> c' = filter (hopeless wd now) offered.
Proof. intros. apply admission_spec in H. destruct H as [H _]. exact H. Qed.

Lemma admission_ok : forall wd now offered st c,
  Forall (fun t => exists ss, zassoc (t_model t) wd = Some ss /\ ss <> []) offered ->
  exists st' c', admission wd now offered st c = Ok (st', c').
Proof.
  intros wd now offered. induction offered as [|t rest IH]; intros st c Hf; cbn [admission].
  - eauto.
  - inversion Hf as [|? ? [ss [Ez Hne]] Hrest]; subst. rewrite Ez.
    destruct (fastest_rt_some ss Hne) as [f Ef]. rewrite Ef.
    destruct (cw_hopeless cw_enforce_deadlines (t_deadline t) now f); apply IH; assumption.
Qed.

Lemma cw_schedule_cancels : forall wd ls inv st st' d,
  cw_schedule wd ls inv st = Ok (st', d) -> d_cancel d = filter (hopeless wd (i_now inv)) (i_offered inv).
Proof.
  intros wd ls inv st st' d H. unfold cw_schedule in H.
  destruct (admission wd (i_now inv) (i_offered inv) st []) as [[st1 c]|] eqn:Ea; [|discriminate].
  destruct (load_pools inv) as [ps|]; [|discriminate].
  match type of H with context [infer_pools ?a ?b ?c ?d ?e] => destruct (infer_pools a b c d e) as [[st2 bs]|]; [|discriminate] end;
  injection H as <- <-; cbn [d_cancel]; eapply admission_cancels_exactly; eassumption.
Qed.

(* non-vacuity: a tight request is admitted, a request one microsecond short is cancelled *)
Example admission_example :
  let wd := [(1, [mkS 1 2 10 [(1, 0, 1)]; mkS 2 4 15 [(1, 0, 1)]])] in
  exists st', admission wd 100 [mkT 1 1 110; mkT 2 1 109; mkT 3 1 300] [] [] = Ok (st', [mkT 2 1 109]).
Proof. eexists. vm_compute. reflexivity. Qed.
