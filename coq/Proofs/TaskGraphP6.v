(* notify_task_completion (model notify_completion): the theorems of C07 and the release clause of C18. *)
From Coq Require Import ZArith Bool List Lia ZifyBool.
Import ListNotations.
From Verif Require Import Model.Val Gen.Src_Task Gen.Src_TaskGraph Model.TaskGraph
  Proofs.TaskGraphP Proofs.TaskGraphP1 Proofs.TaskGraphP2 Proofs.TaskGraphP3 Proofs.TaskGraphP5.
Open Scope Z_scope.

Lemma nth_z_In : forall l i x, nth_z l i = Some x -> In x l.
Proof. intros l i x H. unfold nth_z in H. destruct (i <? 0); [discriminate|]. eapply nth_error_In; eauto. Qed.

(* ---------- conditional task, a child is drawn ---------- *)
Lemma notify_cond_unfold : forall g t fin draw g' rel canc,
  notify_completion g t fin draw = (g', Ok (rel, canc)) -> tg_conditional g t = true ->
  all_children_zero g t = false ->
  tg_ok g = true /\ In t (tg_nodes g) /\ tg_complete g t = true /\ probs_refused g t = false /\
  exists k, nth_z (tg_children g t) draw = Some k /\ rel = [k] /\
            notify_moved_beyond (tg_state g k) = false /\
            choose_loop t (tg_children g t) k fin g [] = (g', Ok canc).
Proof.
  intros g t fin draw g' rel canc H Hc Hz. unfold notify_completion in H.
  destruct (tg_ok g && zmem t (tg_nodes g)) eqn:E1; cbn [negb] in H; [|discriminate].
  apply andb_true_iff in E1. destruct E1 as [E1 E1']. apply zmem_In in E1'.
  destruct (tg_complete g t) eqn:E2; cbn [negb] in H; [|discriminate].
  rewrite Hc, Hz in H.
  destruct (probs_refused g t) eqn:E3; [discriminate|].
  fold (nth_z (tg_children g t) draw) in H.
  destruct (nth_z (tg_children g t) draw) as [k|] eqn:E4; [|discriminate].
  destruct (notify_moved_beyond (tg_state g k)) eqn:E5; [discriminate|].
  destruct (choose_loop t (tg_children g t) k fin g []) as [g1 [cs|e]] eqn:E6; [|discriminate].
  inversion H; subst. repeat split; auto. exists k. auto.
Qed.

(* C07_one: exactly one child is released, the drawn one; under the contract of random.choices it has a
   non-zero probability *)
Theorem notify_one : forall g t fin draw g' rel canc,
  notify_completion g t fin draw = (g', Ok (rel, canc)) -> tg_conditional g t = true ->
  all_children_zero g t = false ->
  exists k, nth_z (tg_children g t) draw = Some k /\ rel = [k] /\ In k (tg_children g t) /\
            ((forall c, nth_z (tg_children g t) draw = Some c -> 0 < tg_prob g c) -> 0 < tg_prob g k).
Proof.
  intros g t fin draw g' rel canc H Hc Hz.
  destruct (notify_cond_unfold _ _ _ _ _ _ _ H Hc Hz) as (_ & _ & _ & _ & k & Hk & Hr & _ & _).
  exists k. repeat split; auto. eapply nth_z_In; eauto.
Qed.

(* C07_untaken *)
Theorem notify_untaken : forall g t fin draw g' rel canc,
  notify_completion g t fin draw = (g', Ok (rel, canc)) -> tg_conditional g t = true ->
  all_children_zero g t = false -> cancel_closed g ->
  forall u, In u (tg_children g t) -> ~ In u rel -> forall d, branch g u d -> tg_state g' d = TS_CANCELLED.
Proof.
  intros g t fin draw g' rel canc H Hc Hz CC u Hu Hnr d Hb.
  destruct (notify_cond_unfold _ _ _ _ _ _ _ H Hc Hz) as (_ & _ & _ & _ & k & Hk & Hr & _ & Hl).
  subst rel. eapply choose_loop_untaken; eauto. intro E. apply Hnr. left. auto.
Qed.

(* C07_join *)
Theorem notify_join : forall g t fin draw g' rel canc,
  notify_completion g t fin draw = (g', Ok (rel, canc)) -> tg_conditional g t = true ->
  all_children_zero g t = false -> cancel_closed g ->
  forall j, tg_terminal g j = true ->
  (exists p, In p (tg_parents g j) /\ p <> t /\ tg_state g' p <> TS_CANCELLED) -> tg_state g' j = tg_state g j.
Proof.
  intros g t fin draw g' rel canc H Hc Hz CC j Hj Hlive.
  destruct (notify_cond_unfold _ _ _ _ _ _ _ H Hc Hz) as (_ & _ & _ & _ & k & Hk & Hr & _ & Hl).
  eapply choose_loop_join; eauto.
Qed.

Theorem notify_behind_join : forall g t fin draw g' rel canc,
  notify_completion g t fin draw = (g', Ok (rel, canc)) -> tg_conditional g t = true ->
  all_children_zero g t = false -> cancel_closed g ->
  forall n, tg_terminal g n = false -> (forall u, In u (tg_children g t) -> ~ In u rel -> u <> n) ->
  (forall p, In p (tg_parents g n) -> tg_state g' p = tg_state g p) -> tg_state g' n = tg_state g n.
Proof.
  intros g t fin draw g' rel canc H Hc Hz CC n Hn Hnu Hpar.
  destruct (notify_cond_unfold _ _ _ _ _ _ _ H Hc Hz) as (_ & _ & _ & _ & k & Hk & Hr & _ & Hl).
  subst rel. eapply choose_loop_regular; eauto. intros u Hu Hne. apply Hnu; auto. intros [A|[]]. congruence.
Qed.

(* the graph keeps its shape and the closure invariant *)
Theorem notify_cond_evolves : forall g t fin draw g' rel canc,
  notify_completion g t fin draw = (g', Ok (rel, canc)) -> tg_conditional g t = true ->
  all_children_zero g t = false -> cancel_closed g -> evolves g g' /\ cancel_closed g'.
Proof.
  intros g t fin draw g' rel canc H Hc Hz CC.
  destruct (notify_cond_unfold _ _ _ _ _ _ _ H Hc Hz) as (_ & _ & _ & _ & k & Hk & Hr & _ & Hl).
  eapply choose_loop_evolves; eauto.
Qed.

(* C07_resolved: after resolution at submission every child has probability 0 or 1; the drawn child
   (non-zero weight: contract of random.choices) is then THE child with probability 1 *)
Lemma zsum_cons : forall x l, zsum (x :: l) = x + zsum l.
Proof. reflexivity. Qed.
Lemma zsum_nonneg : forall (f : Z -> Z) l, (forall c, In c l -> 0 <= f c) -> 0 <= zsum (map f l).
Proof.
  intros f l; induction l as [|x l IH]; intros H; cbn [map]; [cbn; lia|].
  rewrite zsum_cons. specialize (H x (or_introl eq_refl)) as Hx.
  assert (0 <= zsum (map f l)) by (apply IH; intros c Hc; apply H; right; exact Hc). lia.
Qed.
Lemma resolved_unique : forall (f : Z -> Z) den l k, 0 < den -> NoDup l -> In k l ->
  (forall c, In c l -> f c = 0 \/ f c = den) -> zsum (map f l) <= den -> f k = den ->
  forall c, In c l -> c <> k -> f c = 0.
Proof.
  intros f den l k Hden; induction l as [|x l IH]; intros ND Hk Hall Hsum Hfk c Hc Hne; [contradiction|].
  cbn [map] in Hsum. rewrite zsum_cons in Hsum.
  apply NoDup_cons_iff in ND. destruct ND as [Hx ND'].
  assert (Hnn : 0 <= zsum (map f l)).
  { apply zsum_nonneg. intros y Hy. destruct (Hall y (or_intror Hy)); lia. }
  destruct Hk as [Hk|Hk].
  - subst x. destruct Hc as [Hc|Hc]; [congruence|].
    assert (Z0 : zsum (map f l) = 0) by lia.
    clear -Z0 Hc Hall Hden. induction l as [|y l IH]; [contradiction|].
    cbn [map] in Z0. rewrite zsum_cons in Z0.
    assert (0 <= zsum (map f l)).
    { apply zsum_nonneg. intros z Hz. destruct (Hall z (or_intror (or_intror Hz))); lia. }
    assert (0 <= f y) by (destruct (Hall y (or_intror (or_introl eq_refl))); lia).
    destruct Hc as [Hc|Hc]; [subst; lia|]. apply IH; auto; [|lia].
    intros z [Hz|Hz]; apply Hall; [left; exact Hz | right; right; exact Hz].
  - destruct Hc as [Hc|Hc].
    + subst c. destruct (Hall x (or_introl eq_refl)) as [A|A]; [exact A|].
      exfalso. assert (Hk' : In k l) by exact Hk.
      assert (f k <= zsum (map f l)).
      { clear -Hk' Hall Hden. induction l as [|y l IH]; [contradiction|].
        cbn [map]. rewrite zsum_cons.
        assert (0 <= zsum (map f l)).
        { apply zsum_nonneg. intros z Hz. destruct (Hall z (or_intror (or_intror Hz))); lia. }
        assert (0 <= f y) by (destruct (Hall y (or_intror (or_introl eq_refl))); lia).
        destruct Hk' as [->|Hk']; [lia|].
        assert (f k <= zsum (map f l)); [|lia]. apply IH; auto.
        intros z [Hz|Hz]; apply Hall; [left; exact Hz | right; right; exact Hz]. }
      lia.
    + destruct (Hall x (or_introl eq_refl)) as [A|A].
      * apply IH; auto; [intros y Hy; apply Hall; right; exact Hy | lia].
      * exfalso. assert (f k <= zsum (map f l)); [|lia].
        clear -Hk Hall Hden. induction l as [|y l IH]; [contradiction|].
        cbn [map]. rewrite zsum_cons.
        assert (0 <= zsum (map f l)).
        { apply zsum_nonneg. intros z Hz. destruct (Hall z (or_intror (or_intror Hz))); lia. }
        assert (0 <= f y) by (destruct (Hall y (or_intror (or_introl eq_refl))); lia).
        destruct Hk as [->|Hk]; [lia|].
        assert (f k <= zsum (map f l)); [|lia]. apply IH; auto.
        intros z [Hz|Hz]; apply Hall; [left; exact Hz | right; right; exact Hz].
Qed.

Theorem notify_resolved : forall g t fin draw g' rel canc,
  notify_completion g t fin draw = (g', Ok (rel, canc)) -> tg_conditional g t = true ->
  all_children_zero g t = false ->
  (forall c, In c (tg_children g t) -> tg_prob g c = 0 \/ tg_prob g c = g_den g) ->
  (forall c, nth_z (tg_children g t) draw = Some c -> 0 < tg_prob g c) ->
  exists k, rel = [k] /\ In k (tg_children g t) /\ tg_prob g k = g_den g /\
            forall c, In c (tg_children g t) -> c <> k -> tg_prob g c = 0.
Proof.
  intros g t fin draw g' rel canc H Hc Hz Hres Hor.
  destruct (notify_cond_unfold _ _ _ _ _ _ _ H Hc Hz) as (Hok & Ht & _ & Hs & k & Hk & Hr & _ & _).
  pose proof (nth_z_In _ _ _ Hk) as Hin. specialize (Hor k Hk).
  assert (Hpk : tg_prob g k = g_den g) by (destruct (Hres k Hin); lia).
  exists k. repeat split; auto.
  assert (Hden : 0 < g_den g).
  { unfold tg_ok in Hok. rewrite !andb_true_iff in Hok. lia. }
  assert (ND : NoDup (tg_children g t)).
  { unfold tg_ok in Hok. rewrite !andb_true_iff in Hok. destruct Hok as ((((_ & H2) & _) & _) & _).
    unfold tg_children in *. destruct (al_get t (g_adj g)) as [cs|] eqn:E; [|constructor].
    apply al_get_In in E. rewrite forallb_forall in H2. specialize (H2 _ E). cbn [snd] in H2.
    apply andb_true_iff in H2. apply znodup_NoDup. tauto. }
  unfold probs_refused, probs_rejected in Hs. apply Z.ltb_ge in Hs.
  eapply resolved_unique; eauto.
Qed.

(* ---------- non-conditional task: the released children (C18) ---------- *)
Lemma release_loop_spec : forall g cs acc rel, release_loop g cs acc = Ok rel ->
  rel = acc ++ filter (fun c => negb (is_cancelled g c) &&
                                notify_releases (tg_terminal g c) (map (tg_complete g) (tg_parents g c))) cs /\
  forall c, In c cs -> notify_moved_beyond (tg_state g c) = false.
Proof.
  intros g cs; induction cs as [|c cs IH]; intros acc rel H; cbn [release_loop] in H.
  - inversion H; subst. cbn [filter]. rewrite app_nil_r. split; [reflexivity | intros c []].
  - cbn [filter]. unfold notify_child_guard in H. unfold notify_moved_beyond.
    destruct (task_state_ltb TS_SCHEDULED (tg_state g c) && task_state_ltb (tg_state g c) TS_CANCELLED) eqn:E1; [discriminate|].
    unfold is_cancelled.
    destruct (task_state_eqb (tg_state g c) TS_CANCELLED) eqn:E2; cbn [negb andb].
    + apply IH in H. destruct H as [H1 H2]. split; [exact H1|]. intros c' [<-|Hc']; [exact E1 | apply H2; exact Hc'].
    + destruct (notify_releases (tg_terminal g c) (map (tg_complete g) (tg_parents g c))) eqn:E3.
      * apply IH in H. destruct H as [H1 H2]. split.
        -- rewrite H1, <- app_assoc. reflexivity.
        -- intros c' [<-|Hc']; [exact E1 | apply H2; exact Hc'].
      * apply IH in H. destruct H as [H1 H2]. split; [exact H1|]. intros c' [<-|Hc']; [exact E1 | apply H2; exact Hc'].
Qed.

Theorem notify_children : forall g t fin draw g' rel canc,
  notify_completion g t fin draw = (g', Ok (rel, canc)) -> tg_conditional g t = false ->
  g' = g /\ canc = [] /\ tg_complete g t = true /\
  (forall c, In c rel <-> In c (tg_children g t) /\ tg_state g c <> TS_CANCELLED /\
                          (tg_terminal g c = true \/ forall p, In p (tg_parents g c) -> tg_complete g p = true)) /\
  (forall c, In c (tg_children g t) -> notify_moved_beyond (tg_state g c) = false).
Proof.
  intros g t fin draw g' rel canc H Hc. unfold notify_completion in H.
  destruct (tg_ok g && zmem t (tg_nodes g)) eqn:E1; cbn [negb] in H; [|discriminate].
  destruct (tg_complete g t) eqn:E2; cbn [negb] in H; [|discriminate].
  rewrite Hc in H.
  destruct (release_loop g (tg_children g t) []) as [r|e] eqn:E3; [|discriminate].
  inversion H; subst. apply release_loop_spec in E3. destruct E3 as [-> Hm]. cbn [app].
  repeat split; auto.
  - apply filter_In in H0. tauto.
  - apply filter_In in H0. destruct H0 as [_ H0]. apply andb_true_iff in H0. destruct H0 as [H0 _].
    apply negb_true_iff in H0. apply task_state_eqb_neq in H0. exact H0.
  - apply filter_In in H0. destruct H0 as [_ H0]. apply andb_true_iff in H0. destruct H0 as [_ H0].
    unfold notify_releases in H0. apply orb_true_iff in H0. destruct H0 as [A|A]; [left; exact A|right].
    rewrite forallb_forall in A. intros p Hp. apply A. apply in_map. exact Hp.
  - intros (A & B & C). apply filter_In. split; [exact A|]. apply andb_true_iff. split.
    + apply negb_true_iff. apply task_state_eqb_neq. exact B.
    + unfold notify_releases. apply orb_true_iff. destruct C as [C|C]; [left; exact C|right].
      apply forallb_forall. intros b Hb. apply in_map_iff in Hb. destruct Hb as (p & <- & Hp). apply C. exact Hp.
Qed.

(* ---------- conditional task whose children all have probability 0 ---------- *)
Lemma cancel_each_spec : forall cs time g acc g' canc,
  cancel_each cs time g acc = (g', Ok canc) -> cancel_closed g ->
  evolves g g' /\ cancel_closed g' /\
  forall u, In u cs -> forall d, branch g u d -> tg_state g' d = TS_CANCELLED.
Proof.
  induction cs as [|c cs IH]; intros time g acc g' canc H CC; cbn [cancel_each] in H.
  - inversion H; subst. split; [apply evolves_refl|]. split; [exact CC | intros u []].
  - destruct (tg_cancel g c time) as [g1 [l|e]] eqn:Ec; [|inversion H].
    pose proof (tg_cancel_evolves _ _ _ _ _ Ec) as E1.
    pose proof (tg_cancel_keeps_closed _ _ _ _ _ Ec CC) as C1.
    destruct (IH _ _ _ _ _ H C1) as (E2 & C2 & U2).
    split; [eapply evolves_trans; eauto|]. split; [exact C2|].
    intros u [<-|Hu] d Hb.
    + destruct (tg_cancel_closure _ _ _ _ _ Ec CC) as (_ & Hd & _).
      apply (ev_mono _ _ E2). apply Hd. apply branch_doomed. exact Hb.
    + apply (U2 u Hu). eapply branch_evolves; eauto.
Qed.

Theorem notify_all_zero : forall g t fin draw g' rel canc,
  notify_completion g t fin draw = (g', Ok (rel, canc)) -> tg_conditional g t = true ->
  all_children_zero g t = true -> cancel_closed g ->
  rel = [] /\ evolves g g' /\ cancel_closed g' /\
  forall u, In u (tg_children g t) -> forall d, branch g u d -> tg_state g' d = TS_CANCELLED.
Proof.
  intros g t fin draw g' rel canc H Hc Hz CC. unfold notify_completion in H.
  destruct (tg_ok g && zmem t (tg_nodes g)) eqn:E1; cbn [negb] in H; [|discriminate].
  destruct (tg_complete g t) eqn:E2; cbn [negb] in H; [|discriminate].
  rewrite Hc, Hz in H.
  destruct (cancel_each (tg_children g t) fin g []) as [g1 [cs|e]] eqn:E3; [|discriminate].
  inversion H; subst. split; [reflexivity|]. eapply cancel_each_spec; eauto.
Qed.

Lemma tg_ok_children_nodup : forall g n, tg_ok g = true -> NoDup (tg_children g n).
Proof.
  intros g n Hok. unfold tg_ok in Hok. rewrite !andb_true_iff in Hok. destruct Hok as ((((_ & H2) & _) & _) & _).
  unfold tg_children. destruct (al_get n (g_adj g)) as [cs|] eqn:E; [|constructor].
  apply al_get_In in E. rewrite forallb_forall in H2. specialize (H2 _ E). cbn [snd] in H2.
  apply andb_true_iff in H2. apply znodup_NoDup. tauto.
Qed.

(* a task is released at most once by one notification *)
Theorem notify_released_nodup : forall g t fin draw g' rel canc,
  notify_completion g t fin draw = (g', Ok (rel, canc)) -> NoDup rel.
Proof.
  intros g t fin draw g' rel canc H. pose proof H as H0. unfold notify_completion in H.
  destruct (tg_ok g && zmem t (tg_nodes g)) eqn:E1; cbn [negb] in H; [|discriminate].
  apply andb_true_iff in E1. destruct E1 as [Hok _].
  destruct (tg_complete g t) eqn:E2; cbn [negb] in H; [|discriminate].
  destruct (tg_conditional g t) eqn:Ec.
  - destruct (all_children_zero g t) eqn:Ez.
    + destruct (cancel_each (tg_children g t) fin g []) as [g1 [cs|e]]; inversion H; subst. constructor.
    + destruct (notify_one _ _ _ _ _ _ _ H0 Ec Ez) as (k & _ & -> & _). constructor; [intros [] | constructor].
  - destruct (release_loop g (tg_children g t) []) as [r|e] eqn:E3; [|discriminate].
    inversion H; subst. apply release_loop_spec in E3. destruct E3 as [-> _]. cbn [app].
    apply NoDup_filter. apply tg_ok_children_nodup. exact Hok.
Qed.
