(* C16, first half: EventTime (as translated from utils.py) behaves as the exact
   integer number of microseconds. All statements are about Gen/Src_Time.v. *)
From Coq Require Import ZArith Bool List Lia ZifyBool.
From Verif Require Import Model.Val Gen.Src_Time.
Open Scope Z_scope.

Definition us (x : etime) : Z := et_time x * unit_value (et_unit x).

Definition finer (a b : unit_t) : unit_t := if unit_value a <=? unit_value b then a else b.

Lemma unit_value_cases u : unit_value u = 1 \/ unit_value u = 1000 \/ unit_value u = 1000000.
Proof. destruct u; cbn; auto. Qed.

Lemma unit_eqb_spec a b : unit_eqb a b = true <-> a = b.
Proof. destruct a, b; cbn; split; congruence. Qed.

Lemma unit_value_inj a b : unit_value a = unit_value b -> a = b.
Proof. destruct a, b; cbn; congruence. Qed.

(* conversion to a finer-or-equal unit succeeds and is exact *)
Lemma et_to_ok x u :
  unit_value u <= unit_value (et_unit x) ->
  exists y, et_to x u = Ok y /\ et_unit y = u /\ us y = us x.
Proof.
  intros H. unfold et_to, us, int_mul_ratio, unit_to.
  destruct x as [t ux]; cbn [et_time et_unit fst snd] in *.
  destruct u, ux; cbn in H |- *; try lia;
    (eexists; split; [reflexivity|split; [reflexivity|cbn [et_time et_unit unit_value]]]);
    rewrite ?Z.mul_1_r, ?Z.quot_1_r; try reflexivity.
  all: try (rewrite Z.quot_mul by lia; reflexivity).
  - replace (t * 1000000) with (t * 1000 * 1000) by lia. rewrite Z.quot_mul by lia. lia.
Qed.

(* coarsening is refused, never rounded *)
Lemma et_to_err x u :
  unit_value (et_unit x) < unit_value u -> et_to x u = Err 1.
Proof.
  intros H. unfold et_to. destruct x as [t ux]; cbn [et_unit] in *.
  destruct u, ux; cbn in H |- *; try lia; reflexivity.
Qed.

Lemma et_to_err_iff x u :
  (exists c, et_to x u = Err c) <-> unit_value (et_unit x) < unit_value u.
Proof.
  split.
  - intros [c Hc]. destruct (Z_lt_ge_dec (unit_value (et_unit x)) (unit_value u)) as [|Hge]; [assumption|].
    destruct (et_to_ok x u) as [y [Hy _]]; [lia|]. congruence.
  - intros H. exists 1. apply et_to_err; assumption.
Qed.

Lemma et_add_spec a b :
  exists r, et_add a b = Ok r /\ us r = us a + us b /\ et_unit r = finer (et_unit a) (et_unit b).
Proof.
  unfold et_add. destruct (unit_eqb (et_unit a) (et_unit b)) eqn:E.
  - apply unit_eqb_spec in E. eexists; split; [reflexivity|]. unfold us, finer; cbn. rewrite <- E.
    rewrite Z.leb_refl. split; [lia|reflexivity].
  - assert (Hne : et_unit a <> et_unit b) by (intro X; apply unit_eqb_spec in X; congruence).
    unfold unit_ltb. destruct (unit_value (et_unit a) <? unit_value (et_unit b)) eqn:L.
    + destruct (et_to_ok b (et_unit a)) as [y [Hy [Hu Hus]]]; [lia|].
      rewrite Hy; cbn [bind]. eexists; split; [reflexivity|]. unfold us in *; cbn [et_time et_unit].
      rewrite Hu in Hus. unfold finer. replace (unit_value (et_unit a) <=? unit_value (et_unit b)) with true by lia.
      split; [lia|reflexivity].
    + assert (unit_value (et_unit a) <> unit_value (et_unit b)) by (intro X; apply unit_value_inj in X; congruence).
      destruct (et_to_ok a (et_unit b)) as [y [Hy [Hu Hus]]]; [lia|].
      rewrite Hy; cbn [bind]. eexists; split; [reflexivity|]. unfold us in *; cbn [et_time et_unit].
      rewrite Hu in Hus. unfold finer. replace (unit_value (et_unit a) <=? unit_value (et_unit b)) with false by lia.
      split; [lia|reflexivity].
Qed.

Lemma et_sub_spec a b :
  exists r, et_sub a b = Ok r /\ us r = us a - us b /\ et_unit r = finer (et_unit a) (et_unit b).
Proof.
  unfold et_sub.
  destruct (et_add_spec a (mkET (- et_time b) (et_unit b))) as [r [Hr [Hus Hu]]].
  rewrite Hr; cbn [bind]. exists r. split; [reflexivity|]. split; [|exact Hu].
  rewrite Hus. unfold us; cbn [et_time et_unit]. lia.
Qed.

Lemma unit_value_pos u : 0 < unit_value u.
Proof. destruct u; cbn; lia. Qed.

Lemma et_eqb_spec a b : et_eqb a b = Ok (us a =? us b).
Proof.
  unfold et_eqb. destruct (et_sub_spec a b) as [r [Hr [Hus _]]]. rewrite Hr; cbn [bind]. f_equal.
  pose proof (unit_value_pos (et_unit r)) as Hp. unfold us in Hus at 1.
  remember (us a) as ua. remember (us b) as ub. remember (unit_value (et_unit r)) as v. remember (et_time r) as t.
  destruct (t =? 0) eqn:E; destruct (ua =? ub) eqn:E2; try reflexivity; nia.
Qed.

Lemma et_ltb_spec a b : et_ltb a b = Ok (us a <? us b).
Proof.
  unfold et_ltb. destruct (et_sub_spec a b) as [r [Hr [Hus _]]]. rewrite Hr; cbn [bind]. f_equal.
  pose proof (unit_value_pos (et_unit r)) as Hp. unfold us in Hus at 1.
  remember (us a) as ua. remember (us b) as ub. remember (unit_value (et_unit r)) as v. remember (et_time r) as t.
  destruct (t <? 0) eqn:E; destruct (ua <? ub) eqn:E2; try reflexivity; exfalso.
  - assert (t * v < 0) by (apply Z.mul_neg_pos; lia). lia.
  - assert (0 <= t * v) by (apply Z.mul_nonneg_nonneg; lia). lia.
Qed.

Lemma et_hash_spec a : et_hash a = Ok (us a).
Proof.
  unfold et_hash. destruct (et_to_ok a U_US) as [y [Hy [Hu Hus]]].
  - destruct (et_unit a); cbn; lia.
  - rewrite Hy; cbn [bind]. f_equal. unfold us in *. rewrite Hu in Hus. cbn in Hus. lia.
Qed.

Lemma et_mul_spec a k : us (et_mul a k) = us a * k /\ et_unit (et_mul a k) = et_unit a.
Proof. unfold et_mul, us; cbn. split; [lia|reflexivity]. Qed.

Lemma et_is_invalid_spec a : et_is_invalid a = (et_time a =? -1).
Proof. reflexivity. Qed.

(* consequences: a total order consistent with hashing *)
Lemma et_eq_hash a b : et_eqb a b = Ok true -> et_hash a = et_hash b.
Proof. rewrite et_eqb_spec, !et_hash_spec. intros H. f_equal. injection H as H. lia. Qed.

Lemma et_trichotomy a b :
  (et_ltb a b = Ok true /\ et_eqb a b = Ok false /\ et_ltb b a = Ok false) \/
  (et_ltb a b = Ok false /\ et_eqb a b = Ok true /\ et_ltb b a = Ok false) \/
  (et_ltb a b = Ok false /\ et_eqb a b = Ok false /\ et_ltb b a = Ok true).
Proof.
  rewrite !et_ltb_spec, !et_eqb_spec.
  destruct (Z.lt_trichotomy (us a) (us b)) as [H|[H|H]]; [left|right;left|right;right];
    repeat split; f_equal; lia.
Qed.

Lemma et_ltb_trans a b c : et_ltb a b = Ok true -> et_ltb b c = Ok true -> et_ltb a c = Ok true.
Proof. rewrite !et_ltb_spec. intros H1 H2. injection H1 as H1. injection H2 as H2. f_equal. lia. Qed.

Lemma et_add_assoc_us a b c r1 r2 s1 s2 :
  et_add a b = Ok r1 -> et_add r1 c = Ok r2 -> et_add b c = Ok s1 -> et_add a s1 = Ok s2 -> us r2 = us s2.
Proof.
  intros H1 H2 H3 H4.
  destruct (et_add_spec a b) as [x [Hx [Ux _]]]. destruct (et_add_spec r1 c) as [y [Hy [Uy _]]].
  destruct (et_add_spec b c) as [z [Hz [Uz _]]]. destruct (et_add_spec a s1) as [w [Hw [Uw _]]].
  rewrite H1 in Hx; injection Hx as <-. rewrite H2 in Hy; injection Hy as <-.
  rewrite H3 in Hz; injection Hz as <-. rewrite H4 in Hw; injection Hw as <-. lia.
Qed.

Lemma et_sub_add_cancel a b r s : et_sub a b = Ok r -> et_add r b = Ok s -> us s = us a.
Proof.
  intros H1 H2. destruct (et_sub_spec a b) as [x [Hx [Ux _]]]. destruct (et_add_spec r b) as [y [Hy [Uy _]]].
  rewrite H1 in Hx; injection Hx as <-. rewrite H2 in Hy; injection Hy as <-. lia.
Qed.

Example time_nonvacuous :
  et_add (mkET 2 U_S) (mkET 3 U_MS) = Ok (mkET 2003 U_MS) /\ et_to (mkET 1500 U_MS) U_S = Err 1 /\
  et_eqb (mkET 1 U_S) (mkET 1000000 U_US) = Ok true /\ et_hash (mkET (-3) U_MS) = Ok (-3000).
Proof. vm_compute. repeat split. Qed.
