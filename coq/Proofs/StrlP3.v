(* C20 — part 3: every placement is the exact image of a satisfied Choose; Min / Max structure. *)
From Coq Require Import ZArith Bool List Lia ZifyBool.
Import ListNotations.
From Verif Require Import Model.Val Model.Strl Proofs.StrlP Proofs.StrlP2.
Open Scope Z_scope.

(* ------------------------------------------------------------------ where placements come from *)
Lemma pls_origin : forall pt now a e pl, In pl (sol_pls (solve pt now a e)) ->
  exists n ps am s d u, In (Choose n ps am s d u) (subs e) /\
    is_pu (parse pt now (Choose n ps am s d u)) = true /\ u * a (VInd n) <> 0 /\
    pl = own_placement pt a n ps s (s + d).
Proof.
  intros pt now a. induction e using expr_kids_ind. intros pl Hpl.
  destruct (solve_pls_cases pt now a e) as [(n & ps & am & s & d & u & -> & Hp & Hu & Heq)|[Heq|[_ Heq]]]; rewrite Heq in Hpl.
  - destruct Hpl as [<-|[]]. exists n, ps, am, s, d, u. split; [apply subs_refl|]. auto.
  - destruct Hpl.
  - apply merge_in in Hpl. destruct Hpl as [sl [Hsl Hin]]. apply in_map_iff in Hsl. destruct Hsl as [k [<- Hk]].
    rewrite Forall_forall in H. destruct (H k Hk pl Hin) as (n & ps & am & s & d & u & Hc & Hrest).
    exists n, ps, am, s, d, u. split; [eapply subs_kid; eauto|exact Hrest].
Qed.

(* ------------------------------------------------------------------ the Choose rows *)
Lemma choose_pu_inv : forall pt now n ps am s d u,
  is_pu (parse pt now (Choose n ps am s d u)) = true ->
  parse pt now (Choose n ps am s d u) = PU (AConst s) (AConst (s + d)) [(u, AVar (VInd n))] (AVar (VInd n))
  /\ now <= s /\ sched pt ps <> [].
Proof.
  intros pt now n ps am s d u H. cbn [parse] in *. destruct (now >? s) eqn:Hn; [discriminate|].
  destruct (sched pt ps) eqn:Hs; [discriminate|]. split; [reflexivity|]. split; [lia|discriminate].
Qed.

Lemma lin_val_allocs : forall a n l,
  lin_val a (map (fun p => (1, AVar (VAlloc n p))) l) = sumZ (map (fun p => a (VAlloc n p)) l).
Proof. induction l as [|p l IH]; [reflexivity|]. cbn [map lin_val aval]. rewrite sumZ_cons, IH. lia. Qed.

Lemma choose_facts : forall pt now g a e n ps am s d u,
  facts pt now g a e -> In (Choose n ps am s d u) (subs e) ->
  is_pu (parse pt now (Choose n ps am s d u)) = true ->
  0 <= a (VInd n) <= 1 /\
  sumZ (map (fun p => a (VAlloc n p)) (sched pt ps)) = am * a (VInd n) /\
  (forall q, In q (sched pt ps) -> 0 <= a (VAlloc n q) <= Z.min (qty0 pt q) am).
Proof.
  intros pt now g a e n ps am s d u F Hin Hp.
  destruct (choose_pu_inv _ _ _ _ _ _ _ _ Hp) as [Hpe _].
  split; [|split].
  - assert (Hd : dom_ok a (ind_decl n) = true).
    { apply (f_vars _ _ _ _ _ F _ _ Hin). cbn [own_vars]. rewrite Hpe. left; reflexivity. }
    unfold dom_ok, ind_decl in Hd; cbn [vd_ind vd_var] in Hd. lia.
  - assert (Hr : row_holds a (mkrow EQ (map (fun p => (1, AVar (VAlloc n p))) (sched pt ps) ++ [(- am, AVar (VInd n))]) 0) = true).
    { apply (f_rows _ _ _ _ _ F _ _ Hin). cbn [own_rows]. rewrite Hpe. left; reflexivity. }
    apply mkrow_EQ in Hr. rewrite lin_val_app, lin_val_allocs in Hr. cbn [lin_val aval] in Hr. lia.
  - intros q Hq.
    assert (Hd : dom_ok a (int_decl (VAlloc n q) 0 (Some (Z.min (qty0 pt q) am))) = true).
    { apply (f_vars _ _ _ _ _ F _ _ Hin). cbn [own_vars]. rewrite Hpe. right. apply in_map_iff. exists q. auto. }
    unfold dom_ok, int_decl in Hd; cbn [vd_ind vd_var vd_lb vd_ub] in Hd. lia.
Qed.

(* ------------------------------------------------------------------ placements are exact *)
Definition alloc_ok (pt : ptab) (ps : list Z) (s : Z) (x : Z * Z * Z) : Prop :=
  In (fst (fst x)) ps /\ avail_of pt (fst (fst x)) = true /\ snd (fst x) = s /\
  0 < snd x <= qty0 pt (fst (fst x)).
Definition placement_matches (pt : ptab) (now : Z) (pl : placement) (c : expr) : Prop :=
  exists n ps am s d u, c = Choose n ps am s d u /\
    pl_name pl = n /\ pl_start pl = s /\ pl_end pl = s + d /\ pl_total pl = am /\ now <= s /\
    Forall (alloc_ok pt ps s) (pl_allocs pl).
Definition placements_exact (pt : ptab) (now : Z) (e : expr) (pls : list placement) : Prop :=
  forall pl, In pl pls -> exists c, In c (subs e) /\ placement_matches pt now pl c.

Lemma alloc_okb_iff : forall pt ps s x, alloc_okb pt ps s x = true <-> alloc_ok pt ps s x.
Proof.
  intros. unfold alloc_okb, alloc_ok. rewrite !andb_true_iff. rewrite existsb_exists.
  split.
  - intros [[[[[y [Hy He]] Ha] Hs] Hp] Hq]. apply Z.eqb_eq in He. subst y. repeat split; try assumption; lia.
  - intros [Hi [Ha [Hs [Hp Hq]]]]. repeat split; try assumption; try lia. exists (fst (fst x)). split; [assumption|lia].
Qed.

Lemma placement_matchesb_iff : forall pt now pl c,
  placement_matchesb pt now pl c = true <-> placement_matches pt now pl c.
Proof.
  intros pt now pl c. unfold placement_matches. destruct c; cbn [placement_matchesb];
    try (split; [discriminate|intros (? & ? & ? & ? & ? & ? & Hc & _); discriminate]).
  rewrite !andb_true_iff, forallb_forall. split.
  - intros [[[[[H1 H2] H3] H4] H5] H6]. exists n, parts, amount, start, dur, util.
    split; [reflexivity|]. repeat split; try lia.
    apply Forall_forall. intros x Hx. apply alloc_okb_iff. auto.
  - intros (n' & ps & am & s & d & u & Hc & H1 & H2 & H3 & H4 & H5 & H6). injection Hc as -> -> -> -> -> ->.
    repeat split; try lia. intros x Hx. apply alloc_okb_iff. rewrite Forall_forall in H6. auto.
Qed.

Lemma placements_exactb_iff : forall pt now e pls,
  placements_exactb pt now e pls = true <-> placements_exact pt now e pls.
Proof.
  intros. unfold placements_exactb, placements_exact. rewrite forallb_forall. split.
  - intros H pl Hpl. specialize (H pl Hpl). apply existsb_exists in H. destruct H as [c [Hc Hm]].
    exists c. split; [assumption|]. apply placement_matchesb_iff. assumption.
  - intros H pl Hpl. destruct (H pl Hpl) as [c [Hc Hm]]. apply existsb_exists. exists c.
    split; [assumption|]. apply placement_matchesb_iff. assumption.
Qed.

Lemma filter_sum : forall a n l,
  sumZ (map (fun p => a (VAlloc n p)) (filter (fun p => negb (a (VAlloc n p) =? 0)) l))
  = sumZ (map (fun p => a (VAlloc n p)) l).
Proof.
  induction l as [|p l IH]; [reflexivity|]. cbn [filter map].
  destruct (a (VAlloc n p) =? 0) eqn:Hz; cbn [negb map]; rewrite ?sumZ_cons, IH; lia.
Qed.

Lemma sched_in : forall pt ps q, In q (sched pt ps) <-> In q ps /\ avail_of pt q = true.
Proof. intros. unfold sched. apply filter_In. Qed.

Theorem placements_are_exact : forall pt now g e cs a,
  compile pt now g e = Ok cs -> sat cs a = true ->
  placements_exact pt now e (populate pt now a e) /\
  (forall pl, In pl (populate pt now a e) -> a (VInd (pl_name pl)) = 1).
Proof.
  intros pt now g e cs a Hc Hs. pose proof (sat_facts _ _ _ _ _ _ Hc Hs) as F.
  assert (Hboth : forall pl, In pl (populate pt now a e) ->
            (exists c, In c (subs e) /\ placement_matches pt now pl c) /\ a (VInd (pl_name pl)) = 1).
  { intros pl Hpl. unfold populate in Hpl.
    destruct (pls_origin _ _ _ _ _ Hpl) as (n & ps & am & s & d & u & Hin & Hp & Hu & ->).
    destruct (choose_facts _ _ _ _ _ _ _ _ _ _ _ F Hin Hp) as [Hi [Hsum Hb]].
    destruct (choose_pu_inv _ _ _ _ _ _ _ _ Hp) as [_ [Hnow _]].
    assert (HI : a (VInd n) = 1).
    { assert (a (VInd n) = 0 \/ a (VInd n) = 1) as [H0|H1] by lia; [|exact H1].
      rewrite H0, Z.mul_0_r in Hu. congruence. }
    split; [|exact HI].
    exists (Choose n ps am s d u). split; [exact Hin|].
    exists n, ps, am, s, d, u. split; [reflexivity|]. unfold own_placement; cbn [pl_name pl_start pl_end pl_allocs].
    repeat split; try lia.
    - unfold pl_total; cbn [pl_allocs]. rewrite map_map. cbn [snd]. rewrite filter_sum, Hsum, HI. lia.
    - apply Forall_forall. intros x Hx. apply in_map_iff in Hx. destruct Hx as [q [<- Hq]].
      apply filter_In in Hq. destruct Hq as [Hq Hnz]. pose proof (Hb q Hq) as Hbq.
      apply sched_in in Hq. destruct Hq as [Hq1 Hq2].
      unfold alloc_ok; cbn [fst snd]. repeat split; try assumption; lia. }
  split.
  - intros pl Hpl. apply (Hboth pl Hpl).
  - intros pl Hpl. apply (Hboth pl Hpl).
Qed.

(* an unsatisfied Choose holds no resources in the model, a satisfied one exactly its amount *)
Theorem choose_amounts : forall pt now g e cs a n ps am s d u,
  compile pt now g e = Ok cs -> sat cs a = true ->
  In (Choose n ps am s d u) (subs e) -> is_pu (parse pt now (Choose n ps am s d u)) = true ->
  (a (VInd n) = 0 /\ forall q, In q (sched pt ps) -> a (VAlloc n q) = 0) \/
  (a (VInd n) = 1 /\ sumZ (map (fun p => a (VAlloc n p)) (sched pt ps)) = am).
Proof.
  intros pt now g e cs a n ps am s d u Hc Hs Hin Hp. pose proof (sat_facts _ _ _ _ _ _ Hc Hs) as F.
  destruct (choose_facts _ _ _ _ _ _ _ _ _ _ _ F Hin Hp) as [Hi [Hsum Hb]].
  assert (a (VInd n) = 0 \/ a (VInd n) = 1) as [H0|H1] by lia.
  - left. split; [exact H0|]. rewrite H0, Z.mul_0_r in Hsum.
    intros q Hq. 
    assert (Hall : forall l, (forall q, In q l -> 0 <= a (VAlloc n q)) -> sumZ (map (fun p => a (VAlloc n p)) l) = 0 ->
               forall q, In q l -> a (VAlloc n q) = 0).
    { induction l as [|x l IH]; intros Hnn Hz q' Hq'; [destruct Hq'|]. cbn [map] in Hz. rewrite sumZ_cons in Hz.
      assert (0 <= a (VAlloc n x)) by (apply Hnn; left; reflexivity).
      assert (0 <= sumZ (map (fun p => a (VAlloc n p)) l)).
      { apply sumZ_nonneg. intros y Hy. apply in_map_iff in Hy. destruct Hy as [z [<- Hz']]. apply Hnn. right; exact Hz'. }
      destruct Hq' as [<-|Hq']; [lia|]. apply IH; [intros; apply Hnn; right; assumption|lia|exact Hq']. }
    apply (Hall (sched pt ps)); [intros q' Hq'; apply (Hb q' Hq')|exact Hsum|exact Hq].
  - right. split; [exact H1|]. rewrite Hsum, H1. lia.
Qed.

(* ------------------------------------------------------------------ every variable indicator is a declared binary *)
Lemma ind_var_binary : forall pt now a e,
  (forall e' d, In e' (subs e) -> In d (own_vars pt now e') -> dom_ok a d = true) ->
  forall s en u v, parse pt now e = PU s en u (AVar v) -> 0 <= a v <= 1.
Proof.
  intros pt now a. induction e using expr_kids_ind. intros Hd s en u v Hp.
  assert (Hbin : forall m, In (ind_decl m) (own_vars pt now e) -> 0 <= a (VInd m) <= 1).
  { intros m Hm. pose proof (Hd e _ (subs_refl e) Hm) as D. unfold dom_ok, ind_decl in D; cbn [vd_ind vd_var] in D. lia. }
  destruct e.
  - (* Choose *)
    assert (Hpu : is_pu (parse pt now (Choose n parts amount start dur util)) = true) by (rewrite Hp; reflexivity).
    destruct (choose_pu_inv _ _ _ _ _ _ _ _ Hpu) as [Hpe _]. rewrite Hpe in Hp. inversion Hp; subst.
    apply Hbin. cbn [own_vars]. rewrite Hpe. left; reflexivity.
  - (* Alloc *) cbn [parse] in Hp. discriminate.
  - (* Min *) cbn [parse] in Hp. destruct (forallb is_pu (map (parse pt now) kids)); [|discriminate].
    destruct (length (filter pu_ind_var (map (parse pt now) kids))); [discriminate|].
    inversion Hp; subst. apply Hbin. left; reflexivity.
  - (* Max *) cbn [parse] in Hp. inversion Hp; subst. apply Hbin. right; right; left; reflexivity.
  - (* LessThan *) cbn [parse] in Hp. cbn [own_vars] in Hbin.
    destruct (parse pt now e1) as [|sx ex ux ix]; [discriminate|]. destruct (parse pt now e2) as [|sy ey uy iy]; [discriminate|].
    destruct ex as [vx|kx]; [inversion Hp; subst; apply Hbin; left; reflexivity|].
    destruct sy as [vy|ky]; [inversion Hp; subst; apply Hbin; left; reflexivity|].
    destruct (kx <=? ky); discriminate.
  - (* Scale *) cbn [parse] in Hp. destruct (parse pt now e) as [|s' en' u' i'] eqn:Hk; [discriminate|].
    inversion Hp; subst. rewrite Forall_forall in H.
    apply (H e (or_introl eq_refl)) with (s := s) (en := en) (u := u'); [|exact Hk].
    intros e' d He'. apply Hd. eapply subs_kid; [left; reflexivity|exact He'].
  - (* Objective *) cbn [parse] in Hp. discriminate.
Qed.

Lemma lin_val_ones : forall a l, lin_val a (map (fun i => (1, i)) l) = sumZ (map (aval a) l).
Proof. induction l as [|i l IH]; [reflexivity|]. cbn [map lin_val]. rewrite sumZ_cons, IH. lia. Qed.

Lemma all_equal_sum : forall (l : list Z) (b : Z), (forall x, In x l -> 0 <= x <= 1) -> 0 <= b <= 1 ->
  sumZ l = Z.of_nat (length l) * b -> forall x, In x l -> x = b.
Proof.
  intros l b Hl Hb Hs.
  assert (Hle : forall l', (forall x, In x l' -> 0 <= x <= 1) -> 0 <= sumZ l' <= Z.of_nat (length l')).
  { induction l' as [|y l' IH]; intros H'; [cbn; lia|]. rewrite sumZ_cons. cbn [length].
    assert (0 <= y <= 1) by (apply H'; left; reflexivity).
    assert (0 <= sumZ l' <= Z.of_nat (length l')) by (apply IH; intros; apply H'; right; assumption). lia. }
  assert (Hb01 : b = 0 \/ b = 1) by lia. destruct Hb01 as [Hb0|Hb1]; subst b.
  - rewrite Z.mul_0_r in Hs. clear Hb. induction l as [|y l IH]; intros x Hx; [destruct Hx|].
    rewrite sumZ_cons in Hs. assert (0 <= y <= 1) by (apply Hl; left; reflexivity).
    assert (0 <= sumZ l <= Z.of_nat (length l)) by (apply Hle; intros; apply Hl; right; assumption).
    destruct Hx as [<-|Hx]; [lia|]. apply IH; [intros; apply Hl; right; assumption|lia|exact Hx].
  - rewrite Z.mul_1_r in Hs. clear Hb. induction l as [|y l IH]; intros x Hx; [destruct Hx|].
    rewrite sumZ_cons in Hs. cbn [length] in Hs. assert (0 <= y <= 1) by (apply Hl; left; reflexivity).
    assert (0 <= sumZ l <= Z.of_nat (length l)) by (apply Hle; intros; apply Hl; right; assumption).
    destruct Hx as [<-|Hx]; [lia|]. apply IH; [intros; apply Hl; right; assumption|lia|exact Hx].
Qed.

(* ------------------------------------------------------------------ Min: all (variable-indicator) children or none *)
Theorem min_all_or_none : forall pt now g e cs a n ks,
  compile pt now g e = Ok cs -> sat cs a = true -> In (Min n ks) (subs e) ->
  0 <= a (VInd n) <= 1 /\
  forall k s en u v, In k ks -> parse pt now k = PU s en u (AVar v) -> a v = a (VInd n).
Proof.
  intros pt now g e cs a n ks Hc Hs Hin. pose proof (sat_facts _ _ _ _ _ _ Hc Hs) as F.
  assert (HI : 0 <= a (VInd n) <= 1).
  { assert (D : dom_ok a (ind_decl n) = true) by (apply (f_vars _ _ _ _ _ F _ _ Hin); left; reflexivity).
    unfold dom_ok, ind_decl in D; cbn [vd_ind vd_var] in D. lia. }
  split; [exact HI|]. intros k s en u v Hk Hp.
  set (inds := filter is_var (map pu_ind (filter is_pu (map (parse pt now) ks)))).
  assert (Hmem : In (AVar v) inds).
  { unfold inds. apply filter_In. split; [|reflexivity]. apply in_map_iff. exists (parse pt now k).
    split; [rewrite Hp; reflexivity|]. apply filter_In. split; [apply in_map; exact Hk|rewrite Hp; reflexivity]. }
  assert (Hrow : row_holds a (mkrow EQ (map (fun i => (1, i)) inds ++ [(- Z.of_nat (length inds), AVar (VInd n))]) 0) = true).
  { apply (f_rows _ _ _ _ _ F _ _ Hin). cbn [own_rows]. apply in_or_app. right. fold inds.
    destruct inds as [|i0 inds']; [destruct Hmem|]. left; reflexivity. }
  apply mkrow_EQ in Hrow. rewrite lin_val_app, lin_val_ones in Hrow. cbn [lin_val aval] in Hrow.
  assert (Hall : forall x, In x (map (aval a) inds) -> 0 <= x <= 1).
  { intros x Hx. apply in_map_iff in Hx. destruct Hx as [i [<- Hi]]. unfold inds in Hi.
    apply filter_In in Hi. destruct Hi as [Hi Hv]. destruct i as [w|c]; [|discriminate]. cbn [aval].
    apply in_map_iff in Hi. destruct Hi as [r [Hr Hrin]]. apply filter_In in Hrin. destruct Hrin as [Hrin Hpu].
    apply in_map_iff in Hrin. destruct Hrin as [k' [<- Hk']].
    destruct (parse pt now k') as [|s' en' u' i'] eqn:Hp'; [discriminate|]. cbn [pu_ind] in Hr. subst i'.
    apply (ind_var_binary pt now a k') with (s := s') (en := en') (u := u'); [|exact Hp'].
    intros e' d He'. apply (f_vars _ _ _ _ _ F). eapply subs_trans; [exact Hin|]. eapply subs_kid; [exact Hk'|exact He']. }
  assert (Heq : aval a (AVar v) = a (VInd n)).
  { apply (all_equal_sum (map (aval a) inds) (a (VInd n)) Hall HI); [rewrite map_length; lia|apply in_map; exact Hmem]. }
  exact Heq.
Qed.

(* ------------------------------------------------------------------ Max: at most one child *)
Lemma no_throw_sub : forall pt now e, no_throw pt now e = true -> forall x, In x (subs e) -> no_throw pt now x = true.
Proof.
  intros pt now. induction e using expr_kids_ind. intros Hnt x Hx.
  rewrite subs_children in Hx. destruct Hx as [<-|Hx]; [exact Hnt|].
  apply in_flat_map in Hx. destruct Hx as [k [Hk Hx]]. rewrite Forall_forall in H. apply (H k Hk); [|exact Hx].
  destruct e; cbn [children] in Hk; cbn [no_throw] in Hnt; try (destruct Hk; fail).
  - repeat (apply andb_prop in Hnt; destruct Hnt as [Hnt ?]). rewrite forallb_forall in H0. auto.
  - repeat (apply andb_prop in Hnt; destruct Hnt as [Hnt ?]). rewrite forallb_forall in H1. auto.
  - apply andb_prop in Hnt. destruct Hnt. destruct Hk as [<-|[<-|[]]]; assumption.
  - destruct Hk as [<-|[]]. exact Hnt.
  - discriminate.
Qed.

Lemma sum_two : forall {A} (f : A -> Z) l x y, (forall z, In z l -> 0 <= f z) -> In x l -> In y l -> x <> y ->
  f x + f y <= sumZ (map f l).
Proof.
  induction l as [|z l IH]; intros x y Hnn Hx Hy Hne; [destruct Hx|]. cbn [map]. rewrite sumZ_cons.
  assert (Hz : 0 <= f z) by (apply Hnn; left; reflexivity).
  assert (Hl : forall w, In w l -> 0 <= f w) by (intros; apply Hnn; right; assumption).
  assert (Hone : forall w, In w l -> f w <= sumZ (map f l)).
  { clear -Hl. induction l as [|v l IH]; intros w Hw; [destruct Hw|]. cbn [map]. rewrite sumZ_cons.
    assert (0 <= f v) by (apply Hl; left; reflexivity).
    assert (0 <= sumZ (map f l)) by (apply sumZ_nonneg; intros q Hq; apply in_map_iff in Hq; destruct Hq as [r [<- Hr]]; apply Hl; right; exact Hr).
    destruct Hw as [<-|Hw]; [lia|]. assert (f w <= sumZ (map f l)) by (apply IH; [intros; apply Hl; right; assumption|exact Hw]). lia. }
  destruct Hx as [<-|Hx], Hy as [<-|Hy].
  - congruence.
  - pose proof (Hone y Hy). lia.
  - pose proof (Hone x Hx). lia.
  - pose proof (IH x y Hl Hx Hy Hne). lia.
Qed.

Definition kid_ind (pt : ptab) (now : Z) (a : asg) (k : expr) : Z :=
  if is_pu (parse pt now k) then aval a (pu_ind (parse pt now k)) else 0.

Lemma lin_val_kid_inds : forall pt now a ks,
  lin_val a (map (fun r => (1, pu_ind r)) (filter is_pu (map (parse pt now) ks))) = sumZ (map (kid_ind pt now a) ks).
Proof.
  induction ks as [|k ks IH]; [reflexivity|]. cbn [map filter]. unfold kid_ind at 1.
  destruct (is_pu (parse pt now k)); cbn [map lin_val]; rewrite ?sumZ_cons, IH; lia.
Qed.

Theorem max_at_most_one : forall pt now g e cs a n ks,
  compile pt now g e = Ok cs -> sat cs a = true -> In (Max n ks) (subs e) ->
  0 <= a (VInd n) <= 1 /\
  sumZ (map (kid_ind pt now a) ks) = a (VInd n) /\
  (forall k, In k ks -> 0 <= kid_ind pt now a k <= 1) /\
  (forall k1 k2, In k1 ks -> In k2 ks -> k1 <> k2 -> ~ (kid_ind pt now a k1 = 1 /\ kid_ind pt now a k2 = 1)).
Proof.
  intros pt now g e cs a n ks Hc Hs Hin. pose proof (sat_facts _ _ _ _ _ _ Hc Hs) as F.
  assert (HI : 0 <= a (VInd n) <= 1).
  { assert (D : dom_ok a (ind_decl n) = true) by (apply (f_vars _ _ _ _ _ F _ _ Hin); right; right; left; reflexivity).
    unfold dom_ok, ind_decl in D; cbn [vd_ind vd_var] in D. lia. }
  assert (Hsum : sumZ (map (kid_ind pt now a) ks) = a (VInd n)).
  { assert (Hrow : row_holds a (mkrow EQ (map (fun r => (1, pu_ind r)) (filter is_pu (map (parse pt now) ks)) ++ [(-1, AVar (VInd n))]) 0) = true).
    { apply (f_rows _ _ _ _ _ F _ _ Hin). cbn [own_rows]. right; right; left; reflexivity. }
    apply mkrow_EQ in Hrow. rewrite lin_val_app, lin_val_kid_inds in Hrow. cbn [lin_val aval] in Hrow. lia. }
  assert (Hbin : forall k, In k ks -> 0 <= kid_ind pt now a k <= 1).
  { intros k Hk. unfold kid_ind. destruct (parse pt now k) as [|s en u i] eqn:Hp; cbn [is_pu pu_ind]; [lia|].
    destruct i as [v|c].
    - cbn [aval]. apply (ind_var_binary pt now a k) with (s := s) (en := en) (u := u); [|exact Hp].
      intros e' d He'. apply (f_vars _ _ _ _ _ F). eapply subs_trans; [exact Hin|]. eapply subs_kid; [exact Hk|exact He'].
    - (* a Choose child never has a constant indicator; harmless either way when it is 0 or 1 *)
      destruct (compile_inv _ _ _ _ _ Hc) as [n0 [ks0 [-> [Hnt _]]]].
      assert (Hm : no_throw pt now (Max n ks) = true).
      { rewrite subs_children in Hin. destruct Hin as [Heq|Hin]; [discriminate|]. cbn [children] in Hin.
        apply in_flat_map in Hin. destruct Hin as [k0 [Hk0 Hin]]. rewrite forallb_forall in Hnt.
        apply (no_throw_sub pt now k0 (Hnt k0 Hk0) _ Hin). }
      cbn [no_throw] in Hm. repeat (apply andb_prop in Hm; destruct Hm as [Hm ?]).
      rewrite forallb_forall in H1. specialize (H1 k Hk). destruct k; try discriminate.
      cbn [parse] in Hp. destruct (now >? start); [discriminate|]. destruct (sched pt parts); discriminate. }
  split; [exact HI|]. split; [exact Hsum|]. split; [exact Hbin|].
  intros k1 k2 H1 H2 Hne [E1 E2].
  pose proof (sum_two (kid_ind pt now a) ks k1 k2 (fun z Hz => proj1 (Hbin z Hz)) H1 H2 Hne). lia.
Qed.
