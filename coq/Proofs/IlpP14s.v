(* C14 soundness at the level of plans: the plan read back from ANY satisfying assignment passes the
   decidable specification `feasible_clb` (closed intervals, start >= now + 1, one microsecond
   between parent and child, running tasks occupying [now, now + remaining]) and the objective
   value equals the goodput of that plan. *)
From Coq Require Import ZArith Bool List Lia ZifyBool.
Import ListNotations.
From Verif Require Import Model.Val Gen.Src_Ilp Model.IlpModel Proofs.IlpP Proofs.IlpP11 Proofs.IlpP10 Proofs.IlpP14.
Open Scope Z_scope.

(* well-formed instances: what every reachable scheduler input satisfies *)
Record wf (I : instance) : Prop := mkWf {
  wf_ids : nodup_ids I;
  wf_rt : rt_nonneg I;
  wf_req : req_nonneg I;
  wf_linked : dep_linked I;
  wf_noraise : ilp_raises I = false;
  wf_cap : forall w rq, In w (wenum I) -> In rq (w_res (snd w)) -> 0 <= snd rq;
  wf_remaining : forall t w k st, In t (i_tasks I) -> is_running t = true -> t_prev t = Some (w, k) ->
                 nth_strat t k = Some st -> 0 <= t_remaining t <= s_rt st
}.

Lemma eqlZ_refl : forall l, eqlZ l l = true.
Proof. induction l as [|x l IH]; cbn [eqlZ]; [reflexivity|]. rewrite Z.eqb_refl, IH. reflexivity. Qed.

Lemma find_by_id : forall (f : task -> option (Z * Z * Z)) (l : list task) t, NoDup (map t_id l) -> In t l ->
  find (fun d => fst d =? t_id t) (map (fun t => (t_id t, f t)) l) = Some (t_id t, f t).
Proof.
  induction l as [|x l IH]; intros t Hnd Hin; [contradiction|]. cbn [map find fst]. inversion Hnd as [|? ? Hx Hnd']; subst.
  destruct Hin as [->|Hin].
  - rewrite Z.eqb_refl. reflexivity.
  - destruct (t_id x =? t_id t) eqn:E.
    + exfalso. apply Hx. apply in_map_iff. exists t. split; [lia|exact Hin].
    + apply IH; assumption.
Qed.

Section Sound.
Variable I : instance.
Variable a : assignment.
Hypothesis Hsat : sat (gen_ilp I) a.
Hypothesis Hwf : wf I.

Let p := readback I a.

Lemma plan_get_readback : forall t, In t (nonrunning I) -> plan_get p (t_id t) = Some (decision I a t).
Proof.
  intros t Ht. unfold plan_get, p, readback.
  rewrite (find_by_id (decision I a) (nonrunning I) t); [reflexivity| |exact Ht].
  unfold nonrunning. apply NoDup_map_filter. exact (wf_ids I Hwf).
Qed.

Lemma sits_nonrunning : forall t, In t (nonrunning I) ->
  sits I p t = match decision I a t with
               | Some (s, w, k) => match nth_strat t k with Some st => Some (s, w, k, s_rt st) | None => None end
               | None => None
               end.
Proof.
  intros t Ht. unfold sits. pose proof Ht as Ht'. apply in_nonrunning in Ht'. destruct Ht' as [_ R]. rewrite R.
  rewrite (plan_get_readback t Ht). destruct (decision I a t) as [[[s w] k]|]; reflexivity.
Qed.

Lemma running_valid : forall t, In t (i_tasks I) -> is_running t = true ->
  exists w wk k st, t_prev t = Some (w, k) /\ In (w, wk) (wenum I) /\ In (k, st) (senum t) /\ nth_strat t k = Some st.
Proof.
  intros t Ht R. pose proof (wf_noraise I Hwf) as Hr. unfold ilp_raises in Hr.
  assert (Hv : valid_prev I t = true).
  { destruct (valid_prev I t) eqn:V; [reflexivity|]. exfalso.
    assert (existsb (fun t => hint_raises I t || (is_running t && negb (valid_prev I t))) (i_tasks I) = true).
    { apply existsb_exists. exists t. split; [exact Ht|]. rewrite R, V. apply orb_true_r. }
    congruence. }
  unfold valid_prev in Hv. destruct (t_prev t) as [[w k]|]; [|discriminate].
  apply existsb_exists in Hv. destruct Hv as ([[w' wk] [k' st]] & Hp & E). unfold slot_w, slot_k in E. cbn [fst snd] in E.
  assert (w' = w) by lia. assert (k' = k) by lia. subst.
  apply pairs_inv in Hp. destruct Hp as [Hw Hk]. cbn [fst snd] in Hw, Hk.
  exists w, wk, k, st. repeat split; try assumption. apply senum_nth. exact Hk.
Qed.

Lemma sits_running : forall t, In t (i_tasks I) -> is_running t = true ->
  exists w wk k st, In (w, wk) (wenum I) /\ In (k, st) (senum t) /\ t_prev t = Some (w, k) /\
                    sits I p t = Some (i_now I, w, k, s_rt st) /\ on a t ((w, wk), (k, st)) = 1.
Proof.
  intros t Ht R. destruct (running_valid t Ht R) as (w & wk & k & st & Hp & Hw & Hk & Hn).
  exists w, wk, k, st. repeat split; try assumption.
  - unfold sits. rewrite R, Hp, Hn. reflexivity.
  - unfold on, pv. rewrite R, Hp. unfold slot_w, slot_k. cbn [fst snd]. rewrite !Z.eqb_refl. reflexivity.
Qed.

(* a task sits somewhere in the plan exactly when one of its slot values is 1 *)
Lemma sits_slot : forall t s w k rt, In t (i_tasks I) -> sits I p t = Some (s, w, k, rt) ->
  exists wk st, In (w, wk) (wenum I) /\ In (k, st) (senum t) /\ rt = s_rt st /\ nth_strat t k = Some st /\
                on a t ((w, wk), (k, st)) = 1 /\ st_of I a t = s.
Proof.
  intros t s w k rt Ht Hs. destruct (is_running t) eqn:R.
  - destruct (sits_running t Ht R) as (w' & wk & k' & st & Hw & Hk & Hp & Hs' & O). rewrite Hs' in Hs. inversion Hs; subst.
    exists wk, st. repeat split; try assumption; [apply senum_nth; exact Hk|].
    unfold st_of, startv. rewrite R. cbn [eval_pterm]. apply bridge_running_start.
  - assert (Hn : In t (nonrunning I)) by (apply in_nonrunning; auto). rewrite (sits_nonrunning t Hn) in Hs.
    destruct (decision I a t) as [[[s' w'] k']|] eqn:D; [|discriminate].
    pose proof (decision_slot I a t s' w' k' D) as (Es & wk & st & Hp & _ & Hk & Hone & _). rewrite Hk in Hs. inversion Hs; subst.
    apply pairs_inv in Hp. destruct Hp as [Hw Hks]. cbn [fst snd] in Hw, Hks.
    exists wk, st. repeat split; try assumption. unfold st_of, startv. rewrite R. reflexivity.
Qed.

Lemma placed_in_iff : forall t, In t (i_tasks I) -> placed_in I p t = placedb_a I a t.
Proof.
  intros t Ht. unfold placed_in. destruct (sits I p t) as [[[[s w] k] rt]|] eqn:S.
  - destruct (sits_slot t s w k rt Ht S) as (wk & st & Hw & Hk & _ & _ & O & _). symmetry. unfold placedb_a. apply existsb_exists.
    exists ((w, wk), (k, st)). split; [apply in_pairs; assumption|lia].
  - destruct (placedb_a I a t) eqn:P; [|reflexivity]. exfalso.
    destruct (is_running t) eqn:R.
    + destruct (sits_running t Ht R) as (? & ? & ? & ? & _ & _ & _ & Hs & _). congruence.
    + assert (Hn : In t (nonrunning I)) by (apply in_nonrunning; auto). rewrite (sits_nonrunning t Hn) in S.
      apply (placedb_iff_sum I a Hsat t Ht) in P.
      assert (Hex : exists sl, In sl (pairs I t) /\ slot_hit a t sl = true).
      { apply (placed_sum_hit I a t Hsat Hn). fold (on a t). lia. }
      apply chosen_complete in Hex. unfold decision in S. destruct (chosen I a t) as [[w k]|] eqn:C; [|congruence].
      apply chosen_spec in C. destruct C as (wk & st & _ & Hk & _). rewrite (senum_nth t k st Hk) in S. discriminate.
Qed.

(* ---------------------------------------------------------------- the four parts of feasible_clb *)
Lemma sound_decisions : forall t, In t (nonrunning I) ->
  match plan_get p (t_id t) with Some d => decision_clb I t d | None => false end = true.
Proof.
  intros t Ht. rewrite (plan_get_readback t Ht). unfold decision_clb.
  destruct (decision I a t) as [[[s w] k]|] eqn:D.
  - destruct (C10_decision_valid I a Hsat t s w k Ht D) as (wk & st & Hw & Hk & Hc & Hn & Hr). rewrite Hw, Hk, Hc.
    destruct (enforce_for I t) eqn:E; cbn [negb orb].
    + destruct (C12_deadline_met I a Hsat (wf_rt I Hwf) t Ht E s w k D) as (st' & Hk' & Hd). rewrite Hk in Hk'. inversion Hk'; subst. lia.
    + lia.
  - destruct (is_scheduled t && negb (i_retract I)) eqn:C; [|reflexivity]. exfalso.
    apply andb_true_iff in C. destruct C as [C1 C2]. apply negb_true_iff in C2.
    destruct (sat_placement I a Hsat t Ht) as [_ H1]. specialize (H1 C1 C2).
    assert (Hex : exists sl, In sl (pairs I t) /\ slot_hit a t sl = true) by (apply (placed_sum_hit I a t Hsat Ht); lia).
    apply chosen_complete in Hex. unfold decision in D. destruct (chosen I a t) as [[w k]|]; [discriminate|congruence].
Qed.

Lemma sound_precedence : precedence_clb I p = true.
Proof.
  unfold precedence_clb. apply forallb_forall. intros c Hc.
  destruct (is_running c) eqn:Rc; [reflexivity|]. cbn [orb].
  destruct (placed_in I p c) eqn:Pc; [|reflexivity]. cbn [negb orb].
  assert (Hcn : In c (nonrunning I)) by (apply in_nonrunning; auto).
  unfold placed_in in Pc. destruct (sits I p c) as [[[[sc wc] kc] rtc]|] eqn:Sc; [|discriminate].
  pose proof Sc as Sc'. rewrite (sits_nonrunning c Hcn) in Sc'.
  destruct (decision I a c) as [[[sc' wc'] kc']|] eqn:Dc; [|discriminate].
  destruct (nth_strat c kc') eqn:Nc; [|discriminate]. inversion Sc'; subst.
  apply forallb_forall. intros q Hq.
  assert (Hqin : In q (i_tasks I)) by (unfold decided_parents in Hq; apply filter_In in Hq; tauto).
  unfold start_in at 2. rewrite Sc.
  destruct (is_running q) eqn:Rq.
  - destruct (sits_running q Hqin Rq) as (w & wk & k & st & Hw & Hk & Hp & Hs & _).
    unfold placed_in, start_in, rt_in, dur. rewrite Hs, Rq. cbn [andb].
    destruct (C11_child_after_running_parent I a Hsat c Hcn q Hq Rq w wk k st Hp Hw Hk) as [H1 _].
    pose proof (wf_remaining I Hwf q w k st Hqin Rq Hp (senum_nth q k st Hk)).
    pose proof (decision_slot I a c sc wc kc Dc) as (Es & _). lia.
  - destruct (C11_child_after_parent I a Hsat (wf_ids I Hwf) c sc wc kc Hcn Dc q Hq Rq) as (sp & wp & kp & st & Dq & Nq & Hge).
    assert (Hqn : In q (nonrunning I)) by (apply in_nonrunning; auto).
    unfold placed_in, start_in, rt_in, dur. rewrite (sits_nonrunning q Hqn), Dq, Nq, Rq. cbn [andb]. lia.
Qed.

Lemma req_at_slot : forall t s w k rt st r, sits I p t = Some (s, w, k, rt) -> nth_strat t k = Some st -> req_at I p t r = req st r.
Proof. intros t s w k rt st r Hs Hn. unfold req_at. rewrite Hs, Hn. reflexivity. Qed.

Lemma usage_cl_le_a : forall w wk r tau, In (w, wk) (wenum I) -> usage_cl I p w r tau <= usage_a I a (w, wk) r tau.
Proof.
  intros w wk r tau Hw. unfold usage_cl, usage_a. apply sum_list_le. intros t Ht.
  assert (H0 : 0 <= sum_list (fun ks => if active_a I a t ((w, wk), ks) tau then req (snd ks) r else 0) (senum t)).
  { apply sum_list_nonneg. intros ks Hks. pose proof (req_ge0 I (wf_req I Hwf) t ks r Ht Hks). destruct (active_a _ _ _ _ _); lia. }
  destruct (active_cl I p t w tau) eqn:A; [|exact H0].
  unfold active_cl in A. destruct (sits I p t) as [[[[s w'] k] rt]|] eqn:S; [|discriminate].
  destruct (sits_slot t s w' k rt Ht S) as (wk' & st & Hw' & Hk & Ert & Hn & O & Est).
  assert (w' = w) by lia. subst w'.
  assert (wk' = wk) by (eapply zenum_fst_inj; eassumption). subst wk'.
  rewrite (req_at_slot t s w k rt st r S Hn).
  assert (Hdur : dur t rt <= rt).
  { unfold dur. destruct (is_running t) eqn:R; [|lia].
    destruct (sits_running t Ht R) as (w2 & wk2 & k2 & st2 & _ & Hk2 & Hp2 & Hs2 & _).
    pose proof (wf_remaining I Hwf t w2 k2 st2 Ht R Hp2 (senum_nth t k2 st2 Hk2)) as Hrem.
    rewrite Hs2 in S. injection S as E1 E2 E3 E4. lia. }
  assert (Hact : active_a I a t ((w, wk), (k, st)) tau = true).
  { unfold active_a. rewrite O, Est. change (slot_rt ((w, wk), (k, st))) with (s_rt st).
    set (d := dur t rt) in *. clearbody d. clear - A Ert Hdur. lia. }
  pose proof (sum_list_member_le _ (fun ks => if active_a I a t ((w, wk), ks) tau then req (snd ks) r else 0) (senum t) (k, st)) as Hm.
  cbn beta in Hm. rewrite Hact in Hm. cbn [snd] in Hm. apply Hm; [|exact Hk].
  intros ks Hks. pose proof (req_ge0 I (wf_req I Hwf) t ks r Ht Hks) as Hq. cbn beta. clear - Hq. destruct (active_a I a t (w, wk, ks) tau); lia.
Qed.

Lemma sound_capacity_all_instants : forall w wk rq tau, In (w, wk) (wenum I) -> In rq (w_res wk) ->
  usage_cl I p w (fst rq) tau <= snd rq.
Proof.
  intros w wk rq tau Hw Hrq.
  pose proof (usage_cl_le_a w wk (fst rq) tau Hw).
  pose proof (capacity_never_exceeded I a Hsat (wf_ids I Hwf) (wf_rt I Hwf) (wf_req I Hwf) (wf_linked I Hwf) (w, wk) rq tau Hw Hrq
                (wf_cap I Hwf (w, wk) rq Hw Hrq)). lia.
Qed.
Lemma sound_capacity : capacity_clb I p = true.
Proof.
  unfold capacity_clb. apply forallb_forall. intros tau _. apply forallb_forall. intros [w wk] Hw.
  apply forallb_forall. intros rq Hrq. cbn [fst snd] in *. pose proof (sound_capacity_all_instants w wk rq tau Hw Hrq). lia.
Qed.

Theorem readback_feasible : feasible_clb I p = true.
Proof.
  unfold feasible_clb. rewrite sound_precedence, sound_capacity, !andb_true_r. apply andb_true_iff. split.
  - unfold p. rewrite C10_one_decision_each. apply eqlZ_refl.
  - apply forallb_forall. exact sound_decisions.
Qed.

Theorem objective_is_plan_goodput : i_goal I = Goodput -> objective (gen_ilp I) a = goodput I p.
Proof.
  intros Hg. rewrite (objective_is_goodput I a Hsat Hg). unfold goodput_a, goodput. apply sum_list_ext. intros g _.
  assert (E : forall l, (forall t, In t l -> In t (i_tasks I)) -> forallb (placedb_a I a) l = forallb (placed_in I p) l).
  { induction l as [|t l IH]; intros Hl; [reflexivity|]. cbn [forallb]. rewrite (placed_in_iff t (Hl t (or_introl eq_refl))), IH; [reflexivity|].
    intros t' Ht'. apply Hl. right; exact Ht'. }
  rewrite (E (reward_tasks I g) (fun t Ht => reward_task_in I g t Ht)). reflexivity.
Qed.
End Sound.

(* non-vacuity: the chain example is well-formed *)
Lemma ex_chain_wf : wf ex_chain.
Proof.
  constructor.
  - unfold nodup_ids; cbn; repeat constructor; cbn; intuition discriminate.
  - apply rt_nonnegb_spec; reflexivity.
  - intros t s rq Ht Hs Hrq. cbn in Ht. destruct Ht as [<-|[<-|[]]]; cbn in Hs; repeat destruct Hs as [<-|Hs]; try contradiction;
      cbn in Hrq; destruct Hrq as [<-|[]]; cbn; lia.
  - intros x y Hx Hy D. cbn in Hx, Hy. destruct Hx as [<-|[<-|[]]]; destruct Hy as [<-|[<-|[]]]; try discriminate D.
    + left. apply linked_step; [right; left; reflexivity|left; reflexivity].
    + right. apply linked_step; [right; left; reflexivity|left; reflexivity].
  - reflexivity.
  - intros w rq Hw Hrq. cbn in Hw. destruct Hw as [<-|[]]. cbn in Hrq. destruct Hrq as [<-|[]]. cbn. lia.
  - intros t w k st Ht R. cbn in Ht. destruct Ht as [<-|[<-|[]]]; discriminate R.
Qed.

(* the simulator's truth (half-open intervals) is implied by the closed-interval bound *)
Lemma req_at_nonneg : forall I p t r, req_nonneg I -> In t (i_tasks I) -> 0 <= req_at I p t r.
Proof.
  intros I p t r Hreq Ht. unfold req_at. destruct (sits I p t) as [[[[s w] k] rt]|]; [|lia].
  destruct (nth_strat t k) as [st|] eqn:N; [|lia]. unfold req. apply qty_nonneg. intros rq Hrq.
  unfold nth_strat in N. destruct (k <? 0); [discriminate|]. apply nth_error_In in N. eapply Hreq; eassumption.
Qed.
Lemma usage_ho_le_cl : forall I p w r tau, req_nonneg I -> usage_ho I p w r tau <= usage_cl I p w r tau.
Proof.
  intros I p w r tau Hreq. unfold usage_ho, usage_cl. apply sum_list_le. intros t Ht.
  pose proof (req_at_nonneg I p t r Hreq Ht) as H0. unfold active_ho, active_cl.
  destruct (sits I p t) as [[[[s w'] k] rt]|]; [|lia].
  destruct ((w' =? w) && (s <=? tau) && (tau <? s + dur t rt)) eqn:A.
  - replace ((w' =? w) && (s <=? tau) && (tau <=? s + dur t rt)) with true; [lia|]. symmetry.
    set (d := dur t rt) in *. clearbody d. clear - A. lia.
  - destruct ((w' =? w) && (s <=? tau) && (tau <=? s + dur t rt)); lia.
Qed.
Theorem plan_capacity_every_instant : forall I a, sat (gen_ilp I) a -> wf I ->
  forall w wk rq tau, In (w, wk) (wenum I) -> In rq (w_res wk) ->
  usage_cl I (readback I a) w (fst rq) tau <= snd rq /\ usage_ho I (readback I a) w (fst rq) tau <= snd rq.
Proof.
  intros I a Hsat Hwf w wk rq tau Hw Hrq. pose proof (sound_capacity_all_instants I a Hsat Hwf w wk rq tau Hw Hrq).
  pose proof (usage_ho_le_cl I (readback I a) w (fst rq) tau (wf_req I Hwf)). lia.
Qed.
Theorem C14_sound : forall I a, sat (gen_ilp I) a -> wf I -> i_goal I = Goodput ->
  feasible_clb I (readback I a) = true /\ objective (gen_ilp I) a = goodput I (readback I a).
Proof. intros I a Hsat Hwf Hg. split; [apply readback_feasible; assumption|apply objective_is_plan_goodput; assumption]. Qed.
Lemma C14_sound_nonvacuous : exists I a, sat (gen_ilp I) a /\ wf I /\ i_goal I = Goodput /\ goodput I (readback I a) = 1.
Proof. exists ex_chain, ex_chain_asg. split; [exact ex_chain_sat|]. split; [exact ex_chain_wf|]. split; reflexivity. Qed.
