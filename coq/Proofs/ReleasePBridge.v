(* C19 bridge: the decisive comparisons / arithmetic TRANSLATED from the source (Gen/Src_Release.v, regenerated on
   every run by translator/frag_release.py) are the ones the hand-written model uses.  An edit of jobs.py /
   workload.py / utils.py that changes one of them changes the generated definition and breaks a lemma here. *)
From Coq Require Import ZArith Bool List Lia ZifyBool.
Import ListNotations.
From Verif Require Import Model.Val Gen.Src_Time Proofs.TimeP Model.Release Gen.Src_Release Proofs.ReleaseP1.
Open Scope Z_scope.

(* PERIODIC: np.arange(start_us, horizon_us, period_us) *)
Lemma bridge_periodic p c zd fd : p_type p = PERIODIC -> p_n p <> 0 ->
  get_release_times p c zd fd =
  let '(a, b, s) := src_periodic_args (us (p_start p)) (et_time (p_start p)) (us c) (et_time c)
                                      (us (p_period p)) (et_time (p_period p)) (p_n p) in
  bind (py_range a b s) (fun l => Ok (map us_time l)).
Proof.
  intros Ht Hn. unfold get_release_times, src_periodic_args. destruct (p_n p =? 0) eqn:E; [lia|].
  rewrite Ht, !to_us_ok. reflexivity.
Qed.

(* FIXED: np.linspace(start_us, start_us + period_us * N, num=N, endpoint=False) *)
Lemma bridge_fixed su sr cu cr pu pr n : src_fixed_args su sr cu cr pu pr n = (su, su + pu * n, n).
Proof. reflexivity. Qed.

(* POISSON / GAMMA: N - 1 draws; the running time starts from the start IN MICROSECONDS *)
Lemma bridge_poisson p c zd fd : p_type p = POISSON -> p_n p <> 0 ->
  get_release_times p c zd fd =
  bind (poisson_args (p_rate p)) (fun _ => bind (draw_array (src_poisson_size (p_n p)) zd) (fun ds =>
  bind (poisson_acc (p_start p) ds) (fun rest => Ok (p_start p :: rest)))).
Proof.
  intros Ht Hn. unfold get_release_times, src_poisson_size. destruct (p_n p =? 0) eqn:E; [lia|]. rewrite Ht. reflexivity.
Qed.
Lemma bridge_gamma p c zd fd : p_type p = GAMMA -> p_n p <> 0 ->
  get_release_times p c zd fd =
  bind (gamma_args (p_coef p) (p_rate p)) (fun _ => bind (draw_array (src_gamma_size (p_n p)) fd) (fun ds =>
  Ok (gamma_times (src_gamma_seed (us (p_start p)) (et_time (p_start p))) ds))).
Proof.
  intros Ht Hn. unfold get_release_times, src_gamma_size, src_gamma_seed. destruct (p_n p =? 0) eqn:E; [lia|]. rewrite Ht.
  destruct (gamma_args (p_coef p) (p_rate p)); cbn [bind]; [|reflexivity].
  destruct (draw_array (p_n p - 1) fd); cbn [bind]; [|reflexivity]. rewrite to_us_ok. reflexivity.
Qed.
Lemma bridge_fixed_gamma_seed u r : src_fixed_and_gamma_seed u r = u.
Proof. reflexivity. Qed.

(* CLOSED_LOOP: the initial releases and the bookkeeping of get_next_task_graph / generate_task_graphs *)
Lemma bridge_closed_loop p c zd fd : p_type p = CLOSED_LOOP -> p_n p <> 0 ->
  get_release_times p c zd fd = Ok (repeat (p_start p) (Z.to_nat (src_cl_num (p_conc p) (p_n p)))).
Proof.
  intros Ht Hn. unfold get_release_times, src_cl_num. destruct (p_n p =? 0) eqn:E; [lia|]. rewrite Ht. reflexivity.
Qed.
Lemma bridge_cl_init conc n :
  let k := Z.to_nat (src_cl_num conc n) in
  cl_remaining (cl_init conc n) = src_init_remaining n (Z.of_nat k) /\
  cl_index (cl_init conc n) = src_init_index n (Z.of_nat k) /\
  cl_live (cl_init conc n) = map Z.of_nat (seq 0 k).
Proof. unfold cl_init, src_cl_num, src_init_remaining, src_init_index. cbn. repeat split. Qed.
Lemma bridge_cl_notify s g :
  cl_notify s g =
  if negb (zmem g (cl_all s)) then Err 1
  else let live' := zremove g (cl_live s) in
       if src_next_guard (cl_remaining s)
       then let i := src_next_index (cl_index s) in
            Ok (mkCL (src_next_remaining (cl_remaining s)) i (live' ++ [i]) (cl_all s ++ [i]) (cl_total s + 1), Some i)
       else Ok (mkCL (cl_remaining s) (cl_index s) live' (cl_all s) (cl_total s), None).
Proof. reflexivity. Qed.
Lemma bridge_rerelease_offset : src_rerelease_offset = 1.
Proof. reflexivity. Qed.

(* task release times of _generate_task_graph *)
Lemma bridge_task_release jg release d1 order next :
  build_tasks jg release d1 order next =
  fold_left (fun acc i => bind acc (fun st =>
          let '(m, tasks, nid) := st in
          match find_job i (jg_jobs jg) with
          | None => Err 5
          | Some j =>
              let t := mkTask nid i (j_name j)
                              (if g_is_source (jg_graph jg) i then release
                               else mkET (src_task_release false (et_time release)) U_US) d1 (j_prob j) in
              Ok (name_set (j_name j) t m, tasks ++ [t], nid + 1)
          end)) order (Ok ([], [], next)).
Proof. reflexivity. Qed.
Lemma bridge_task_release_source r : src_task_release true r = r.
Proof. reflexivity. Qed.

(* EventTime.fuzz: the clamp with its argument order, the rounding, and the interval handed to uniform *)
Lemma bridge_fuzz t u minb maxb :
  fuzz_time t u minb maxb = src_fuzz_result t (src_fuzz_clamp (NZ minb) (NZ maxb) (NF u)).
Proof. reflexivity. Qed.
Lemma bridge_fuzz_interval t minv maxv : src_fuzz_interval t minv maxv = (t * Z.abs minv, t * Z.abs maxv).
Proof. reflexivity. Qed.
Lemma bridge_uniform_request t minv maxv :
  uniform_request (t, minv, maxv) =
  let '(a, b) := src_fuzz_interval t minv maxv in
  vres (fun x => x) (bind (fl_div (fl_of_Z a) (mkF 100 0)) (fun x =>
                     bind (fl_div (fl_of_Z b) (mkF 100 0)) (fun y => Ok (L [vfl x; vfl y])))).
Proof. reflexivity. Qed.
