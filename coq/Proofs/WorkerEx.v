(* Non-vacuity: the hypotheses of the C04 / C01 theorems are satisfied by non-trivial states. *)
From Coq Require Import ZArith Bool List Lia.
Import ListNotations.
From Verif Require Import Model.Val Model.Res Model.Worker Proofs.ResP Proofs.ResP2 Proofs.WorkerP Proofs.WorkerP2
  Proofs.WorkerP3 Proofs.WorkerP4 Proofs.ResP3.
Open Scope Z_scope.

Definition ex_vec : rvec := [((0, RId 0), 1); ((0, RId 1), 1); ((1, RAny), 2)].
Definition ex_plain : strategy := mkStrat 0 false [((0, RAny), 1)] 1 3.
Definition ex_batch : strategy := mkStrat 1 true [((1, RAny), 2); ((0, RId 1), 1)] 2 3.
Definition ex_tbl (_ : Z) : strategy := ex_batch.
Definition ex_ops : list wop :=
  [WPlace 0 ex_plain; WPlace 1 ex_batch; WPlace 2 ex_batch; WRemove 0; WLoad 0 ex_plain; WStep 1].

Lemma ex_nn_plain : nonneg_vec (s_req ex_plain).
Proof. repeat constructor; cbn; lia. Qed.
Lemma ex_nn_batch : nonneg_vec (s_req ex_batch).
Proof. repeat constructor; cbn; lia. Qed.

(* a reachable worker state with a plain task removed, a batch of two members resident, a profile
   loading, part of the vector allocated: all hypotheses hold along the way *)
Example ex_reach : exists w, w_reach ex_tbl (w_new 0 ex_vec) w /\
  w_placed w <> [] /\ w_batches w <> [] /\ w_pend_prof w <> [] /\ r_allocs (w_res w) <> [] /\
  r_avail (w_res w) <> r_total (w_res w).
Proof.
  exists (w_run ex_ops (w_new 0 ex_vec)). split.
  - unfold ex_ops, w_run. cbn [fold_left].
    apply reachS; [apply reachS; [apply reachS; [apply reachS; [apply reachS; [apply reachS; [apply reach0|]|]|]|]|]|].
    + cbn. discriminate.
    + cbn. reflexivity.
    + cbn. reflexivity.
    + exact Logic.I.
    + split; reflexivity.
    + exact Logic.I.
  - vm_compute. repeat split; discriminate.
Qed.
Example ex_initial : forall id, WInv ex_tbl (w_new id ex_vec).
Proof. intro id. apply winv_new; [repeat constructor; cbn; intuition discriminate|repeat constructor; cbn; lia]. Qed.

(* a reachable pool state with tasks on two workers *)
Example ex_pool_reach : exists P, p_reach ex_tbl (p_new 0 [w_new 0 ex_vec; w_new 1 ex_vec]) P /\ List.length (p_placed P) = 2%nat /\
  PInv ex_tbl (p_new 0 [w_new 0 ex_vec; w_new 1 ex_vec]).
Proof.
  exists (p_run [PPlace 0 [ex_plain] (Some ex_plain) (Some 1); PPlace 1 [ex_batch] None None] (p_new 0 [w_new 0 ex_vec; w_new 1 ex_vec])).
  split; [|split].
  - unfold p_run. cbn [fold_left]. apply preachS; [apply preachS; [apply preach0|]|].
    + cbn. split.
      * constructor; [|constructor]. unfold strat_wf. discriminate.
      * intros s E. inversion E; subst. unfold strat_wf. discriminate.
    + cbn. split.
      * constructor; [|constructor]. unfold strat_wf. reflexivity.
      * intros s E. discriminate.
  - vm_compute. reflexivity.
  - apply pinv_new.
    + cbn. repeat constructor; cbn; intuition discriminate.
    + constructor; [apply ex_initial|constructor; [apply ex_initial|constructor]].
    + repeat constructor.
Qed.

(* a copy of a ledger with allocations is that ledger *)
Example ex_copy : exists R', r_copy (w_res (w_run ex_ops (w_new 0 ex_vec))) = Ok R' /\ r_allocs R' <> [] /\
  R' = w_res (w_run ex_ops (w_new 0 ex_vec)).
Proof. eexists. vm_compute. split; [reflexivity|split; [discriminate|reflexivity]]. Qed.
