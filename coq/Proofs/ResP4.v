(* "It fits" implies "the allocation succeeds" when the request names each resource at most once;
   false for requests whose keys compete for the same cells (the check of can_accomodate_strategy /
   allocate_multiple looks at each key on its own). *)
From Coq Require Import ZArith Bool List Lia ZifyBool.
Import ListNotations.
From Verif Require Import Model.Val Model.Res Model.Worker Proofs.ResP Proofs.ResP2.
Open Scope Z_scope.

Lemma res_match_name : forall a b, res_match a b = true -> fst a = fst b.
Proof. intros a b H. unfold res_match in H. apply andb_true_iff in H. destruct H as [H _]. lia. Qed.

Lemma alloc_loop_other_name : forall r r' v rem v' recs, fst r' <> fst r -> alloc_loop r rem v = (v', recs) ->
  vec_quantity v' r' = vec_quantity v r'.
Proof.
  intros r r'. unfold vec_quantity. induction v as [|[k q] v IH]; intros rem v' recs Hn H; cbn [alloc_loop] in H.
  - inversion H; reflexivity.
  - destruct (res_match k r) eqn:Em.
    + assert (Hk : res_match k r' = false).
      { destruct (res_match k r') eqn:E; [|reflexivity]. apply res_match_name in E. apply res_match_name in Em. congruence. }
      destruct (rem <=? q).
      * inversion H; subst. cbn [sumP]. rewrite Hk. reflexivity.
      * destruct (rem - q =? 0).
        -- inversion H; subst. destruct (0 <? q); cbn [sumP]; rewrite Hk; reflexivity.
        -- destruct (alloc_loop r (rem - q) v) as [v'' rs] eqn:El. inversion H; subst.
           destruct (0 <? q); cbn [sumP]; rewrite Hk, (IH _ _ _ Hn El); reflexivity.
    + destruct (rem =? 0).
      * inversion H; subst. reflexivity.
      * destruct (alloc_loop r rem v) as [v'' rs] eqn:El. inversion H; subst. cbn [sumP]. rewrite (IH _ _ _ Hn El). reflexivity.
Qed.
Lemma allocate_other_name : forall R r c q R' o r', fst r' <> fst r -> r_allocate R r c q = (R', o) ->
  r_available R' r' = r_available R r'.
Proof.
  intros R r c q R' o r' Hn H. unfold r_allocate in H. destruct (r_available R r <? q); [inversion H; reflexivity|].
  destruct (alloc_loop r q (r_avail R)) as [v recs] eqn:El. inversion H; subst. unfold r_available. cbn [r_avail].
  eapply alloc_loop_other_name; eauto.
Qed.

Definition req_names (req : rvec) : list Z := map (fun rq => fst (fst rq)) req.

Lemma alloc_seq_fits : forall req R c, NoDup (req_names req) ->
  (forall rq, In rq req -> snd rq <= r_available R (fst rq)) ->
  exists R', alloc_seq R req c = (R', Ok tt).
Proof.
  induction req as [|[r q] req IH]; intros R c Hnd Hfit; cbn [alloc_seq]; [eauto|].
  cbn [req_names map fst] in Hnd. inversion Hnd as [|x y N1 N2]; subst.
  destruct (r_allocate R r c q) as [R1 [[]|e]] eqn:Ea.
  - apply IH; [exact N2|]. intros rq Hin.
    assert (Hne : fst (fst rq) <> fst r).
    { intro E. apply N1. unfold req_names. apply in_map_iff. exists rq. split; [exact E|exact Hin]. }
    rewrite (allocate_other_name _ _ _ _ _ _ (fst rq) Hne Ea). apply Hfit. right. exact Hin.
  - exfalso. unfold r_allocate in Ea. specialize (Hfit (r, q) (or_introl eq_refl)). cbn [fst snd] in Hfit.
    destruct (r_available R r <? q) eqn:E; [lia|]. destruct (alloc_loop r q (r_avail R)). discriminate.
Qed.

Theorem fit_implies_success : forall R req c, NoDup (req_names req) -> r_gt R req = true ->
  exists R', r_allocate_multiple R req c = (R', Ok tt).
Proof.
  intros R req c Hnd Hfit. unfold r_gt in Hfit. rewrite forallb_forall in Hfit. unfold r_allocate_multiple.
  assert (E : existsb (fun rq => r_available R (fst rq) <? snd rq) req = false).
  { destruct (existsb _ req) eqn:E; [|reflexivity]. apply existsb_exists in E. destruct E as (rq & Hin & Hlt). specialize (Hfit rq Hin). lia. }
  rewrite E. destruct (alloc_seq_fits req R c Hnd) as (R' & Es); [intros rq Hin; specialize (Hfit rq Hin); lia|].
  rewrite Es. eauto.
Qed.
(* the worker level: after can_accomodate_strategy said yes (because the resources fit), placing a
   plain strategy, or the first member of a batch, never raises *)
Theorem w_fit_place_succeeds : forall t s w, NoDup (req_names (s_req s)) -> r_gt (w_res w) (s_req s) = true ->
  (s_is_batch s = true -> 1 <= s_bsize s /\ zfind (s_id s) (w_batches w) = None) ->
  snd (w_place t s w) = Ok tt.
Proof.
  intros t s w Hnd Hfit Hb. unfold w_place. destruct (s_is_batch s).
  - destruct (Hb eq_refl) as [Hs Hz]. rewrite Hz. destruct (s_bsize s <? 1) eqn:E; [lia|].
    destruct (fit_implies_success (w_res w) (s_req s) (CBatch (w_fresh w)) Hnd Hfit) as (R' & ->). reflexivity.
  - destruct (fit_implies_success (w_res w) (s_req s) (CTask t) Hnd Hfit) as (R' & ->). reflexivity.
Qed.

(* without the hypothesis: it fits, yet the placement is refused (keys competing for the same units) *)
Lemma fit_not_success_refuted : exists R req c R' e, r_gt R req = true /\ r_allocate_multiple R req c = (R', Err e).
Proof.
  exists (r_new [((0, RId 0), 1); ((0, RId 1), 1)]), [((0, RAny), 1); ((0, RId 0), 1)], (CTask 0).
  eexists. eexists. vm_compute. split; reflexivity.
Qed.
