(* The fit test Resources.__gt__ (as of /repo 402c33a it plays the requests in order on a scratch copy
   of the available vector) says yes EXACTLY when allocate_multiple serves the request: a request that
   passes the fit test is never refused, and a request that is refused did not pass it.  For requests
   that name each resource once it coincides with the older per-key test. *)
From Coq Require Import ZArith Bool List Lia ZifyBool.
Import ListNotations.
From Verif Require Import Model.Val Model.Res Model.Worker Proofs.ResP Proofs.ResP2 Proofs.WorkerP2.
Open Scope Z_scope.

Lemma res_match_name : forall a b, res_match a b = true -> fst a = fst b.
Proof. intros a b H. unfold res_match in H. apply andb_true_iff in H. destruct H as [H _]. lia. Qed.

Lemma gt_take_zero : forall r v, gt_take r 0 v = (v, 0).
Proof.
  intros r. induction v as [|[k q] v IH]; cbn [gt_take]; [reflexivity|].
  rewrite andb_false_r. rewrite IH. reflexivity.
Qed.

(* when there is enough, the scratch play of one request leaves exactly the vector allocate leaves *)
Lemma gt_take_alloc : forall r v rem v' recs, nonneg_vec v -> 0 <= rem <= vec_quantity v r ->
  alloc_loop r rem v = (v', recs) -> gt_take r rem v = (v', 0).
Proof.
  intros r. unfold vec_quantity. induction v as [|[k q] v IH]; intros rem v' recs Hn Hr H; cbn [alloc_loop] in H; cbn [gt_take sumP] in *.
  - inversion H; subst. f_equal. lia.
  - inversion Hn as [|x l H1 H2]; subst. cbn [snd] in H1.
    destruct (res_match k r) eqn:Em; cbn [andb].
    + destruct (rem <=? q) eqn:E1.
      * inversion H; subst. destruct (0 <? rem) eqn:E0.
        -- replace (Z.min q rem) with rem by lia. replace (rem - rem) with 0 by lia. rewrite gt_take_zero. reflexivity.
        -- assert (rem = 0) by lia. subst rem. rewrite gt_take_zero. f_equal. f_equal. f_equal. lia.
      * destruct (rem - q =? 0) eqn:E2; [lia|].
        destruct (alloc_loop r (rem - q) v) as [v'' rs] eqn:El. inversion H; subst.
        destruct (0 <? rem) eqn:E0; [|lia]. replace (Z.min q rem) with q by lia.
        rewrite (IH (rem - q) v'' rs H2); [|lia|exact El]. f_equal. f_equal.
        destruct (0 <? q) eqn:E3; f_equal; lia.
    + destruct (rem =? 0) eqn:E0.
      * inversion H; subst. assert (rem = 0) by lia. subst rem. rewrite gt_take_zero. reflexivity.
      * destruct (alloc_loop r rem v) as [v'' rs] eqn:El. inversion H; subst.
        rewrite (IH rem v'' recs H2); [reflexivity|lia|exact El].
Qed.
(* what is left unserved *)
Lemma gt_take_rem : forall r v rem, nonneg_vec v -> 0 <= rem -> snd (gt_take r rem v) = Z.max 0 (rem - vec_quantity v r).
Proof.
  intros r. unfold vec_quantity. induction v as [|[k q] v IH]; intros rem Hn Hr; cbn [gt_take sumP snd].
  - lia.
  - inversion Hn as [|x l H1 H2]; subst. cbn [snd] in H1. pose proof (sumP_nonneg (fun k0 => res_match k0 r) v H2) as Hs.
    destruct (res_match k r) eqn:Em; cbn [andb].
    + destruct (0 <? rem) eqn:E0.
      * destruct (gt_take r (rem - Z.min q rem) v) as [v'' rem'] eqn:Eg. cbn [snd].
        pose proof (IH (rem - Z.min q rem) H2) as X. rewrite Eg in X. cbn [snd] in X. rewrite X by lia. lia.
      * destruct (gt_take r rem v) as [v'' rem'] eqn:Eg. cbn [snd].
        pose proof (IH rem H2 Hr) as X. rewrite Eg in X. cbn [snd] in X. rewrite X. lia.
    + destruct (gt_take r rem v) as [v'' rem'] eqn:Eg. cbn [snd].
      pose proof (IH rem H2 Hr) as X. rewrite Eg in X. cbn [snd] in X. rewrite X. lia.
Qed.

Lemma allocate_ok_iff : forall R r c q, 0 <= q -> ((exists R', r_allocate R r c q = (R', Ok tt)) <-> q <= r_available R r).
Proof.
  intros R r c q Hq. unfold r_allocate. destruct (q <? 0) eqn:E0; [lia|]. destruct (r_available R r <? q) eqn:E.
  - split; [intros (R' & X); discriminate|lia].
  - destruct (alloc_loop r q (r_avail R)) as [v recs]. split; [lia|eauto].
Qed.

Theorem gt_play_iff_seq : forall req R c, Nonneg R -> nonneg_vec req ->
  (gt_play (r_avail R) req = true <-> exists R', alloc_seq R req c = (R', Ok tt)).
Proof.
  induction req as [|[r q] req IH]; intros R c HN Hq; cbn [gt_play alloc_seq].
  - split; eauto.
  - inversion Hq as [|x l Hq1 Hq2]; subst. cbn [snd] in Hq1.
    destruct (r_available R r <? q) eqn:Ea.
    + (* not enough: the play leaves something unserved, allocate raises *)
      pose proof (gt_take_rem r (r_avail R) q (nn_avail _ HN) Hq1) as X.
      destruct (gt_take r q (r_avail R)) as [v' rem]. cbn [snd] in X. unfold r_available in Ea.
      destruct (0 <? rem) eqn:E0; [|lia].
      unfold r_allocate, r_available. rewrite Ea. destruct (q <? 0); (split; [discriminate|intros (R' & Y); discriminate]).
    + (* enough: both leave the same vector *)
      unfold r_allocate. destruct (q <? 0) eqn:E0; [lia|]. rewrite Ea. destruct (alloc_loop r q (r_avail R)) as [v recs] eqn:El.
      rewrite (gt_take_alloc r (r_avail R) q v recs (nn_avail _ HN)); [|unfold r_available in Ea; lia|exact El].
      cbn [Z.ltb Z.compare]. set (R1 := mkRes v (r_total R) (al_append c recs (r_allocs R))).
      assert (HN1 : Nonneg R1).
      { apply (nonneg_allocate R r c q R1 (Ok tt) Hq1 HN). unfold r_allocate. rewrite E0, Ea, El. reflexivity. }
      apply (IH R1 c HN1 Hq2).
Qed.

(* allocations only lower the available quantities *)
Lemma allocate_lowers : forall R r c q R' o P, Nonneg R -> 0 <= q -> r_allocate R r c q = (R', o) ->
  sumP P (r_avail R') <= sumP P (r_avail R).
Proof.
  intros R r c q R' o P HN Hq H. unfold r_allocate in H. destruct (q <? 0); [inversion H; lia|]. destruct (r_available R r <? q); [inversion H; lia|].
  destruct (alloc_loop r q (r_avail R)) as [v recs] eqn:El. inversion H; subst. cbn [r_avail].
  destruct (alloc_loop_spec _ _ _ _ _ El) as (C & _ & _ & _ & Rn). specialize (C P).
  pose proof (sumP_nonneg P recs (Rn Hq)). lia.
Qed.
Lemma alloc_seq_ok_per_key : forall req R c R', Nonneg R -> nonneg_vec req -> alloc_seq R req c = (R', Ok tt) ->
  forall rq, In rq req -> snd rq <= r_available R (fst rq).
Proof.
  induction req as [|[r q] req IH]; intros R c R' HN Hq H rq Hin; [destruct Hin|].
  inversion Hq as [|x l Hq1 Hq2]; subst. cbn [snd] in Hq1. cbn [alloc_seq] in H.
  destruct (r_allocate R r c q) as [R1 [[]|e]] eqn:Ea; [|discriminate].
  destruct Hin as [Hin|Hin].
  - subst rq. cbn [fst snd]. apply (allocate_ok_iff R r c q Hq1). eauto.
  - pose proof (IH R1 c R' (nonneg_allocate _ _ _ _ _ _ Hq1 HN Ea) Hq2 H rq Hin) as X.
    pose proof (allocate_lowers R r c q R1 (Ok tt) (fun k => res_match k (fst rq)) HN Hq1 Ea) as Y.
    unfold r_available, vec_quantity in *. lia.
Qed.

(* THE theorem: the fit test says yes exactly when allocate_multiple serves the request *)
Theorem gt_iff_success : forall R req c, Nonneg R -> nonneg_vec req ->
  (r_gt R req = true <-> exists R', r_allocate_multiple R req c = (R', Ok tt)).
Proof.
  intros R req c HN Hq. unfold r_gt. rewrite (gt_play_iff_seq req R c HN Hq). unfold r_allocate_multiple. split.
  - intros (R' & Es).
    assert (E : existsb (fun rq => r_available R (fst rq) <? snd rq) req = false).
    { destruct (existsb _ req) eqn:E; [|reflexivity]. apply existsb_exists in E. destruct E as (rq & Hin & Hlt).
      pose proof (alloc_seq_ok_per_key req R c R' HN Hq Es rq Hin). lia. }
    rewrite E, Es. eauto.
  - intros (R' & H). destruct (existsb _ req); [discriminate|].
    destruct (alloc_seq R req c) as [R1 [[]|e]]; [eauto|discriminate].
Qed.
Corollary fit_never_refused : forall R req c R' e, Nonneg R -> nonneg_vec req ->
  r_gt R req = true -> r_allocate_multiple R req c <> (R', Err e).
Proof.
  intros R req c R' e HN Hq Hg H. apply (gt_iff_success R req c HN Hq) in Hg. destruct Hg as (R2 & E). congruence.
Qed.

(* ---- the older per-key test ---- *)
Lemma alloc_loop_other_name : forall r r' v rem v' recs, fst r' <> fst r -> alloc_loop r rem v = (v', recs) ->
  vec_quantity v' r' = vec_quantity v r'.
Proof.
  intros r r'. unfold vec_quantity. induction v as [|[k q] v IH]; intros rem v' recs Hn H; cbn [alloc_loop] in H.
  - inversion H; reflexivity.
  - destruct (res_match k r) eqn:Em.
    + assert (Hk : res_match k r' = false).
      { destruct (res_match k r') eqn:E; [|reflexivity]. apply res_match_name in E. apply res_match_name in Em. congruence. }
      destruct (rem <=? q).
      * inversion H; subst. cbn [sumP]. rewrite Hk. reflexivity.
      * destruct (rem - q =? 0).
        -- inversion H; subst. destruct (0 <? q); cbn [sumP]; rewrite Hk; reflexivity.
        -- destruct (alloc_loop r (rem - q) v) as [v'' rs] eqn:El. inversion H; subst.
           destruct (0 <? q); cbn [sumP]; rewrite Hk, (IH _ _ _ Hn El); reflexivity.
    + destruct (rem =? 0).
      * inversion H; subst. reflexivity.
      * destruct (alloc_loop r rem v) as [v'' rs] eqn:El. inversion H; subst. cbn [sumP]. rewrite (IH _ _ _ Hn El). reflexivity.
Qed.
Lemma allocate_other_name : forall R r c q R' o r', fst r' <> fst r -> r_allocate R r c q = (R', o) ->
  r_available R' r' = r_available R r'.
Proof.
  intros R r c q R' o r' Hn H. unfold r_allocate in H. destruct (q <? 0); [inversion H; reflexivity|]. destruct (r_available R r <? q); [inversion H; reflexivity|].
  destruct (alloc_loop r q (r_avail R)) as [v recs] eqn:El. inversion H; subst. unfold r_available. cbn [r_avail].
  eapply alloc_loop_other_name; eauto.
Qed.

Definition req_names (req : rvec) : list Z := map (fun rq => fst (fst rq)) req.

Lemma alloc_seq_fits : forall req R c, NoDup (req_names req) -> nonneg_vec req ->
  (forall rq, In rq req -> snd rq <= r_available R (fst rq)) ->
  exists R', alloc_seq R req c = (R', Ok tt).
Proof.
  induction req as [|[r q] req IH]; intros R c Hnd Hnn Hfit; cbn [alloc_seq]; [eauto|].
  cbn [req_names map fst] in Hnd. inversion Hnd as [|x y N1 N2]; subst. inversion Hnn as [|x y Q1 Q2]; subst. cbn [snd] in Q1.
  destruct (r_allocate R r c q) as [R1 [[]|e]] eqn:Ea.
  - apply IH; [exact N2|exact Q2|]. intros rq Hin.
    assert (Hne : fst (fst rq) <> fst r).
    { intro E. apply N1. unfold req_names. apply in_map_iff. exists rq. split; [exact E|exact Hin]. }
    rewrite (allocate_other_name _ _ _ _ _ _ (fst rq) Hne Ea). apply Hfit. right. exact Hin.
  - exfalso. unfold r_allocate in Ea. specialize (Hfit (r, q) (or_introl eq_refl)). cbn [fst snd] in Hfit.
    destruct (q <? 0) eqn:E0; [lia|]. destruct (r_available R r <? q) eqn:E; [lia|]. destruct (alloc_loop r q (r_avail R)). discriminate.
Qed.
Theorem per_key_implies_success : forall R req c, NoDup (req_names req) -> nonneg_vec req -> r_gt_per_key R req = true ->
  exists R', r_allocate_multiple R req c = (R', Ok tt).
Proof.
  intros R req c Hnd Hnn Hfit. unfold r_gt_per_key in Hfit. rewrite forallb_forall in Hfit. unfold r_allocate_multiple.
  assert (E : existsb (fun rq => r_available R (fst rq) <? snd rq) req = false).
  { destruct (existsb _ req) eqn:E; [|reflexivity]. apply existsb_exists in E. destruct E as (rq & Hin & Hlt). specialize (Hfit rq Hin). lia. }
  rewrite E. destruct (alloc_seq_fits req R c Hnd Hnn) as (R' & Es); [intros rq Hin; specialize (Hfit rq Hin); lia|].
  rewrite Es. eauto.
Qed.
(* for requests that name each resource once the two tests coincide *)
Theorem r_gt_per_key_iff : forall R req, NoDup (req_names req) -> nonneg_vec req -> Nonneg R ->
  (r_gt R req = true <-> r_gt_per_key R req = true).
Proof.
  intros R req Hnd Hq HN. rewrite (gt_iff_success R req (CTask 0) HN Hq). split.
  - intros (R' & H). unfold r_allocate_multiple in H. unfold r_gt_per_key.
    destruct (existsb (fun rq => r_available R (fst rq) <? snd rq) req) eqn:E; [discriminate|].
    apply forallb_forall. intros rq Hin. destruct (snd rq <=? r_available R (fst rq)) eqn:E1; [reflexivity|].
    exfalso. assert (X : existsb (fun rq => r_available R (fst rq) <? snd rq) req = true) by (apply existsb_exists; exists rq; split; [exact Hin|lia]).
    congruence.
  - intro H. apply per_key_implies_success; assumption.
Qed.

(* the worker level: after can_accomodate_strategy said yes because the resources fit, placing a plain
   strategy, or the first member of a batch, never raises *)
Theorem w_fit_place_succeeds : forall t s w, Nonneg (w_res w) -> nonneg_vec (s_req s) -> r_gt (w_res w) (s_req s) = true ->
  zfind t (w_placed w) = None ->          (* since /repo 17757a8 an already placed task is refused *)
  (s_is_batch s = true -> 1 <= s_bsize s /\ zfind (s_id s) (w_batches w) = None) ->
  snd (w_place t s w) = Ok tt.
Proof.
  intros t s w HN Hq Hfit Hnp Hb. unfold w_place. unfold zmem. rewrite Hnp. destruct (s_is_batch s).
  - destruct (Hb eq_refl) as [Hs Hz]. rewrite Hz. destruct (s_bsize s <? 1) eqn:E; [lia|].
    destruct (proj1 (gt_iff_success (w_res w) (s_req s) (CBatch (w_fresh w)) HN Hq) Hfit) as (R' & ->). reflexivity.
  - destruct (proj1 (gt_iff_success (w_res w) (s_req s) (CTask t) HN Hq) Hfit) as (R' & ->). reflexivity.
Qed.

(* the older per-key test could say yes to a request that is then refused (keys competing for the same
   units): kept as a statement about r_gt_per_key, which is what allocate_multiple still checks first *)
Lemma per_key_not_success_refuted :
  exists R req c R' e, r_gt_per_key R req = true /\ r_allocate_multiple R req c = (R', Err e) /\ r_gt R req = false.
Proof.
  exists (r_new [((0, RId 0), 1); ((0, RId 1), 1)]), [((0, RAny), 1); ((0, RId 0), 1)], (CTask 0).
  eexists. eexists. vm_compute. repeat split; reflexivity.
Qed.
