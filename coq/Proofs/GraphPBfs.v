(* C17, breadth_first() without a start node: on a DAG without parallel edges the iteration
   ends normally, yields every node exactly once, and every node after all its parents. *)
From Coq Require Import ZArith Bool List Lia ZifyBool Permutation.
Import ListNotations.
From Verif Require Import Model.Val Model.Graph Proofs.GraphPBase Proofs.GraphPTopo.
Open Scope Z_scope.

Lemma NoDup_app_iff : forall (a b : list node),
  NoDup (a ++ b) <-> NoDup a /\ NoDup b /\ (forall x, In x a -> ~ In x b).
Proof.
  induction a as [|y a IH]; intro b; cbn [app].
  - split; [intro H; repeat split; [constructor | exact H | intros x []] | tauto].
  - split.
    + intro H. inversion H as [|? ? Hy Hn]; subst. apply IH in Hn. destruct Hn as [Na [Nb D]].
      split; [constructor; [intro H1; apply Hy; apply in_or_app; left; exact H1 | exact Na]|].
      split; [exact Nb|]. intros x [E|Hx]; [subst; intro H1; apply Hy; apply in_or_app; right; exact H1 | apply D; exact Hx].
    + intros [Na [Nb D]]. inversion Na as [|? ? Hy Hn]; subst. constructor.
      * intro H. apply in_app_or in H. destruct H as [H|H]; [contradiction | apply (D y (or_introl eq_refl)); exact H].
      * apply IH. split; [exact Hn|]. split; [exact Nb|]. intros x Hx. apply D. right. exact Hx.
Qed.
Lemma NoDup_filter : forall (f : node -> bool) l, NoDup l -> NoDup (filter f l).
Proof.
  induction l as [|y l IH]; intro N; cbn [filter]; [constructor|].
  inversion N as [|? ? Hy Hn]; subst. destruct (f y); [constructor; [rewrite filter_In; tauto | auto] | auto].
Qed.

Section Bfs.
Variable g : graph.
Hypothesis W : wf g.

Definition readyb (vis : list node) (c : node) : bool := forallb (fun p => mem p vis) (parents_of g c).
Lemma readyb_spec : forall vis c, readyb vis c = true <-> forall p, edge g p c -> In p vis.
Proof.
  intros vis c. unfold readyb. rewrite forallb_forall. split.
  - intros H p E. apply mem_In. apply H. apply (wf_par g W). exact E.
  - intros H p Hp. apply mem_In. apply H. apply (wf_par g W). exact Hp.
Qed.

Lemma bfs_children_none : forall vis cs, (forall c, In c cs -> In c (nodes g)) ->
  bfs_children g None vis cs = Ok (filter (readyb vis) cs).
Proof.
  induction cs as [|c cs IH]; intro H; cbn [bfs_children filter]; [reflexivity|].
  rewrite (get_parents_ok g c) by (apply H; left; reflexivity). cbn [bind].
  rewrite IH by (intros; apply H; right; assumption). cbn [bind].
  fold (readyb vis c). destruct (readyb vis c); reflexivity.
Qed.

(* parents first, on the accumulator (latest yielded first) *)
Definition PF (acc : list node) : Prop :=
  forall a1 x a2, acc = a1 ++ x :: a2 -> forall p, edge g p x -> In p a2.

Hypothesis Simple : simple g.

Lemma bfs_loop_spec : forall fuel queue acc,
  NoDup (acc ++ queue) ->
  (forall x, In x (acc ++ queue) -> In x (nodes g)) ->
  (forall x, In x queue -> forall p, edge g p x -> In p acc) ->
  PF acc ->
  (forall x, In x (nodes g) -> (forall p, edge g p x -> In p acc) -> In x acc \/ In x queue) ->
  (length (nodes g) < fuel + length acc)%nat ->
  exists out, bfs_loop fuel g None queue acc acc = (rev out, 0) /\
    NoDup out /\ (forall x, In x out -> In x (nodes g)) /\ PF out /\
    (forall x, In x (nodes g) -> (forall p, edge g p x -> In p out) -> In x out).
Proof.
  induction fuel as [|f IH]; intros queue acc N Hin Hq Hpf Hc Hf.
  - exfalso. assert (L : (length acc <= length (nodes g))%nat).
    { apply NoDup_incl_length; [apply NoDup_app_iff in N; tauto | intros x Hx; apply Hin; apply in_or_app; left; exact Hx]. }
    lia.
  - cbn [bfs_loop]. destruct queue as [|cur rest].
    + exists acc. rewrite app_nil_r in N, Hin. split; [reflexivity|]. split; [exact N|]. split; [exact Hin|].
      split; [exact Hpf|]. intros x Hx Hp. destruct (Hc x Hx Hp) as [H|[]]. exact H.
    + assert (Hcur : In cur (nodes g)) by (apply Hin; apply in_or_app; right; left; reflexivity).
      rewrite (get_children_ok g cur Hcur).
      rewrite bfs_children_none by (intros c Hc'; apply (wf_closed g W cur c Hc')).
      set (app := filter (readyb (cur :: acc)) (children_of g cur)).
      apply NoDup_app_iff in N. destruct N as [Na [Nq D]]. inversion Nq as [|? ? Ncur Nrest]; subst.
      assert (Dcur : ~ In cur acc) by (intro H; apply (D cur H); left; reflexivity).
      (* nothing that is appended was seen before: its parent cur was not visited *)
      assert (Fresh : forall c, In c app -> ~ In c acc /\ c <> cur /\ ~ In c rest).
      { intros c Hc'. apply filter_In in Hc'. destruct Hc' as [Ec _].
        assert (NA : ~ In c acc).
        { intro H. destruct (in_split c acc H) as [a1 [a2 E]]. apply Dcur. rewrite E.
          apply in_or_app. right. right. eapply Hpf; eassumption. }
        assert (NQ : ~ In c (cur :: rest)) by (intro H; apply Dcur; eapply Hq; eassumption).
        split; [exact NA|]. split; [intro E; apply NQ; left; congruence | intro H; apply NQ; right; exact H]. }
      destruct (IH (rest ++ app) (cur :: acc)) as [out [R [No [Ho [Po Co]]]]].
      * change ((cur :: acc) ++ rest ++ app) with (cur :: (acc ++ rest ++ app)). constructor.
        -- rewrite !in_app_iff. intros [H|[H|H]]; [contradiction | contradiction | apply Fresh in H; tauto].
        -- apply NoDup_app_iff. split; [exact Na|]. split.
           ++ apply NoDup_app_iff. split; [exact Nrest|]. split; [apply NoDup_filter; apply Simple|].
              intros x Hx Hx'. apply Fresh in Hx'. tauto.
           ++ intros x Hx Hx'. apply in_app_or in Hx'. destruct Hx' as [Hx'|Hx'].
              ** apply (D x Hx). right. exact Hx'.
              ** apply Fresh in Hx'. tauto.
      * intros x Hx. change ((cur :: acc) ++ rest ++ app) with (cur :: (acc ++ rest ++ app)) in Hx.
        destruct Hx as [E|Hx]; [subst; exact Hcur|]. rewrite !in_app_iff in Hx. destruct Hx as [Hx|[Hx|Hx]].
        -- apply Hin. apply in_or_app. left. exact Hx.
        -- apply Hin. apply in_or_app. right. right. exact Hx.
        -- apply filter_In in Hx. destruct Hx as [Hx _]. apply (wf_closed g W cur x Hx).
      * intros x Hx p E. apply in_app_or in Hx. destruct Hx as [Hx|Hx].
        -- right. eapply Hq; [right; exact Hx | exact E].
        -- apply filter_In in Hx. destruct Hx as [_ Hr]. apply readyb_spec with (p := p) in Hr; assumption.
      * intros a1 x a2 E p Ep. destruct a1 as [|y a1]; cbn [app] in E; injection E as E1 E2.
        -- subst x a2. eapply Hq; [left; reflexivity | exact Ep].
        -- subst y. eapply Hpf; eassumption.
      * intros x Hx Hp.
        destruct (in_dec Z.eq_dec x (cur :: acc)) as [Hi|Hi]; [left; exact Hi|]. right.
        destruct (existsb (fun p => negb (mem p acc)) (parents_of g x)) eqn:Ex.
        -- apply existsb_exists in Ex. destruct Ex as [p [Hp1 Hp2]].
           apply negb_true_iff, mem_false in Hp2. apply (wf_par g W) in Hp1.
           destruct (Hp p Hp1) as [E|H]; [subst p | contradiction].
           apply in_or_app. right. apply filter_In. split; [exact Hp1 | apply readyb_spec; exact Hp].
        -- assert (Hall : forall p, edge g p x -> In p acc).
           { intros p Ep. apply (wf_par g W) in Ep.
             destruct (mem p acc) eqn:M; [apply mem_In; exact M|].
             exfalso. assert (T : existsb (fun p => negb (mem p acc)) (parents_of g x) = true)
               by (apply existsb_exists; exists p; split; [exact Ep | rewrite M; reflexivity]). congruence. }
           destruct (Hc x Hx Hall) as [H|[H|H]].
           ++ exfalso. apply Hi. right. exact H.
           ++ exfalso. apply Hi. left. exact H.
           ++ apply in_or_app. left. exact H.
      * cbn [length]. lia.
      * exists out. split; [exact R|]. auto.
Qed.

Hypothesis Acyclic : acyclic g.

Lemma bfs_spec : exists l, breadth_first g None = (l, 0) /\ Permutation l (nodes g) /\
  forall u v, edge g u v -> (index_of u l < index_of v l)%nat.
Proof.
  unfold breadth_first, breadth_first_fuel.
  assert (Src : forall x, In x (get_sources g) <-> In x (nodes g) /\ parents_of g x = []).
  { intro x. unfold get_sources. rewrite filter_In. destruct (parents_of g x); split; intros [H1 H2]; split; auto; discriminate. }
  destruct (bfs_loop_spec (bfs_fuel g) (get_sources g) []) as [out [R [No [Ho [Po Co]]]]].
  - cbn [app]. unfold get_sources. apply NoDup_filter. apply (wf_nodup g W).
  - cbn [app]. intros x Hx. apply Src in Hx. tauto.
  - intros x Hx p E. apply Src in Hx. apply (wf_par g W) in E. destruct Hx as [_ Hx]. rewrite Hx in E. destruct E.
  - intros a1 x a2 E. destruct a1; discriminate.
  - intros x Hx Hp. right. apply Src. split; [exact Hx|].
    destruct (parents_of g x) as [|p ps] eqn:Ep; [reflexivity|].
    exfalso. apply (Hp p). apply (wf_par g W). rewrite Ep. left. reflexivity.
  - unfold bfs_fuel. cbn [length]. lia.
  - exists (rev out). split; [exact R|].
    (* every node is yielded: induction along a topological order *)
    destruct (topo_acyclic_ok g W Acyclic) as [order Ho'].
    destruct (topo_sound g W order Ho') as [_ Fwd].
    assert (All : forall k x, In x (nodes g) -> (index_of x order < k)%nat -> In x out).
    { induction k as [|k IHk]; intros x Hx Hk; [lia|].
      apply Co; [exact Hx|]. intros p E. apply IHk; [apply (wf_closed g W p x E) | specialize (Fwd p x E); lia]. }
    split.
    + apply NoDup_Permutation; [apply NoDup_rev; exact No | apply (wf_nodup g W)|].
      intro x. rewrite <- in_rev. split; [apply Ho | intro Hx; apply (All (S (index_of x order))); [exact Hx | lia]].
    + intros u v E.
      assert (Hv : In v out) by (apply (All (S (index_of v order))); [apply (wf_closed g W u v E) | lia]).
      destruct (in_split v out Hv) as [a1 [a2 Eq]].
      assert (Hu : In u a2) by (eapply Po; eassumption).
      destruct (in_split u a2 Hu) as [b1 [b2 Eq2]].
      apply index_lt_of_split with (p := rev b2) (q := rev b1 ++ v :: rev a1).
      * apply NoDup_rev. exact No.
      * rewrite Eq, Eq2. rewrite !rev_app_distr. cbn [rev]. rewrite !rev_app_distr. cbn [rev].
        rewrite <- !app_assoc. reflexivity.
      * apply in_or_app. right. left. reflexivity.
Qed.
End Bfs.
