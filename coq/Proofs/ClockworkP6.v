(* Lemmas about Model/Clockwork.v, part 6: the inference loop terminates (its fuel is never exhausted)
   when every batch size is >= 1; with a batch size 0 it does not. *)
From Coq Require Import ZArith Bool List Lia ZifyBool Sorting.Sorted Permutation.
Import ListNotations.
From Verif Require Import Model.Val Gen.Src_Clockwork Model.Clockwork Proofs.ClockworkP Proofs.ClockworkP2 Proofs.ClockworkP3
  Proofs.ClockworkP4 Proofs.ClockworkP5.
Open Scope Z_scope.

Definition bs_pos (wd : world) : Prop := forall mid ss s, zassoc mid wd = Some ss -> In s ss -> 1 <= s_bs s.

Lemma st_total_set_model : forall m' m st, find_model (m_id m') st = Some m ->
  (st_total (set_model m' st) + length (m_tasks m) = st_total st + length (m_tasks m'))%nat.
Proof.
  intros m' m st. induction st as [|x st IH]; intros H; cbn [find_model] in H; [discriminate|]. cbn [set_model].
  destruct (m_id x =? m_id m') eqn:E.
  - injection H as ->. cbn [st_total fold_right]. lia.
  - specialize (IH H). cbn [st_total fold_right]. fold (st_total (set_model m' st)) (st_total st). lia.
Qed.

Lemma infer_loop_fuel : forall wd fuel ls now pid w st e acc,
  world_wf wd -> bs_pos wd -> Inv_st wd st -> esq_ok wd e ->
  (length e + st_total st < fuel)%nat ->
  infer_loop fuel ls now pid w st e acc <> Err 99.
Proof.
  intros wd fuel. induction fuel as [|f IH]; intros ls now pid w st e acc Hw Hp Hi He Hf; [lia|]. cbn [infer_loop].
  destruct e as [|[mid ss] e']; [discriminate|].
  inversion He as [|? ? [ssw [Hzw Hincl]] He']; subst. cbn [fst snd] in Hzw, Hincl. cbn [length] in Hf.
  destruct (cw_not_loaded (w_is_available w mid)); [apply IH; try assumption; lia|].
  destruct (filter (fits w) ss) as [|s rest] eqn:Efil; [apply IH; try assumption; lia|].
  destruct (find_model mid st) as [m|] eqn:Efm; [|discriminate].
  destruct (m_get_placements s m) as [[ts m1]|c1] eqn:Egp.
  2:{ unfold m_get_placements in Egp. destruct (find_queue (s_id s) (m_queues m)); [|injection Egp as <-; discriminate].
      destruct (cw_queue_short _ _); [injection Egp as <-; discriminate|discriminate]. }
  destruct (if nonempty ts then w_place w s (map t_id ts) else Ok w) as [w1|c2] eqn:Ewp.
  2:{ destruct (nonempty ts); [|discriminate]. unfold w_place in Ewp. destruct (s_bs s <? 1); [injection Ewp as <-; discriminate|].
      destruct (existsb _ _ || negb _); [injection Ewp as <-; discriminate|].
      unfold res_allocate_multiple in Ewp. destruct (existsb _ _); [injection Ewp as <-; discriminate|].
      assert (Hseq : forall req v c, res_allocate_seq req v = Err c -> c = 2).
      { induction req as [|[[n i] q] req IHr]; intros v c Hc; cbn [res_allocate_seq] in Hc; [discriminate|].
        unfold res_allocate in Hc. destruct (q <? 0); [injection Hc as <-; reflexivity|].
        destruct (res_avail v n i <? q); [injection Hc as <-; reflexivity|]. eapply IHr; eassumption. }
      destruct (res_allocate_seq (s_res s) (w_res w)) eqn:Ers; [discriminate|]. injection Ewp as <-. rewrite (Hseq _ _ _ Ers). discriminate. }
  destruct (avail_strats now m1) as [[m2 ss2]|c3] eqn:Eav.
  2:{ unfold avail_strats in Eav. destruct (total_qlen _ =? 0); [discriminate|]. destruct (index_error _); [injection Eav as <-; discriminate|discriminate]. }
  destruct (find_model_some _ _ _ Efm) as [Hmin Hmid].
  pose proof Hi as [Hnd Hinv Hconf].
  assert (Him : Inv_m m) by (rewrite Forall_forall in Hinv; apply Hinv; assumption).
  assert (Hcf : conforms wd m) by (rewrite Forall_forall in Hconf; apply Hconf; assumption).
  assert (Hs_in : In s (filter (fits w) ss)) by (rewrite Efil; left; reflexivity).
  apply filter_In in Hs_in. destruct Hs_in as [Hs_ss _].
  assert (Hs_w : In s ssw) by (apply Hincl; assumption).
  unfold conforms in Hcf. rewrite Hmid, Hzw in Hcf. injection Hcf as Hcf.
  destruct (get_placements_spec s m ts m1 Him Egp) as [Him1 [Hsh1 [[s' [q [Hq [Hsid [Hts Hlen]]]]] [_ [Hsize _]]]]].
  destruct (avail_strats_spec now m1 m2 ss2 Him1 Eav) as [Him2 [Hsh2 [_ Hav2]]].
  assert (Hsh : shrinks m2 m) by (eapply shrinks_trans; eassumption).
  assert (Hid2 : m_id m2 = mid) by (destruct Hsh as [E _]; lia).
  assert (Hf2 : find_model (m_id m2) st = Some m) by (rewrite Hid2; assumption).
  assert (Hi2 : Inv_st wd (set_model m2 st)) by (eapply set_model_inv_st; eassumption).
  assert (Hbs : 1 <= s_bs s) by (eapply Hp; eassumption).
  assert (Hlts : (1 <= length ts)%nat) by (specialize (Hlen ltac:(lia)); unfold zlen in Hlen; lia).
  assert (Hl2 : (length (m_tasks m2) <= length (m_tasks m1))%nat).
  { rewrite <- (map_length (fun tn => t_id (fst tn)) (m_tasks m2)), <- (map_length (fun tn => t_id (fst tn)) (m_tasks m1)).
    apply NoDup_incl_length; [apply (inv_keys m2 Him2)|apply (shrinks_keys _ _ Hsh2)]. }
  pose proof (st_total_set_model m2 m st Hf2) as Htot.
  apply IH; try assumption.
  - assert (Hnew : esq_ok wd (e' ++ [(mid, ss2)])).
    { apply Forall_app. split; [assumption|]. constructor; [|constructor]. exists ssw. cbn [fst snd]. split; [assumption|].
      intros x Hx. destruct (Hav2 x Hx) as [qx [Hqx _]]. rewrite Hcf, <- (shrinks_strategies m2 m Hsh).
      apply in_map_iff. exists (x, qx). split; [reflexivity|assumption]. }
    destruct (nonempty ss2); [|assumption]. destruct ls; [apply esq_ok_sort|]; assumption.
  - assert (Hle : (length (if nonempty ss2 then if ls then sort_esq (set_model m2 st) (e' ++ [(mid, ss2)]) else e' ++ [(mid, ss2)] else e') <= S (length e'))%nat).
    { destruct (nonempty ss2); [|lia]. destruct ls; [rewrite sort_esq_length|]; rewrite app_length; cbn [length]; lia. }
    eapply Nat.le_lt_trans; [apply Nat.add_le_mono_r; exact Hle|lia].
Qed.

Lemma infer_worker_fuel : forall wd ls now pid w st acc, world_wf wd -> bs_pos wd -> Inv_st wd st ->
  infer_worker ls now pid w st acc <> Err 99.
Proof.
  intros wd ls now pid w st acc Hw Hp Hi. unfold infer_worker.
  destruct (build_esq now st) as [[st1 e]|c] eqn:Eb.
  2:{ clear - Eb. revert c Eb. induction st as [|m st IH]; intros c Eb; cbn [build_esq] in Eb; [discriminate|].
      destruct (avail_strats now m) as [[m' ss]|c'] eqn:Ea.
      - destruct (build_esq now st) as [[st'' e0]|c''] eqn:Eb'; [discriminate|]. injection Eb as <-. apply (IH c'' eq_refl).
      - injection Eb as <-. unfold avail_strats in Ea. destruct (total_qlen _ =? 0); [discriminate|]. destruct (index_error _); [injection Ea as <-; discriminate|discriminate]. }
  destruct (build_esq_aux wd now st st1 e (st_inv wd st Hi) (st_conf wd st Hi) Eb) as [F2 [He _]].
  destruct (forall2_shrinks_facts wd now st1 st Hi F2) as [Hi1 _].
  assert (He1 : esq_ok wd (if ls then sort_esq st1 e else e)) by (destruct ls; [apply esq_ok_sort|]; assumption).
  match goal with |- context [infer_loop ?fu ?a ?b ?c ?d ?s ?ee ?ac] =>
    pose proof (infer_loop_fuel wd fu a b c d s ee ac Hw Hp Hi1 He1) as Hn; destruct (infer_loop fu a b c d s ee ac) as [[[w2 st2] acc2]|cerr] eqn:El end.
  - discriminate.
  - intros Hc. injection Hc as ->. apply Hn; [|reflexivity]. unfold infer_fuel. lia.
Qed.
Lemma infer_workers_fuel : forall wd ls now p ws st acc, world_wf wd -> bs_pos wd -> Inv_st wd st ->
  Forall (batch_ok wd) acc -> once_inv acc st ->
  infer_workers ls now p ws st acc <> Err 99.
Proof.
  intros wd ls now p ws. induction ws as [|w ws IH]; intros st acc Hw Hp Hi Hb Ho; cbn [infer_workers]; [discriminate|].
  destruct (infer_worker ls now p w st acc) as [[st1 acc1]|c] eqn:E1.
  - destruct (infer_worker_spec _ _ _ _ _ _ _ _ _ Hw Hi Hb Ho E1) as [A1 [A2 [A3 _]]]. apply IH; assumption.
  - intros Hc. injection Hc as ->. exact (infer_worker_fuel wd ls now p w st acc Hw Hp Hi E1).
Qed.
Lemma infer_pools_fuel : forall wd ls now ps st acc, world_wf wd -> bs_pos wd -> Inv_st wd st ->
  Forall (batch_ok wd) acc -> once_inv acc st ->
  infer_pools ls now ps st acc <> Err 99.
Proof.
  intros wd ls now ps. induction ps as [|p ps IH]; intros st acc Hw Hp Hi Hb Ho; cbn [infer_pools]; [discriminate|].
  destruct (infer_workers ls now (p_id p) (p_workers p) st acc) as [[st1 acc1]|c] eqn:E1.
  - destruct (infer_workers_spec _ _ _ _ _ _ _ _ _ Hw Hi Hb Ho (incl_refl _) E1) as [A1 [A2 [A3 _]]]. apply IH; assumption.
  - intros Hc. injection Hc as ->. exact (infer_workers_fuel wd ls now (p_id p) (p_workers p) st acc Hw Hp Hi Hb Ho E1).
Qed.
(* schedule() never exhausts the fuel of its inference loops: the loops of the implementation terminate *)
Lemma cw_schedule_terminates : forall wd ls inv st, world_wf wd -> bs_pos wd -> Inv_st wd st -> cw_schedule wd ls inv st <> Err 99.
Proof.
  intros wd ls inv st Hw Hp Hi. unfold cw_schedule.
  destruct (admission wd (i_now inv) (i_offered inv) st []) as [[st1 c]|c] eqn:Ea.
  - destruct (admission_inv _ _ _ _ _ _ _ Hw Hi Ea) as [Hi1 _].
    assert (Ho0 : once_inv [] st1) by (split; [constructor|intros t []]).
    destruct (load_pools inv) as [ps|c0] eqn:El.
    2:{ clear - El. unfold load_pools in El. destruct (i_load inv) as [lds|]; [|discriminate]. intros Hc. injection Hc as ->.
        revert El. generalize (i_pools inv). induction lds as [|[[[ty mid] pid] wid] rest IH]; intros ps El; cbn [apply_load] in El; [discriminate|].
        destruct (ty =? 1); [|eapply IH; eassumption].
        destruct (find_worker pid wid ps) as [w|]; [|discriminate].
        destruct (zassoc mid (w_loaded w)); [|discriminate]. destruct (zassoc mid (w_palloc w)); [|discriminate]. eapply IH; eassumption. }
    match goal with |- context [infer_pools ?a ?b ?c ?d ?e] =>
      pose proof (infer_pools_fuel wd a b c d e Hw Hp Hi1 (Forall_nil _) Ho0) as Hn; destruct (infer_pools a b c d e) as [[st2 bs]|c'] end;
    try discriminate; intros Hc; injection Hc as ->; apply Hn; reflexivity.
  - clear - Ea. revert Ea. generalize (@nil task). revert st. induction (i_offered inv) as [|t rest IH]; intros st cs Ea; cbn [admission] in Ea; [discriminate|].
    destruct (zassoc (t_model t) wd); [|injection Ea as <-; discriminate].
    destruct (fastest_rt l); [|injection Ea as <-; discriminate].
    destruct (cw_hopeless _ _ _ _); eapply IH; eassumption.
Qed.

(* the hypothesis is needed: with a batch size 0 the loop re-queues the model for ever (whatever the fuel) *)
Example zero_batch_never_terminates :
  let st := [mkM 1 [(mkS 1 0 10 [], [mkT 7 1 100])] [(mkT 7 1 100, 1)]] in
  forall fuel acc, infer_loop fuel false 0 1 (mkW 1 [] [(1, 0)] [] []) st [(1, [mkS 1 0 10 []])] acc = Err 99.
Proof.
  cbv zeta. induction fuel as [|f IH]; intros acc; [reflexivity|].
  cbn [infer_loop]. vm_compute (cw_not_loaded _). cbv iota. vm_compute (filter _ _). cbv iota.
  vm_compute (find_model _ _). cbv iota. vm_compute (m_get_placements _ _). cbv iota beta. vm_compute (nonempty []). cbv iota.
  vm_compute (avail_strats _ _). cbv iota beta. vm_compute (nonempty [_]). cbv iota. vm_compute (set_model _ _). cbn [app]. apply IH.
Qed.
