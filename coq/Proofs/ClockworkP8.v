(* Non-vacuity: a concrete run in which every hypothesis of the C15 / C10_cw / C12_cw theorems holds and
   something happens (a cancellation, a carried-over request, batches under two strategies). *)
From Coq Require Import ZArith Bool List Lia ZifyBool.
Import ListNotations.
From Verif Require Import Model.Val Gen.Src_Clockwork Model.Clockwork Proofs.ClockworkP Proofs.ClockworkP2 Proofs.ClockworkP3
  Proofs.ClockworkP4 Proofs.ClockworkP5 Proofs.ClockworkP6 Proofs.ClockworkP7.
Open Scope Z_scope.

Definition ex_wd : world := [(1, [mkS 1 2 10 [(1, 0, 1)]; mkS 2 4 15 [(1, 0, 1)]])].
Definition ex_pools : list pool := [mkP 1 [mkW 1 [(1, 11, 2)] [(1, 0)] [] []]].
Definition ex_t (i d : Z) : task := mkT i 1 d.
Definition ex_invs : list invocation :=
  [mkInv 0 [ex_t 1 30; ex_t 2 40; ex_t 3 5] ex_pools None;
   mkInv 20 [ex_t 4 100; ex_t 5 25] ex_pools None;
   mkInv 30 [ex_t 4 100; ex_t 6 90] ex_pools None].

Example ex_world_wf : world_wf ex_wd.
Proof.
  intros mid ss H. unfold ex_wd in H. cbn [zassoc] in H. destruct (1 =? mid); [|discriminate]. injection H as <-.
  cbn. repeat constructor; cbn; intuition lia.
Qed.
Example ex_bs_pos : bs_pos ex_wd.
Proof.
  intros mid ss s H Hs. unfold ex_wd in H. cbn [zassoc] in H. destruct (1 =? mid); [|discriminate]. injection H as <-.
  destruct Hs as [<-|[<-|[]]]; cbn; lia.
Qed.
Example ex_run :
  map (vres obs_decisions) (cw_run ex_wd false ex_invs (cw_start ex_wd [1])) =
  [L [I 0; L [L [I 3; I 3]; L [I 4; I 1; I 0; I 1; I 1; I 1; I 0]; L [I 4; I 2; I 0; I 1; I 1; I 1; I 0]]];
   L [I 0; L [L [I 3; I 5]]];
   L [I 0; L [L [I 4; I 6; I 30; I 1; I 1; I 1; I 0]; L [I 4; I 4; I 30; I 1; I 1; I 1; I 0]]]].
Proof. vm_compute. reflexivity. Qed.
Example ex_env_ok : env_ok ex_wd false ex_invs (cw_start ex_wd [1]) [].
Proof.
  unfold ex_invs. cbn [env_ok]. split; [intros t _ []|]. vm_compute (cw_schedule _ _ _ _). cbv iota beta. cbn [env_ok].
  split; [intros t [<-|[<-|[]]] [H|[H|[]]]; discriminate|]. vm_compute (cw_schedule _ _ _ _). cbv iota beta. cbn [env_ok].
  split; [intros t [<-|[<-|[]]] [H|[H|[]]]; discriminate|]. vm_compute (cw_schedule _ _ _ _). cbv iota beta. exact Logic.I.
Qed.
Example ex_id_functional : id_functional (flat_map i_offered ex_invs).
Proof.
  intros a b Ha Hb E. cbn in Ha, Hb.
  repeat (destruct Ha as [<-|Ha]; [repeat (destruct Hb as [<-|Hb]; [first [reflexivity|discriminate]|]); destruct Hb|]). destruct Ha.
Qed.
(* the conclusions, instantiated *)
Example ex_once : NoDup (map t_id (run_placed (cw_run ex_wd false ex_invs (cw_start ex_wd [1])))).
Proof. apply run_once_ids; [apply ex_world_wf|repeat constructor; intros []|apply ex_env_ok|apply ex_id_functional]. Qed.
Example ex_placed : map t_id (run_placed (cw_run ex_wd false ex_invs (cw_start ex_wd [1]))) = [1; 2; 6; 4].
Proof. vm_compute. reflexivity. Qed.
(* a state reached in the run satisfies the invariant and is not empty: request 4 waits in both queues with counter 2 *)
Example ex_state :
  exists st d, cw_schedule ex_wd false (nth 1 ex_invs (mkInv 0 [] [] None))
                 (match cw_schedule ex_wd false (nth 0 ex_invs (mkInv 0 [] [] None)) (cw_start ex_wd [1]) with Ok (s, _) => s | Err _ => [] end) = Ok (st, d)
    /\ obs_state st = L [L [I 1; L [L [I 1; L [I 4]]; L [I 2; L [I 4]]]; L [L [I 4; I 2]]]].
Proof. eexists. eexists. split; vm_compute; reflexivity. Qed.

(* regression case (former finding F-cw1, repaired in /repo 402c33a): a strategy asking one unit through the id `any` and
   one through a specific id no longer "fits" a worker holding a single unit, so schedule() returns (nothing is placed,
   the request stays queued) instead of raising *)
Definition rf_wd : world := [(1, [mkS 1 1 10 [(1, 0, 1); (1, 11, 1)]])].
Definition rf_inv : invocation := mkInv 0 [mkT 1 1 100] [mkP 1 [mkW 1 [(1, 11, 1); (9, 19, 7)] [(1, 0)] [] []]] None.
Example competing_requests_return :
  exists st', cw_schedule rf_wd false rf_inv (cw_start rf_wd [1]) = Ok (st', mkD [] [] []) /\
              obs_state st' = L [L [I 1; L [L [I 1; L [I 1]]]; L [L [I 1; I 1]]]].
Proof. eexists. split; vm_compute; reflexivity. Qed.

(* run_load's evictions reach run_inference: model 1 waits with a full on-time batch on a worker that has it loaded and has
   room; without LOAD/EVICT decisions it is placed; when the same invocation evicts model 1 from the worker (to load model 2)
   it is not, and the worker's memory (resource 9) is given back on the virtual copy *)
Definition ev_wd : world := [(1, [mkS 1 1 10 [(1, 0, 1)]]); (2, [mkS 1 1 10 [(1, 0, 1)]])].
Definition ev_pools : list pool := [mkP 1 [mkW 1 [(1, 11, 2); (9, 19, 0)] [(1, 0)] [] [(1, [(9, 19, 1)])]]].
Definition ev_inv (ld : option (list load_decision)) : invocation := mkInv 0 [mkT 1 1 100; mkT 2 2 100] ev_pools ld.
Example eviction_example :
  (exists st', cw_schedule ev_wd false (ev_inv None) [] = Ok (st', mkD [] [] [mkB 1 (mkW 1 [(1, 11, 2); (9, 19, 0)] [(1, 0)] [] [(1, [(9, 19, 1)])]) 1 (mkS 1 1 10 [(1, 0, 1)]) [mkT 1 1 100] 0])) /\
  (exists st', cw_schedule ev_wd false (ev_inv (Some [(1, 1, 1, 1); (2, 2, 1, 1)])) [] = Ok (st', mkD [] [(1, 1, 1, 1); (2, 2, 1, 1)] [])) /\
  load_pools (ev_inv (Some [(1, 1, 1, 1); (2, 2, 1, 1)])) = Ok [mkP 1 [mkW 1 [(1, 11, 2); (9, 19, 1)] [] [] []]].
Proof. split; [eexists; vm_compute; reflexivity|]. split; [eexists; vm_compute; reflexivity|vm_compute; reflexivity]. Qed.
