(* C20 — part 7: the capacity monitor, which looks at the start times only, decides capacity at
   EVERY time (usage is a sum of non-negative rectangles, so its maxima are at start times). *)
From Coq Require Import ZArith Bool List Lia ZifyBool.
Import ListNotations.
From Verif Require Import Model.Val Model.Strl Proofs.StrlP Proofs.StrlP2 Proofs.StrlP4.
Open Scope Z_scope.

Definition item := (Z * Z * Z)%type.        (* start, end, weight *)
Definition it_s (i : item) : Z := fst (fst i).
Definition it_e (i : item) : Z := snd (fst i).
Definition it_w (i : item) : Z := snd i.
Definition it_use (tau : Z) (i : item) : Z := if (it_s i <=? tau) && (tau <? it_e i) then it_w i else 0.
Definition U (l : list item) (tau : Z) : Z := sumZ (map (it_use tau) l).

Lemma list_has_max : forall (l : list Z), l <> [] -> exists m, In m l /\ forall x, In x l -> x <= m.
Proof.
  induction l as [|h t IH]; intros Hne; [congruence|]. destruct t as [|h' t'].
  - exists h. split; [left; reflexivity|]. intros x [<-|[]]. lia.
  - destruct (IH ltac:(discriminate)) as [m [Hm Hall]].
    destruct (Z_le_gt_dec h m).
    + exists m. split; [right; exact Hm|]. intros x [<-|Hx]; [lia|apply Hall; exact Hx].
    + exists h. split; [left; reflexivity|]. intros x [<-|Hx]; [lia|]. specialize (Hall x Hx). lia.
Qed.

Lemma rectangles_max_at_starts : forall (l : list item) q,
  (forall i, In i l -> 0 <= it_w i) -> 0 <= q ->
  (forall i, In i l -> it_s i < it_e i -> U l (it_s i) <= q) ->
  forall tau, U l tau <= q.
Proof.
  intros l q Hw Hq Hst tau.
  remember (filter (fun i => (it_s i <=? tau) && (tau <? it_e i)) l) as act eqn:Hact.
  assert (Hact_in : forall i, In i act <-> In i l /\ (it_s i <=? tau) && (tau <? it_e i) = true).
  { intros i. rewrite Hact. apply filter_In. }
  clear Hact. destruct act as [|a0 act'].
  - (* nothing is active *)
    assert (forall i, In i l -> it_use tau i = 0).
    { intros i Hi. unfold it_use. destruct ((it_s i <=? tau) && (tau <? it_e i)) eqn:Ha; [|reflexivity].
      assert (In i []) as [] by (apply Hact_in; split; assumption). }
    unfold U. assert (sumZ (map (it_use tau) l) = 0); [|lia].
    clear -H. induction l as [|i l IH]; [reflexivity|]. cbn [map]. rewrite sumZ_cons, (H i (or_introl eq_refl)), IH; [lia|].
    intros; apply H; right; assumption.
  - destruct (list_has_max (map it_s (a0 :: act'))) as [m [Hm Hmax]]; [discriminate|].
    apply in_map_iff in Hm. destruct Hm as [im [<- Him]].
    apply Hact_in in Him. destruct Him as [Hil Ha].
    assert (Hle : U l tau <= U l (it_s im)).
    { unfold U. apply sumZ_map_le. intros i Hi. unfold it_use.
      destruct ((it_s i <=? tau) && (tau <? it_e i)) eqn:Hi_act.
      - assert (Hin : In i (a0 :: act')) by (apply Hact_in; split; assumption).
        assert (it_s i <= it_s im) by (apply Hmax; apply in_map; exact Hin).
        assert ((it_s i <=? it_s im) && (it_s im <? it_e i) = true) by lia. rewrite H0. lia.
      - specialize (Hw i Hi). destruct ((it_s i <=? it_s im) && (it_s im <? it_e i)); lia. }
    assert (U l (it_s im) <= q) by (apply Hst; [exact Hil|lia]). lia.
Qed.

(* usage of the placements and of the Allocation leaves as rectangles *)
Definition pl_item (p : Z) (pl : placement) : item := (pl_start pl, pl_end pl, alloc_amount p (pl_allocs pl)).
Definition leaf_item (p : Z) (e : expr) : item :=
  match e with
  | Alloc n allocs start dur => (start, start + dur, sumZ (map (fun pa => if fst pa =? p then snd pa else 0) allocs))
  | _ => (0, 0, 0)
  end.
Definition all_items (p : Z) (e : expr) (pls : list placement) : list item :=
  map (pl_item p) pls ++ map (leaf_item p) (subs e).

Lemma U_all_items : forall p e pls tau, U (all_items p e pls) tau = usage pls p tau + alloc_usage e p tau.
Proof.
  intros. unfold U, all_items, usage, alloc_usage. rewrite map_app, sumZ_app, !map_map.
  assert (E1 : map (fun x => it_use tau (pl_item p x)) pls = map (pl_use p tau) pls)
    by (apply map_ext; intros pl; reflexivity).
  assert (E2 : map (fun x => it_use tau (leaf_item p x)) (subs e) = map (leaf_alloc p tau) (subs e)).
  { apply map_ext. intros x. destruct x; try reflexivity;
      unfold it_use, leaf_item, it_s, it_e, it_w; cbn [fst snd leaf_alloc];
      destruct ((0 <=? tau) && (tau <? 0)); reflexivity. }
  rewrite E1, E2. reflexivity.
Qed.

Definition amounts_nonneg (e : expr) (pls : list placement) : Prop :=
  (forall pl x, In pl pls -> In x (pl_allocs pl) -> 0 <= snd x) /\
  (forall n al s d q x, In (Alloc n al s d) (subs e) -> In (q, x) al -> 0 <= x).

Lemma sum_if_nonneg : forall {A} (f : A -> bool) (g : A -> Z) l, (forall x, In x l -> 0 <= g x) ->
  0 <= sumZ (map (fun x => if f x then g x else 0) l).
Proof.
  intros. apply sumZ_nonneg. intros y Hy. apply in_map_iff in Hy. destruct Hy as [x [<- Hx]].
  specialize (H x Hx). destruct (f x); lia.
Qed.

Theorem capacity_monitor_all_times : forall pt e pls,
  amounts_nonneg e pls -> capacity_okb pt e pls = true ->
  forall p q av, In (p, q, av) pt -> 0 <= q -> forall tau, usage pls p tau + alloc_usage e p tau <= q.
Proof.
  intros pt e pls [Hpl Hal] Hok p q av Hin Hq tau.
  apply capacity_okb_iff in Hok. rewrite <- U_all_items.
  apply rectangles_max_at_starts; [| exact Hq |].
  - intros i Hi. unfold all_items in Hi. apply in_app_or in Hi. destruct Hi as [Hi|Hi]; apply in_map_iff in Hi.
    + destruct Hi as [pl [<- Hp]]. unfold pl_item, it_w; cbn [snd]. unfold alloc_amount.
      apply (sum_if_nonneg (fun x => fst (fst x) =? p) snd). intros x Hx. exact (Hpl pl x Hp Hx).
    + destruct Hi as [x [<- Hx]]. destruct x; unfold leaf_item, it_w; cbn [snd]; try lia.
      apply (sum_if_nonneg (fun pa => fst pa =? p) snd). intros [q' y] Hy. exact (Hal n allocs start dur q' y Hx Hy).
  - intros i Hi Hlt. rewrite U_all_items. apply (Hok p q av Hin).
    unfold all_items in Hi. apply in_app_or in Hi. apply in_or_app. destruct Hi as [Hi|Hi]; apply in_map_iff in Hi.
    + left. destruct Hi as [pl [<- Hp]]. unfold pl_item, it_s; cbn [fst]. unfold pl_starts. apply in_map. exact Hp.
    + right. destruct Hi as [x [<- Hx]]. unfold leaf_starts, leaf_spans.
      destruct x; unfold leaf_item, it_s, it_e in *; cbn [fst snd] in *; try lia.
      apply in_map_iff. exists (start, dur). split; [reflexivity|]. apply in_flat_map.
      exists (Alloc n allocs start dur). split; [exact Hx|left; reflexivity].
Qed.
