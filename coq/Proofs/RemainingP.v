(* Task.remaining_time (translated: Gen/Src_TaskGraph.task_remaining_time) by state *)
From Coq Require Import ZArith Bool List.
Import ListNotations.
From Verif Require Import Model.Val Gen.Src_Task Gen.Src_TaskGraph.
Open Scope Z_scope.

Lemma remaining_time_by_state raw slowest :
  task_remaining_time TS_SCHEDULED raw slowest = raw /\ task_remaining_time TS_RUNNING raw slowest = raw /\
  task_remaining_time TS_PREEMPTED raw slowest = raw /\ task_remaining_time TS_EVICTED raw slowest = raw /\
  task_remaining_time TS_VIRTUAL raw slowest = slowest /\ task_remaining_time TS_RELEASED raw slowest = slowest /\
  task_remaining_time TS_COMPLETED raw slowest = 0 /\ task_remaining_time TS_CANCELLED raw slowest = 0.
Proof. repeat split; reflexivity. Qed.
