(* The monitors of Model/TaskGraph.v decide the properties they are named after
   (closure invariant, doomed set by fixpoint iteration, the check of one TaskGraph.cancel call). *)
From Coq Require Import ZArith Bool List Lia ZifyBool.
Import ListNotations.
From Verif Require Import Model.Val Gen.Src_Task Gen.Src_TaskGraph Model.TaskGraph
  Proofs.TaskGraphP Proofs.TaskGraphP1 Proofs.TaskGraphP2 Proofs.TaskGraphP3.
Open Scope Z_scope.

Lemma is_cancelled_iff : forall g n, is_cancelled g n = true <-> tg_state g n = TS_CANCELLED.
Proof. intros. unfold is_cancelled. apply task_state_eqb_eq. Qed.
Lemma is_cancelled_false : forall g n, is_cancelled g n = false <-> tg_state g n <> TS_CANCELLED.
Proof. intros. unfold is_cancelled. apply task_state_eqb_neq. Qed.

Lemma parent_is_node : forall g p c, In p (tg_parents g c) -> In p (tg_nodes g).
Proof.
  intros g p c H. unfold tg_parents in H. apply in_map_iff in H. destruct H as ([k cs] & <- & Hin).
  apply filter_In in Hin. destruct Hin as [Hin _]. unfold tg_nodes. apply in_map_iff. exists (k, cs). auto.
Qed.

Lemma cancel_closedb_iff : forall g, wf g -> (cancel_closedb g = true <-> cancel_closed g).
Proof.
  intros g W. unfold cancel_closedb, cancel_closed. rewrite andb_true_iff, !forallb_forall. split.
  - intros [H1 H2]. split.
    + intros p c Hp Hc Htm. specialize (H1 p (children_node _ _ _ Hc)).
      apply is_cancelled_iff in Hp. rewrite Hp in H1. cbn [negb orb] in H1. rewrite forallb_forall in H1.
      specialize (H1 c Hc). rewrite Htm in H1. cbn [orb] in H1. apply is_cancelled_iff. exact H1.
    + intros c Htm Hne Hall.
      assert (Hc : In c (tg_nodes g)).
      { destruct (tg_parents g c) as [|p l] eqn:E; [congruence|].
        assert (Hp : In p (tg_parents g c)) by (rewrite E; left; reflexivity).
        apply parents_children in Hp; [|apply W]. eapply wf_children; eauto. }
      specialize (H2 c Hc). rewrite Htm in H2. cbn [negb orb] in H2.
      destruct (tg_parents g c) as [|p l] eqn:E; [congruence|]. cbn [orb] in H2.
      assert (F : forallb (is_cancelled g) (p :: l) = true).
      { apply forallb_forall. intros q Hq. apply is_cancelled_iff. apply Hall. exact Hq. }
      rewrite F in H2. cbn [negb orb] in H2. apply is_cancelled_iff. exact H2.
  - intros [C1 C2]. split.
    + intros p Hp. destruct (is_cancelled g p) eqn:E; cbn [negb orb]; [|reflexivity].
      apply forallb_forall. intros c Hc. destruct (tg_terminal g c) eqn:Et; cbn [orb]; [reflexivity|].
      apply is_cancelled_iff. apply is_cancelled_iff in E. eapply C1; eauto.
    + intros c Hc. destruct (tg_terminal g c) eqn:Et; cbn [negb orb]; [|reflexivity].
      destruct (tg_parents g c) as [|p l] eqn:E; [reflexivity|]. cbn [orb].
      destruct (forallb (is_cancelled g) (p :: l)) eqn:F; cbn [negb orb]; [|reflexivity].
      apply is_cancelled_iff. apply C2; [exact Et | rewrite E; discriminate|].
      rewrite forallb_forall in F. intros q Hq. apply is_cancelled_iff. apply F. rewrite <- E. exact Hq.
Qed.

(* ---------- doomed set by fixpoint iteration ---------- *)
Lemma doomed_step_incl : forall g s x, In x s -> In x (doomed_step g s).
Proof. intros. unfold doomed_step. apply in_or_app. left. assumption. Qed.
Lemma doomed_iter_incl : forall k g s x, In x s -> In x (doomed_iter k g s).
Proof. induction k as [|k IH]; intros g s x H; cbn [doomed_iter]; [exact H | apply IH, doomed_step_incl, H]. Qed.
Lemma doomed_iter_S : forall k g s, doomed_iter (S k) g s = doomed_step g (doomed_iter k g s).
Proof. induction k as [|k IH]; intros g s; [reflexivity|]. cbn [doomed_iter] in *. rewrite <- IH. reflexivity. Qed.
Lemma doomed_iter_mono : forall k k' g s x, (k <= k')%nat -> In x (doomed_iter k g s) -> In x (doomed_iter k' g s).
Proof.
  intros k k' g s x Hle. induction Hle as [|m Hle IH]; intro H; [exact H|].
  rewrite doomed_iter_S. apply doomed_step_incl. apply IH. exact H.
Qed.

Lemma doomed_step_sound : forall g t s, wf g -> (forall x, In x s -> doomed g t x) ->
  forall x, In x (doomed_step g s) -> doomed g t x.
Proof.
  intros g t s W Hs x Hx. unfold doomed_step in Hx. apply in_app_or in Hx. destruct Hx as [Hx|Hx]; [auto|].
  apply filter_In in Hx. destruct Hx as [Hn Hx]. rewrite !andb_true_iff in Hx. destruct Hx as [[_ He] Hf].
  apply existsb_exists in He. destruct He as (p & Hp & Hm). apply zmem_In in Hm.
  destruct (tg_terminal g x) eqn:Et; cbn [negb orb] in Hf.
  - apply doomed_join with (p0 := p); auto. rewrite forallb_forall in Hf. intros q Hq.
    specialize (Hf q Hq). apply orb_true_iff in Hf. destruct Hf as [A|A].
    + left. apply Hs. apply zmem_In. exact A.
    + right. apply is_cancelled_iff. exact A.
  - apply doomed_child with (p := p); auto. apply parents_children; [apply W | exact Hp].
Qed.

Lemma doomed_step_complete : forall g t s c, In c (tg_nodes g) -> (forall p, In p (tg_parents g c) -> doomed g t p -> In p s) ->
  In t s -> doomed g t c -> wf g -> In c (doomed_step g s).
Proof.
  intros g t s c Hc Hp Ht Hd W. destruct (zmem c s) eqn:M; [apply doomed_step_incl, zmem_In, M|].
  unfold doomed_step. apply in_or_app. right. apply filter_In. split; [exact Hc|].
  rewrite M. cbn [negb andb].
  inversion Hd as [|p c' Hdp Hch Htm|c' p0 Htm Hp0 Hd0 Hall]; subst.
  - apply zmem_not_In in M. contradiction.
  - assert (Hpp : In p (tg_parents g c)) by (apply parents_children; [apply W | exact Hch]).
    rewrite Htm. cbn [negb orb]. rewrite andb_true_r. apply existsb_exists. exists p. split; [exact Hpp|].
    apply zmem_In. apply Hp; assumption.
  - rewrite Htm. cbn [negb orb]. apply andb_true_iff. split.
    + apply existsb_exists. exists p0. split; [exact Hp0|]. apply zmem_In. apply Hp; assumption.
    + apply forallb_forall. intros q Hq. apply orb_true_iff. destruct (Hall q Hq) as [A|A].
      * left. apply zmem_In. apply Hp; assumption.
      * right. apply is_cancelled_iff. exact A.
Qed.

Theorem doomed_fix_iff : forall g t, wf g -> In t (tg_nodes g) -> (exists order, topo_ok g order) ->
  forall d, In d (doomed_fix g t) <-> doomed g t d.
Proof.
  intros g t W Ht (order & To) d. unfold doomed_fix. split.
  - revert d. generalize (length (tg_nodes g)) as k.
    assert (A : forall k s, (forall x, In x s -> doomed g t x) -> forall x, In x (doomed_iter k g s) -> doomed g t x).
    { induction k as [|k IH]; intros s Hs x Hx; cbn [doomed_iter] in Hx; [auto|].
      eapply IH; [|exact Hx]. apply doomed_step_sound; assumption. }
    intros k x Hx. eapply A; [|exact Hx]. intros y [<-|[]]. constructor.
  - intro Hd. destruct To as (ND & Hn & Hpar).
    assert (A : forall pre post, order = pre ++ post -> forall c, In c pre -> doomed g t c ->
                In c (doomed_iter (length pre) g [t])).
    { induction pre as [|x l IH] using rev_ind; intros post Ho c Hc Hdc; [contradiction|].
      rewrite <- app_assoc in Ho. cbn [app] in Ho. rewrite app_length. cbn [length]. rewrite Nat.add_1_r.
      apply in_app_or in Hc. destruct Hc as [Hc|[Hc|[]]].
      - rewrite doomed_iter_S. apply doomed_step_incl. eapply IH; eauto.
      - subst x. rewrite doomed_iter_S. apply doomed_step_complete with (t := t); auto.
        + apply Hn. rewrite Ho. apply in_or_app. right. left. reflexivity.
        + intros p Hp Hdp. apply (IH (c :: post) Ho); [eapply Hpar; eauto | exact Hdp].
        + apply doomed_iter_incl. left. reflexivity. }
    assert (Hdo : In d order) by (apply Hn; eapply reach_node; eauto; apply doomed_reach; auto).
    apply doomed_iter_mono with (k := length order).
    + apply NoDup_incl_length; [exact ND | intros x Hx; apply Hn; exact Hx].
    + apply (A order [] (eq_sym (app_nil_r order))); assumption.
Qed.

(* ---------- the check of one TaskGraph.cancel call ---------- *)
Lemma cancellableb_iff : forall s, cancellableb s = true <-> cancellable s.
Proof. intros s. unfold cancellableb, cancellable. rewrite !orb_true_iff, !task_state_eqb_eq. tauto. Qed.

Lemma same_set_iff : forall a b, same_set a b = true <-> (forall x, In x a <-> In x b).
Proof.
  intros a b. unfold same_set. rewrite andb_true_iff, !forallb_forall. split.
  - intros [H1 H2] x. split; intro H; apply zmem_In; auto.
  - intros H. split; intros x Hx; apply zmem_In; apply H; exact Hx.
Qed.

(* what the property says about one observed call *)
Definition closure_obs (g : tgraph) (t : Z) (cs : list Z) (after : list (Z * Z)) : Prop :=
  cancel_closed g /\ NoDup cs /\
  (forall d, In d cs <-> doomed g t d /\ tg_state g d <> TS_CANCELLED) /\
  (forall d, In d cs -> cancellable (tg_state g d)) /\
  (forall n, In n (tg_nodes g) ->
     state_after after n = if zmem n cs then cancelled_value else task_state_value (tg_state g n)).

Theorem closure_check_iff : forall g t cs after, wf g -> In t (tg_nodes g) -> (exists order, topo_ok g order) ->
  (closure_check (g, t, cs, after) = true <-> closure_obs g t cs after).
Proof.
  intros g t cs after W Ht To. unfold closure_check, closure_obs.
  rewrite !andb_true_iff, (cancel_closedb_iff g W), znodup_NoDup, same_set_iff, !forallb_forall.
  assert (E : forall d, In d (filter (fun n => negb (is_cancelled g n)) (doomed_fix g t)) <->
                        doomed g t d /\ tg_state g d <> TS_CANCELLED).
  { intro d. rewrite filter_In, (doomed_fix_iff g t W Ht To d), negb_true_iff, is_cancelled_false. tauto. }
  split.
  - intros ((((A & B) & C) & D) & F).
    split; [exact A|]. split; [exact B|]. split; [|split].
    + intro d. rewrite <- E. apply C.
    + intros d Hd. apply cancellableb_iff. apply D. exact Hd.
    + intros n Hn. specialize (F n Hn). lia.
  - intros (A & B & C & D & F).
    split; [split; [split; [split; [exact A | exact B]|]|]|].
    + intros x. rewrite E. apply C.
    + intros d Hd. apply cancellableb_iff. apply D. exact Hd.
    + intros n Hn. rewrite (F n Hn). lia.
Qed.

(* the monitor accepts what the model (hence, by the correspondence, the code) produces *)
Theorem closure_check_accepts_model : forall g t time g' cs, tg_cancel g t time = (g', Ok cs) -> cancel_closed g ->
  closure_check (g, t, cs, map (fun n => (n, task_state_value (tg_state g' n))) (tg_nodes g)) = true.
Proof.
  intros g t time g' cs H CC. destruct (tg_cancel_exact _ _ _ _ _ H) as (W & Ht & To & P & Q).
  destruct (tg_cancel_closure _ _ _ _ _ H CC) as (E & _ & _ & _).
  apply closure_check_iff; auto. unfold closure_obs.
  split; [exact CC|]. split; [apply (cp_nodup _ _ _ P)|]. split; [exact E|]. split.
  - intros d Hd. apply (cp_in _ _ _ P d Hd).
  - intros n Hn. unfold state_after.
    assert (G : al_get n (map (fun n0 => (n0, task_state_value (tg_state g' n0))) (tg_nodes g)) =
                Some (task_state_value (tg_state g' n))).
    { clear -Hn. induction (tg_nodes g) as [|m l IH]; [contradiction|]. cbn [map al_get].
      destruct (m =? n) eqn:Em; [assert (m = n) by lia; subst; reflexivity|].
      destruct Hn as [Hn|Hn]; [lia | apply IH; exact Hn]. }
    rewrite G. destruct (zmem n cs) eqn:M.
    + apply zmem_In in M. destruct (cp_in _ _ _ P n M) as (S1 & _). rewrite S1. reflexivity.
    + apply zmem_not_In in M. unfold tg_state. rewrite (cp_out _ _ _ P n M). reflexivity.
Qed.
