(* get_schedulable_tasks: a policy that does not plan ahead (lookahead 0, no retraction, no
   release_taskgraphs) is not offered a VIRTUAL task with an unfinished parent, in the states described by
   frontier_sane (C18_no_plan_ahead).  The core is the invariant of the work-list loop: when the queue is
   empty every edge out of an estimated task is relaxed. *)
From Coq Require Import ZArith Bool List Lia ZifyBool.
Import ListNotations.
From Verif Require Import Model.Val Gen.Src_Task Gen.Src_TaskGraph Model.TaskGraph
  Proofs.TaskGraphP Proofs.TaskGraphP1 Proofs.TaskGraphP2 Proofs.TaskGraphP7.
Open Scope Z_scope.

Lemma al_get_put_same : forall A k (v : A) l, al_get k (al_put k v l) = Some v.
Proof.
  intros A k v l; induction l as [|[k2 v2] l IH]; cbn [al_put al_get].
  - rewrite Z.eqb_refl. reflexivity.
  - destruct (k2 =? k) eqn:E; cbn [al_get]; rewrite E; [reflexivity | exact IH].
Qed.
Lemma al_get_put_other : forall A k k' (v : A) l, k' <> k -> al_get k' (al_put k v l) = al_get k' l.
Proof.
  intros A k k' v l Hne; induction l as [|[k2 v2] l IH]; cbn [al_put al_get].
  - assert (k =? k' = false) as -> by lia. reflexivity.
  - destruct (k2 =? k) eqn:E; cbn [al_get].
    + assert (k2 =? k' = false) as -> by lia. reflexivity.
    + rewrite IH. reflexivity.
Qed.

Definition virtualb (g : tgraph) (c : Z) : bool := task_state_eqb (tg_state g c) TS_VIRTUAL.

Lemma skipped_noretract : forall s, sched_child_skipped false s = negb (task_state_eqb s TS_VIRTUAL).
Proof. intros s. unfold sched_child_skipped. cbn. destruct (task_state_eqb s TS_VIRTUAL); reflexivity. Qed.

(* ---------- propagation to the children of one task ---------- *)
Lemma ect_children_spec : forall g ct cs E Q E' Q', ect_children g false ct cs E Q = (E', Q') ->
  (forall n v, al_get n E = Some v -> exists v', al_get n E' = Some v' /\ v <= v') /\
  (forall n, al_get n E' = al_get n E \/ In n Q') /\ incl Q Q' /\
  (forall c, In c cs -> virtualb g c = true -> exists cc, al_get c E' = Some cc /\ child_estimate g ct c <= cc).
Proof.
  intros g ct cs; induction cs as [|c cs IH]; intros E Q E' Q' H; cbn [ect_children] in H.
  - inversion H; subst. repeat split.
    + intros n v Hn. exists v. split; [exact Hn | lia].
    + intros n. left. reflexivity.
    + apply incl_refl.
    + intros c [].
  - rewrite skipped_noretract in H. fold (virtualb g c) in H.
    destruct (virtualb g c) eqn:Ev; cbn [negb] in H.
    + unfold sched_child_updates in H.
      destruct (al_get c E) as [cur|] eqn:Ec; cbn [negb orb] in H.
      * destruct (cur <? child_estimate g ct c) eqn:Eu.
        -- apply IH in H. destruct H as (A & B & C & D). repeat split.
           ++ intros n v Hn. destruct (Z.eq_dec n c) as [->|Hne].
              ** destruct (A c (child_estimate g ct c) (al_get_put_same _ _ _ _)) as (v' & Hv & Hle).
                 exists v'. split; [exact Hv|]. rewrite Ec in Hn. inversion Hn; subst. lia.
              ** apply A. rewrite al_get_put_other by exact Hne. exact Hn.
           ++ intros n. destruct (B n) as [Hb|Hb]; [|right; exact Hb].
              destruct (Z.eq_dec n c) as [->|Hne].
              ** right. apply C. apply in_or_app. right. left. reflexivity.
              ** left. rewrite Hb. apply al_get_put_other. exact Hne.
           ++ intros x Hx. apply C. apply in_or_app. left. exact Hx.
           ++ intros c' [<-|Hc'] Hv'; [|apply D; assumption].
              destruct (A c (child_estimate g ct c) (al_get_put_same _ _ _ _)) as (v' & Hv & Hle).
              exists v'. auto.
        -- apply IH in H. destruct H as (A & B & C & D). repeat split; auto.
           intros c' [<-|Hc'] Hv'; [|apply D; assumption].
           destruct (A c cur Ec) as (v' & Hv & Hle). exists v'. split; [exact Hv | lia].
      * apply IH in H. destruct H as (A & B & C & D). repeat split.
        -- intros n v Hn. destruct (Z.eq_dec n c) as [->|Hne]; [congruence|].
           apply A. rewrite al_get_put_other by exact Hne. exact Hn.
        -- intros n. destruct (B n) as [Hb|Hb]; [|right; exact Hb].
           destruct (Z.eq_dec n c) as [->|Hne].
           ++ right. apply C. apply in_or_app. right. left. reflexivity.
           ++ left. rewrite Hb. apply al_get_put_other. exact Hne.
        -- intros x Hx. apply C. apply in_or_app. left. exact Hx.
        -- intros c' [<-|Hc'] Hv'; [|apply D; assumption].
           destruct (A c (child_estimate g ct c) (al_get_put_same _ _ _ _)) as (v' & Hv & Hle).
           exists v'. auto.
    + apply IH in H. destruct H as (A & B & C & D). repeat split; auto.
      intros c' [<-|Hc'] Hv'; [congruence | apply D; assumption].
Qed.

Lemma ect_children_queue : forall g r ct cs E Q E' Q', ect_children g r ct cs E Q = (E', Q') ->
  forall x, In x Q' -> In x Q \/ In x cs.
Proof.
  intros g r ct cs; induction cs as [|c cs IH]; intros E Q E' Q' H x Hx; cbn [ect_children] in H.
  - inversion H; subst. left. exact Hx.
  - destruct (sched_child_skipped r (tg_state g c)).
    + destruct (IH _ _ _ _ H x Hx); [left | right; right]; assumption.
    + destruct (sched_child_updates _ _ _).
      * destruct (IH _ _ _ _ H x Hx) as [A|A]; [|right; right; exact A].
        apply in_app_or in A. destruct A as [A|[A|[]]]; [left; exact A | right; left; exact A].
      * destruct (IH _ _ _ _ H x Hx); [left | right; right]; assumption.
Qed.

(* every edge out of q is relaxed *)
Definition relaxed (g : tgraph) (E : ect_map) (q : Z) : Prop :=
  forall cq, al_get q E = Some cq -> forall c, In c (tg_children g q) -> virtualb g c = true ->
  exists cc, al_get c E = Some cc /\ child_estimate g cq c <= cc.

Lemma ect_prop_spec : forall fuel g policy E Q draws E' d',
  wf g -> (forall n, In n (tg_nodes g) -> tg_conditional g n = false) -> incl Q (tg_nodes g) ->
  ect_prop fuel g false policy E Q draws = Ok (E', d') ->
  (forall q, al_get q E <> None -> In q Q \/ relaxed g E q) ->
  (forall n v, al_get n E = Some v -> exists v', al_get n E' = Some v' /\ v <= v') /\
  (forall q, relaxed g E' q).
Proof.
  induction fuel as [|f IH]; intros g policy E Q draws E' d' W Hnc HQ H Hinv.
  - destruct Q; cbn [ect_prop] in H; [|discriminate]. inversion H; subst. split.
    + intros n v Hn. exists v. split; [exact Hn | lia].
    + intros q cq Hq. destruct (Hinv q) as [[]|R]; [congruence|]. apply R. exact Hq.
  - destruct Q as [|t Q]; cbn [ect_prop] in H.
    + inversion H; subst. split.
      * intros n v Hn. exists v. split; [exact Hn | lia].
      * intros q cq Hq. destruct (Hinv q) as [[]|R]; [congruence|]. apply R. exact Hq.
    + destruct (al_get t E) as [ct|] eqn:Et; [|discriminate].
      rewrite (Hnc t (HQ t (or_introl eq_refl))) in H.
      destruct (ect_children g false ct (tg_children g t) E Q) as [E1 Q1] eqn:Ec.
      destruct (ect_children_spec _ _ _ _ _ _ _ Ec) as (A & B & C & D).
      apply IH in H; [|exact W|exact Hnc| |].
      2:{ intros x Hx. destruct (ect_children_queue _ _ _ _ _ _ _ _ Ec x Hx) as [Hq|Hq].
          - apply HQ. right. exact Hq.
          - eapply wf_children; eauto. }
      * destruct H as (A' & R'). split; [|exact R'].
        intros n v Hn. destruct (A n v Hn) as (v1 & Hv1 & Hle1). destruct (A' n v1 Hv1) as (v2 & Hv2 & Hle2).
        exists v2. split; [exact Hv2 | lia].
      * intros q Hq.
        destruct (B q) as [Hb|Hb]; [|left; exact Hb].
        rewrite Hb in Hq.
        destruct (Z.eq_dec q t) as [->|Hne].
        -- right. intros cq Hcq c Hc Hv. rewrite Hb, Et in Hcq. inversion Hcq; subst cq. apply D; assumption.
        -- destruct (Hinv q Hq) as [[Hin|Hin]|R]; [congruence | left; apply C; exact Hin|].
           right. intros cq Hcq c Hc Hv. rewrite Hb in Hcq.
           destruct (R cq Hcq c Hc Hv) as (cc & Hcc & Hle). destruct (A c cc Hcc) as (cc' & Hcc' & Hle').
           exists cc'. split; [exact Hcc' | lia].
Qed.

(* ---------- the first loop ---------- *)
Definition init_of (g : tgraph) (time : Z) (n : Z) : result (option Z) :=
  let t := tg_task g n in
  ect_initial (tg_state g n) (t_completion_time (tt_dyn t)) time (tg_remaining g n)
              (t_release_time (tt_dyn t)) (tt_expected_start t) (slowest_of t) false.

Lemma ect_init_spec : forall g time ns E Q E1 Q1, ect_init g time false ns E Q = Ok (E1, Q1) ->
  (forall n, al_get n E <> None -> In n Q) ->
  (forall n, al_get n E1 <> None -> In n Q1) /\
  (forall n v, In n ns -> init_of g time n = Ok (Some v) -> al_get n E1 = Some v) /\
  (forall n v, al_get n E = Some v -> (forall w, init_of g time n = Ok (Some w) -> w = v) -> al_get n E1 = Some v).
Proof.
  intros g time ns; induction ns as [|n ns IH]; intros E Q E1 Q1 H Hq; cbn [ect_init] in H.
  - inversion H; subst. repeat split; auto. intros n v [].
  - fold (init_of g time n) in H.
    destruct (init_of g time n) as [[v|]|e] eqn:Ei; [| |discriminate].
    + apply IH in H.
      * destruct H as (A & B & C). split; [exact A|]. split.
        -- intros m w [<-|Hm] Hw; [|apply B; assumption].
           rewrite Ei in Hw. inversion Hw; subst w. apply C; [apply al_get_put_same|].
           intros w' Hw'. rewrite Ei in Hw'. inversion Hw'. reflexivity.
        -- intros m w Hm Hu. destruct (Z.eq_dec m n) as [->|Hne].
           ++ apply C; [|exact Hu]. rewrite al_get_put_same. f_equal. apply Hu. exact Ei.
           ++ apply C; [|exact Hu]. rewrite al_get_put_other by exact Hne. exact Hm.
      * intros m Hm. destruct (Z.eq_dec m n) as [->|Hne].
        -- apply in_or_app. right. left. reflexivity.
        -- rewrite al_get_put_other in Hm by exact Hne. apply in_or_app. left. apply Hq. exact Hm.
    + apply IH in H; [|exact Hq]. destruct H as (A & B & C). split; [exact A|]. split; [|exact C].
      intros m w [<-|Hm] Hw; [congruence | apply B; assumption].
Qed.

Lemma ect_init_queue : forall g time r ns E Q E1 Q1, ect_init g time r ns E Q = Ok (E1, Q1) ->
  forall x, In x Q1 -> In x Q \/ In x ns.
Proof.
  intros g time r ns; induction ns as [|n ns IH]; intros E Q E1 Q1 H x Hx; cbn [ect_init] in H.
  - inversion H; subst. left. exact Hx.
  - destruct (ect_initial _ _ _ _ _ _ _ _) as [[v|]|e]; [| |discriminate].
    + destruct (IH _ _ _ _ H x Hx) as [A|A]; [|right; right; exact A].
      apply in_app_or in A. destruct A as [A|[A|[]]]; [left; exact A | right; left; exact A].
    + destruct (IH _ _ _ _ H x Hx); [left | right; right]; assumption.
Qed.

(* ---------- the estimates at the end ---------- *)
Lemma tg_ect_spec : forall g time policy draws E d',
  wf g -> (forall n, In n (tg_nodes g) -> tg_conditional g n = false) ->
  tg_ect g time false policy draws = Ok (E, d') ->
  (forall n v, In n (tg_nodes g) -> init_of g time n = Ok (Some v) -> exists v', al_get n E = Some v' /\ v <= v') /\
  (forall q, relaxed g E q).
Proof.
  intros g time policy draws E d' W Hnc H. unfold tg_ect in H.
  destruct (ect_init g time false (tg_nodes g) [] []) as [[E1 Q1]|e] eqn:Ei; cbn [bind fst snd] in H; [|discriminate].
  destruct (ect_init_spec _ _ _ _ _ _ _ Ei) as (A & B & _); [intros n Hn; cbn in Hn; congruence|].
  assert (HQ : incl Q1 (tg_nodes g)).
  { intros x Hx. destruct (ect_init_queue _ _ _ _ _ _ _ _ Ei x Hx) as [[]|Hn]. exact Hn. }
  destruct (ect_prop_spec _ _ _ _ _ _ _ _ W Hnc HQ H) as (C & D); [intros q Hq; left; apply A; exact Hq|].
  split; [|exact D]. intros n v Hn Hv. apply C. apply B; assumption.
Qed.

(* ---------- the side conditions ---------- *)
Lemma parent_node : forall g p c, In p (tg_parents g c) -> In p (tg_nodes g).
Proof.
  intros g p c H. unfold tg_parents in H. apply in_map_iff in H. destruct H as ([k cs] & <- & Hin).
  apply filter_In in Hin. destruct Hin as [Hin _]. unfold tg_nodes. apply in_map_iff. exists (k, cs). auto.
Qed.

Definition active_state (s : task_state) : Prop :=
  s = TS_RELEASED \/ s = TS_SCHEDULED \/ s = TS_RUNNING \/ s = TS_PREEMPTED.

Lemma sane_node : forall g time n, frontier_sane g time = true -> In n (tg_nodes g) ->
  0 < tg_slowest g n /\
  (tg_state g n = TS_RUNNING \/ tg_state g n = TS_PREEMPTED -> 0 < tg_remaining g n) /\
  (tg_state g n = TS_SCHEDULED -> time < tt_expected_start (tg_task g n) + tg_remaining g n) /\
  tg_conditional g n = false /\
  (tg_state g n = TS_VIRTUAL -> forallb (tg_complete g) (tg_parents g n) = false ->
   exists p, In p (tg_parents g n) /\
     (active_state (tg_state g p) \/
      (tg_state g p = TS_VIRTUAL /\ forallb (tg_complete g) (tg_parents g p) = false))).
Proof.
  intros g time n H Hn. unfold frontier_sane in H. rewrite forallb_forall in H. specialize (H n Hn).
  cbv zeta in H. rewrite !andb_true_iff in H. destruct H as (((((H1 & H2) & H3) & H4) & H5) & H6).
  split; [lia|]. split.
  - intros [E|E]; rewrite E in H2; cbn in H2; lia.
  - split.
    + intros E. rewrite E in H3. cbn in H3. lia.
    + split; [apply negb_true_iff in H5; exact H5|].
      intros E Hf. rewrite E, Hf in H6. cbn in H6. apply existsb_exists in H6. destruct H6 as (p & Hp & Hl).
      exists p. split; [exact Hp|]. rewrite !orb_true_iff, andb_true_iff, !task_state_eqb_eq, negb_true_iff in Hl.
      unfold active_state. tauto.
Qed.

Lemma remaining_released : forall g n, tg_state g n = TS_RELEASED -> tg_remaining g n = tg_slowest g n.
Proof. intros g n H. unfold tg_remaining, tg_slowest. fold (tg_state g n). rewrite H. reflexivity. Qed.
Lemma remaining_virtual : forall g n, tg_state g n = TS_VIRTUAL -> tg_remaining g n = tg_slowest g n.
Proof. intros g n H. unfold tg_remaining, tg_slowest. fold (tg_state g n). rewrite H. reflexivity. Qed.

Lemma active_init_late : forall g time p, frontier_sane g time = true -> In p (tg_nodes g) ->
  active_state (tg_state g p) -> exists v, init_of g time p = Ok (Some v) /\ time < v.
Proof.
  intros g time p Hs Hp Ha. destruct (sane_node _ _ _ Hs Hp) as (S1 & S2 & S3 & _).
  unfold init_of, ect_initial. destruct Ha as [E|[E|[E|E]]]; rewrite E; cbn.
  - eexists. split; [reflexivity|]. rewrite (remaining_released _ _ E). lia.
  - eexists. split; [reflexivity|]. apply S3. exact E.
  - eexists. split; [reflexivity|]. specialize (S2 (or_introl E)). lia.
  - eexists. split; [reflexivity|]. specialize (S2 (or_intror E)). lia.
Qed.

Lemma child_estimate_ge : forall g ct c, ct + tg_slowest g c <= child_estimate g ct c.
Proof. intros. unfold child_estimate. cbv zeta. lia. Qed.

(* a VIRTUAL task with an unfinished parent is estimated to complete too late to be offered now *)
Lemma virtual_late : forall g time policy draws E d' order,
  wf g -> topo_ok g order -> frontier_sane g time = true ->
  tg_ect g time false policy draws = Ok (E, d') ->
  forall v, In v (tg_nodes g) -> tg_state g v = TS_VIRTUAL ->
  forallb (tg_complete g) (tg_parents g v) = false ->
  exists e, al_get v E = Some e /\ time + tg_slowest g v < e.
Proof.
  intros g time policy draws E d' order W To Hs He.
  assert (Hnc : forall n, In n (tg_nodes g) -> tg_conditional g n = false).
  { intros n Hn. apply (sane_node _ _ _ Hs Hn). }
  destruct (tg_ect_spec _ _ _ _ _ _ W Hnc He) as (I & R).
  apply (topo_ind g order (fun v => tg_state g v = TS_VIRTUAL -> forallb (tg_complete g) (tg_parents g v) = false ->
                                     exists e, al_get v E = Some e /\ time + tg_slowest g v < e) To).
  intros v Hv IH Hsv Hfv.
  destruct (sane_node _ _ _ Hs Hv) as (_ & _ & _ & _ & S5).
  destruct (S5 Hsv Hfv) as (p & Hp & Hl).
  assert (Hpn : In p (tg_nodes g)) by (eapply parent_node; eauto).
  assert (Hch : In v (tg_children g p)) by (apply parents_children; [apply W | exact Hp]).
  assert (Hvv : virtualb g v = true) by (unfold virtualb; rewrite Hsv; reflexivity).
  assert (Hlate : exists cq, al_get p E = Some cq /\ time < cq).
  { destruct Hl as [Ha|(Hsp & Hfp)].
    - destruct (active_init_late _ _ _ Hs Hpn Ha) as (v0 & Hi & Hlt).
      destruct (I p v0 Hpn Hi) as (v' & Hv' & Hle). exists v'. split; [exact Hv' | lia].
    - destruct (IH p Hp Hsp Hfp) as (e & He' & Hlt). exists e. split; [exact He'|].
      destruct (sane_node _ _ _ Hs Hpn) as (S1 & _). lia. }
  destruct Hlate as (cq & Hcq & Hlt).
  destruct (R p cq Hcq v Hch Hvv) as (cc & Hcc & Hle).
  exists cc. split; [exact Hcc|]. pose proof (child_estimate_ge g cq v). lia.
Qed.

(* C18_no_plan_ahead *)
Theorem frontier_no_plan_ahead : forall g o draws fr d' x, tg_schedulable g o draws = Ok (fr, d') ->
  so_lookahead o = 0 -> so_retract o = false -> so_release_tg o = false -> so_placed o = None ->
  frontier_sane g (so_time o) = true ->
  In x fr -> tg_state g x = TS_VIRTUAL -> forall p, In p (tg_parents g x) -> tg_complete g p = true.
Proof.
  intros g o draws fr d' x H Hla Hre Hrt Hpl Hs Hx Hv.
  apply tg_schedulable_unfold in H. destruct H as (Hok & E & order & He & Ht & ->).
  pose proof (tg_ok_wf _ Hok) as W. pose proof (topo_sort_ok _ _ W Ht) as To.
  rewrite Hre in He.
  apply in_app_or in Hx. destruct Hx as [Hx|Hx].
  - apply offer_loop_in in Hx. destruct Hx as (Hin & ar & Ho).
    assert (Hn : In x (tg_nodes g)) by (apply To; exact Hin).
    destruct (forallb (tg_complete g) (tg_parents g x)) eqn:Ef.
    + rewrite forallb_forall in Ef. exact Ef.
    + exfalso. destruct (virtual_late _ _ _ _ _ _ _ W To Hs He x Hn Hv Ef) as (e & Hee & Hlt).
      unfold offer_of in Ho. rewrite Hee in Ho. apply sched_offer_cases in Ho.
      rewrite Hv, Hla, Hrt in Ho. rewrite (remaining_virtual _ _ Hv) in Ho.
      destruct Ho as [(A & _)|[A|[A|[(_ & _ & [(_ & A)|A])|(A & _)]]]]; try discriminate. lia.
  - exfalso. apply preempt_extra_in in Hx. rewrite Hpl in Hx. destruct Hx as (_ & _ & [A|A]); congruence.
Qed.
