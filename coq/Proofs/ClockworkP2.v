(* Lemmas about Model/Clockwork.v, part 2: the queue invariant of a Model and its preservation by
   remove_task, the expiry loop, add_task, get_available_execution_strategies and get_placements. *)
From Coq Require Import ZArith Bool List Lia ZifyBool Sorting.Sorted Permutation.
Import ListNotations.
From Verif Require Import Model.Val Gen.Src_Clockwork Model.Clockwork Proofs.ClockworkP.
Open Scope Z_scope.

Definition dl_le (a b : task) : Prop := t_deadline a <= t_deadline b.
Definition ids (q : list task) : list Z := map t_id q.
Definition keys (m : list (task * Z)) : list Z := map (fun tn => t_id (fst tn)) m.
Definition qs_t := list (strategy * list task).

Lemma id_eqb_true : forall a b, id_eqb a b = true <-> t_id a = t_id b.
Proof. intros. unfold id_eqb. lia. Qed.
Lemma id_eqb_false : forall a b, id_eqb a b = false <-> t_id a <> t_id b.
Proof. intros. unfold id_eqb. lia. Qed.
Lemma in_q_iff : forall t q, in_q t q = true <-> In (t_id t) (ids q).
Proof.
  intros t q. unfold in_q, ids. rewrite existsb_exists, in_map_iff. split.
  - intros [x [Hx He]]. apply id_eqb_true in He. exists x. split; assumption.
  - intros [x [He Hx]]. exists x. split; [assumption|]. apply id_eqb_true. assumption.
Qed.
Lemma in_q_false : forall t q, in_q t q = false <-> ~ In (t_id t) (ids q).
Proof. intros. rewrite <- in_q_iff. destruct (in_q t q); split; congruence. Qed.

(* ------------------------------------------------------------------ list.remove *)
Lemma remove_first_incl : forall t q x, In x (remove_first t q) -> In x q.
Proof.
  intros t q. induction q as [|y q IH]; intros x H; cbn [remove_first] in H; [assumption|].
  destruct (id_eqb y t); [right; assumption|]. destruct H as [->|H]; [left; reflexivity|right; apply IH; assumption].
Qed.
Lemma remove_first_sorted : forall (R : task -> task -> Prop) t q, StronglySorted R q -> StronglySorted R (remove_first t q).
Proof.
  intros R t q H. induction H as [|y q Hs IH Hf]; cbn [remove_first]; [constructor|].
  destruct (id_eqb y t); [assumption|]. constructor; [assumption|].
  rewrite Forall_forall in *. intros x Hx. apply Hf. eapply remove_first_incl; eassumption.
Qed.
Lemma remove_first_ids_incl : forall t q i, In i (ids (remove_first t q)) -> In i (ids q).
Proof.
  intros t q i H. unfold ids in *. rewrite in_map_iff in *. destruct H as [x [E Hx]]. exists x. split; [assumption|].
  eapply remove_first_incl; eassumption.
Qed.
Lemma remove_first_nodup : forall t q, NoDup (ids q) -> NoDup (ids (remove_first t q)).
Proof.
  intros t q. induction q as [|y q IH]; intros H; cbn [remove_first]; [assumption|].
  cbn [ids map] in H. inversion H as [|? ? Hn Hd]; subst. destruct (id_eqb y t); [assumption|].
  cbn [ids map]. constructor; [|apply IH; assumption]. intros Hc. apply Hn. eapply remove_first_ids_incl; eassumption.
Qed.
Lemma remove_first_notin : forall t q, NoDup (ids q) -> ~ In (t_id t) (ids (remove_first t q)).
Proof.
  intros t q. induction q as [|y q IH]; intros H; cbn [remove_first]; [intros []|].
  cbn [ids map] in H. inversion H as [|? ? Hn Hd]; subst. destruct (id_eqb y t) eqn:E.
  - apply id_eqb_true in E. rewrite <- E. assumption.
  - apply id_eqb_false in E. cbn [ids map]. intros [Hc|Hc]; [congruence|]. apply (IH Hd). assumption.
Qed.
Lemma remove_first_keeps : forall t q x, In x q -> t_id x <> t_id t -> In x (remove_first t q).
Proof.
  intros t q. induction q as [|y q IH]; intros x H Hne; [destruct H|]. cbn [remove_first].
  destruct (id_eqb y t) eqn:E.
  - apply id_eqb_true in E. destruct H as [->|H]; [congruence|assumption].
  - destruct H as [->|H]; [left; reflexivity|right; apply IH; assumption].
Qed.
Lemma remove_first_absent : forall t q, ~ In (t_id t) (ids q) -> remove_first t q = q.
Proof.
  intros t q. induction q as [|y q IH]; intros H; cbn [remove_first]; [reflexivity|].
  cbn [ids map] in H. destruct (id_eqb y t) eqn:E.
  - apply id_eqb_true in E. exfalso. apply H. left. assumption.
  - f_equal. apply IH. intros Hc. apply H. right. assumption.
Qed.
Lemma remove_first_length : forall t q, In (t_id t) (ids q) -> S (length (remove_first t q)) = length q.
Proof.
  intros t q. induction q as [|y q IH]; intros H; [destruct H|]. cbn [remove_first].
  destruct (id_eqb y t) eqn:E; [reflexivity|]. apply id_eqb_false in E. cbn [ids map] in H.
  destruct H as [H|H]; [congruence|]. cbn [length]. f_equal. apply IH. assumption.
Qed.
Lemma remove_first_length_le : forall t q, (length (remove_first t q) <= length q)%nat.
Proof.
  intros t q. induction q as [|y q IH]; cbn [remove_first]; [lia|]. destruct (id_eqb y t); cbn [length]; lia.
Qed.
Lemma in_q_remove_first_other : forall t u q, t_id u <> t_id t -> in_q u (remove_first t q) = in_q u q.
Proof.
  intros t u q Hne. induction q as [|y q IH]; cbn [remove_first]; [reflexivity|].
  destruct (id_eqb y t) eqn:E.
  - apply id_eqb_true in E. unfold in_q. cbn [existsb]. assert (H : id_eqb y u = false) by (apply id_eqb_false; congruence).
    rewrite H. reflexivity.
  - unfold in_q in *. cbn [existsb]. rewrite IH. reflexivity.
Qed.
Lemma in_q_remove_first_self : forall t q, NoDup (ids q) -> in_q t (remove_first t q) = false.
Proof. intros. apply in_q_false. apply remove_first_notin. assumption. Qed.

(* ------------------------------------------------------------------ bisect.insort *)
Lemma insort_perm : forall t q, Permutation (insort t q) (t :: q).
Proof.
  intros t q. induction q as [|x q IH]; cbn [insort]; [apply Permutation_refl|].
  destruct (cw_req_lt (t_deadline t) (t_deadline x)); [apply Permutation_refl|].
  eapply perm_trans; [apply perm_skip; exact IH|apply perm_swap].
Qed.
Lemma insort_in : forall t q x, In x (insort t q) <-> x = t \/ In x q.
Proof.
  intros. split; intros H.
  - apply (Permutation_in _ (insort_perm t q)) in H. destruct H; [left; congruence|right; assumption].
  - apply (Permutation_in _ (Permutation_sym (insort_perm t q))). destruct H; [left; congruence|right; assumption].
Qed.
Lemma insort_sorted : forall t q, StronglySorted dl_le q -> StronglySorted dl_le (insort t q).
Proof.
  intros t q H. induction H as [|x q Hs IH Hf]; cbn [insort]; [repeat constructor|].
  rewrite bridge_req_lt. destruct (t_deadline t <? t_deadline x) eqn:E.
  - constructor; [constructor; assumption|]. constructor; [unfold dl_le; lia|].
    rewrite Forall_forall in *. intros y Hy. specialize (Hf y Hy). unfold dl_le in *. lia.
  - constructor; [assumption|]. rewrite Forall_forall in *. intros y Hy. apply insort_in in Hy.
    destruct Hy as [->|Hy]; [unfold dl_le; lia|apply Hf; assumption].
Qed.
Lemma insort_ids_perm : forall t q, Permutation (ids (insort t q)) (t_id t :: ids q).
Proof. intros. unfold ids. change (t_id t :: map t_id q) with (map t_id (t :: q)). apply Permutation_map. apply insort_perm. Qed.
Lemma in_q_insort : forall t u q, in_q u (insort t q) = id_eqb t u || in_q u q.
Proof.
  intros t u q. destruct (in_q u (insort t q)) eqn:E.
  - apply in_q_iff in E. apply (Permutation_in _ (insort_ids_perm t q)) in E. symmetry. apply orb_true_iff.
    destruct E as [E|E]; [left; apply id_eqb_true; assumption|right; apply in_q_iff; assumption].
  - apply in_q_false in E. symmetry. apply orb_false_iff. split.
    + apply id_eqb_false. intros Hc. apply E. apply (Permutation_in _ (Permutation_sym (insort_ids_perm t q))). left. assumption.
    + apply in_q_false. intros Hc. apply E. apply (Permutation_in _ (Permutation_sym (insort_ids_perm t q))). right. assumption.
Qed.
Lemma insort_length : forall t q, length (insort t q) = S (length q).
Proof. intros. apply (Permutation_length (insort_perm t q)). Qed.

(* ------------------------------------------------------------------ the task map *)
Lemma map_find_some : forall t m n, map_find t m = Some n -> exists x, In (x, n) m /\ t_id x = t_id t.
Proof.
  intros t m. induction m as [|[x k] m IH]; intros n H; cbn [map_find] in H; [discriminate|].
  destruct (id_eqb x t) eqn:E.
  - injection H as <-. apply id_eqb_true in E. exists x. split; [left; reflexivity|assumption].
  - destruct (IH n H) as [y [Hy Ey]]. exists y. split; [right; assumption|assumption].
Qed.
Lemma map_find_none : forall t m, map_find t m = None <-> ~ In (t_id t) (keys m).
Proof.
  intros t m. induction m as [|[x k] m IH]; cbn [map_find keys map fst]; [split; [intros _ []|reflexivity]|].
  destruct (id_eqb x t) eqn:E.
  - apply id_eqb_true in E. split; [discriminate|]. intros H. exfalso. apply H. left. assumption.
  - apply id_eqb_false in E. rewrite IH. fold (keys m). split; intros H; [intros [Hc|Hc]; [congruence|apply H; assumption]|].
    intros Hc. apply H. right. assumption.
Qed.
Lemma keys_in : forall u n m, In (u, n) m -> In (t_id u) (keys m).
Proof. intros u n m H. unfold keys. apply in_map_iff. exists (u, n). split; [reflexivity|assumption]. Qed.
Lemma map_find_in : forall t n m, NoDup (keys m) -> In (t, n) m -> map_find t m = Some n.
Proof.
  intros t n m. induction m as [|[x k] m IH]; intros Hd H; [destruct H|]. cbn [map_find].
  cbn [keys map fst] in Hd. inversion Hd as [|? ? Hn Hd']; subst. destruct H as [H|H].
  - injection H as -> ->. assert (E : id_eqb t t = true) by (apply id_eqb_true; reflexivity). rewrite E. reflexivity.
  - destruct (id_eqb x t) eqn:E; [|apply IH; assumption].
    apply id_eqb_true in E. exfalso. apply Hn. rewrite E. eapply keys_in. eassumption.
Qed.
Lemma keys_unique : forall m u a v b, NoDup (keys m) -> In (u, a) m -> In (v, b) m -> t_id u = t_id v -> u = v /\ a = b.
Proof.
  intros m. induction m as [|[x k] m IH]; intros u a v b Hd Hu Hv E; [destruct Hu|].
  cbn [keys map fst] in Hd. inversion Hd as [|? ? Hn Hd']; subst.
  destruct Hu as [Hu|Hu]; destruct Hv as [Hv|Hv].
  - injection Hu as <- <-. injection Hv as <- <-. split; reflexivity.
  - injection Hu as <- <-. exfalso. apply Hn. rewrite E. eapply keys_in; eassumption.
  - injection Hv as <- <-. exfalso. apply Hn. rewrite <- E. eapply keys_in; eassumption.
  - eapply IH; eassumption.
Qed.
Lemma map_remove_incl : forall t m x, In x (map_remove t m) -> In x m.
Proof.
  intros t m. induction m as [|[y k] m IH]; intros x H; cbn [map_remove] in H; [assumption|].
  destruct (id_eqb y t); [right; assumption|]. destruct H as [<-|H]; [left; reflexivity|right; apply IH; assumption].
Qed.
Lemma map_remove_keys_incl : forall t m i, In i (keys (map_remove t m)) -> In i (keys m).
Proof.
  intros t m i H. unfold keys in *. rewrite in_map_iff in *. destruct H as [x [E Hx]]. exists x. split; [assumption|].
  eapply map_remove_incl; eassumption.
Qed.
Lemma map_remove_nodup : forall t m, NoDup (keys m) -> NoDup (keys (map_remove t m)).
Proof.
  intros t m. induction m as [|[y k] m IH]; intros H; cbn [map_remove]; [assumption|].
  cbn [keys map fst] in H. inversion H as [|? ? Hn Hd]; subst. destruct (id_eqb y t); [assumption|].
  cbn [keys map fst]. constructor; [|apply IH; assumption]. intros Hc. apply Hn. eapply map_remove_keys_incl; eassumption.
Qed.
Lemma map_remove_notin : forall t m, NoDup (keys m) -> ~ In (t_id t) (keys (map_remove t m)).
Proof.
  intros t m. induction m as [|[y k] m IH]; intros H; cbn [map_remove]; [intros []|].
  cbn [keys map fst] in H. inversion H as [|? ? Hn Hd]; subst. destruct (id_eqb y t) eqn:E.
  - apply id_eqb_true in E. rewrite <- E. assumption.
  - apply id_eqb_false in E. cbn [keys map fst]. intros [Hc|Hc]; [congruence|]. apply (IH Hd). assumption.
Qed.
Lemma map_remove_keeps : forall t m u n, In (u, n) m -> t_id u <> t_id t -> In (u, n) (map_remove t m).
Proof.
  intros t m. induction m as [|[y k] m IH]; intros u n H Hne; [destruct H|]. cbn [map_remove].
  destruct (id_eqb y t) eqn:E.
  - apply id_eqb_true in E. destruct H as [H|H]; [injection H as -> ->; congruence|assumption].
  - destruct H as [H|H]; [left; assumption|right; apply IH; assumption].
Qed.
Lemma map_remove_length : forall t m, In (t_id t) (keys m) -> S (length (map_remove t m)) = length m.
Proof.
  intros t m. induction m as [|[y k] m IH]; intros H; [destruct H|]. cbn [map_remove].
  destruct (id_eqb y t) eqn:E; [reflexivity|]. apply id_eqb_false in E. cbn [keys map fst] in H.
  destruct H as [H|H]; [congruence|]. cbn [length]. f_equal. apply IH. assumption.
Qed.
Lemma map_set_keys : forall t n m, keys (map_set t n m) = keys m.
Proof.
  intros t n m. induction m as [|[y k] m IH]; cbn [map_set]; [reflexivity|].
  destruct (id_eqb y t); cbn [keys map fst]; [reflexivity|]. f_equal. exact IH.
Qed.
Lemma map_set_in : forall t n m u k, NoDup (keys m) -> In (u, k) (map_set t n m) ->
  (t_id u <> t_id t /\ In (u, k) m) \/ (t_id u = t_id t /\ k = n /\ exists k0, In (u, k0) m).
Proof.
  intros t n m. induction m as [|[y j] m IH]; intros u k Hd H; cbn [map_set] in H; [destruct H|].
  cbn [keys map fst] in Hd. inversion Hd as [|? ? Hn Hd']; subst.
  destruct (id_eqb y t) eqn:E.
  - destruct H as [H|H].
    + injection H as -> ->. apply id_eqb_true in E. right. split; [assumption|]. split; [reflexivity|]. exists j. left. reflexivity.
    + apply id_eqb_true in E. left. split; [|right; assumption]. intros Hc. apply Hn. rewrite E, <- Hc. eapply keys_in; eassumption.
  - destruct H as [H|H].
    + injection H as -> ->. apply id_eqb_false in E. left. split; [assumption|left; reflexivity].
    + destruct (IH u k Hd' H) as [[Hne Hin]|[He [Hk [k0 Hin]]]].
      * left. split; [assumption|right; assumption].
      * right. split; [assumption|]. split; [assumption|]. exists k0. right. assumption.
Qed.
Lemma map_set_other : forall t n m u k, In (u, k) m -> t_id u <> t_id t -> In (u, k) (map_set t n m).
Proof.
  intros t n m. induction m as [|[y j] m IH]; intros u k H Hne; [destruct H|]. cbn [map_set].
  destruct (id_eqb y t) eqn:E.
  - apply id_eqb_true in E. destruct H as [H|H]; [injection H as -> ->; congruence|right; assumption].
  - destruct H as [H|H]; [left; assumption|right; apply IH; assumption].
Qed.
Lemma map_set_self : forall t n m k, NoDup (keys m) -> In (t, k) m -> In (t, n) (map_set t n m).
Proof.
  intros t n m. induction m as [|[y j] m IH]; intros k Hd H; [destruct H|]. cbn [map_set].
  cbn [keys map fst] in Hd. inversion Hd as [|? ? Hn Hd']; subst.
  destruct (id_eqb y t) eqn:E.
  - apply id_eqb_true in E. destruct H as [H|H]; [injection H as -> ->; left; reflexivity|].
    exfalso. apply Hn. rewrite E. eapply keys_in; eassumption.
  - apply id_eqb_false in E. destruct H as [H|H]; [injection H as -> ->; congruence|]. right. eapply IH; eassumption.
Qed.
Lemma map_find_set : forall t n m, map_find t m <> None -> map_find t (map_set t n m) = Some n.
Proof.
  intros t n m. induction m as [|[y j] m IH]; intros H; cbn [map_find] in H; [congruence|]. cbn [map_set].
  destruct (id_eqb y t) eqn:E; cbn [map_find]; rewrite E; [reflexivity|apply IH; assumption].
Qed.

(* ------------------------------------------------------------------ number of queues that hold a task *)
Fixpoint count_q (t : task) (qs : qs_t) : Z :=
  match qs with [] => 0 | sq :: qs' => (if in_q t (snd sq) then 1 else 0) + count_q t qs' end.
Lemma count_q_nonneg : forall t qs, 0 <= count_q t qs.
Proof. intros t qs. induction qs as [|sq qs IH]; cbn [count_q]; [lia|]. destruct (in_q t (snd sq)); lia. Qed.
Lemma count_q_map_same : forall t (f : strategy * list task -> strategy * list task) qs,
  (forall sq, In sq qs -> in_q t (snd (f sq)) = in_q t (snd sq)) -> count_q t (map f qs) = count_q t qs.
Proof.
  intros t f qs. induction qs as [|sq qs IH]; intros H; cbn [map count_q]; [reflexivity|].
  rewrite H by (left; reflexivity). rewrite IH; [reflexivity|]. intros x Hx. apply H. right. assumption.
Qed.
Lemma count_q_map_all : forall t (f : strategy * list task -> strategy * list task) qs,
  (forall sq, In sq qs -> in_q t (snd (f sq)) = true) -> count_q t (map f qs) = zlen qs.
Proof.
  intros t f qs. induction qs as [|sq qs IH]; intros H; cbn [map count_q]; [reflexivity|].
  rewrite H by (left; reflexivity). rewrite IH; [unfold zlen; cbn [length]; lia|]. intros x Hx. apply H. right. assumption.
Qed.
Lemma count_q_zero : forall t qs, (forall sq, In sq qs -> in_q t (snd sq) = false) -> count_q t qs = 0.
Proof.
  intros t qs. induction qs as [|sq qs IH]; intros H; cbn [count_q]; [reflexivity|].
  rewrite H by (left; reflexivity). rewrite IH; [reflexivity|]. intros x Hx. apply H. right. assumption.
Qed.
Lemma count_q_pos_in : forall t qs, 1 <= count_q t qs -> exists sq, In sq qs /\ in_q t (snd sq) = true.
Proof.
  intros t qs. induction qs as [|sq qs IH]; cbn [count_q]; intros H; [lia|].
  destruct (in_q t (snd sq)) eqn:E; [exists sq; split; [left; reflexivity|assumption]|].
  destruct (IH ltac:(lia)) as [x [Hx Ex]]. exists x. split; [right; assumption|assumption].
Qed.
Lemma count_q_set_nth : forall t k s q q' qs, nth_error qs k = Some (s, q) ->
  count_q t (set_nth k (s, q') qs) = count_q t qs - (if in_q t q then 1 else 0) + (if in_q t q' then 1 else 0).
Proof.
  intros t k s q q' qs. revert k. induction qs as [|sq qs IH]; intros k H; destruct k as [|k]; cbn [nth_error] in H; try discriminate.
  - injection H as ->. cbn [set_nth count_q snd]. lia.
  - cbn [set_nth count_q]. rewrite (IH k H). lia.
Qed.

Lemma set_nth_in : forall {A} k (x : A) l y, In y (set_nth k x l) -> y = x \/ In y l.
Proof.
  intros A k x l. revert k. induction l as [|z l IH]; intros k y H; destruct k as [|k]; cbn [set_nth] in H; try (destruct H; fail).
  - destruct H as [<-|H]; [left; reflexivity|right; right; assumption].
  - destruct H as [<-|H]; [right; left; reflexivity|]. destruct (IH k y H); [left; assumption|right; right; assumption].
Qed.
Lemma set_nth_length : forall {A} k (x : A) l, length (set_nth k x l) = length l.
Proof. intros A k x l. revert k. induction l as [|z l IH]; intros [|k]; cbn [set_nth length]; try reflexivity. f_equal. apply IH. Qed.
Lemma set_nth_Forall : forall {A} (P : A -> Prop) k x l, Forall P l -> P x -> Forall P (set_nth k x l).
Proof.
  intros A P k x l Hl Hx. rewrite Forall_forall in *. intros y Hy. apply set_nth_in in Hy. destruct Hy as [->|Hy]; [assumption|apply Hl; assumption].
Qed.
Lemma set_nth_map_fst : forall {A B} k (a : A) (b b' : B) l, nth_error l k = Some (a, b) -> map fst (set_nth k (a, b') l) = map fst l.
Proof.
  intros A B k a b b' l. revert k. induction l as [|z l IH]; intros [|k] H; cbn [nth_error] in H; try discriminate; cbn [set_nth map].
  - injection H as ->. reflexivity.
  - f_equal. apply IH. assumption.
Qed.
Lemma nth_error_set_nth_same : forall {A} k (x : A) l, (k < length l)%nat -> nth_error (set_nth k x l) k = Some x.
Proof. intros A k x l. revert k. induction l as [|z l IH]; intros [|k] H; cbn [length] in H; try lia; cbn [set_nth nth_error]; [reflexivity|apply IH; lia]. Qed.
Lemma nth_error_set_nth_other : forall {A} k j (x : A) l, k <> j -> nth_error (set_nth k x l) j = nth_error l j.
Proof.
  intros A k j x l. revert k j. induction l as [|z l IH]; intros [|k] [|j] H; cbn [set_nth nth_error]; try reflexivity; try congruence.
  apply IH. congruence.
Qed.

(* ------------------------------------------------------------------ the invariant of a Model *)
Record Inv_m (m : cmodel) : Prop := mkInv_m {
  inv_sorted : Forall (fun sq => StronglySorted dl_le (snd sq)) (m_queues m);
  inv_nodup : Forall (fun sq => NoDup (ids (snd sq))) (m_queues m);
  inv_model : Forall (fun sq => Forall (fun t => t_model t = m_id m) (snd sq)) (m_queues m);
  inv_qmap : Forall (fun sq => Forall (fun t => exists n, In (t, n) (m_tasks m)) (snd sq)) (m_queues m);
  inv_keys : NoDup (keys (m_tasks m));
  inv_count : Forall (fun tn => snd tn = count_q (fst tn) (m_queues m) /\ 1 <= snd tn) (m_tasks m);
  inv_sids : NoDup (map (fun sq => s_id (fst sq)) (m_queues m)) }.

(* a model that only lost requests *)
Definition shrinks (m' m : cmodel) : Prop :=
  m_id m' = m_id m /\
  (forall k sq', nth_error (m_queues m') k = Some sq' ->
     exists sq, nth_error (m_queues m) k = Some sq /\ fst sq' = fst sq /\ incl (snd sq') (snd sq)) /\
  length (m_queues m') = length (m_queues m) /\
  incl (map fst (m_tasks m')) (map fst (m_tasks m)).
Lemma keys_fst : forall m, keys m = map t_id (map fst m).
Proof. intros. unfold keys. rewrite map_map. reflexivity. Qed.
Lemma shrinks_keys : forall m' m, shrinks m' m -> incl (keys (m_tasks m')) (keys (m_tasks m)).
Proof.
  intros m' m [_ [_ [_ H]]] i Hi. rewrite keys_fst in *. apply in_map_iff in Hi. destruct Hi as [x [E Hx]].
  apply in_map_iff. exists x. split; [assumption|apply H; assumption].
Qed.
Lemma map_set_fst : forall t n m, map fst (map_set t n m) = map fst m.
Proof.
  intros t n m. induction m as [|[y k] m IH]; cbn [map_set]; [reflexivity|].
  destruct (id_eqb y t); cbn [map fst]; [reflexivity|]. f_equal. exact IH.
Qed.
Lemma shrinks_refl : forall m, shrinks m m.
Proof. intros m. repeat split; try apply incl_refl. intros k sq H. exists sq. repeat split; [assumption|apply incl_refl]. Qed.
Lemma shrinks_trans : forall a b c, shrinks a b -> shrinks b c -> shrinks a c.
Proof.
  intros a b c [Ha1 [Ha2 [Ha3 Ha4]]] [Hb1 [Hb2 [Hb3 Hb4]]]. repeat split; try congruence.
  - intros k sq H. destruct (Ha2 k sq H) as [x [Hx [Ex Ix]]]. destruct (Hb2 k x Hx) as [y [Hy [Ey Iy]]].
    exists y. repeat split; [assumption|congruence|eapply incl_tran; eassumption].
  - eapply incl_tran; eassumption.
Qed.

Lemma Forall_remove_first : forall (P : task -> Prop) t q, Forall P q -> Forall P (remove_first t q).
Proof. intros P t q H. rewrite Forall_forall in *. intros x Hx. apply H. eapply remove_first_incl; eassumption. Qed.
Lemma in_queue_key : forall m sq x, Inv_m m -> In sq (m_queues m) -> In x (snd sq) -> exists n, In (x, n) (m_tasks m).
Proof.
  intros m sq x Hi Hsq Hx. pose proof (inv_qmap m Hi) as H. rewrite Forall_forall in H. specialize (H sq Hsq).
  rewrite Forall_forall in H. apply H. assumption.
Qed.
Lemma in_queue_map_find : forall m sq x, Inv_m m -> In sq (m_queues m) -> In x (snd sq) -> exists n, map_find x (m_tasks m) = Some n /\ In (x, n) (m_tasks m).
Proof.
  intros m sq x Hi Hsq Hx. destruct (in_queue_key m sq x Hi Hsq Hx) as [n Hn]. exists n. split; [|assumption].
  apply map_find_in; [apply (inv_keys m Hi)|assumption].
Qed.
Lemma not_key_not_queued : forall m t sq, Inv_m m -> ~ In (t_id t) (keys (m_tasks m)) -> In sq (m_queues m) -> in_q t (snd sq) = false.
Proof.
  intros m t sq Hi Hk Hsq. apply in_q_false. intros Hc. unfold ids in Hc. apply in_map_iff in Hc. destruct Hc as [x [Ex Hx]].
  destruct (in_queue_key m sq x Hi Hsq Hx) as [n Hn]. apply Hk. rewrite <- Ex. eapply keys_in; eassumption.
Qed.

(* ---------------- remove_task *)
Lemma remove_task_inv : forall t m, Inv_m m -> Inv_m (m_remove_task t m).
Proof.
  intros t m Hi. unfold m_remove_task. destruct (map_find t (m_tasks m)) as [n0|] eqn:Ef; [|assumption].
  destruct Hi as [H1 H2 H3 H4 H5 H6 H7]. constructor; cbn [m_queues m_tasks m_id].
  - rewrite Forall_map. eapply Forall_impl; [|exact H1]. cbn. intros sq H. apply remove_first_sorted. assumption.
  - rewrite Forall_map. eapply Forall_impl; [|exact H2]. cbn. intros sq H. apply remove_first_nodup. assumption.
  - rewrite Forall_map. eapply Forall_impl; [|exact H3]. cbn. intros sq H. apply Forall_remove_first. assumption.
  - rewrite Forall_map. rewrite Forall_forall in *. intros sq Hsq. cbn. rewrite Forall_forall. intros x Hx.
    pose proof (remove_first_incl _ _ _ Hx) as Hx'. specialize (H4 sq Hsq). rewrite Forall_forall in H4.
    destruct (H4 x Hx') as [n Hn]. exists n. apply map_remove_keeps; [assumption|].
    intros Hc. apply (remove_first_notin t (snd sq) (H2 sq Hsq)). rewrite <- Hc. unfold ids. apply in_map. assumption.
  - apply map_remove_nodup. assumption.
  - rewrite Forall_forall in *. intros [u n] Hu. cbn [fst snd].
    pose proof (map_remove_incl _ _ _ Hu) as Hu'. destruct (H6 (u, n) Hu') as [Hc Hp]. cbn [fst snd] in Hc, Hp. split; [|assumption].
    rewrite Hc. symmetry. apply count_q_map_same. intros sq Hsq. cbn [snd]. apply in_q_remove_first_other.
    intros Hc'. apply (map_remove_notin t (m_tasks m) H5). rewrite <- Hc'. eapply keys_in. eassumption.
  - rewrite map_map. cbn [fst]. assumption.
Qed.
Lemma remove_task_shrinks : forall t m, shrinks (m_remove_task t m) m.
Proof.
  intros t m. unfold m_remove_task. destruct (map_find t (m_tasks m)); [|apply shrinks_refl].
  repeat split; cbn [m_id m_queues m_tasks].
  - intros k sq' H. rewrite nth_error_map in H. destruct (nth_error (m_queues m) k) as [sq|]; [|discriminate].
    cbn in H. injection H as <-. exists sq. repeat split. cbn [snd]. intros x Hx. eapply remove_first_incl; eassumption.
  - apply map_length.
  - intros x Hx. apply in_map_iff in Hx. destruct Hx as [p [E Hp]]. apply in_map_iff. exists p. split; [assumption|].
    eapply map_remove_incl; eassumption.
Qed.
Lemma remove_task_gone : forall t m, Inv_m m -> ~ In (t_id t) (keys (m_tasks (m_remove_task t m))).
Proof.
  intros t m Hi. unfold m_remove_task. destruct (map_find t (m_tasks m)) eqn:Ef; cbn [m_tasks].
  - apply map_remove_notin. apply (inv_keys m Hi).
  - apply map_find_none. assumption.
Qed.

(* ---------------- one iteration of the expiry loop *)
Lemma nth_error_In' : forall {A} (l : list A) k x, nth_error l k = Some x -> In x l.
Proof. intros. eapply nth_error_In; eassumption. Qed.

Lemma expire_step_inv : forall now k m m', Inv_m m -> expire_step now k m = Some m' -> Inv_m m'.
Proof.
  intros now k m m' Hi H. unfold expire_step in H.
  destruct (nth_error (m_queues m) k) as [[s q]|] eqn:En; [|discriminate].
  destruct (cw_expire_cond (zlen q) (head_deadline q) now (s_rt s)); [|discriminate].
  destruct q as [|h q']; [discriminate|]. cbn [m_tasks m_queues m_id] in H.
  pose proof (nth_error_In' _ _ _ En) as Hin.
  destruct (in_queue_map_find m (s, h :: q') h Hi Hin ltac:(left; reflexivity)) as [n [Ef Hn]]. rewrite Ef in H.
  pose proof Hi as [H1 H2 H3 H4 H5 H6 H7].
  assert (Hsq : StronglySorted dl_le q') by (rewrite Forall_forall in H1; specialize (H1 _ Hin); cbn in H1; inversion H1; assumption).
  assert (Hnd : NoDup (ids (h :: q'))) by (rewrite Forall_forall in H2; apply (H2 _ Hin)).
  assert (Hnq : in_q h q' = false) by (apply in_q_false; cbn [ids map] in Hnd; inversion Hnd; assumption).
  assert (Hcnt : n = count_q h (m_queues m) /\ 1 <= n) by (rewrite Forall_forall in H6; apply (H6 (h, n) Hn)).
  (* the model after the pop and the counter update *)
  set (m2 := mkM (m_id m) (set_nth k (s, q') (m_queues m)) (map_set h (n - 1) (m_tasks m))) in *.
  assert (Hi2 : n - 1 <> 0 -> Inv_m m2).
  { intros Hnz. constructor; unfold m2; cbn [m_queues m_tasks m_id].
    - apply set_nth_Forall; assumption.
    - apply set_nth_Forall; [assumption|]. cbn [snd]. cbn [ids map] in Hnd. inversion Hnd; assumption.
    - apply set_nth_Forall; [assumption|]. cbn [snd]. rewrite Forall_forall in H3. specialize (H3 _ Hin). cbn in H3. inversion H3; assumption.
    - rewrite Forall_forall. intros sq Hsq'. rewrite Forall_forall. intros x Hx.
      assert (Hx' : exists sq0, In sq0 (m_queues m) /\ In x (snd sq0)).
      { apply set_nth_in in Hsq'. destruct Hsq' as [->|Hsq']; [exists (s, h :: q'); split; [assumption|right; assumption]|exists sq; split; assumption]. }
      destruct Hx' as [sq0 [Hsq0 Hx0]]. destruct (in_queue_key m sq0 x Hi Hsq0 Hx0) as [nx Hnx].
      destruct (Z.eq_dec (t_id x) (t_id h)) as [E|E].
      + destruct (keys_unique _ _ _ _ _ H5 Hnx Hn E) as [-> ->]. exists (n - 1). eapply map_set_self; eassumption.
      + exists nx. apply map_set_other; assumption.
    - rewrite map_set_keys. assumption.
    - rewrite Forall_forall. intros [u ku] Hu. cbn [fst snd]. apply map_set_in in Hu; [|assumption].
      rewrite (count_q_set_nth u k s (h :: q') q' _ En).
      destruct Hu as [[Hne Hu]|[He [-> [k0 Hu]]]].
      + rewrite Forall_forall in H6. destruct (H6 (u, ku) Hu) as [Hc Hp]. cbn [fst snd] in Hc, Hp. split; [|assumption].
        assert (E1 : in_q u (h :: q') = in_q u q') by (unfold in_q; cbn [existsb]; assert (E0 : id_eqb h u = false) by (apply id_eqb_false; congruence); rewrite E0; reflexivity).
        rewrite E1. lia.
      + destruct (keys_unique _ _ _ _ _ H5 Hu Hn He) as [-> ->]. destruct Hcnt as [Hc Hp]. split; [|lia].
        assert (E1 : in_q h (h :: q') = true) by (apply in_q_iff; left; reflexivity). rewrite E1, Hnq. lia.
    - erewrite <- (map_map fst s_id), set_nth_map_fst, map_map by eassumption. assumption. }
  destruct (n - 1 =? 0) eqn:Ez.
  - (* counter reached zero: remove_task *)
    injection H as <-. fold m2. unfold m_remove_task. cbn [m_tasks m2].
    rewrite map_find_set by (rewrite Ef; discriminate). cbn [m_id m_queues m_tasks m2].
    assert (Hn1 : n = 1) by lia. subst n.
    constructor; cbn [m_queues m_tasks m_id].
    + rewrite Forall_map. apply set_nth_Forall; [|cbn; apply remove_first_sorted; assumption].
      eapply Forall_impl; [|exact H1]. cbn. intros sq Hs. apply remove_first_sorted. assumption.
    + rewrite Forall_map. apply set_nth_Forall; [|cbn; apply remove_first_nodup; cbn [ids map] in Hnd; inversion Hnd; assumption].
      eapply Forall_impl; [|exact H2]. cbn. intros sq Hs. apply remove_first_nodup. assumption.
    + rewrite Forall_map. apply set_nth_Forall.
      * eapply Forall_impl; [|exact H3]. cbn. intros sq Hs. apply Forall_remove_first. assumption.
      * cbn. apply Forall_remove_first. rewrite Forall_forall in H3. specialize (H3 _ Hin). cbn in H3. inversion H3; assumption.
    + rewrite Forall_map. rewrite Forall_forall. intros sq Hsq'. cbn. rewrite Forall_forall. intros x Hx.
      assert (Hx' : exists sq0, In sq0 (m_queues m) /\ In x (snd sq0) /\ NoDup (ids (snd sq)) ).
      { apply set_nth_in in Hsq'. destruct Hsq' as [->|Hsq'].
        - exists (s, h :: q'). split; [assumption|]. split; [right; eapply remove_first_incl; eassumption|]. cbn. cbn [ids map] in Hnd. inversion Hnd; assumption.
        - exists sq. split; [assumption|]. split; [eapply remove_first_incl; eassumption|]. rewrite Forall_forall in H2. apply H2. assumption. }
      destruct Hx' as [sq0 [Hsq0 [Hx0 Hnd0]]]. destruct (in_queue_key m sq0 x Hi Hsq0 Hx0) as [nx Hnx].
      assert (E : t_id x <> t_id h).
      { intros Hc. apply (remove_first_notin h (snd sq) Hnd0). rewrite <- Hc. unfold ids. apply in_map. assumption. }
      exists nx. apply map_remove_keeps; [|assumption]. apply map_set_other; assumption.
    + apply map_remove_nodup. rewrite map_set_keys. assumption.
    + rewrite Forall_forall. intros [u ku] Hu. cbn [fst snd].
      assert (Hne : t_id u <> t_id h).
      { intros Hc. apply (map_remove_notin h (map_set h (1 - 1) (m_tasks m))); [rewrite map_set_keys; assumption|].
        rewrite <- Hc. eapply keys_in; eassumption. }
      apply map_remove_incl in Hu. apply map_set_in in Hu; [|assumption].
      destruct Hu as [[_ Hu]|[He _]]; [|congruence].
      rewrite Forall_forall in H6. destruct (H6 (u, ku) Hu) as [Hc Hp]. cbn [fst snd] in Hc, Hp. split; [|assumption].
      rewrite count_q_map_same by (intros sq Hsq'; cbn [snd]; apply in_q_remove_first_other; assumption).
      rewrite (count_q_set_nth u k s (h :: q') q' _ En).
      assert (E1 : in_q u (h :: q') = in_q u q') by (unfold in_q; cbn [existsb]; assert (E0 : id_eqb h u = false) by (apply id_eqb_false; congruence); rewrite E0; reflexivity).
      rewrite E1. lia.
    + rewrite map_map. cbn [fst]. erewrite <- (map_map fst s_id), set_nth_map_fst, map_map by eassumption. assumption.
  - injection H as <-. apply Hi2. lia.
Qed.

Lemma expire_step_shrinks : forall now k m m', expire_step now k m = Some m' -> shrinks m' m.
Proof.
  intros now k m m' H. unfold expire_step in H.
  destruct (nth_error (m_queues m) k) as [[s q]|] eqn:En; [|discriminate].
  destruct (cw_expire_cond (zlen q) (head_deadline q) now (s_rt s)); [|discriminate].
  destruct q as [|h q']; [discriminate|]. cbn [m_tasks m_queues m_id] in H.
  assert (Hs : forall tm, incl (map fst tm) (map fst (m_tasks m)) -> shrinks (mkM (m_id m) (set_nth k (s, q') (m_queues m)) tm) m).
  { intros tm Htm. repeat split; cbn [m_id m_queues m_tasks]; [|apply set_nth_length|assumption].
    intros j sq' Hj. destruct (Nat.eq_dec k j) as [<-|Hne].
    - rewrite nth_error_set_nth_same in Hj by (apply nth_error_Some; rewrite En; discriminate). injection Hj as <-.
      exists (s, h :: q'). repeat split; [assumption|]. cbn [snd]. intros x Hx. right. assumption.
    - rewrite nth_error_set_nth_other in Hj by assumption. exists sq'. repeat split; [assumption|apply incl_refl]. }
  destruct (map_find h (m_tasks m)) as [n|].
  - destruct (n - 1 =? 0); injection H as <-.
    + eapply shrinks_trans; [apply remove_task_shrinks|]. apply Hs. rewrite map_set_fst. apply incl_refl.
    + apply Hs. rewrite map_set_fst. apply incl_refl.
  - injection H as <-. apply Hs. apply incl_refl.
Qed.

(* ---------------- the expiry loops *)
Lemma expire_loop_inv : forall fuel now k m, Inv_m m -> Inv_m (expire_loop fuel now k m).
Proof.
  induction fuel as [|f IH]; intros now k m Hi; cbn [expire_loop]; [assumption|].
  destruct (expire_step now k m) as [m'|] eqn:E; [|assumption]. apply IH. eapply expire_step_inv; eassumption.
Qed.
Lemma expire_loop_shrinks : forall fuel now k m, shrinks (expire_loop fuel now k m) m.
Proof.
  induction fuel as [|f IH]; intros now k m; cbn [expire_loop]; [apply shrinks_refl|].
  destruct (expire_step now k m) as [m'|] eqn:E; [|apply shrinks_refl].
  eapply shrinks_trans; [apply IH|]. eapply expire_step_shrinks; eassumption.
Qed.

Definition cleanq (now : Z) (sq : strategy * list task) : Prop := Forall (fun t => now + s_rt (fst sq) <= t_deadline t) (snd sq).
Definition clean_at (now : Z) (k : nat) (m : cmodel) : Prop :=
  match nth_error (m_queues m) k with Some sq => cleanq now sq | None => True end.
(* every queued request can still meet its deadline with the strategy of its queue *)
Definition clean (now : Z) (m : cmodel) : Prop := Forall (cleanq now) (m_queues m).

Lemma shrinks_clean_at : forall now k m m', shrinks m' m -> clean_at now k m -> clean_at now k m'.
Proof.
  intros now k m m' [_ [Hs _]] Hc. unfold clean_at in *. destruct (nth_error (m_queues m') k) as [sq'|] eqn:E; [|exact Logic.I].
  destruct (Hs k sq' E) as [sq [Hq [Ef Hi]]]. rewrite Hq in Hc. unfold cleanq in *. rewrite Ef.
  rewrite Forall_forall in *. intros x Hx. apply Hc. apply Hi. assumption.
Qed.
Lemma clean_all_at : forall now m, (forall k, clean_at now k m) -> clean now m.
Proof.
  intros now m H. unfold clean. rewrite Forall_forall. intros sq Hsq. apply In_nth_error in Hsq. destruct Hsq as [k Hk].
  specialize (H k). unfold clean_at in H. rewrite Hk in H. assumption.
Qed.
Lemma clean_at_all : forall now m k, clean now m -> clean_at now k m.
Proof.
  intros now m k H. unfold clean_at. destruct (nth_error (m_queues m) k) as [sq|] eqn:E; [|exact Logic.I].
  unfold clean in H. rewrite Forall_forall in H. apply H. eapply nth_error_In; eassumption.
Qed.
Lemma shrinks_clean : forall now m m', shrinks m' m -> clean now m -> clean now m'.
Proof. intros. apply clean_all_at. intros k. eapply shrinks_clean_at; [eassumption|]. apply clean_at_all. assumption. Qed.

Lemma expire_step_qlen : forall now k m m', Inv_m m -> expire_step now k m = Some m' -> (qlen_at k m' < qlen_at k m)%nat.
Proof.
  intros now k m m' Hi H. pose proof (expire_step_shrinks _ _ _ _ H) as [_ [Hs _]].
  unfold expire_step in H. unfold qlen_at.
  destruct (nth_error (m_queues m) k) as [[s q]|] eqn:En; [|discriminate].
  destruct (cw_expire_cond (zlen q) (head_deadline q) now (s_rt s)); [|discriminate].
  destruct q as [|h q']; [discriminate|]. cbn [m_tasks m_queues m_id] in H.
  assert (Hk : (k < length (m_queues m))%nat) by (apply nth_error_Some; rewrite En; discriminate).
  assert (Hb : forall tm, (qlen_at k (mkM (m_id m) (set_nth k (s, q') (m_queues m)) tm) < length (h :: q'))%nat).
  { intros tm. unfold qlen_at. cbn [m_queues]. rewrite nth_error_set_nth_same by assumption. cbn [length]. lia. }
  assert (Hr : forall x mm, (qlen_at k (m_remove_task x mm) <= qlen_at k mm)%nat).
  { intros x mm. unfold m_remove_task, qlen_at. destruct (map_find x (m_tasks mm)); [|lia]. cbn [m_queues].
    rewrite nth_error_map. destruct (nth_error (m_queues mm) k) as [[s0 q0]|]; cbn; [apply remove_first_length_le|lia]. }
  fold (qlen_at k m').
  destruct (map_find h (m_tasks m)) as [n|].
  - destruct (n - 1 =? 0); injection H as <-.
    + eapply Nat.le_lt_trans; [apply Hr|apply Hb].
    + apply Hb.
  - injection H as <-. apply Hb.
Qed.

Lemma expire_step_none_clean : forall now k m, Inv_m m -> expire_step now k m = None -> clean_at now k m.
Proof.
  intros now k m Hi H. unfold expire_step in H. unfold clean_at.
  destruct (nth_error (m_queues m) k) as [[s q]|] eqn:En; [|exact Logic.I].
  pose proof (nth_error_In _ _ En) as Hin.
  unfold cleanq. cbn [fst snd]. destruct q as [|h q']; [constructor|].
  rewrite bridge_expire in H. cbn [head_deadline] in H.
  destruct ((0 <? zlen (h :: q')) && (t_deadline h <? now + s_rt s)) eqn:Ec.
  - cbn [m_tasks m_queues m_id] in H. destruct (map_find h (m_tasks m)) as [n|]; [destruct (n - 1 =? 0)|]; discriminate.
  - assert (Hl : 0 < zlen (h :: q')) by (unfold zlen; cbn [length]; lia).
    assert (Hh : now + s_rt s <= t_deadline h) by lia.
    pose proof (inv_sorted m Hi) as Hs. rewrite Forall_forall in Hs. specialize (Hs _ Hin). cbn in Hs.
    inversion Hs as [|? ? _ Hf]; subst. constructor; [assumption|].
    rewrite Forall_forall in *. intros x Hx. specialize (Hf x Hx). unfold dl_le in Hf. lia.
Qed.

Lemma expire_loop_clean : forall fuel now k m, Inv_m m -> (qlen_at k m <= fuel)%nat -> clean_at now k (expire_loop fuel now k m).
Proof.
  induction fuel as [|f IH]; intros now k m Hi Hf; cbn [expire_loop].
  - unfold clean_at, qlen_at in *. destruct (nth_error (m_queues m) k) as [[s q]|]; [|exact Logic.I].
    destruct q; [constructor|cbn [length] in Hf; lia].
  - destruct (expire_step now k m) as [m'|] eqn:E.
    + apply IH; [eapply expire_step_inv; eassumption|]. pose proof (expire_step_qlen _ _ _ _ Hi E). lia.
    + apply expire_step_none_clean; assumption.
Qed.
Lemma expire_queue_inv : forall now k m, Inv_m m -> Inv_m (expire_queue now k m).
Proof. intros. apply expire_loop_inv. assumption. Qed.
Lemma expire_queue_shrinks : forall now k m, shrinks (expire_queue now k m) m.
Proof. intros. apply expire_loop_shrinks. Qed.
Lemma expire_queue_clean : forall now k m, Inv_m m -> clean_at now k (expire_queue now k m).
Proof. intros. apply expire_loop_clean; [assumption|]. apply Nat.le_refl. Qed.

Lemma expire_fold_spec : forall now ks m, Inv_m m ->
  let m' := fold_left (fun m k => expire_queue now k m) ks m in
  Inv_m m' /\ shrinks m' m /\ (forall k, In k ks \/ clean_at now k m -> clean_at now k m').
Proof.
  intros now ks. induction ks as [|k0 ks IH]; intros m Hi; cbn [fold_left].
  - split; [assumption|]. split; [apply shrinks_refl|]. intros k [[]|H]. assumption.
  - destruct (IH (expire_queue now k0 m) (expire_queue_inv now k0 m Hi)) as [H1 [H2 H3]]. cbn zeta in *.
    split; [assumption|]. split; [eapply shrinks_trans; [eassumption|apply expire_queue_shrinks]|].
    intros k [[<-|Hk]|Hc].
    + apply H3. right. apply expire_queue_clean. assumption.
    + apply H3. left. assumption.
    + apply H3. right. eapply shrinks_clean_at; [apply expire_queue_shrinks|assumption].
Qed.
Lemma expire_all_spec : forall now m, Inv_m m ->
  Inv_m (expire_all now m) /\ shrinks (expire_all now m) m /\ clean now (expire_all now m).
Proof.
  intros now m Hi. unfold expire_all. destruct (expire_fold_spec now (seq 0 (length (m_queues m))) m Hi) as [H1 [H2 H3]].
  cbn zeta in *. split; [assumption|]. split; [assumption|]. apply clean_all_at. intros k.
  destruct (Nat.lt_ge_cases k (length (m_queues m))) as [Hlt|Hge].
  - apply H3. left. apply in_seq. lia.
  - unfold clean_at. destruct H2 as [_ [_ [Hl _]]].
    assert (E : nth_error (m_queues (fold_left (fun m0 k0 => expire_queue now k0 m0) (seq 0 (length (m_queues m))) m)) k = None)
      by (apply nth_error_None; lia).
    rewrite E. exact Logic.I.
Qed.

(* ---------------- add_task *)
Lemma add_task_inv : forall t m, Inv_m m -> t_model t = m_id m -> m_queues m <> [] -> Inv_m (m_add_task t m).
Proof.
  intros t m Hi Hm Hne. unfold m_add_task. destruct (map_find t (m_tasks m)) eqn:Ef; [assumption|].
  apply map_find_none in Ef. pose proof Hi as [H1 H2 H3 H4 H5 H6 H7].
  assert (Hnq : forall sq, In sq (m_queues m) -> in_q t (snd sq) = false) by (intros; eapply not_key_not_queued; eassumption).
  constructor; cbn [m_queues m_tasks m_id].
  - rewrite Forall_map. eapply Forall_impl; [|exact H1]. cbn. intros sq H. apply insort_sorted. assumption.
  - rewrite Forall_map. rewrite Forall_forall in *. intros sq Hsq. cbn.
    eapply Permutation_NoDup; [apply Permutation_sym; apply insort_ids_perm|]. constructor; [|apply H2; assumption].
    apply in_q_false. apply Hnq. assumption.
  - rewrite Forall_map. rewrite Forall_forall in *. intros sq Hsq. cbn. rewrite Forall_forall. intros x Hx.
    apply insort_in in Hx. destruct Hx as [->|Hx]; [assumption|]. specialize (H3 sq Hsq). rewrite Forall_forall in H3. apply H3. assumption.
  - rewrite Forall_map. rewrite Forall_forall in *. intros sq Hsq. cbn. rewrite Forall_forall. intros x Hx.
    apply insort_in in Hx. destruct Hx as [->|Hx].
    + exists (zlen (m_queues m)). apply in_or_app. right. left. reflexivity.
    + specialize (H4 sq Hsq). rewrite Forall_forall in H4. destruct (H4 x Hx) as [n Hn]. exists n. apply in_or_app. left. assumption.
  - unfold keys. rewrite map_app. cbn [map fst]. eapply Permutation_NoDup; [apply Permutation_cons_append|].
    constructor; assumption.
  - rewrite Forall_forall in *. intros [u n] Hu. cbn [fst snd]. apply in_app_or in Hu. destruct Hu as [Hu|[Hu|[]]].
    + destruct (H6 (u, n) Hu) as [Hc Hp]. cbn [fst snd] in Hc, Hp. split; [|assumption]. rewrite Hc. symmetry.
      apply count_q_map_same. intros sq Hsq. cbn [snd]. rewrite in_q_insort.
      assert (E : id_eqb t u = false). { apply id_eqb_false. intros Hc'. apply Ef. rewrite Hc'. eapply keys_in; eassumption. }
      rewrite E. reflexivity.
    + injection Hu as <- <-. split.
      * symmetry. apply count_q_map_all. intros sq Hsq. cbn [snd]. rewrite in_q_insort.
        assert (E : id_eqb t t = true) by (apply id_eqb_true; reflexivity). rewrite E. reflexivity.
      * unfold zlen. destruct (m_queues m); [congruence|cbn [length]; lia].
  - rewrite map_map. cbn [fst]. assumption.
Qed.
Lemma add_task_keys : forall t m i, In i (keys (m_tasks (m_add_task t m))) -> i = t_id t \/ In i (keys (m_tasks m)).
Proof.
  intros t m i H. unfold m_add_task in H. destruct (map_find t (m_tasks m)); [right; assumption|]. cbn [m_tasks] in H.
  unfold keys in H. rewrite map_app in H. apply in_app_or in H. destruct H as [H|[H|[]]]; [right; assumption|left; symmetry; assumption].
Qed.
Lemma add_task_fst : forall t m, map fst (m_queues (m_add_task t m)) = map fst (m_queues m).
Proof. intros t m. unfold m_add_task. destruct (map_find t (m_tasks m)); [reflexivity|]. cbn [m_queues]. rewrite map_map. reflexivity. Qed.
Lemma add_task_id : forall t m, m_id (m_add_task t m) = m_id m.
Proof. intros t m. unfold m_add_task. destruct (map_find t (m_tasks m)); reflexivity. Qed.
Lemma new_model_inv : forall mid ss, NoDup (map s_id ss) -> Inv_m (new_model mid ss).
Proof.
  intros mid ss Hd. unfold new_model. constructor; cbn [m_queues m_tasks m_id]; try (rewrite Forall_map; apply Forall_forall; intros; cbn; constructor).
  - constructor.
  - constructor.
  - rewrite map_map. cbn [fst]. assumption.
Qed.
