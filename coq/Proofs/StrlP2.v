(* C20 — part 2: capacity.  Under alignment of the leaf start times every satisfying assignment,
   read back as placements, keeps every partition within its quantity at every time. *)
From Coq Require Import ZArith Bool List Lia ZifyBool.
Import ListNotations.
From Verif Require Import Model.Val Model.Strl Proofs.StrlP.
Open Scope Z_scope.

(* ------------------------------------------------------------------ merging placements *)
Lemma pl_insert_in : forall acc p x, In x (pl_insert acc p) -> x = p \/ In x acc.
Proof.
  induction acc as [|q acc IH]; intros p x H; cbn [pl_insert] in H.
  - destruct H as [<-|[]]; auto.
  - destruct (pl_name q =? pl_name p).
    + destruct H as [<-|H]; [auto|right; right; exact H].
    + destruct H as [<-|H]; [right; left; reflexivity|].
      apply IH in H. destruct H; [auto|right; right; assumption].
Qed.

Lemma fold_insert_in : forall pls acc x, In x (fold_left pl_insert pls acc) -> In x pls \/ In x acc.
Proof.
  induction pls as [|p pls IH]; intros acc x H; cbn [fold_left] in H; [auto|].
  apply IH in H. destruct H as [H|H]; [left; right; exact H|].
  apply pl_insert_in in H. destruct H as [->|H]; [left; left; reflexivity|auto].
Qed.

Lemma merge_child_in : forall acc s x, In x (merge_child acc s) -> In x (sol_pls s) \/ In x acc.
Proof.
  intros acc s x H. destruct s as [|st en u pls]; cbn [merge_child sol_pls] in *; [auto|].
  destruct (u =? 0); [auto|]. apply fold_insert_in; exact H.
Qed.

Lemma fold_merge_in : forall sols acc x, In x (fold_left merge_child sols acc) ->
  (exists s, In s sols /\ In x (sol_pls s)) \/ In x acc.
Proof.
  induction sols as [|s sols IH]; intros acc x H; cbn [fold_left] in H; [auto|].
  apply IH in H. destruct H as [[s' [Hs' Hx]]|H].
  - left. exists s'. split; [right|]; assumption.
  - apply merge_child_in in H. destruct H as [H|H]; [|auto].
    left. exists s. split; [left; reflexivity|exact H].
Qed.

Lemma merge_in : forall sols x, In x (merge sols) -> exists s, In s sols /\ In x (sol_pls s).
Proof. intros sols x H. apply fold_merge_in in H. destruct H as [H|[]]; exact H. Qed.

Section SumMerge.
  Variable f : placement -> Z.

  Lemma sum_insert : forall acc p, (forall x, In x acc -> 0 <= f x) ->
    sumZ (map f (pl_insert acc p)) <= sumZ (map f acc) + f p.
  Proof.
    induction acc as [|q acc IH]; intros p Hnn; cbn [pl_insert map].
    - rewrite !sumZ_cons. change (sumZ []) with 0. lia.
    - assert (0 <= f q) by (apply Hnn; left; reflexivity).
      destruct (pl_name q =? pl_name p); cbn [map]; rewrite !sumZ_cons.
      + lia.
      + specialize (IH p). assert (forall x, In x acc -> 0 <= f x) by (intros; apply Hnn; right; assumption).
        specialize (IH H0). lia.
  Qed.

  Lemma sum_fold_insert : forall pls acc, (forall x, In x acc -> 0 <= f x) -> (forall x, In x pls -> 0 <= f x) ->
    sumZ (map f (fold_left pl_insert pls acc)) <= sumZ (map f acc) + sumZ (map f pls).
  Proof.
    induction pls as [|p pls IH]; intros acc Ha Hp; cbn [fold_left map].
    - change (sumZ []) with 0. lia.
    - rewrite sumZ_cons.
      assert (H1 : forall x, In x (pl_insert acc p) -> 0 <= f x).
      { intros x Hx. apply pl_insert_in in Hx. destruct Hx as [->|Hx]; [apply Hp; left; reflexivity|apply Ha; exact Hx]. }
      assert (H2 : forall x, In x pls -> 0 <= f x) by (intros; apply Hp; right; assumption).
      specialize (IH _ H1 H2). pose proof (sum_insert acc p Ha). lia.
  Qed.

  Lemma sum_merge_child : forall acc s, (forall x, In x acc -> 0 <= f x) -> (forall x, In x (sol_pls s) -> 0 <= f x) ->
    sumZ (map f (merge_child acc s)) <= sumZ (map f acc) + sumZ (map f (sol_pls s)).
  Proof.
    intros acc s Ha Hs. destruct s as [|st en u pls]; cbn [merge_child sol_pls] in *.
    - change (sumZ (map f [])) with 0. lia.
    - destruct (u =? 0).
      + assert (0 <= sumZ (map f pls)). { apply sumZ_nonneg. intros x Hx. apply in_map_iff in Hx. destruct Hx as [y [<- Hy]]. auto. } lia.
      + apply sum_fold_insert; assumption.
  Qed.

  Lemma sum_fold_merge : forall sols acc, (forall x, In x acc -> 0 <= f x) ->
    (forall s x, In s sols -> In x (sol_pls s) -> 0 <= f x) ->
    sumZ (map f (fold_left merge_child sols acc))
    <= sumZ (map f acc) + sumZ (map (fun s => sumZ (map f (sol_pls s))) sols).
  Proof.
    induction sols as [|s sols IH]; intros acc Ha Hs; cbn [fold_left map].
    - change (sumZ []) with 0. lia.
    - rewrite sumZ_cons.
      assert (H1 : forall x, In x (merge_child acc s) -> 0 <= f x).
      { intros x Hx. apply merge_child_in in Hx. destruct Hx as [Hx|Hx]; [apply (Hs s); [left; reflexivity|exact Hx]|auto]. }
      assert (H2 : forall s' x, In s' sols -> In x (sol_pls s') -> 0 <= f x) by (intros; apply (Hs s'); [right|]; assumption).
      specialize (IH _ H1 H2).
      assert (H3 : forall x, In x (sol_pls s) -> 0 <= f x) by (intros; apply (Hs s); [left; reflexivity|assumption]).
      pose proof (sum_merge_child acc s Ha H3). lia.
  Qed.

  Lemma sum_merge : forall sols, (forall s x, In s sols -> In x (sol_pls s) -> 0 <= f x) ->
    sumZ (map f (merge sols)) <= sumZ (map (fun s => sumZ (map f (sol_pls s))) sols).
  Proof.
    intros sols H. unfold merge. pose proof (sum_fold_merge sols [] (fun x (F : In x []) => match F with end) H).
    change (sumZ (map f [])) with 0 in H0. lia.
  Qed.
End SumMerge.

(* ------------------------------------------------------------------ shape of the read-back *)
Definition own_placement (pt : ptab) (a : asg) (n : Z) (parts : list Z) (s en : Z) : placement :=
  {| pl_name := n; pl_start := s; pl_end := en;
     pl_allocs := map (fun p => (p, s, a (VAlloc n p)))
                      (filter (fun p => negb (a (VAlloc n p) =? 0)) (sched pt parts)) |}.

Lemma solve_pls_cases : forall pt now a e,
  (exists n ps am s d u, e = Choose n ps am s d u /\ is_pu (parse pt now e) = true /\ u * a (VInd n) <> 0 /\
     sol_pls (solve pt now a e) = [own_placement pt a n ps s (s + d)]) \/
  sol_pls (solve pt now a e) = [] \/
  (is_pu (parse pt now e) = true /\ sol_pls (solve pt now a e) = merge (map (solve pt now a) (children e))).
Proof.
  intros pt now a e. destruct e.
  - (* Choose *)
    cbn [solve]. destruct (parse pt now (Choose n parts amount start dur util)) as [|s en u i] eqn:Hp.
    + right; left; reflexivity.
    + cbn [generic merge fold_left].
      cbn [parse] in Hp. destruct (now >? start); [discriminate|].
      destruct (sched pt parts) eqn:Hs; [discriminate|]. injection Hp as <- <- <- <-.
      cbn [lin_val aval]. destruct (util * a (VInd n) + 0 =? 0) eqn:Hz.
      * right; left; reflexivity.
      * left. exists n, parts, amount, start, dur, util. split; [reflexivity|].
        split; [reflexivity|]. split; [lia|]. cbn [sol_pls]. unfold own_placement. rewrite Hs. reflexivity.
  - (* Alloc *) right; left. reflexivity.
  - (* Min *) cbn [solve children]. destruct (parse pt now (Min n kids)); cbn [generic sol_pls is_pu]; auto.
  - (* Max *) cbn [solve children]. destruct (parse pt now (Max n kids)); cbn [generic sol_pls is_pu]; auto.
  - (* LessThan *) cbn [solve children map]. destruct (parse pt now (LessThan n e1 e2)); cbn [generic sol_pls is_pu]; auto.
  - (* Scale *) cbn [solve children map]. destruct (parse pt now (Scale n factor disregard e)); cbn [generic sol_pls is_pu]; auto.
  - (* Objective *)
    cbn [solve children]. cbn [parse generic].
    destruct (lin_val a (concat (map pu_util (map (parse pt now) kids))) =? 0); cbn [sol_pls is_pu]; auto.
Qed.

(* ------------------------------------------------------------------ usage of the Choose leaves *)
Definition cu (pt : ptab) (now : Z) (a : asg) (p tau : Z) (e : expr) : Z :=
  match e with
  | Choose n parts amount start dur util =>
      if is_pu (parse pt now e) && ((start <=? tau) && (tau <? start + dur))
      then sumZ (map (fun q => if q =? p then a (VAlloc n q) else 0) (sched pt parts)) else 0
  | _ => 0
  end.

Definition alloc_nn (pt : ptab) (now : Z) (a : asg) (e : expr) : Prop :=
  forall n ps am s d u q, In (Choose n ps am s d u) (subs e) ->
    is_pu (parse pt now (Choose n ps am s d u)) = true -> In q (sched pt ps) -> 0 <= a (VAlloc n q).

Lemma alloc_nn_kid : forall pt now a e k, alloc_nn pt now a e -> In k (children e) -> alloc_nn pt now a k.
Proof.
  intros pt now a e k H Hk n ps am s d u q Hin. apply H. eapply subs_kid; eauto.
Qed.

Lemma cu_nonneg : forall pt now a p tau e x, alloc_nn pt now a e -> In x (subs e) -> 0 <= cu pt now a p tau x.
Proof.
  intros pt now a p tau e x Hnn Hx. destruct x; cbn [cu]; try lia.
  destruct (is_pu (parse pt now (Choose n parts amount start dur util))) eqn:Hp; cbn [andb]; [|lia].
  destruct ((start <=? tau) && (tau <? start + dur)); [|lia].
  apply sumZ_nonneg. intros y Hy. apply in_map_iff in Hy. destruct Hy as [q [<- Hq]].
  destruct (q =? p); [|lia]. eapply Hnn; eauto.
Qed.

Lemma own_placement_use : forall pt a n ps s en p tau,
  pl_use p tau (own_placement pt a n ps s en)
  = if (s <=? tau) && (tau <? en) then sumZ (map (fun q => if q =? p then a (VAlloc n q) else 0) (sched pt ps)) else 0.
Proof.
  intros. unfold pl_use, pl_active, own_placement; cbn [pl_start pl_end pl_allocs].
  destruct ((s <=? tau) && (tau <? en)); [|reflexivity].
  unfold alloc_amount. rewrite map_map. cbn [fst snd].
  induction (sched pt ps) as [|q l IH]; [reflexivity|].
  cbn [filter]. destruct (a (VAlloc n q) =? 0) eqn:Hz; cbn [negb map]; rewrite ?sumZ_cons, IH.
  - destruct (q =? p); lia.
  - reflexivity.
Qed.

Lemma pls_nonneg : forall pt now a p tau e, alloc_nn pt now a e ->
  forall pl, In pl (sol_pls (solve pt now a e)) -> 0 <= pl_use p tau pl.
Proof.
  intros pt now a p tau. induction e using expr_kids_ind. intros Hnn pl Hpl.
  destruct (solve_pls_cases pt now a e) as [(n & ps & am & s & d & u & -> & Hp & _ & Heq)|[Heq|[_ Heq]]]; rewrite Heq in Hpl.
  - destruct Hpl as [<-|[]]. rewrite own_placement_use.
    destruct ((s <=? tau) && (tau <? s + d)); [|lia].
    apply sumZ_nonneg. intros y Hy. apply in_map_iff in Hy. destruct Hy as [q [<- Hq]].
    destruct (q =? p); [|lia]. eapply Hnn; eauto. apply subs_refl.
  - destruct Hpl.
  - apply merge_in in Hpl. destruct Hpl as [sl [Hsl Hin]]. apply in_map_iff in Hsl. destruct Hsl as [k [<- Hk]].
    rewrite Forall_forall in H. eapply H; eauto. eapply alloc_nn_kid; eauto.
Qed.

(* the placements read back use at most what the Choose variables of the tree say *)
Lemma usage_le_cu : forall pt now a p tau e, alloc_nn pt now a e ->
  usage (sol_pls (solve pt now a e)) p tau <= sumZ (map (cu pt now a p tau) (subs e)).
Proof.
  intros pt now a p tau. induction e using expr_kids_ind. intros Hnn. unfold usage.
  assert (Hrest : 0 <= sumZ (map (cu pt now a p tau) (flat_map subs (children e)))).
  { apply sumZ_nonneg. intros y Hy. apply in_map_iff in Hy. destruct Hy as [x [<- Hx]].
    eapply cu_nonneg; eauto. rewrite subs_children. right. exact Hx. }
  assert (Hself : 0 <= cu pt now a p tau e) by (eapply cu_nonneg; eauto; apply subs_refl).
  rewrite subs_children. cbn [map]. rewrite sumZ_cons.
  destruct (solve_pls_cases pt now a e) as [(n & ps & am & s & d & u & -> & Hp & _ & Heq)|[Heq|[_ Heq]]]; rewrite Heq.
  - cbn [map]. rewrite sumZ_cons. change (sumZ []) with 0. rewrite own_placement_use.
    cbn [cu children flat_map map]. rewrite Hp. cbn [andb]. change (sumZ []) with 0. lia.
  - change (sumZ (map (pl_use p tau) [])) with 0. lia.
  - eapply Z.le_trans.
    + apply sum_merge. intros sl x Hsl Hx. apply in_map_iff in Hsl. destruct Hsl as [k [<- Hk]].
      exact (pls_nonneg pt now a p tau k (alloc_nn_kid _ _ _ _ _ Hnn Hk) x Hx).
    + rewrite map_map. rewrite sumZ_flat_map.
      assert (sumZ (map (fun x => sumZ (map (pl_use p tau) (sol_pls (solve pt now a x)))) (children e))
              <= sumZ (map (fun x => sumZ (map (cu pt now a p tau) (subs x))) (children e))).
      { apply sumZ_map_le. intros k Hk. rewrite Forall_forall in H. apply (H k Hk). eapply alloc_nn_kid; eauto. }
      lia.
Qed.

(* ------------------------------------------------------------------ slots of the capacity map *)
Lemma slots_from_in : forall g n t k, (k < n)%nat -> In (t + Z.of_nat k * g) (slots_from g n t).
Proof.
  induction n as [|n IH]; intros t k Hk; [lia|]. cbn [slots_from]. destruct k as [|k].
  - left. lia.
  - right. replace (t + Z.of_nat (S k) * g) with ((t + g) + Z.of_nat k * g) by lia. apply IH. lia.
Qed.

(* the slot that contains tau when all starts are congruent to s0 modulo g *)
Definition slot_of (g s0 tau : Z) : Z := tau - (tau - s0) mod g.

Lemma slot_in : forall g s0 s d tau, 0 < g -> (s - s0) mod g = 0 -> s <= tau < s + d ->
  In (slot_of g s0 tau) (slots g s d).
Proof.
  intros g s0 s d tau Hg Hal Hin. unfold slot_of, slots.
  assert (Hm : (tau - s0) mod g = (tau - s) mod g).
  { replace (tau - s0) with ((tau - s) + (s - s0)) by lia.
    rewrite Z.add_mod by lia. rewrite Hal, Z.add_0_r, Z.mod_mod by lia. reflexivity. }
  rewrite Hm. set (k := (tau - s) / g).
  assert (Hk0 : 0 <= k) by (apply Z.div_pos; lia).
  assert (Heq : tau - (tau - s) mod g = s + Z.of_nat (Z.to_nat k) * g).
  { pose proof (Z.div_mod (tau - s) g ltac:(lia)) as Hdm. rewrite Z2Nat.id by lia. fold k in Hdm. nia. }
  rewrite Heq. apply slots_from_in.
  assert (Hlt : k < (d + g - 1) / g).
  { replace (d + g - 1) with ((d - 1) + 1 * g) by lia. rewrite Z.div_add by lia.
    assert (k <= (d - 1) / g) by (apply Z.div_le_mono; lia). lia. }
  lia.
Qed.

(* ------------------------------------------------------------------ sums over the registrations at one key *)
Definition rsum (a : asg) (k : Z * Z) (rs : list reg) : Z := lin_val a (regs_at k rs).

Lemma rsum_nil : forall a k, rsum a k [] = 0.
Proof. reflexivity. Qed.

Lemma rsum_app : forall a k r1 r2, rsum a k (r1 ++ r2) = rsum a k r1 + rsum a k r2.
Proof. intros. unfold rsum, regs_at. rewrite filter_app, map_app, lin_val_app. reflexivity. Qed.

Lemma rsum_cons : forall a k r rs,
  rsum a k (r :: rs) = (if key_eqb (reg_key r) k then aval a (snd r) else 0) + rsum a k rs.
Proof.
  intros. unfold rsum, regs_at. cbn [filter]. destruct (key_eqb (reg_key r) k); cbn [map lin_val]; lia.
Qed.

Lemma rsum_flat_map : forall {A} a k (F : A -> list reg) l,
  rsum a k (flat_map F l) = sumZ (map (fun x => rsum a k (F x)) l).
Proof.
  induction l as [|x l IH]; [reflexivity|]. cbn [flat_map map]. rewrite rsum_app, sumZ_cons, IH. reflexivity.
Qed.

Lemma rsum_nonneg : forall a k rs, (forall r, In r rs -> 0 <= aval a (snd r)) -> 0 <= rsum a k rs.
Proof.
  induction rs as [|r rs IH]; intros H; [rewrite rsum_nil; lia|]. rewrite rsum_cons.
  assert (0 <= aval a (snd r)) by (apply H; left; reflexivity).
  assert (0 <= rsum a k rs) by (apply IH; intros; apply H; right; assumption).
  destruct (key_eqb (reg_key r) k); lia.
Qed.

Lemma rsum_one_item : forall a p kappa q x ts, In kappa ts -> 0 <= aval a x ->
  (if q =? p then aval a x else 0) <= rsum a (p, kappa) (map (fun t => (q, t, x)) ts).
Proof.
  induction ts as [|t ts IH]; intros Hin Hx; [destruct Hin|]. cbn [map]. rewrite rsum_cons.
  unfold reg_key, key_eqb; cbn [fst snd].
  assert (Hnn : 0 <= rsum a (p, kappa) (map (fun t => (q, t, x)) ts)).
  { apply rsum_nonneg. intros r Hr. apply in_map_iff in Hr. destruct Hr as [t' [<- _]]. exact Hx. }
  destruct Hin as [->|Hin].
  - rewrite Z.eqb_refl, andb_true_r. destruct (q =? p); lia.
  - specialize (IH Hin Hx). destruct ((q =? p) && (t =? kappa)); lia.
Qed.

Lemma leaf_regs_ge : forall a p kappa ts (items : list (Z * atom)) (active : bool),
  (active = true -> In kappa ts) -> (forall it, In it items -> 0 <= aval a (snd it)) ->
  (if active then sumZ (map (fun it => if fst it =? p then aval a (snd it) else 0) items) else 0)
  <= rsum a (p, kappa) (flat_map (fun it => map (fun t => (fst it, t, snd it)) ts) items).
Proof.
  intros a p kappa ts items active Hact Hnn. rewrite rsum_flat_map.
  destruct active.
  - apply sumZ_map_le. intros it Hit. apply rsum_one_item; auto.
  - apply sumZ_nonneg. intros y Hy. apply in_map_iff in Hy. destruct Hy as [it [<- Hit]].
    apply rsum_nonneg. intros r Hr. apply in_map_iff in Hr. destruct Hr as [t [<- _]]. cbn [snd]. auto.
Qed.

Lemma flat_map_map : forall {A B C} (h : A -> B) (F : B -> list C) l,
  flat_map F (map h l) = flat_map (fun x => F (h x)) l.
Proof. induction l; [reflexivity|]. cbn [map flat_map]. rewrite IHl. reflexivity. Qed.

(* what one node uses at (p, tau) is covered by what it registered at the slot of tau *)
Lemma node_le_regs : forall pt now g a s0 p tau e,
  0 < g ->
  (forall s d, In (s, d) (leaf_span e) -> (s - s0) mod g = 0) ->
  (forall n ps am s d u q, e = Choose n ps am s d u -> is_pu (parse pt now e) = true -> In q (sched pt ps) ->
     0 <= a (VAlloc n q)) ->
  (forall n al s d q x, e = Alloc n al s d -> In (q, x) al -> 0 <= x) ->
  cu pt now a p tau e + leaf_alloc p tau e <= rsum a (p, slot_of g s0 tau) (own_regs pt now g e).
Proof.
  intros pt now g a s0 p tau e Hg Hal Hc Ha. destruct e; cbn [cu leaf_alloc own_regs]; try (rewrite rsum_nil; lia).
  - (* Choose *)
    destruct (parse pt now (Choose n parts amount start dur util)) eqn:Hp; cbn [is_pu andb]; [rewrite rsum_nil; lia|].
    rewrite Z.add_0_r.
    pose proof (leaf_regs_ge a p (slot_of g s0 tau) (slots g start dur)
                  (map (fun q => (q, AVar (VAlloc n q))) (sched pt parts))
                  ((start <=? tau) && (tau <? start + dur))) as L.
    rewrite flat_map_map, map_map in L. cbn [fst snd aval] in L. apply L.
    + intros Hact. apply slot_in; [exact Hg| |lia]. apply (Hal start dur). left; reflexivity.
    + intros it Hit. apply in_map_iff in Hit. destruct Hit as [q [<- Hq]]. cbn [snd aval].
      apply (Hc n parts amount start dur util q eq_refl); [first [reflexivity|rewrite Hp; reflexivity]|exact Hq].
  - (* Alloc *)
    pose proof (leaf_regs_ge a p (slot_of g s0 tau) (slots g start dur)
                  (map (fun pa => (fst pa, AConst (snd pa))) allocs)
                  ((start <=? tau) && (tau <? start + dur))) as L.
    rewrite flat_map_map, map_map in L. cbn [fst snd aval] in L. apply L.
    + intros Hact. apply slot_in; [exact Hg| |lia]. apply (Hal start dur). left; reflexivity.
    + intros it Hit. apply in_map_iff in Hit. destruct Hit as [[q x] [<- Hq]]. cbn [snd aval].
      exact (Ha n allocs start dur q x eq_refl Hq).
Qed.

(* ------------------------------------------------------------------ keys of the capacity map *)
Lemma key_eqb_eq : forall k1 k2, key_eqb k1 k2 = true <-> k1 = k2.
Proof.
  intros [a b] [c d]. unfold key_eqb; cbn [fst snd]. split.
  - intros H. apply andb_prop in H. destruct H. f_equal; lia.
  - intros H. injection H as -> ->. rewrite !Z.eqb_refl. reflexivity.
Qed.

Lemma key_mem_in : forall k l, key_mem k l = true <-> In k l.
Proof.
  induction l as [|k' l IH]; cbn [key_mem In]; [split; [discriminate|tauto]|].
  rewrite orb_true_iff, IH, key_eqb_eq. split; intros [H|H]; auto.
Qed.

Lemma keys_nodup_complete : forall l seen k, In k l -> key_mem k seen = false -> In k (keys_nodup l seen).
Proof.
  induction l as [|k' l IH]; intros seen k Hin Hs; [destruct Hin|]. cbn [keys_nodup].
  destruct (key_mem k' seen) eqn:Hm.
  - destruct Hin as [->|Hin]; [congruence|]. apply IH; assumption.
  - destruct Hin as [->|Hin]; [left; reflexivity|].
    destruct (key_eqb k k') eqn:He.
    + apply key_eqb_eq in He. subst. left; reflexivity.
    + right. apply IH; [assumption|]. cbn [key_mem]. rewrite He, Hs. reflexivity.
Qed.

Lemma reg_keys_complete : forall rs r, In r rs -> In (reg_key r) (reg_keys rs).
Proof. intros rs r H. unfold reg_keys. apply keys_nodup_complete; [apply in_map; exact H|reflexivity]. Qed.

Lemma rsum_no_key : forall a k rs, ~ In k (reg_keys rs) -> rsum a k rs = 0.
Proof.
  intros a k rs Hn. unfold rsum, regs_at.
  assert (Hf : filter (fun r => key_eqb (reg_key r) k) rs = []).
  { induction rs as [|r rs IH]; [reflexivity|]. cbn [filter].
    destruct (key_eqb (reg_key r) k) eqn:He.
    - apply key_eqb_eq in He. exfalso. apply Hn. rewrite <- He. apply reg_keys_complete. left; reflexivity.
    - apply IH. intros Hin. apply Hn.
      (* a key of the tail is a key of the whole list *)
      unfold reg_keys in Hin |- *.
      assert (exists r', In r' rs /\ reg_key r' = k) as [r' [Hr' <-]].
      { clear -Hin. revert Hin. generalize (@nil (Z * Z)). induction rs as [|r0 rs IH]; intros seen Hin; [destruct Hin|].
        cbn [map keys_nodup] in Hin. destruct (key_mem (reg_key r0) seen).
        - destruct (IH _ Hin) as [r' [H1 H2]]. exists r'. split; [right|]; assumption.
        - destruct Hin as [<-|Hin]; [exists r0; split; [left|]; reflexivity|].
          destruct (IH _ Hin) as [r' [H1 H2]]. exists r'. split; [right|]; assumption. }
      apply (reg_keys_complete (r :: rs) r'). right; exact Hr'. }
  rewrite Hf. reflexivity.
Qed.

Lemma key_dec : forall k1 k2 : Z * Z, {k1 = k2} + {k1 <> k2}.
Proof. decide equality; apply Z.eq_dec. Qed.

(* ------------------------------------------------------------------ the capacity theorem *)
Definition aligned (g : Z) (e : expr) : Prop :=
  exists s0, forall s d, In (s, d) (leaf_spans e) -> (s - s0) mod g = 0.

Definition wf_in (pt : ptab) (g : Z) (e : expr) : Prop :=
  0 < g /\ (forall p, 0 <= qty0 pt p) /\
  (forall n al s d q x, In (Alloc n al s d) (subs e) -> In (q, x) al -> 0 <= x).

Lemma facts_alloc_nn : forall pt now g a e, facts pt now g a e -> alloc_nn pt now a e.
Proof.
  intros pt now g a e F n ps am s d u q Hin Hp Hq.
  assert (Hd : dom_ok a (int_decl (VAlloc n q) 0 (Some (Z.min (qty0 pt q) am))) = true).
  { apply (f_vars _ _ _ _ _ F (Choose n ps am s d u)); [exact Hin|].
    cbn [own_vars]. destruct (parse pt now (Choose n ps am s d u)); [discriminate|].
    right. apply in_map_iff. exists q. split; [reflexivity|exact Hq]. }
  unfold dom_ok, int_decl in Hd; cbn [vd_ind vd_var vd_lb vd_ub] in Hd. lia.
Qed.

Lemma alignedb_sound : forall g e, alignedb g e = true -> aligned g e.
Proof.
  intros g e H. unfold alignedb in H. unfold aligned. destruct (leaf_spans e) as [|[s0 d0] l] eqn:Hl.
  - exists 0. intros s d [].
  - exists s0. intros s d [Heq|Hin].
    + injection Heq as <- <-. rewrite Z.sub_diag. apply Zmod_0_l.
    + rewrite forallb_forall in H. specialize (H _ Hin). cbn [fst] in H. lia.
Qed.

Theorem capacity_aligned : forall pt now g e cs a,
  compile pt now g e = Ok cs -> sat cs a = true -> wf_in pt g e -> aligned g e ->
  forall p tau, usage (populate pt now a e) p tau + alloc_usage e p tau <= qty0 pt p.
Proof.
  intros pt now g e cs a Hc Hs [Hg [Hq Hal]] [s0 Hs0] p tau.
  pose proof (sat_facts _ _ _ _ _ _ Hc Hs) as F.
  pose proof (facts_alloc_nn _ _ _ _ _ F) as Hnn.
  unfold populate.
  pose proof (usage_le_cu pt now a p tau e Hnn) as H1.
  set (k := (p, slot_of g s0 tau)).
  assert (H2 : sumZ (map (cu pt now a p tau) (subs e)) + alloc_usage e p tau <= rsum a k (e_regs pt now g e)).
  { unfold alloc_usage, e_regs. rewrite rsum_flat_map.
    assert (forall l, (forall x, In x l -> In x (subs e)) ->
              sumZ (map (cu pt now a p tau) l) + sumZ (map (leaf_alloc p tau) l)
              <= sumZ (map (fun x => rsum a k (own_regs pt now g x)) l)) as Hl.
    { induction l as [|x l IH]; intros Hsub; [cbn; lia|]. cbn [map]. rewrite !sumZ_cons.
      assert (Hx : In x (subs e)) by (apply Hsub; left; reflexivity).
      pose proof (node_le_regs pt now g a s0 p tau x Hg) as Hn.
      assert (cu pt now a p tau x + leaf_alloc p tau x <= rsum a k (own_regs pt now g x)).
      { apply Hn.
        - intros s d Hin. apply (Hs0 s d). unfold leaf_spans. apply in_flat_map. exists x. split; assumption.
        - intros n ps am s d u q -> Hp Hq'. exact (Hnn n ps am s d u q Hx Hp Hq').
        - intros n al s d q y -> Hin. exact (Hal n al s d q y Hx Hin). }
      assert (forall y, In y l -> In y (subs e)) by (intros; apply Hsub; right; assumption).
      specialize (IH H0). lia. }
    apply Hl. auto. }
  assert (H3 : rsum a k (e_regs pt now g e) <= qty0 pt p).
  { destruct (in_dec key_dec k (reg_keys (e_regs pt now g e))) as [Hin|Hnin].
    - pose proof (f_caps _ _ _ _ _ F k Hin) as Hr. unfold cap_row in Hr. apply mkrow_LE in Hr. exact Hr.
    - rewrite rsum_no_key by assumption. apply Hq. }
  lia.
Qed.

(* the hypotheses are satisfiable by a non-trivial state: two Chooses competing for one unit *)
Example capacity_aligned_nonvacuous :
  let pt : ptab := [(1, 1, true)] in
  let e := Objective 3 [Choose 1 [1] 1 0 4 1; Choose 2 [1] 1 4 4 1] in
  exists cs a, compile pt 0 4 e = Ok cs /\ sat cs a = true /\ wf_in pt 4 e /\ aligned 4 e /\
               usage (populate pt 0 a e) 1 5 = 1.
Proof.
  cbv zeta. eexists. exists (fun _ => 1).
  split; [vm_compute; reflexivity|]. split; [vm_compute; reflexivity|].
  split.
  - split; [lia|]. split.
    + intros p. unfold qty0; cbn [qty_of]. destruct (1 =? p); lia.
    + intros n al s d q x Hin. cbn in Hin. repeat (destruct Hin as [Hin|Hin]; try discriminate). destruct Hin.
  - split; [|vm_compute; reflexivity]. apply alignedb_sound. vm_compute. reflexivity.
Qed.
