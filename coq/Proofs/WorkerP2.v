(* Lemmas about Model/Worker.v, part 2: the structural invariant of a worker (who holds what) over
   every history whose placements / loads are fresh, and what follows from it: a resource is held
   exactly while its task / its batch / its profile is resident, a refused operation changes nothing,
   removing everything restores full capacity. *)
From Coq Require Import ZArith Bool List Lia ZifyBool Arith.
Import ListNotations.
From Verif Require Import Model.Val Model.Res Model.Worker Proofs.ResP Proofs.ResP2 Proofs.WorkerP.
Open Scope Z_scope.

(* ---------- insertion-ordered dicts ---------- *)
Section ZD.
  Context {A : Type}.
  Implicit Types d : list (Z * A).
  Lemma zfind_zset_same : forall k a d, zfind k (zset k a d) = Some a.
  Proof.
    intros k a. induction d as [|[k' a'] d IH]; cbn [zset zfind]; [rewrite Z.eqb_refl; reflexivity|].
    destruct (k' =? k) eqn:E; cbn [zfind]; rewrite E; [reflexivity|exact IH].
  Qed.
  Lemma zfind_zset_other : forall k k' a d, k <> k' -> zfind k' (zset k a d) = zfind k' d.
  Proof.
    intros k k' a d Hn. induction d as [|[k0 a0] d IH]; cbn [zset zfind].
    - destruct (k =? k') eqn:E; [lia|reflexivity].
    - destruct (k0 =? k) eqn:E; cbn [zfind]; [|rewrite IH; reflexivity].
      destruct (k0 =? k') eqn:E'; [lia|reflexivity].
  Qed.
  Lemma zfind_zremove_other : forall k k' d, k <> k' -> zfind k' (zremove k d) = zfind k' d.
  Proof.
    intros k k' d Hn. induction d as [|[k0 a0] d IH]; cbn [zremove zfind]; [reflexivity|].
    destruct (k0 =? k) eqn:E; cbn [zfind]; [|rewrite IH; reflexivity].
    destruct (k0 =? k') eqn:E'; [lia|reflexivity].
  Qed.
  Lemma zfind_none_notin : forall k d, zfind k d = None <-> ~ In k (map fst d).
  Proof.
    intros k. induction d as [|[k0 a0] d IH]; cbn [zfind map fst In]; [tauto|].
    destruct (k0 =? k) eqn:E; [split; [discriminate|intro H; exfalso; apply H; left; lia]|].
    rewrite IH. split; [intros H [H1|H1]; [lia|auto]|tauto].
  Qed.
  Lemma zfind_zremove_same : forall k d, NoDup (map fst d) -> zfind k (zremove k d) = None.
  Proof.
    intros k. induction d as [|[k0 a0] d IH]; cbn [zremove zfind map fst]; intro H; [reflexivity|].
    inversion H as [|x y H1 H2]; subst. destruct (k0 =? k) eqn:E.
    - apply zfind_none_notin. assert (k0 = k) by lia. subst. exact H1.
    - cbn [zfind]. rewrite E. apply IH. exact H2.
  Qed.
  Lemma keys_zset_in : forall k a d, zfind k d <> None -> map fst (zset k a d) = map fst d.
  Proof.
    intros k a. induction d as [|[k0 a0] d IH]; cbn [zset zfind map fst]; intro H; [congruence|].
    destruct (k0 =? k) eqn:E; cbn [map fst]; [reflexivity|]. f_equal. apply IH. exact H.
  Qed.
  Lemma keys_zset_notin : forall k a d, zfind k d = None -> map fst (zset k a d) = map fst d ++ [k].
  Proof.
    intros k a. induction d as [|[k0 a0] d IH]; cbn [zset zfind map fst app]; intro H; [reflexivity|].
    destruct (k0 =? k) eqn:E; [discriminate|]. cbn [map fst]. f_equal. apply IH. exact H.
  Qed.
  Lemma zset_notin_app : forall k a d, zfind k d = None -> zset k a d = d ++ [(k, a)].
  Proof.
    intros k a. induction d as [|[k0 a0] d IH]; cbn [zset zfind app]; intro H; [reflexivity|].
    destruct (k0 =? k) eqn:E; [discriminate|]. f_equal. apply IH. exact H.
  Qed.
  Lemma nodup_zset : forall k a d, NoDup (map fst d) -> NoDup (map fst (zset k a d)).
  Proof.
    intros k a d H. destruct (zfind k d) eqn:E.
    - rewrite keys_zset_in; [exact H|congruence].
    - rewrite keys_zset_notin by exact E. apply NoDup_app_snoc; [exact H|]. apply zfind_none_notin. exact E.
  Qed.
  Lemma in_keys_zremove : forall k x d, In x (map fst (zremove k d)) -> In x (map fst d).
  Proof.
    intros k x. induction d as [|[k0 a0] d IH]; cbn [zremove map fst In]; [tauto|].
    destruct (k0 =? k); cbn [map fst In]; [auto|]. intros [H|H]; auto.
  Qed.
  Lemma nodup_zremove : forall k d, NoDup (map fst d) -> NoDup (map fst (zremove k d)).
  Proof.
    intros k. induction d as [|[k0 a0] d IH]; cbn [zremove map fst]; intro H; [constructor|].
    inversion H as [|x y H1 H2]; subst. destruct (k0 =? k); [exact H2|].
    cbn [map fst]. constructor; [|apply IH; exact H2]. intro Hin. apply H1. eapply in_keys_zremove; eauto.
  Qed.
  Lemma zmem_find : forall k d, zmem k d = true <-> zfind k d <> None.
  Proof. intros k d. unfold zmem. destruct (zfind k d); split; intro H; congruence. Qed.
  Lemma zmem_false_find : forall k d, zmem k d = false <-> zfind k d = None.
  Proof. intros k d. unfold zmem. destruct (zfind k d); split; intro H; congruence. Qed.
End ZD.
Lemma keys_zremove_eq : forall {A B} k (d : list (Z * A)) (e : list (Z * B)),
  map fst d = map fst e -> map fst (zremove k d) = map fst (zremove k e).
Proof.
  intros A B k. induction d as [|[k0 a0] d IH]; intros [|[k1 b1] e] H; cbn [map fst] in H; try discriminate; [reflexivity|].
  inversion H; subst. cbn [zremove]. destruct (k1 =? k); [assumption|]. cbn [map fst]. f_equal. apply IH. assumption.
Qed.
Lemma zfind_keys_eq : forall {A B} k (d : list (Z * A)) (e : list (Z * B)),
  map fst d = map fst e -> (zfind k d = None <-> zfind k e = None).
Proof. intros A B k d e H. rewrite !zfind_none_notin, H. tauto. Qed.

(* sets of tasks *)
Lemma set_mem_in : forall t s, set_mem t s = true <-> In t s.
Proof.
  intros t s. unfold set_mem. rewrite existsb_exists. split; [intros (x & Hx & E); apply Z.eqb_eq in E; subst; exact Hx|].
  intro H. exists t. split; [exact H|apply Z.eqb_refl].
Qed.
Lemma in_set_remove : forall t x s, NoDup s -> (In x (set_remove t s) <-> In x s /\ x <> t).
Proof.
  intros t x. induction s as [|y s IH]; cbn [set_remove In]; intro H; [tauto|].
  inversion H as [|a b H1 H2]; subst. destruct (y =? t) eqn:E.
  - assert (y = t) by lia. subst. split; [intro Hx; split; [auto|intro; subst; auto]|intros [[Hx|Hx] Hn]; [congruence|exact Hx]].
  - cbn [In]. rewrite IH by exact H2. split; [intros [Hx|[Hx Hn]]; [subst; split; [auto|lia]|auto]|intros [[Hx|Hx] Hn]; auto].
Qed.
Lemma nodup_set_remove : forall t s, NoDup s -> NoDup (set_remove t s).
Proof.
  intros t. induction s as [|y s IH]; cbn [set_remove]; intro H; [constructor|].
  inversion H as [|a b H1 H2]; subst. destruct (y =? t); [exact H2|]. constructor; [|auto].
  intro Hin. apply in_set_remove in Hin; [|exact H2]. tauto.
Qed.
Lemma set_add_spec : forall t x s, In x (set_add t s) <-> In x s \/ x = t.
Proof.
  intros t x s. unfold set_add. destruct (set_mem t s) eqn:E.
  - apply set_mem_in in E. split; [auto|intros [H|H]; [exact H|subst; exact E]].
  - rewrite in_app_iff. cbn [In]. split; [intros [H|[H|[]]]; auto|intros [H|H]; auto].
Qed.
Lemma nodup_set_add : forall t s, NoDup s -> NoDup (set_add t s).
Proof.
  intros t s H. unfold set_add. destruct (set_mem t s) eqn:E; [exact H|].
  apply NoDup_app_snoc; [exact H|]. intro Hin. apply set_mem_in in Hin. congruence.
Qed.

(* ---------- what a successful / refused ledger primitive does to the allocation dict ---------- *)
Definition pos_req (req : rvec) : Prop := exists r q, In (r, q) req /\ 0 < q.
Definition Held (a : allocs) (c : comp) (req : rvec) : Prop :=
  exists l, al_find c a = Some l /\ forall n, sumP (name_is n) l = sumP (name_is n) req.

Lemma sumP_nonneg : forall P v, nonneg_vec v -> 0 <= sumP P v.
Proof. intros P. induction v as [|[k q] v IH]; intro H; cbn [sumP]; [lia|]. inversion H; subst. cbn [snd] in *. specialize (IH H3). destruct (P k); lia. Qed.
Lemma pos_req_sum : forall req, nonneg_vec req -> pos_req req -> exists n, 0 < sumP (name_is n) req.
Proof.
  intros req Hn (r & q & Hin & Hq). exists (fst r). induction req as [|[k x] req IH]; [destruct Hin|].
  inversion Hn as [|a b H1 H2]; subst. cbn [snd] in H1. cbn [sumP]. destruct Hin as [Hin|Hin].
  - inversion Hin; subst. unfold name_is at 1. rewrite Z.eqb_refl. pose proof (sumP_nonneg (name_is (fst r)) req H2). lia.
  - specialize (IH H2 Hin). destruct (name_is (fst r) k); lia.
Qed.

Lemma al_find_register_other : forall c c' a, comp_eqb c c' = false -> al_find c' (al_register c a) = al_find c' a.
Proof.
  intros c c' a H. unfold al_register. destruct (al_find c a); [reflexivity|].
  induction a as [|[c0 l0] a IH]; cbn [app al_find]; [rewrite H; reflexivity|]. destruct (comp_eqb c0 c'); [reflexivity|exact IH].
Qed.
Lemma al_find_register_same : forall c a, al_find c (al_register c a) = Some (al_get c a).
Proof.
  intros c a. unfold al_register, al_get. destruct (al_find c a) as [l|] eqn:E; [exact E|].
  induction a as [|[c0 l0] a IH]; cbn [app al_find] in *; [rewrite comp_eqb_refl; reflexivity|].
  destruct (comp_eqb c0 c); [discriminate|]. apply IH. exact E.
Qed.
(* a served request of a computation that held nothing: it now holds exactly the request (possibly an
   empty entry, /repo be1cb9f), nobody else's entry moves *)
Lemma am_ok_fresh : forall R req c R', Nonneg R ->
  al_find c (r_allocs R) = None -> r_allocate_multiple R req c = (R', Ok tt) ->
  Held (r_allocs R') c req /\ forall c', comp_eqb c c' = false -> al_find c' (r_allocs R') = al_find c' (r_allocs R).
Proof.
  intros R req c R' HN Hf H. pose proof (allocate_multiple_ok_nonneg _ _ _ _ H) as Hq.
  destruct (allocate_multiple_exact _ _ _ _ HN Hq H) as (recs & Ea & Es).
  rewrite Ea. split.
  - exists recs. split; [|exact Es]. rewrite al_find_register_same, al_get_append_same. unfold al_get. rewrite Hf. reflexivity.
  - intros c' Hc. rewrite al_find_register_other by exact Hc. apply al_find_append_other. exact Hc.
Qed.
Lemma de_ok : forall R c R', Dict_ok R -> r_deallocate R c = (R', Ok tt) ->
  al_find c (r_allocs R') = None /\ forall c', comp_eqb c c' = false -> al_find c' (r_allocs R') = al_find c' (r_allocs R).
Proof.
  intros R c R' [A _] H. unfold r_deallocate in H. destruct (al_find c (r_allocs R)); inversion H; subst; clear H. cbn [r_allocs].
  split; [apply al_find_remove_same; exact A|]. intros c' Hc. apply al_find_remove_other. exact Hc.
Qed.
Lemma de_err : forall R c R' e, r_deallocate R c = (R', Err e) -> R' = R /\ al_find c (r_allocs R) = None.
Proof. intros R c R' e H. unfold r_deallocate in H. destruct (al_find c (r_allocs R)); inversion H; subst. auto. Qed.
Lemma de_some : forall R c l, al_find c (r_allocs R) = Some l -> exists R', r_deallocate R c = (R', Ok tt).
Proof. intros R c l H. unfold r_deallocate. rewrite H. eauto. Qed.

Lemma w_set_res_same : forall w, w_set_res w (w_res w) = w.
Proof. intros []. reflexivity. Qed.

(* ---------- the invariant ---------- *)
Section Inv.
  Variable tbl : Z -> strategy.

  Record WInv (w : worker) : Prop := {
    wi_res : Res_ok (w_res w);
    wi_nn : Nonneg (w_res w);
    wi_nd_placed : NoDup (map fst (w_placed w));
    wi_nd_batches : NoDup (map fst (w_batches w));
    wi_bt_keys : map fst (w_btask w) = map fst (w_batches w);
    wi_nd_avail : NoDup (map fst (w_avail_prof w));
    wi_nd_pend : NoDup (map fst (w_pend_prof w));
    wi_disj : forall p, zfind p (w_avail_prof w) <> None -> zfind p (w_pend_prof w) = None;
    wi_members : forall sid mem, zfind sid (w_batches w) = Some mem ->
        mem <> [] /\ NoDup mem /\ s_is_batch (tbl sid) = true /\ s_id (tbl sid) = sid /\
        forall t, In t mem <-> zfind t (w_placed w) = Some (tbl sid);
    wi_placed_batch : forall t s, zfind t (w_placed w) = Some s -> s_is_batch s = true ->
        s = tbl (s_id s) /\ zfind (s_id s) (w_batches w) <> None;
    wi_fresh : forall sid b, zfind sid (w_btask w) = Some b -> b < w_fresh w;
    wi_bt_inj : forall sid sid' b, zfind sid (w_btask w) = Some b -> zfind sid' (w_btask w) = Some b -> sid = sid';
    wi_orphan : forall c, al_find c (r_allocs (w_res w)) <> None ->
        match c with
        | CTask t => exists s, zfind t (w_placed w) = Some s /\ s_is_batch s = false
        | CBatch b => exists sid, zfind sid (w_btask w) = Some b
        | CProf p => zfind p (w_avail_prof w) <> None \/ zfind p (w_pend_prof w) <> None
        end;
    wi_ex_task : forall t s, zfind t (w_placed w) = Some s -> s_is_batch s = false ->
        Held (r_allocs (w_res w)) (CTask t) (s_req s);
    wi_ex_batch : forall sid b, zfind sid (w_btask w) = Some b -> Held (r_allocs (w_res w)) (CBatch b) (s_req (tbl sid));
    wi_ex_prof : forall p s, zfind p (w_avail_prof w) = Some s \/ zfind p (w_pend_prof w) = Some s ->
        Held (r_allocs (w_res w)) (CProf p) (s_req s) }.

  (* the hypotheses on one operation, in the state it is applied to *)
  Definition wop_ok (w : worker) (o : wop) : Prop :=
    match o with
    | WPlace t s => s_is_batch s = true -> s = tbl (s_id s)     (* one strategy object per batch identifier *)
    | WLoad p s => zfind p (w_avail_prof w) = None /\ zfind p (w_pend_prof w) = None   (* finding FG is not repaired *)
    | _ => True
    end.

  Lemma winv_new : forall id v, NoDup (map fst v) -> nonneg_vec v -> WInv (w_new id v).
  Proof.
    intros id v Hv Hn. constructor; cbn; try constructor; try (intros; discriminate); try (intros; congruence).
    - apply inv_new.
    - apply dict_new. exact Hv.
    - exact Hn.
    - constructor.
    - intros p s [H|H]; discriminate.
  Qed.

  Lemma held_other : forall a a' c req, al_find c a' = al_find c a -> Held a c req -> Held a' c req.
  Proof. intros a a' c req E (l & H1 & H2). exists l. rewrite E. auto. Qed.
  Lemma held_some : forall a c req, Held a c req -> al_find c a <> None.
  Proof. intros a c req (l & H & _). congruence. Qed.

  (* ---- place ---- *)
  Lemma winv_place : forall t s w w' o, WInv w -> wop_ok w (WPlace t s) -> w_place t s w = (w', o) ->
    WInv w' /\ (forall e, o = Err e -> w' = w).
  Proof.
    intros t s w w' o HI Htbl H. unfold w_place in H. cbn [wop_ok] in Htbl.
    destruct (zmem t (w_placed w)) eqn:Ezm; [inversion H; subst; auto|].
    assert (Hfr : zfind t (w_placed w) = None) by (apply zmem_false_find; exact Ezm).
    destruct HI as [Hres Hn Hndp Hndb Hbk Hnda Hndq Hdisj Hmem Hpb Hfresh Hinj Horph Hext Hexb Hexp].
    destruct (s_is_batch s) eqn:Eb.
    - (* batch strategy *)
      specialize (Htbl eq_refl).
      destruct (zfind (s_id s) (w_batches w)) as [mem|] eqn:Efb.
      + (* joining a placed batch *)
        destruct (s_bsize s <? Z.of_nat (length mem) + 1); inversion H; subst; clear H.
        { split; [constructor; assumption|auto]. }
        split; [|intros e He; discriminate].
        destruct (Hmem _ _ Efb) as (Hm1 & Hm2 & Hm3 & Hm4 & Hm5).
        constructor; cbn [w_res w_placed w_batches w_btask w_avail_prof w_pend_prof w_fresh]; auto.
        * apply nodup_zset. exact Hndp.
        * apply nodup_zset. exact Hndb.
        * rewrite keys_zset_in by congruence. exact Hbk.
        * intros sid mem0 E0. destruct (Z.eq_dec (s_id s) sid) as [Esid|Hne]; [subst sid|].
          -- rewrite zfind_zset_same in E0. inversion E0; subst; clear E0.
             split; [unfold set_add; destruct (set_mem t mem); [exact Hm1|destruct mem; discriminate]|].
             split; [apply nodup_set_add; exact Hm2|]. split; [exact Hm3|]. split; [exact Hm4|].
             intro t0. rewrite set_add_spec. destruct (Z.eq_dec t t0) as [->|Hnt].
             ++ rewrite zfind_zset_same. rewrite <- Htbl. split; auto.
             ++ rewrite zfind_zset_other by exact Hnt. rewrite (Hm5 t0). split; [intros [X|X]; [exact X|congruence]|auto].
          -- rewrite zfind_zset_other in E0 by exact Hne. destruct (Hmem _ _ E0) as (A1 & A2 & A3 & A4 & A5).
             repeat (split; [assumption|]). intro t0. destruct (Z.eq_dec t t0) as [->|Hnt].
             ++ rewrite zfind_zset_same. rewrite (A5 t0), Hfr. split; [discriminate|].
                intro X. inversion X as [X1]. assert (s_id s = sid) by (rewrite X1; exact A4). congruence.
             ++ rewrite zfind_zset_other by exact Hnt. apply A5.
        * intros t0 s0 E0 Eb0. destruct (Z.eq_dec t t0) as [->|Hnt].
          -- rewrite zfind_zset_same in E0. inversion E0; subst. split; [exact Htbl|].
             rewrite zfind_zset_same. discriminate.
          -- rewrite zfind_zset_other in E0 by exact Hnt. destruct (Hpb _ _ E0 Eb0) as [B1 B2]. split; [exact B1|].
             destruct (Z.eq_dec (s_id s) (s_id s0)) as [E|Hne]; [rewrite E, zfind_zset_same; discriminate|].
             rewrite zfind_zset_other by exact Hne. exact B2.
        * intros c Hc. specialize (Horph c Hc). destruct c as [t0|b|p]; auto.
          destruct Horph as (s0 & E0 & B0). destruct (Z.eq_dec t t0) as [->|Hnt]; [congruence|].
          exists s0. rewrite zfind_zset_other by exact Hnt. eauto.
        * intros t0 s0 E0 Eb0. destruct (Z.eq_dec t t0) as [->|Hnt].
          -- rewrite zfind_zset_same in E0. inversion E0; subst. congruence.
          -- rewrite zfind_zset_other in E0 by exact Hnt. eauto.
      + (* a new batch *)
        destruct (s_bsize s <? 1); [inversion H; subst; split; [constructor; assumption|auto]|].
        assert (Hfb : al_find (CBatch (w_fresh w)) (r_allocs (w_res w)) = None).
        { destruct (al_find (CBatch (w_fresh w)) (r_allocs (w_res w))) eqn:E; [|reflexivity].
          assert (X : al_find (CBatch (w_fresh w)) (r_allocs (w_res w)) <> None) by congruence.
          destruct (Horph _ X) as (sid & Es). apply Hfresh in Es. lia. }
        destruct (r_allocate_multiple (w_res w) (s_req s) (CBatch (w_fresh w))) as [R [[]|e]] eqn:Ea; inversion H; subst; clear H.
        2:{ assert (R = w_res w).
            { destruct Hres as [HA HB]. eapply allocate_multiple_refusal_any; eauto. }
            subst R. rewrite w_set_res_same. split; [constructor; assumption|auto]. }
        split; [|intros e He; discriminate].
        destruct (am_ok_fresh _ _ _ _ Hn Hfb Ea) as [Hheld Hoth].
        assert (Hbt : zfind (s_id s) (w_btask w) = None) by (apply (zfind_keys_eq _ _ _ Hbk); exact Efb).
        constructor; cbn [w_res w_placed w_batches w_btask w_avail_prof w_pend_prof w_fresh]; auto.
        * eapply res_ok_allocate_multiple; eauto.
        * eapply nonneg_allocate_multiple_any; eauto.
        * apply nodup_zset. exact Hndp.
        * apply nodup_zset. exact Hndb.
        * rewrite !keys_zset_notin by assumption. rewrite Hbk. reflexivity.
        * intros sid mem0 E0. destruct (Z.eq_dec (s_id s) sid) as [Esid|Hne]; [subst sid|].
          -- rewrite zfind_zset_same in E0. inversion E0; subst; clear E0.
             split; [discriminate|]. split; [constructor; [intros []|constructor]|].
             rewrite <- Htbl. split; [exact Eb|]. split; [reflexivity|].
             intro t0. cbn [In]. destruct (Z.eq_dec t t0) as [->|Hnt].
             ++ rewrite zfind_zset_same. split; auto.
             ++ rewrite zfind_zset_other by exact Hnt. split; [intros [X|[]]; congruence|].
                intro X. destruct (Hpb _ _ X Eb) as [_ B2]. congruence.
          -- rewrite zfind_zset_other in E0 by exact Hne. destruct (Hmem _ _ E0) as (A1 & A2 & A3 & A4 & A5).
             repeat (split; [assumption|]). intro t0. destruct (Z.eq_dec t t0) as [->|Hnt].
             ++ rewrite zfind_zset_same. rewrite (A5 t0), Hfr. split; [discriminate|].
                intro X. inversion X as [X1]. assert (s_id s = sid) by (rewrite X1; exact A4). congruence.
             ++ rewrite zfind_zset_other by exact Hnt. apply A5.
        * intros t0 s0 E0 Eb0. destruct (Z.eq_dec t t0) as [->|Hnt].
          -- rewrite zfind_zset_same in E0. inversion E0; subst. split; [exact Htbl|].
             rewrite zfind_zset_same. discriminate.
          -- rewrite zfind_zset_other in E0 by exact Hnt. destruct (Hpb _ _ E0 Eb0) as [B1 B2]. split; [exact B1|].
             destruct (Z.eq_dec (s_id s) (s_id s0)) as [E|Hne]; [rewrite E, zfind_zset_same; discriminate|].
             rewrite zfind_zset_other by exact Hne. exact B2.
        * intros sid b E0. destruct (Z.eq_dec (s_id s) sid) as [Esid|Hne]; [subst sid|].
          -- rewrite zfind_zset_same in E0. inversion E0. lia.
          -- rewrite zfind_zset_other in E0 by exact Hne. apply Hfresh in E0. lia.
        * intros sid sid' b E0 E1.
          destruct (Z.eq_dec (s_id s) sid) as [Esid|Hne]; [subst sid|]; (destruct (Z.eq_dec (s_id s) sid') as [Esid'|Hne']; [subst sid'|]); auto.
          -- rewrite zfind_zset_same in E0. rewrite zfind_zset_other in E1 by exact Hne'. inversion E0; subst.
             apply Hfresh in E1. lia.
          -- rewrite zfind_zset_same in E1. rewrite zfind_zset_other in E0 by exact Hne. inversion E1; subst.
             apply Hfresh in E0. lia.
          -- rewrite zfind_zset_other in E0, E1 by assumption. eauto.
        * intros c Hc. destruct (comp_eqb (CBatch (w_fresh w)) c) eqn:Ec.
          -- apply comp_eqb_eq in Ec. subst c. exists (s_id s). apply zfind_zset_same.
          -- rewrite (Hoth _ Ec) in Hc. specialize (Horph c Hc). destruct c as [t0|b|p]; auto.
             ++ destruct Horph as (s0 & E0 & B0). destruct (Z.eq_dec t t0) as [->|Hnt]; [congruence|].
                exists s0. rewrite zfind_zset_other by exact Hnt. eauto.
             ++ destruct Horph as (sid & E0). exists sid. destruct (Z.eq_dec (s_id s) sid) as [Esid|Hne]; [subst sid; congruence|].
                rewrite zfind_zset_other by exact Hne. exact E0.
        * intros t0 s0 E0 Eb0. destruct (Z.eq_dec t t0) as [->|Hnt].
          -- rewrite zfind_zset_same in E0. inversion E0; subst. congruence.
          -- rewrite zfind_zset_other in E0 by exact Hnt. eapply held_other; [apply Hoth; reflexivity|]. auto.
        * intros sid b E0. destruct (Z.eq_dec (s_id s) sid) as [Esid|Hne]; [subst sid|].
          -- rewrite zfind_zset_same in E0. inversion E0; subst. rewrite <- Htbl. exact Hheld.
          -- rewrite zfind_zset_other in E0 by exact Hne. eapply held_other; [apply Hoth|auto].
             cbn. apply Hfresh in E0. lia.
        * intros p s0 E0. eapply held_other; [apply Hoth; reflexivity|]. auto.
    - (* plain strategy *)
      assert (Hft : al_find (CTask t) (r_allocs (w_res w)) = None).
      { destruct (al_find (CTask t) (r_allocs (w_res w))) eqn:E; [|reflexivity].
        assert (X : al_find (CTask t) (r_allocs (w_res w)) <> None) by congruence.
        destruct (Horph _ X) as (s0 & E0 & _). congruence. }
      destruct (r_allocate_multiple (w_res w) (s_req s) (CTask t)) as [R [[]|e]] eqn:Ea; inversion H; subst; clear H.
      2:{ assert (R = w_res w).
          { destruct Hres as [HA HB]. eapply allocate_multiple_refusal_any; eauto. }
          subst R. rewrite w_set_res_same. split; [constructor; assumption|auto]. }
      split; [|intros e He; discriminate].
      destruct (am_ok_fresh _ _ _ _ Hn Hft Ea) as [Hheld Hoth].
      constructor; cbn [w_res w_placed w_batches w_btask w_avail_prof w_pend_prof w_fresh]; auto.
      * eapply res_ok_allocate_multiple; eauto.
      * eapply nonneg_allocate_multiple_any; eauto.
      * apply nodup_zset. exact Hndp.
      * intros sid mem0 E0. destruct (Hmem _ _ E0) as (A1 & A2 & A3 & A4 & A5).
        repeat (split; [assumption|]). intro t0. destruct (Z.eq_dec t t0) as [->|Hnt].
        -- rewrite zfind_zset_same. rewrite (A5 t0), Hfr. split; [discriminate|].
           intro X. inversion X as [X1]. rewrite X1 in Eb. congruence.
        -- rewrite zfind_zset_other by exact Hnt. apply A5.
      * intros t0 s0 E0 Eb0. destruct (Z.eq_dec t t0) as [->|Hnt].
        -- rewrite zfind_zset_same in E0. inversion E0; subst. congruence.
        -- rewrite zfind_zset_other in E0 by exact Hnt. eauto.
      * intros c Hc. destruct (comp_eqb (CTask t) c) eqn:Ec.
        -- apply comp_eqb_eq in Ec. subst c. exists s. rewrite zfind_zset_same. auto.
        -- rewrite (Hoth _ Ec) in Hc. specialize (Horph c Hc). destruct c as [t0|b|p]; auto.
           destruct Horph as (s0 & E0 & B0). destruct (Z.eq_dec t t0) as [->|Hnt]; [congruence|].
           exists s0. rewrite zfind_zset_other by exact Hnt. eauto.
      * intros t0 s0 E0 Eb0. destruct (Z.eq_dec t t0) as [->|Hnt].
        -- rewrite zfind_zset_same in E0. inversion E0; subst. exact Hheld.
        -- rewrite zfind_zset_other in E0 by exact Hnt. eapply held_other; [apply Hoth|auto]. cbn. lia.
      * intros sid b E0. eapply held_other; [apply Hoth; reflexivity|]. auto.
      * intros p s0 E0. eapply held_other; [apply Hoth; reflexivity|]. auto.
  Qed.

  (* ---- remove ---- *)
  Lemma set_remove_nil : forall t mem t0, NoDup mem -> set_remove t mem = [] -> In t0 mem -> t0 = t.
  Proof.
    intros t mem t0 Hnd E Hin. destruct (Z.eq_dec t0 t) as [|Hn]; [assumption|].
    assert (X : In t0 (set_remove t mem)) by (apply in_set_remove; auto). rewrite E in X. destruct X.
  Qed.

  Lemma winv_remove : forall t w w' o, WInv w -> w_remove t w = (w', o) ->
    WInv w' /\ (forall e, o = Err e -> w' = w).
  Proof.
    intros t w w' o HI H. pose proof HI as HI0. unfold w_remove in H.
    destruct HI as [Hres Hn Hndp Hndb Hbk Hnda Hndq Hdisj Hmem Hpb Hfresh Hinj Horph Hext Hexb Hexp].
    destruct (zfind t (w_placed w)) as [s|] eqn:Ept; [|inversion H; subst; auto].
    destruct (s_is_batch s) eqn:Eb.
    - destruct (Hpb _ _ Ept Eb) as [Htbl Hsome].
      destruct (zfind (s_id s) (w_batches w)) as [mem|] eqn:Efb; [|congruence].
      destruct (Hmem _ _ Efb) as (Hm1 & Hm2 & Hm3 & Hm4 & Hm5).
      assert (Htin : In t mem) by (apply Hm5; congruence).
      assert (Hsm : set_mem t mem = true) by (apply set_mem_in; exact Htin).
      rewrite Hsm in H. cbn [negb] in H.
      assert (Hbt : exists b, zfind (s_id s) (w_btask w) = Some b).
      { destruct (zfind (s_id s) (w_btask w)) as [b|] eqn:E; [eauto|]. apply (zfind_keys_eq _ _ _ Hbk) in E. congruence. }
      destruct Hbt as (b & Ebt).
      assert (Hother_mem : forall sid mem0, sid <> s_id s -> zfind sid (w_batches w) = Some mem0 -> ~ In t mem0).
      { intros sid mem0 Hne E0 Hin. destruct (Hmem _ _ E0) as (_ & _ & _ & A4 & A5). apply A5 in Hin.
        rewrite Ept in Hin. inversion Hin as [X]. rewrite X in Hne. congruence. }
      destruct (set_remove t mem) as [|x mem'] eqn:Esr.
      + (* the last member leaves: the batch is released *)
        rewrite Ebt in H. destruct (Hexb _ _ Ebt) as (l & El & _).
        destruct (de_some _ _ _ El) as (R & Ed). rewrite Ed in H. inversion H; subst; clear H.
        split; [|intros e He; discriminate].
        destruct (de_ok _ _ _ (proj2 Hres) Ed) as [Hgone Hoth].
        constructor; cbn [w_res w_placed w_batches w_btask w_avail_prof w_pend_prof w_fresh]; auto.
        * eapply res_ok_deallocate; eauto.
        * eapply nonneg_deallocate; eauto.
        * apply nodup_zremove. exact Hndp.
        * apply nodup_zremove. exact Hndb.
        * apply keys_zremove_eq. exact Hbk.
        * intros sid mem0 E0. destruct (Z.eq_dec (s_id s) sid) as [Esid|Hne].
          -- subst sid. rewrite zfind_zremove_same in E0 by exact Hndb. discriminate.
          -- rewrite zfind_zremove_other in E0 by exact Hne. destruct (Hmem _ _ E0) as (A1 & A2 & A3 & A4 & A5).
             repeat (split; [assumption|]). intro t0. destruct (Z.eq_dec t t0) as [<-|Hnt].
             ++ rewrite zfind_zremove_same by exact Hndp. split; [|discriminate]. intro X. exfalso.
                eapply Hother_mem; eauto.
             ++ rewrite zfind_zremove_other by exact Hnt. apply A5.
        * intros t0 s0 E0 Eb0. destruct (Z.eq_dec t t0) as [<-|Hnt].
          -- rewrite zfind_zremove_same in E0 by exact Hndp. discriminate.
          -- rewrite zfind_zremove_other in E0 by exact Hnt. destruct (Hpb _ _ E0 Eb0) as [B1 B2]. split; [exact B1|].
             destruct (Z.eq_dec (s_id s) (s_id s0)) as [E|Hne].
             ++ exfalso. apply Hnt. symmetry. apply (set_remove_nil t mem t0 Hm2 Esr). apply Hm5. rewrite E0, B1, <- E. reflexivity.
             ++ rewrite zfind_zremove_other by exact Hne. exact B2.
        * intros sid b0 E0. destruct (Z.eq_dec (s_id s) sid) as [Esid|Hne].
          -- subst sid. rewrite zfind_zremove_same in E0; [discriminate|]. rewrite Hbk. exact Hndb.
          -- rewrite zfind_zremove_other in E0 by exact Hne. eauto.
        * intros sid sid' b0 E0 E1.
          destruct (Z.eq_dec (s_id s) sid) as [Esid|Hne].
          { subst sid. rewrite zfind_zremove_same in E0; [discriminate|]. rewrite Hbk. exact Hndb. }
          destruct (Z.eq_dec (s_id s) sid') as [Esid'|Hne'].
          { subst sid'. rewrite zfind_zremove_same in E1; [discriminate|]. rewrite Hbk. exact Hndb. }
          rewrite zfind_zremove_other in E0, E1 by assumption. eauto.
        * intros c Hc. destruct (comp_eqb (CBatch b) c) eqn:Ec.
          -- apply comp_eqb_eq in Ec. subst c. congruence.
          -- rewrite (Hoth _ Ec) in Hc. specialize (Horph c Hc). destruct c as [t0|b0|p]; auto.
             ++ destruct Horph as (s0 & E0 & B0). destruct (Z.eq_dec t t0) as [<-|Hnt]; [congruence|].
                exists s0. rewrite zfind_zremove_other by exact Hnt. auto.
             ++ destruct Horph as (sid & E0). exists sid. destruct (Z.eq_dec (s_id s) sid) as [Esid|Hne].
                ** subst sid. rewrite Ebt in E0. inversion E0; subst. cbn in Ec. rewrite Z.eqb_refl in Ec. discriminate.
                ** rewrite zfind_zremove_other by exact Hne. exact E0.
        * intros t0 s0 E0 Eb0. destruct (Z.eq_dec t t0) as [<-|Hnt].
          -- rewrite zfind_zremove_same in E0 by exact Hndp. discriminate.
          -- rewrite zfind_zremove_other in E0 by exact Hnt. eapply held_other; [apply Hoth; reflexivity|]. eauto.
        * intros sid b0 E0. destruct (Z.eq_dec (s_id s) sid) as [Esid|Hne].
          -- subst sid. rewrite zfind_zremove_same in E0; [discriminate|]. rewrite Hbk. exact Hndb.
          -- rewrite zfind_zremove_other in E0 by exact Hne. eapply held_other; [apply Hoth|eauto].
             cbn. destruct (b =? b0) eqn:Ebb; [|reflexivity]. exfalso. apply Hne. assert (b = b0) by lia. subst b0. eauto.
        * intros p s0 E0. eapply held_other; [apply Hoth; reflexivity|]. auto.
      + (* other members remain *)
        inversion H; subst; clear H. split; [|intros e He; discriminate].
        assert (Hin' : forall t0, In t0 (x :: mem') <-> In t0 mem /\ t0 <> t) by (intro t0; rewrite <- Esr; apply in_set_remove; exact Hm2).
        constructor; cbn [w_res w_placed w_batches w_btask w_avail_prof w_pend_prof w_fresh]; auto.
        * apply nodup_zremove. exact Hndp.
        * apply nodup_zset. exact Hndb.
        * rewrite keys_zset_in by congruence. exact Hbk.
        * intros sid mem0 E0. destruct (Z.eq_dec (s_id s) sid) as [Esid|Hne].
          -- subst sid. rewrite zfind_zset_same in E0. inversion E0; subst; clear E0.
             split; [discriminate|]. split; [rewrite <- Esr; apply nodup_set_remove; exact Hm2|].
             split; [exact Hm3|]. split; [exact Hm4|]. intro t0. rewrite Hin'. destruct (Z.eq_dec t t0) as [<-|Hnt].
             ++ rewrite zfind_zremove_same by exact Hndp. split; [tauto|discriminate].
             ++ rewrite zfind_zremove_other by exact Hnt. rewrite (Hm5 t0). split; [tauto|intro; split; [assumption|congruence]].
          -- rewrite zfind_zset_other in E0 by exact Hne. destruct (Hmem _ _ E0) as (A1 & A2 & A3 & A4 & A5).
             repeat (split; [assumption|]). intro t0. destruct (Z.eq_dec t t0) as [<-|Hnt].
             ++ rewrite zfind_zremove_same by exact Hndp. split; [|discriminate]. intro X. exfalso.
                eapply Hother_mem; eauto.
             ++ rewrite zfind_zremove_other by exact Hnt. apply A5.
        * intros t0 s0 E0 Eb0. destruct (Z.eq_dec t t0) as [<-|Hnt].
          -- rewrite zfind_zremove_same in E0 by exact Hndp. discriminate.
          -- rewrite zfind_zremove_other in E0 by exact Hnt. destruct (Hpb _ _ E0 Eb0) as [B1 B2]. split; [exact B1|].
             destruct (Z.eq_dec (s_id s) (s_id s0)) as [E|Hne]; [rewrite E, zfind_zset_same; discriminate|].
             rewrite zfind_zset_other by exact Hne. exact B2.
        * intros c Hc. specialize (Horph c Hc). destruct c as [t0|b0|p]; auto.
          destruct Horph as (s0 & E0 & B0). destruct (Z.eq_dec t t0) as [<-|Hnt]; [congruence|].
          exists s0. rewrite zfind_zremove_other by exact Hnt. auto.
        * intros t0 s0 E0 Eb0. destruct (Z.eq_dec t t0) as [<-|Hnt].
          -- rewrite zfind_zremove_same in E0 by exact Hndp. discriminate.
          -- rewrite zfind_zremove_other in E0 by exact Hnt. eauto.
    - (* plain *)
      destruct (Hext _ _ Ept Eb) as (l & El & _).
      destruct (de_some _ _ _ El) as (R & Ed). rewrite Ed in H. inversion H; subst; clear H.
      split; [|intros e He; discriminate].
      destruct (de_ok _ _ _ (proj2 Hres) Ed) as [Hgone Hoth].
      constructor; cbn [w_res w_placed w_batches w_btask w_avail_prof w_pend_prof w_fresh]; auto.
      * eapply res_ok_deallocate; eauto.
      * eapply nonneg_deallocate; eauto.
      * apply nodup_zremove. exact Hndp.
      * intros sid mem0 E0. destruct (Hmem _ _ E0) as (A1 & A2 & A3 & A4 & A5).
        repeat (split; [assumption|]). intro t0. destruct (Z.eq_dec t t0) as [<-|Hnt].
        -- rewrite zfind_zremove_same by exact Hndp. rewrite (A5 t), Ept. split; [|discriminate].
           intro X. inversion X as [X1]. rewrite X1 in Eb. congruence.
        -- rewrite zfind_zremove_other by exact Hnt. apply A5.
      * intros t0 s0 E0 Eb0. destruct (Z.eq_dec t t0) as [<-|Hnt].
        -- rewrite zfind_zremove_same in E0 by exact Hndp. discriminate.
        -- rewrite zfind_zremove_other in E0 by exact Hnt. eauto.
      * intros c Hc. destruct (comp_eqb (CTask t) c) eqn:Ec.
        -- apply comp_eqb_eq in Ec. subst c. congruence.
        -- rewrite (Hoth _ Ec) in Hc. specialize (Horph c Hc). destruct c as [t0|b0|p]; auto.
           destruct Horph as (s0 & E0 & B0). destruct (Z.eq_dec t t0) as [<-|Hnt].
           ++ cbn in Ec. rewrite Z.eqb_refl in Ec. discriminate.
           ++ exists s0. rewrite zfind_zremove_other by exact Hnt. auto.
      * intros t0 s0 E0 Eb0. destruct (Z.eq_dec t t0) as [<-|Hnt].
        -- rewrite zfind_zremove_same in E0 by exact Hndp. discriminate.
        -- rewrite zfind_zremove_other in E0 by exact Hnt. eapply held_other; [apply Hoth|eauto]. cbn. lia.
      * intros sid b0 E0. eapply held_other; [apply Hoth; reflexivity|]. auto.
      * intros p s0 E0. eapply held_other; [apply Hoth; reflexivity|]. auto.
  Qed.

  (* ---- load ---- *)
  Lemma winv_load : forall p s w w' o, WInv w -> wop_ok w (WLoad p s) -> w_load p s w = (w', o) ->
    WInv w' /\ (forall e, o = Err e -> w' = w).
  Proof.
    intros p s w w' o HI (Hfa & Hfp) H. unfold w_load in H.
    destruct HI as [Hres Hn Hndp Hndb Hbk Hnda Hndq Hdisj Hmem Hpb Hfresh Hinj Horph Hext Hexb Hexp].
    assert (Hfc : al_find (CProf p) (r_allocs (w_res w)) = None).
    { destruct (al_find (CProf p) (r_allocs (w_res w))) eqn:E; [|reflexivity].
      assert (X : al_find (CProf p) (r_allocs (w_res w)) <> None) by congruence.
      destruct (Horph _ X); congruence. }
    destruct (r_allocate_multiple (w_res w) (s_req s) (CProf p)) as [R [[]|e]] eqn:Ea; inversion H; subst; clear H.
    2:{ assert (R = w_res w).
        { destruct Hres as [HA HB]. eapply allocate_multiple_refusal_any; eauto. }
        subst R. rewrite w_set_res_same. split; [constructor; assumption|auto]. }
    split; [|intros e He; discriminate].
    destruct (am_ok_fresh _ _ _ _ Hn Hfc Ea) as [Hheld Hoth].
    constructor; cbn [w_res w_placed w_batches w_btask w_avail_prof w_pend_prof w_fresh]; auto.
    - eapply res_ok_allocate_multiple; eauto.
    - eapply nonneg_allocate_multiple_any; eauto.
    - apply nodup_zset. exact Hndq.
    - intros p0 E0. destruct (Z.eq_dec p p0) as [<-|Hne]; [congruence|]. rewrite zfind_zset_other by exact Hne. auto.
    - intros sid b E0. apply Hfresh in E0. lia.
    - intros c Hc. destruct (comp_eqb (CProf p) c) eqn:Ec.
      + apply comp_eqb_eq in Ec. subst c. right. rewrite zfind_zset_same. discriminate.
      + rewrite (Hoth _ Ec) in Hc. specialize (Horph c Hc). destruct c as [t0|b0|p0]; auto.
        destruct Horph as [X|X]; [left; exact X|right].
        destruct (Z.eq_dec p p0) as [<-|Hne]; [congruence|]. rewrite zfind_zset_other by exact Hne. exact X.
    - intros t0 s0 E0 Eb0. eapply held_other; [apply Hoth; reflexivity|]. auto.
    - intros sid b E0. eapply held_other; [apply Hoth; reflexivity|]. auto.
    - intros p0 s0 E0. destruct (Z.eq_dec p p0) as [<-|Hne].
      + destruct E0 as [E0|E0]; [congruence|]. rewrite zfind_zset_same in E0. inversion E0; subst. cbn [s_req]. exact Hheld.
      + rewrite zfind_zset_other in E0 by exact Hne. eapply held_other; [apply Hoth|auto]. cbn. lia.
  Qed.

  (* ---- evict ---- *)
  Lemma winv_evict : forall p w w' o, WInv w -> w_evict p w = (w', o) ->
    WInv w' /\ (forall e, o = Err e -> w' = w).
  Proof.
    intros p w w' o HI H. unfold w_evict in H.
    destruct HI as [Hres Hn Hndp Hndb Hbk Hnda Hndq Hdisj Hmem Hpb Hfresh Hinj Horph Hext Hexb Hexp].
    destruct (negb (zmem p (w_avail_prof w)) && negb (zmem p (w_pend_prof w))) eqn:Ez.
    { inversion H; subst. split; [constructor; assumption|auto]. }
    assert (Hsome : exists s, zfind p (w_avail_prof w) = Some s \/ zfind p (w_pend_prof w) = Some s).
    { unfold zmem in Ez. destruct (zfind p (w_avail_prof w)) as [s|]; [eauto|]. destruct (zfind p (w_pend_prof w)) as [s|]; [eauto|]. discriminate. }
    destruct Hsome as (s0 & Hs0). destruct (Hexp _ _ Hs0) as (l & El & _).
    destruct (de_some _ _ _ El) as (R & Ed). rewrite Ed in H.
    destruct (de_ok _ _ _ (proj2 Hres) Ed) as [Hgone Hoth].
    assert (HR : Res_ok R) by (eapply res_ok_deallocate; eauto).
    assert (HN : Nonneg R) by (eapply nonneg_deallocate; eauto).
    destruct (zmem p (w_avail_prof w)) eqn:Em; inversion H; subst; clear H; (split; [|intros e He; discriminate]).
    - apply zmem_find in Em.
      constructor; cbn [w_res w_placed w_batches w_btask w_avail_prof w_pend_prof w_fresh]; auto.
      + apply nodup_zremove. exact Hnda.
      + intros p0 E0. destruct (Z.eq_dec p p0) as [<-|Hne]; [rewrite zfind_zremove_same in E0 by exact Hnda; congruence|].
        rewrite zfind_zremove_other in E0 by exact Hne. auto.
      + intros c Hc. destruct (comp_eqb (CProf p) c) eqn:Ec.
        * apply comp_eqb_eq in Ec. subst c. congruence.
        * rewrite (Hoth _ Ec) in Hc. specialize (Horph c Hc). destruct c as [t0|b0|p0]; auto.
          destruct (Z.eq_dec p p0) as [<-|Hne]; [cbn in Ec; rewrite Z.eqb_refl in Ec; discriminate|].
          rewrite zfind_zremove_other by exact Hne. exact Horph.
      + intros t0 s1 E0 Eb0. eapply held_other; [apply Hoth; reflexivity|]. auto.
      + intros sid b E0. eapply held_other; [apply Hoth; reflexivity|]. auto.
      + intros p0 s1 E0. destruct (Z.eq_dec p p0) as [<-|Hne].
        * exfalso. destruct E0 as [E0|E0]; [rewrite zfind_zremove_same in E0 by exact Hnda; discriminate|].
          rewrite (Hdisj _ Em) in E0. discriminate.
        * rewrite zfind_zremove_other in E0 by exact Hne. eapply held_other; [apply Hoth|auto]. cbn. lia.
    - apply zmem_false_find in Em.
      constructor; cbn [w_res w_placed w_batches w_btask w_avail_prof w_pend_prof w_fresh]; auto.
      + apply nodup_zremove. exact Hndq.
      + intros p0 E0. destruct (Z.eq_dec p p0) as [<-|Hne]; [apply zfind_zremove_same; exact Hndq|].
        rewrite zfind_zremove_other by exact Hne. auto.
      + intros c Hc. destruct (comp_eqb (CProf p) c) eqn:Ec.
        * apply comp_eqb_eq in Ec. subst c. congruence.
        * rewrite (Hoth _ Ec) in Hc. specialize (Horph c Hc). destruct c as [t0|b0|p0]; auto.
          destruct (Z.eq_dec p p0) as [<-|Hne]; [cbn in Ec; rewrite Z.eqb_refl in Ec; discriminate|].
          rewrite zfind_zremove_other by exact Hne. exact Horph.
      + intros t0 s1 E0 Eb0. eapply held_other; [apply Hoth; reflexivity|]. auto.
      + intros sid b E0. eapply held_other; [apply Hoth; reflexivity|]. auto.
      + intros p0 s1 E0. destruct (Z.eq_dec p p0) as [<-|Hne].
        * exfalso. destruct E0 as [E0|E0]; [congruence|]. rewrite zfind_zremove_same in E0 by exact Hndq. discriminate.
        * rewrite zfind_zremove_other in E0 by exact Hne. eapply held_other; [apply Hoth|auto]. cbn. lia.
  Qed.

  (* ---- step (profiles) ---- *)
  Lemma step_pend_spec : forall dt pend avail pd av,
    step_pend dt pend avail = (pd, av) ->
    NoDup (map fst pend) -> NoDup (map fst avail) ->
    (forall p, zfind p avail <> None -> zfind p pend = None) ->
    NoDup (map fst pd) /\ NoDup (map fst av) /\
    (forall p, zfind p av <> None -> zfind p pd = None) /\
    (forall p s', zfind p av = Some s' \/ zfind p pd = Some s' ->
       exists s, (zfind p avail = Some s \/ zfind p pend = Some s) /\ s_req s' = s_req s) /\
    (forall p, zfind p avail <> None \/ zfind p pend <> None -> zfind p av <> None \/ zfind p pd <> None).
  Proof.
    intros dt. induction pend as [|[p s] pend IH]; intros avail pd av H Hnp Hna Hd; cbn [step_pend] in H.
    - inversion H; subst. refine (conj _ (conj _ (conj _ (conj _ _)))).
      + constructor.
      + exact Hna.
      + intros p _. reflexivity.
      + intros p s' [X|X]; [eauto|discriminate].
      + intros p [X|X]; [auto|cbn in X; congruence].
    - cbn [map fst] in Hnp. inversion Hnp as [|a b Hp1 Hp2]; subst.
      assert (Hpa : zfind p avail = None).
      { destruct (zfind p avail) eqn:E; [|reflexivity]. assert (X : zfind p avail <> None) by congruence.
        apply Hd in X. cbn [zfind] in X. rewrite Z.eqb_refl in X. discriminate. }
      assert (Hpp : zfind p pend = None) by (apply zfind_none_notin; exact Hp1).
      destruct (s_runtime s - dt <=? 0) eqn:Er.
      + (* finished loading: moves to the available profiles *)
        set (s1 := mkStrat (s_id s) false (s_req s) (s_bsize s) 0) in *.
        destruct (IH (zset p s1 avail) pd av H Hp2 (nodup_zset p s1 avail Hna)) as (A1 & A2 & A3 & A4 & A5).
        { intros p0 X. destruct (Z.eq_dec p p0) as [<-|Hne]; [exact Hpp|].
          rewrite zfind_zset_other in X by exact Hne. apply Hd in X. cbn [zfind] in X. destruct (p =? p0) eqn:E; [lia|exact X]. }
        split; [exact A1|]. split; [exact A2|]. split; [exact A3|]. split.
        * intros p0 s' X. destruct (A4 _ _ X) as (s2 & [Y|Y] & Z1).
          -- destruct (Z.eq_dec p p0) as [<-|Hne].
             ++ rewrite zfind_zset_same in Y. inversion Y; subst. exists s. cbn [zfind]. rewrite Z.eqb_refl. split; [right; reflexivity|exact Z1].
             ++ rewrite zfind_zset_other in Y by exact Hne. exists s2. split; [left; exact Y|exact Z1].
          -- exists s2. split; [|exact Z1]. right. cbn [zfind]. destruct (p =? p0) eqn:E; [|exact Y].
             assert (p = p0) by lia. subst. congruence.
        * intros p0 X. apply A5. destruct (Z.eq_dec p p0) as [<-|Hne]; [left; rewrite zfind_zset_same; discriminate|].
          rewrite zfind_zset_other by exact Hne. destruct X as [X|X]; [left; exact X|right].
          cbn [zfind] in X. destruct (p =? p0) eqn:E; [lia|exact X].
      + destruct (step_pend dt pend avail) as [pd0 av0] eqn:Es. inversion H; subst; clear H.
        destruct (IH avail pd0 av Es Hp2 Hna) as (A1 & A2 & A3 & A4 & A5).
        { intros p0 X. apply Hd in X. cbn [zfind] in X. destruct (p =? p0); [discriminate|exact X]. }
        assert (Hpav : zfind p av = None).
        { destruct (zfind p av) as [s'|] eqn:E; [|reflexivity]. destruct (A4 p s' (or_introl E)) as (s2 & [Y|Y] & _); congruence. }
        assert (Hppd : zfind p pd0 = None).
        { destruct (zfind p pd0) as [s'|] eqn:E; [|reflexivity]. destruct (A4 p s' (or_intror E)) as (s2 & [Y|Y] & _); congruence. }
        split; [cbn [map fst]; constructor; [apply zfind_none_notin; exact Hppd|exact A1]|].
        split; [exact A2|]. split.
        * intros p0 X. cbn [zfind]. destruct (p =? p0) eqn:E; [assert (p = p0) by lia; subst; congruence|auto].
        * split.
          -- intros p0 s' X. cbn [zfind] in X. destruct (p =? p0) eqn:E.
             ++ assert (p = p0) by lia. subst p0. destruct X as [X|X]; [congruence|]. inversion X; subst. cbn [s_req].
                exists s. cbn [zfind]. rewrite Z.eqb_refl. auto.
             ++ destruct (A4 _ _ X) as (s2 & Y & Z1). exists s2. split; [|exact Z1]. cbn [zfind]. rewrite E. exact Y.
          -- intros p0 X. cbn [zfind] in *. destruct (p =? p0) eqn:E; [right; discriminate|]. apply A5. exact X.
  Qed.

  Lemma winv_step : forall dt w, WInv w -> WInv (w_step dt w).
  Proof.
    intros dt w HI. unfold w_step.
    destruct HI as [Hres Hn Hndp Hndb Hbk Hnda Hndq Hdisj Hmem Hpb Hfresh Hinj Horph Hext Hexb Hexp].
    destruct (step_pend dt (w_pend_prof w) (w_avail_prof w)) as [pd av] eqn:Es.
    destruct (step_pend_spec _ _ _ _ _ Es Hndq Hnda Hdisj) as (A1 & A2 & A3 & A4 & A5).
    constructor; cbn [w_res w_placed w_batches w_btask w_avail_prof w_pend_prof w_fresh]; auto.
    - intros c Hc. specialize (Horph c Hc). destruct c as [t0|b0|p0]; auto.
    - intros p s' X. destruct (A4 _ _ X) as (s2 & Y & Z1). rewrite Z1. apply Hexp. exact Y.
  Qed.

  Lemma w_getalloc_same : forall t w, WInv w -> fst (w_get_allocated_resources t w) = w.
  Proof.
    intros t w HI. unfold w_get_allocated_resources.
    destruct (zfind t (w_placed w)) as [s|] eqn:Ept; [|reflexivity].
    destruct (s_is_batch s) eqn:Eb.
    - destruct (zfind (s_id s) (w_btask w)) as [b|] eqn:Ebt; [|reflexivity].
      destruct (wi_ex_batch _ HI _ _ Ebt) as (l & El & _). unfold r_get_allocated_resources. rewrite El. cbn [fst]. apply w_set_res_same.
    - destruct (wi_ex_task _ HI _ _ Ept Eb) as (l & El & _). unfold r_get_allocated_resources. rewrite El. cbn [fst]. apply w_set_res_same.
  Qed.

  (* every operation *)
  Theorem winv_opstep : forall w o, WInv w -> wop_ok w o ->
    WInv (fst (w_opstep w o)) /\ (forall e, snd (w_opstep w o) = Err e -> fst (w_opstep w o) = w).
  Proof.
    intros w [t s|t|p s|p|dt|t] HI Ho; cbn [w_opstep].
    - destruct (w_place t s w) as [w' r] eqn:E. cbn [fst snd]. eapply winv_place; eauto.
    - destruct (w_remove t w) as [w' r] eqn:E. cbn [fst snd]. eapply winv_remove; eauto.
    - destruct (w_load p s w) as [w' r] eqn:E. cbn [fst snd]. eapply winv_load; eauto.
    - destruct (w_evict p w) as [w' r] eqn:E. cbn [fst snd]. eapply winv_evict; eauto.
    - cbn [fst snd]. split; [apply winv_step; exact HI|intros e He; discriminate].
    - pose proof (w_getalloc_same t w HI) as X. destruct (w_get_allocated_resources t w) as [w' r]. cbn [fst snd] in *. subst w'.
      split; [exact HI|auto].
  Qed.

  (* states reachable from w0 by operations satisfying their hypotheses *)
  Inductive w_reach (w0 : worker) : worker -> Prop :=
  | reach0 : w_reach w0 w0
  | reachS : forall w o, w_reach w0 w -> wop_ok w o -> w_reach w0 (fst (w_opstep w o)).

  Theorem winv_reach : forall w0 w, WInv w0 -> w_reach w0 w -> WInv w.
  Proof. intros w0 w H0 Hr. induction Hr as [|w o Hr IH Ho]; [exact H0|]. apply winv_opstep; assumption. Qed.

  (* ---- consequences ---- *)
  (* nothing resident => the ledger is empty and every cell is back at its total *)
  Theorem winv_empty_full : forall w, WInv w -> w_placed w = [] -> w_avail_prof w = [] -> w_pend_prof w = [] ->
    r_allocs (w_res w) = [] /\ r_avail (w_res w) = r_total (w_res w).
  Proof.
    intros w HI Hp Ha Hq.
    assert (E : r_allocs (w_res w) = []).
    { destruct (r_allocs (w_res w)) as [|[c l] a] eqn:Ea; [reflexivity|]. exfalso.
      assert (X : al_find c (r_allocs (w_res w)) <> None) by (rewrite Ea; cbn [al_find]; rewrite comp_eqb_refl; discriminate).
      pose proof (wi_orphan _ HI c X) as Y. destruct c as [t|b|p].
      - destruct Y as (s & Y & _). rewrite Hp in Y. discriminate.
      - destruct Y as (sid & Y).
        destruct (zfind sid (w_batches w)) as [mem|] eqn:Eb.
        + destruct (wi_members _ HI _ _ Eb) as (M1 & _ & _ & _ & M5). destruct mem as [|t mem]; [congruence|].
          assert (Z1 : zfind t (w_placed w) = Some (tbl sid)) by (apply M5; left; reflexivity). rewrite Hp in Z1. discriminate.
        + apply (zfind_keys_eq _ _ _ (wi_bt_keys _ HI)) in Eb. congruence.
      - rewrite Ha, Hq in Y. destruct Y as [Y|Y]; apply Y; reflexivity. }
    split; [exact E|]. destruct (wi_res _ HI) as [A B]. apply nothing_allocated_full; auto. rewrite E. constructor.
  Qed.

  Theorem winv_held_exactly : forall w, WInv w ->
    (forall c, al_find c (r_allocs (w_res w)) <> None ->
       match c with
       | CTask t => exists s, zfind t (w_placed w) = Some s /\ s_is_batch s = false
       | CBatch b => exists sid mem t, zfind sid (w_btask w) = Some b /\ zfind sid (w_batches w) = Some mem /\
                                     In t mem /\ zfind t (w_placed w) = Some (tbl sid)
       | CProf p => zfind p (w_avail_prof w) <> None \/ zfind p (w_pend_prof w) <> None
       end) /\
    (forall t s, zfind t (w_placed w) = Some s -> s_is_batch s = false -> Held (r_allocs (w_res w)) (CTask t) (s_req s)) /\
    (forall t s, zfind t (w_placed w) = Some s -> s_is_batch s = true ->
       exists b, zfind (s_id s) (w_btask w) = Some b /\ Held (r_allocs (w_res w)) (CBatch b) (s_req s)) /\
    (forall p s, zfind p (w_avail_prof w) = Some s \/ zfind p (w_pend_prof w) = Some s ->
       Held (r_allocs (w_res w)) (CProf p) (s_req s)).
  Proof.
    intros w HI. split; [|split; [|split]].
    - intros c Hc. pose proof (wi_orphan _ HI c Hc) as Y. destruct c as [t|b|p]; auto.
      destruct Y as (sid & Y). exists sid.
      destruct (zfind sid (w_batches w)) as [mem|] eqn:Eb.
      + destruct (wi_members _ HI _ _ Eb) as (M1 & _ & _ & _ & M5). destruct mem as [|t mem]; [congruence|].
        exists (t :: mem), t. repeat split; auto; [left; reflexivity|apply M5; left; reflexivity].
      + apply (zfind_keys_eq _ _ _ (wi_bt_keys _ HI)) in Eb. congruence.
    - apply (wi_ex_task _ HI).
    - intros t s E Eb. destruct (wi_placed_batch _ HI _ _ E Eb) as [B1 B2].
      destruct (zfind (s_id s) (w_btask w)) as [b|] eqn:Ebt.
      + exists b. split; [reflexivity|]. pose proof (wi_ex_batch _ HI _ _ Ebt) as X. rewrite <- B1 in X. exact X.
      + apply (zfind_keys_eq _ _ _ (wi_bt_keys _ HI)) in Ebt. congruence.
    - apply (wi_ex_prof _ HI).
  Qed.

  (* an idle worker (nothing placed, no profile) reports zero allocated quantity for every resource *)
  Theorem winv_idle_zero : forall w r, WInv w -> w_placed w = [] -> w_avail_prof w = [] -> w_pend_prof w = [] ->
    r_allocated_q (w_res w) r = 0 /\ r_available (w_res w) r = r_total_q (w_res w) r.
  Proof.
    intros w r HI Hp Ha Hq. destruct (winv_empty_full w HI Hp Ha Hq) as [_ E].
    unfold r_allocated_q, r_available, r_total_q. rewrite E. split; lia.
  Qed.

  (* removing a resident task always succeeds (since /repo be1cb9f also for a task whose request recorded
     nothing), evicting a loaded or loading profile always succeeds *)
  Theorem w_remove_resident_ok : forall t w, WInv w -> zfind t (w_placed w) <> None -> snd (w_remove t w) = Ok tt.
  Proof.
    intros t w HI Hp. unfold w_remove. destruct (zfind t (w_placed w)) as [s|] eqn:Ept; [|congruence].
    destruct (s_is_batch s) eqn:Eb.
    - destruct (wi_placed_batch _ HI _ _ Ept Eb) as [Htbl Hsome].
      destruct (zfind (s_id s) (w_batches w)) as [mem|] eqn:Efb; [|congruence].
      destruct (wi_members _ HI _ _ Efb) as (_ & _ & _ & _ & Hm5).
      assert (Hsm : set_mem t mem = true) by (apply set_mem_in; apply Hm5; congruence).
      rewrite Hsm. cbn [negb]. destruct (set_remove t mem); [|reflexivity].
      destruct (zfind (s_id s) (w_btask w)) as [b|] eqn:Ebt.
      + destruct (wi_ex_batch _ HI _ _ Ebt) as (l & El & _). destruct (de_some _ _ _ El) as (R & ->). reflexivity.
      + apply (zfind_keys_eq _ _ _ (wi_bt_keys _ HI)) in Ebt. congruence.
    - destruct (wi_ex_task _ HI _ _ Ept Eb) as (l & El & _). destruct (de_some _ _ _ El) as (R & ->). reflexivity.
  Qed.
  Theorem w_evict_loaded_ok : forall p w, WInv w ->
    zfind p (w_avail_prof w) <> None \/ zfind p (w_pend_prof w) <> None -> snd (w_evict p w) = Ok tt.
  Proof.
    intros p w HI Hp. unfold w_evict.
    assert (Hs : exists s, zfind p (w_avail_prof w) = Some s \/ zfind p (w_pend_prof w) = Some s).
    { destruct (zfind p (w_avail_prof w)) as [s|]; [eauto|]. destruct (zfind p (w_pend_prof w)) as [s|]; [eauto|]. destruct Hp; congruence. }
    destruct Hs as (s & Hs).
    assert (Ez : negb (zmem p (w_avail_prof w)) && negb (zmem p (w_pend_prof w)) = false).
    { unfold zmem. destruct Hs as [-> | ->]; [reflexivity|]. destruct (zfind p (w_avail_prof w)); reflexivity. }
    rewrite Ez. destruct (wi_ex_prof _ HI _ _ Hs) as (l & El & _). destruct (de_some _ _ _ El) as (R & ->).
    destruct (zmem p (w_avail_prof w)); reflexivity.
  Qed.
End Inv.
