(* C19, part 9: Graph.__init__(mapping) (graph_of_mapping) yields a graph with exactly the mapping's keys and,
   for every key, exactly its children list -- when the keys are distinct and every child is a key (which is what
   _generate_task_graph hands it).  With ReleaseP7 this closes "each invocation is a fresh isomorphic copy". *)
From Coq Require Import ZArith Bool List Lia ZifyBool.
Import ListNotations.
From Verif Require Import Model.Val Gen.Src_Time Model.Release Proofs.ReleaseP7.
Open Scope Z_scope.

Lemma al_mem_In k l : al_mem k l = true <-> In k (map fst l).
Proof.
  induction l as [|[k' v] l IH]; cbn [al_mem map fst In]; [split; [discriminate|tauto]|].
  rewrite orb_true_iff, IH, Z.eqb_eq. tauto.
Qed.
Lemma al_get_app_same k x l : al_get k (al_app k x l) = al_get k l ++ [x].
Proof.
  induction l as [|[k' v] l IH]; cbn [al_app al_get]; [rewrite Z.eqb_refl; reflexivity|].
  destruct (k' =? k) eqn:E; cbn [al_get]; rewrite E; [reflexivity|exact IH].
Qed.
Lemma al_get_app_other k k' x l : k <> k' -> al_get k' (al_app k x l) = al_get k' l.
Proof.
  intros Hne. induction l as [|[k0 v] l IH]; cbn [al_app al_get].
  - destruct (k =? k') eqn:E; [lia|reflexivity].
  - destruct (k0 =? k) eqn:E; cbn [al_get].
    + destruct (k0 =? k') eqn:E'; [lia|reflexivity].
    + destruct (k0 =? k'); [reflexivity|exact IH].
Qed.
Lemma al_keys_app k x l k' : In k' (map fst (al_app k x l)) <-> k' = k \/ In k' (map fst l).
Proof.
  induction l as [|[k0 v] l IH]; cbn [al_app map fst In]; [intuition|].
  destruct (k0 =? k) eqn:E; cbn [map fst In]; [assert (k0 = k) by lia; subst; intuition (subst; auto)|]. rewrite IH. intuition (subst; auto).
Qed.
Lemma al_get_append_fresh k l k' : al_get k' (l ++ [(k, [])]) = al_get k' l.
Proof.
  induction l as [|[k0 v] l IH]; cbn [app al_get]; [destruct (k =? k'); reflexivity|].
  destruct (k0 =? k'); [reflexivity|exact IH].
Qed.
Lemma al_get_touch k l k' : al_get k' (al_touch k l) = al_get k' l.
Proof. unfold al_touch. destruct (al_mem k l); [reflexivity|apply al_get_append_fresh]. Qed.
Lemma al_keys_touch k l k' : In k' (map fst (al_touch k l)) <-> k' = k \/ In k' (map fst l).
Proof.
  unfold al_touch. destruct (al_mem k l) eqn:E.
  - apply al_mem_In in E. split; [tauto|]. intros [->|H]; assumption.
  - rewrite map_app, in_app_iff. cbn [map fst In]. intuition.
Qed.

(* adding the children of one key *)
Lemma add_children k cs : forall g0,
  In k (map fst (g_ch g0)) ->
  exists g1,
    fold_left (fun acc c => bind acc (fun g' => g_add_child g' k c)) cs (Ok g0) = Ok g1 /\
    al_get k (g_ch g1) = al_get k (g_ch g0) ++ cs /\
    (forall k', k' <> k -> al_get k' (g_ch g1) = al_get k' (g_ch g0)) /\
    (forall k', In k' (map fst (g_ch g1)) <-> In k' (map fst (g_ch g0)) \/ In k' cs).
Proof.
  induction cs as [|c cs IH]; intros g0 Hk; cbn [fold_left].
  - exists g0. split; [reflexivity|]. split; [rewrite app_nil_r; reflexivity|]. split; [reflexivity|]. cbn [In]. tauto.
  - cbn [bind]. unfold g_add_child at 2. assert (Hm : al_mem k (g_ch g0) = true) by (apply al_mem_In; exact Hk). rewrite Hm.
    set (g' := mkG (al_touch c (al_app k c (g_ch g0))) (al_app c k (g_pa g0))).
    destruct (IH g') as [g1 [Hf [Hg [Ho Hkeys]]]].
    { unfold g'. cbn [g_ch]. apply al_keys_touch. right. apply al_keys_app. right. exact Hk. }
    exists g1. split; [exact Hf|]. unfold g' in Hg, Ho, Hkeys. cbn [g_ch] in Hg, Ho, Hkeys. split; [|split].
    + rewrite Hg, al_get_touch, al_get_app_same, <- app_assoc. reflexivity.
    + intros k' Hne. rewrite (Ho k' Hne), al_get_touch, al_get_app_other by lia. reflexivity.
    + intros k'. rewrite Hkeys, al_keys_touch, al_keys_app. cbn [In]. intuition (subst; auto).
Qed.

Lemma add_node_spec g0 k cs :
  exists g1, g_add_node g0 k cs = Ok g1 /\
    al_get k (g_ch g1) = al_get k (g_ch g0) ++ cs /\
    (forall k', k' <> k -> al_get k' (g_ch g1) = al_get k' (g_ch g0)) /\
    (forall k', In k' (map fst (g_ch g1)) <-> k' = k \/ In k' (map fst (g_ch g0)) \/ In k' cs).
Proof.
  unfold g_add_node. set (g' := mkG (al_touch k (g_ch g0)) (g_pa g0)).
  destruct (add_children k cs g') as [g1 [Hf [Hg [Ho Hkeys]]]].
  { unfold g'. cbn [g_ch]. apply al_keys_touch. left. reflexivity. }
  exists g1. split; [exact Hf|]. unfold g' in Hg, Ho, Hkeys. cbn [g_ch] in Hg, Ho, Hkeys. split; [|split].
  - rewrite Hg, al_get_touch. reflexivity.
  - intros k' Hne. rewrite (Ho k' Hne), al_get_touch. reflexivity.
  - intros k'. rewrite Hkeys, al_keys_touch. tauto.
Qed.

Lemma mapping_gen m : forall g0,
  NoDup (map fst m) ->
  (forall k, In k (map fst m) -> al_get k (g_ch g0) = []) ->
  exists g1,
    fold_left (fun acc kv => bind acc (fun g => g_add_node g (fst kv) (snd kv))) m (Ok g0) = Ok g1 /\
    (forall k cs, In (k, cs) m -> al_get k (g_ch g1) = cs) /\
    (forall k, ~ In k (map fst m) -> al_get k (g_ch g1) = al_get k (g_ch g0)) /\
    (forall k, In k (map fst (g_ch g1)) <->
               In k (map fst (g_ch g0)) \/ In k (map fst m) \/ exists k0 cs, In (k0, cs) m /\ In k cs).
Proof.
  induction m as [|[k cs] m IH]; intros g0 Hnd Hempty; cbn [fold_left].
  - exists g0. split; [reflexivity|]. split; [intros ? ? []|]. split; [reflexivity|].
    intros k. cbn [map In]. split; [tauto|]. intros [H|[[]|[k0 [cs [[] _]]]]]. exact H.
  - cbn [bind fst snd]. destruct (add_node_spec g0 k cs) as [g' [Ha [Hg [Ho Hkeys]]]]. rewrite Ha.
    cbn [map fst] in Hnd. inversion Hnd as [|? ? Hni Hnd']; subst.
    destruct (IH g' Hnd') as [g1 [Hf [Hin [Hout Hk1]]]].
    { intros k' Hk'. rewrite Ho by (intros ->; contradiction). apply Hempty. right. exact Hk'. }
    exists g1. split; [exact Hf|]. split; [|split].
    + intros k' cs' [Heq|Hin']; [inversion Heq; subst|apply Hin; exact Hin'].
      rewrite Hout by exact Hni. rewrite Hg, Hempty by (left; reflexivity). reflexivity.
    + intros k' Hk'. cbn [map fst In] in Hk'. rewrite Hout by tauto. apply Ho. intros ->. tauto.
    + intros k'. rewrite Hk1, Hkeys. cbn [map fst In]. split.
      * intros [[->|[H|H]]|[H|[k0 [cs0 [H1 H2]]]]]; try tauto.
        -- right. right. exists k, cs. split; [left; reflexivity|exact H].
        -- right. right. exists k0, cs0. split; [right; exact H1|exact H2].
      * intros [H|[[<-|H]|[k0 [cs0 [[Heq|H1] H2]]]]]; try tauto.
        -- inversion Heq; subst. tauto.
        -- right. right. exists k0, cs0. tauto.
Qed.

Theorem graph_of_mapping_shape m :
  NoDup (map fst m) ->
  (forall k cs c, In (k, cs) m -> In c cs -> In c (map fst m)) ->
  exists g, graph_of_mapping m = Ok g /\
    (forall k cs, In (k, cs) m -> g_children g k = cs) /\
    (forall k, In k (g_nodes g) <-> In k (map fst m)).
Proof.
  intros Hnd Hclosed. unfold graph_of_mapping.
  destruct (mapping_gen m g_empty Hnd ltac:(intros; reflexivity)) as [g [Hf [Hin [_ Hk]]]].
  exists g. split; [exact Hf|]. split; [exact Hin|].
  intros k. unfold g_nodes. rewrite Hk. cbn [g_empty g_ch map In]. split.
  - intros [[]|[H|[k0 [cs [H1 H2]]]]]; [exact H|]. eapply Hclosed; eassumption.
  - tauto.
Qed.

(* ---- each invocation is a fresh isomorphic copy of the job graph *)
Theorem instantiation_isomorphic jg f release index next us_ tg next' us' order :
  generate_task_graph jg f release index next us_ = Ok (tg, next', us') ->
  g_bfs (jg_graph jg) = Ok order ->
  NoDup order ->
  (forall kv, In kv (g_ch (jg_graph jg)) -> In (fst kv) order /\ forall c, In c (snd kv) -> In c order) ->
  NoDup (map fst (g_ch (jg_graph jg))) ->
  (forall kv c, In kv (g_ch (jg_graph jg)) -> In c (snd kv) -> In c (map fst (g_ch (jg_graph jg)))) ->
  (forall i i', In i order -> In i' order -> name_of jg i = name_of jg i' -> i = i') ->
  let task_id i := next + index_of i order in
  (* the renaming is injective and lands on unused ids *)
  (forall i, In i order -> next <= task_id i < next') /\
  (forall i i', In i order -> In i' order -> task_id i = task_id i' -> i = i') /\
  (* nodes correspond *)
  (forall t, In t (g_nodes (tg_graph tg)) <-> exists k, In k (g_nodes (jg_graph jg)) /\ t = task_id k) /\
  (* edges correspond, in order *)
  (forall k cs, In (k, cs) (g_ch (jg_graph jg)) -> g_children (tg_graph tg) (task_id k) = map task_id cs).
Proof.
  intros H Hbfs Hnd Hcov Hkeys Hwf Hinj task_id.
  destruct (instantiation_is_fresh_copy jg f release index next us_ tg next' us' order H Hbfs Hnd Hcov Hkeys Hinj)
    as [Hn [Hfresh [Hinj' Hg]]]. fold task_id in Hfresh, Hinj'.
  set (M := map (fun kv => (task_id (fst kv), map task_id (snd kv))) (g_ch (jg_graph jg))).
  change (graph_of_mapping M = Ok (tg_graph tg)) in Hg.
  assert (HkeysM : map fst M = map task_id (map fst (g_ch (jg_graph jg)))).
  { unfold M. rewrite !map_map. reflexivity. }
  assert (Hin_order : forall k, In k (map fst (g_ch (jg_graph jg))) -> In k order).
  { intros k Hk. apply in_map_iff in Hk. destruct Hk as [kv [<- Hkv]]. exact (proj1 (Hcov kv Hkv)). }
  destruct (graph_of_mapping_shape M) as [g [Hg' [Hch Hnodes]]].
  - rewrite HkeysM. apply NoDup_map_inj_in; [|exact Hkeys]. intros a b Ha Hb. apply Hinj'; apply Hin_order; assumption.
  - intros k cs c Hkcs Hc. unfold M in Hkcs. apply in_map_iff in Hkcs. destruct Hkcs as [kv [Heq Hkv]]. inversion Heq; subst.
    apply in_map_iff in Hc. destruct Hc as [c0 [<- Hc0]]. rewrite HkeysM. apply in_map. eapply Hwf; eassumption.
  - rewrite Hg in Hg'. inversion Hg'; subst g. split; [exact Hfresh|]. split; [exact Hinj'|]. split.
    + intros t. rewrite Hnodes, HkeysM, in_map_iff. unfold g_nodes. split.
      * intros [k [<- Hk]]. exists k. split; [exact Hk|reflexivity].
      * intros [k [Hk ->]]. exists k. split; [reflexivity|exact Hk].
    + intros k cs Hkcs. apply Hch. unfold M. apply in_map_iff. exists (k, cs). split; [reflexivity|exact Hkcs].
Qed.
