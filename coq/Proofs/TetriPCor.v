(* TetriPCor — consequences of soundness under the simulator's own convention (half-open occupation,
   a running task occupies its worker for its REMAINING time, a parent ends after its CHOSEN runtime),
   the decidable monitors, and witnesses. *)
From Coq Require Import ZArith Bool List Lia ZifyBool.
Import ListNotations.
From Verif Require Import Model.Val Model.PlanSpec Model.TetriModel Gen.Src_Tetri Proofs.TetriP Proofs.TetriPSum Proofs.TetriPSound.
Open Scope Z_scope.

(* ---- capacity with running tasks charged their remaining time follows from the formulation's *)
Lemma capacity_weaken : forall I p, wf_inst I ->
  capacity_ok (conv_tetri I) (to_pinst I) p -> capacity_ok conv_c10 (to_pinst I) p.
Proof.
  intros I p W H pw tau Hpw Htau r. specialize (H pw tau Hpw Htau r).
  assert (Hp : demand_plan conv_c10 (to_pinst I) p (pw_id pw) r tau = demand_plan (conv_tetri I) (to_pinst I) p (pw_id pw) r tau) by reflexivity.
  assert (Hf : demand_fixed conv_c10 (to_pinst I) (pw_id pw) r tau <= demand_fixed (conv_tetri I) (to_pinst I) (pw_id pw) r tau).
  { unfold demand_fixed. rewrite !fold_add_map. apply sumf_le. intros f Hf.
    assert (Hnn : 0 <= rget (st_req (fx_strat f)) r /\ fx_remaining f <= st_runtime (fx_strat f)).
    { unfold fixed_of in Hf. apply in_flat_map in Hf. destruct Hf as [pt [Hpt Hf]]. cbn in Hpt. apply in_map_iff in Hpt.
      destruct Hpt as [x [<- Hx]]. cbn in Hf. destruct (tt_state x) as [| |w' s rem] eqn:S; try contradiction.
      destruct Hf as [<-|[]]. cbn. pose proof (wf_run I W x w' s rem Hx S) as [A B]. split; [now apply rget_nonneg|lia]. }
    destruct Hnn as [Hnn Hrem]. destruct (fx_worker f =? pw_id pw); cbv [andb]; [|lia].
    unfold fx_active, fx_len, conv_c10, conv_tetri. cbn [cv_run_full cv_closed].
    destruct ((pi_now (to_pinst I) <=? tau) && (tau <? pi_now (to_pinst I) + fx_remaining f + 0)) eqn:E.
    - assert (E2 : (pi_now (to_pinst I) <=? tau) && (tau <? pi_now (to_pinst I) + st_runtime (fx_strat f) + 0) = true) by lia.
      rewrite E2. lia.
    - destruct ((pi_now (to_pinst I) <=? tau) && (tau <? pi_now (to_pinst I) + st_runtime (fx_strat f) + 0)); lia. }
  unfold demand in *. lia.
Qed.

(* ---- precedence with the parent's chosen runtime and no extra microsecond follows from the formulation's *)
Lemma slowest_ge : forall ss s, In s ss -> st_runtime s <= slowest_runtime ss.
Proof.
  induction ss as [|b ss IH]; intros s H; [contradiction|]. unfold slowest_runtime in *. cbn [fold_right].
  destruct H as [->|H]; [lia|]. specialize (IH s H). lia.
Qed.
Lemma precedence_weaken : forall I p pl, plan_wellformed (to_pinst I) p ->
  precedence_ok (conv_tetri I) (to_pinst I) p pl -> precedence_ok conv_c10 (to_pinst I) p pl.
Proof.
  intros I p pl Hwf H t pid Ft Hpid. destruct (H t pid Ft Hpid) as [q [e [Fq [He Hle]]]].
  unfold parent_end in He. cbn [conv_tetri cv_slowest cv_gap] in He, Hle.
  destruct (pt_fixed q) as [f|] eqn:Fx.
  - inversion He; subst. exists q. eexists. split; [exact Fq|]. split; [unfold parent_end; rewrite Fx; reflexivity|].
    cbn [conv_c10 cv_gap]. cbn [to_pinst pi_now] in *. lia.
  - destruct (find_pl p (pt_id q)) as [y|] eqn:Fy; [|discriminate]. inversion He; subst e.
    (* y is a well-formed placement of q, so its strategy index is valid *)
    assert (Hy : In y p /\ pl_task y = pt_id q).
    { clear - Fy. induction p as [|z p IH]; cbn in Fy; [discriminate|]. destruct (pl_task z =? pt_id q) eqn:E.
      - inversion Fy; subst. split; [now left|lia].
      - destruct (IH Fy). split; [now right|auto]. }
    destruct Hy as [Hy Ey]. destruct Hwf as [Hnd Hall]. rewrite Forall_forall in Hall. destruct (Hall y Hy) as [t' [w' [s' [Ft' [_ [_ Hs']]]]]].
    assert (Eq : t' = q).
    { rewrite Ey in Ft'. clear - Ft' Fq. pose proof Fq as Fq'.
      assert (G : forall ts id r, find_task ts id = Some r -> pt_id r = id).
      { induction ts as [|z ts IH]; intros id r F; cbn in F; [discriminate|]. destruct (pt_id z =? id) eqn:E; [inversion F; subst; lia|eauto]. }
      apply G in Fq'. rewrite <- Fq' in Fq. rewrite Fq in Ft'. now inversion Ft'. }
    subst t'. exists q. eexists. split; [exact Fq|]. split; [unfold parent_end; rewrite Fx, Fy; cbn [conv_c10 cv_slowest]; rewrite Hs'; reflexivity|].
    cbn [conv_c10 cv_gap]. apply nth_error_In in Hs'. apply slowest_ge in Hs'. lia.
Qed.

(* ---- the monitors decide the Props they are named after *)
Lemma pl_wellformedb_iff : forall I x, pl_wellformedb I x = true <-> pl_wellformed I x.
Proof.
  intros I x. unfold pl_wellformedb, pl_wellformed. split.
  - destruct (find_task (pi_tasks I) (pl_task x)) as [t|] eqn:Ft; [|discriminate].
    destruct (find_worker (pi_workers I) (pl_worker x)) as [w|] eqn:Fw; [|discriminate].
    destruct (pt_fixed t) eqn:F; [discriminate|]. destruct (nth_error (pt_strats t) (pl_strat x)) as [s|] eqn:N; [|discriminate].
    intros _. exists t, w, s. auto.
  - intros [t [w [s [Ft [Ff [Fw Hs]]]]]]. rewrite Ft, Fw, Ff, Hs. reflexivity.
Qed.
Lemma timing_okb_iff : forall cv I x, timing_okb cv I x = true <-> timing_ok cv I x.
Proof.
  intros cv I x. unfold timing_okb, timing_ok. split.
  - destruct (find_task (pi_tasks I) (pl_task x)) as [t|] eqn:Ft; [|discriminate].
    destruct (nth_error (pt_strats t) (pl_strat x)) as [s|] eqn:Hs; [|discriminate].
    intros H. exists t, s. repeat split; auto; try lia.
  - intros [t [s [Ft [Hs [H1 [H2 [H3 H4]]]]]]]. rewrite Ft, Hs, H3.
    destruct (cv_deadlines cv); cbn [negb orb]; [specialize (H4 eq_refl)|]; lia.
Qed.
Lemma precedence_okb_iff : forall cv I p x, (exists t, find_task (pi_tasks I) (pl_task x) = Some t) ->
  (precedence_okb cv I p x = true <-> precedence_ok cv I p x).
Proof.
  intros cv I p x [t Ft]. unfold precedence_okb, precedence_ok. rewrite Ft. rewrite forallb_forall. split.
  - intros H t' pid Ft' Hpid. inversion Ft'; subst t'. specialize (H pid Hpid).
    destruct (find_task (pi_tasks I) pid) as [q|]; [|discriminate]. destruct (parent_end cv I p q) as [e|] eqn:E; [|discriminate].
    exists q, e. repeat split; auto. lia.
  - intros H pid Hpid. destruct (H t pid eq_refl Hpid) as [q [e [Fq [He Hle]]]]. rewrite Fq, He. lia.
Qed.
Lemma nodupb_iff : forall l, nodupb l = true <-> NoDup l.
Proof.
  induction l as [|a l IH]; cbn; split; intros H; try constructor; auto.
  - apply andb_true_iff in H. destruct H as [H1 H2]. intros Hin. apply negb_true_iff in H1.
    assert (existsb (Z.eqb a) l = true) by (apply existsb_exists; exists a; split; [auto|apply Z.eqb_refl]). congruence.
  - apply IH. apply andb_true_iff in H. tauto.
  - inversion H; subst. apply andb_true_iff. split; [|now apply IH]. apply negb_true_iff.
    destruct (existsb (Z.eqb a) l) eqn:E; [|reflexivity]. apply existsb_exists in E. destruct E as [y [Hy E]].
    apply Z.eqb_eq in E. subst. contradiction.
Qed.

Lemma deadlines_c12b_iff : forall I p, Forall (fun x => exists t s, find_task (pi_tasks (to_pinst I)) (pl_task x) = Some t /\
      nth_error (pt_strats t) (pl_strat x) = Some s /\ ti_now I <= pl_start x /\ pt_release t <= pl_start x) p ->
  (deadlines_c12b I p = true <->
   (ti_enforce I = true -> forall x, In x p -> exists t s, find_task (pi_tasks (to_pinst I)) (pl_task x) = Some t /\
      nth_error (pt_strats t) (pl_strat x) = Some s /\ pl_start x + st_runtime s <= pt_deadline t)).
Proof.
  intros I p Hwf. rewrite Forall_forall in Hwf. unfold deadlines_c12b. destruct (ti_enforce I); cbn [negb orb].
  - rewrite forallb_forall. split.
    + intros H _ x Hx. apply H in Hx. apply timing_okb_iff in Hx. destruct Hx as [t [s [Ft [Hs [_ [_ [_ Hd]]]]]]].
      exists t, s. repeat split; auto.
    + intros H x Hx. apply timing_okb_iff. destruct (H eq_refl x Hx) as [t [s [Ft [Hs Hd]]]].
      destruct (Hwf x Hx) as [t' [s' [Ft' [Hs' [Hn Hr]]]]]. rewrite Ft in Ft'. inversion Ft'; subst t'. rewrite Hs in Hs'. inversion Hs'; subst s'.
      exists t, s. unfold conv_c12. cbn [cv_first cv_grid cv_deadlines]. cbn [to_pinst pi_now] in *. repeat split; auto; lia.
  - split; [intros _ H; discriminate|reflexivity].
Qed.

(* ---- the decidable well-formedness check implies the hypotheses of the theorems *)
Lemma nonneg_vec_spec : forall v, nonneg_vec v = true -> forall rq, In rq v -> 0 <= snd rq.
Proof. intros v H rq Hrq. unfold nonneg_vec in H. rewrite forallb_forall in H. specialize (H rq Hrq). lia. Qed.
Lemma rget_not_key : forall v r, ~ In r (map fst v) -> rget v r = 0.
Proof.
  induction v as [|[k q] v IH]; intros r H; cbn; [reflexivity|]. cbn in H.
  destruct (k =? r) eqn:E; [exfalso; apply H; left; lia|]. rewrite IH; [lia|]. intros Hin. apply H. now right.
Qed.

Lemma wf_instb_sound : forall I, wf_instb I = true -> wf_inst I.
Proof.
  intros I H. unfold wf_instb in H. repeat (apply andb_true_iff in H; destruct H as [H ?]).
  rename H into Hd. rename H0 into Hpar. rename H1 into Hfit. rename H2 into Hrun. rename H3 into Htot.
  rename H4 into Hreq. rename H5 into Hw. rename H6 into Hid. rename H7 into Hh.
  rewrite forallb_forall in Hpar, Hfit, Hrun, Htot, Hreq.
  constructor.
  - lia.
  - lia.
  - now apply nodupb_iff.
  - now apply nodupb_iff.
  - intros x s rq Hx Hs Hrq. specialize (Hreq x Hx). rewrite forallb_forall in Hreq. specialize (Hreq s Hs).
    apply andb_true_iff in Hreq. destruct Hreq as [A _]. eapply nonneg_vec_spec; eauto.
  - intros x s Hx Hs. specialize (Hreq x Hx). rewrite forallb_forall in Hreq. specialize (Hreq s Hs).
    apply andb_true_iff in Hreq. destruct Hreq as [_ B]. now apply nodupb_iff.
  - intros w rq Hw' Hrq. specialize (Htot w Hw'). eapply nonneg_vec_spec; eauto.
  - intros x w s rem Hx S. specialize (Hrun x Hx). rewrite S in Hrun.
    apply andb_true_iff in Hrun. destruct Hrun as [Hrun C]. split; [lia|]. now apply nonneg_vec_spec.
  - intros w r Hw'. specialize (Hfit w Hw'). rewrite forallb_forall in Hfit.
    destruct (in_dec Z.eq_dec r (running_keys I)) as [Hin|Hnin].
    + specialize (Hfit r Hin). rewrite fold_add_map in Hfit. lia.
    + assert (E0 : sumf (fun x => running_req x (tw_idx w) r) (ti_tasks I) = 0).
      { apply sumf_zero. intros x Hx. unfold running_req. destruct (tt_state x) as [| |w' s rem] eqn:S; try reflexivity.
        destruct (w' =? tw_idx w); [|reflexivity]. apply rget_not_key. intros Hk. apply Hnin.
        unfold running_keys. apply in_flat_map. exists x. split; auto. now rewrite S. }
      rewrite E0. apply rget_nonneg. apply nonneg_vec_spec. now apply Htot.
  - intros x pid Hx Hpid. specialize (Hpar x Hx). apply andb_true_iff in Hpar. destruct Hpar as [A _].
    rewrite forallb_forall in A. specialize (A pid Hpid). destruct (find_tt (ti_tasks I) pid); [eauto|discriminate].
  - intros x Hx. specialize (Hpar x Hx). apply andb_true_iff in Hpar. destruct Hpar as [_ B]. lia.
Qed.

(* ---- statements of Props/C10_tetri.v and Props/C11_tetri.v *)
Lemma tetri_bridge_c10 :
  (forall s r t, g_occupies s r t = occupies s r t) /\ (forall s r t, c_occupies s r t = occupies s r t) /\
  (forall s r t, g_occupies s r t = true <-> s <= t < s + r).
Proof.
  split; [exact bridge_occupies_g|]. split; [exact bridge_occupies_c|]. intros. rewrite bridge_occupies_g. apply occupies_iff.
Qed.

Lemma readback_answers : forall I a,
  map fst (readback I a) = map tt_id (free_tasks I) /\
  (NoDup (map tt_id (ti_tasks I)) -> NoDup (map fst (readback I a)) /\ NoDup (map pl_task (plan_of (readback I a)))).
Proof.
  intros I a. assert (E : map fst (readback I a) = map tt_id (free_tasks I)).
  { unfold readback. rewrite map_map. reflexivity. }
  split; [exact E|]. intros Hn. split; [|now apply plan_NoDup]. rewrite E.
  unfold free_tasks. clear E. induction (ti_tasks I) as [|t ts IH]; cbn; [constructor|].
  inversion Hn; subst. destruct (negb (is_running t)); cbn; auto. constructor; auto.
  intros H. apply H1. apply in_map_iff in H. destruct H as [y [E Hy]]. apply filter_In in Hy. rewrite <- E. apply in_map. tauto.
Qed.

Lemma tetri_contract : forall I a, wf_inst I -> sat (gen_tetri I) a = true ->
  plan_wellformed (to_pinst I) (plan_of (readback I a)) /\
  Forall (timing_ok (conv_tetri I) (to_pinst I)) (plan_of (readback I a)) /\
  capacity_ok (conv_tetri I) (to_pinst I) (plan_of (readback I a)).
Proof.
  intros I a W Hs. split; [now apply sound_wellformed|]. split; [now apply sound_timing|now apply sound_capacity].
Qed.

Lemma tetri_capacity_simulator : forall I a, wf_inst I -> sat (gen_tetri I) a = true ->
  forall w tau r, In w (ti_workers I) -> ti_now I <= tau ->
    demand conv_c10 (to_pinst I) (plan_of (readback I a)) (tw_idx w) r tau <= rget (tw_total w) r.
Proof.
  intros I a W Hs w tau r Hw Htau.
  pose proof (capacity_weaken I _ W (sound_capacity I a W Hs)) as C.
  specialize (C (mkPWorker (tw_idx w) (tw_total w)) tau). cbn [pw_id pw_cap] in C. apply C; auto.
  cbn. apply in_map_iff. exists w. auto.
Qed.

Lemma tetri_slots_suffice : forall I a, wf_inst I -> sat (gen_tetri I) a = true ->
  forall widx r tau, ti_now I <= tau ->
    In (floor_slot I tau) (slots I) /\ floor_slot I tau <= tau /\
    demand (conv_tetri I) (to_pinst I) (plan_of (readback I a)) widx r tau <=
    demand (conv_tetri I) (to_pinst I) (plan_of (readback I a)) widx r (floor_slot I tau).
Proof.
  intros I a W Hs widx r tau Htau. destruct (floor_slot_spec I W tau Htau) as [A [B _]].
  split; auto. split; auto. now apply slots_suffice.
Qed.

Lemma contract_okb_complete : forall I p,
  plan_wellformed (to_pinst I) p -> Forall (timing_ok conv_c10 (to_pinst I)) p -> capacity_ok conv_c10 (to_pinst I) p ->
  contract_okb I p = true.
Proof.
  intros I p [Hnd Hwf] Ht Hc. unfold contract_okb. rewrite Forall_forall in Hwf, Ht.
  repeat (apply andb_true_iff; split).
  - now apply nodupb_iff.
  - apply forallb_forall. intros x Hx. apply pl_wellformedb_iff. auto.
  - apply forallb_forall. intros x Hx. apply timing_okb_iff. auto.
  - unfold capacity_okb_at. apply forallb_forall. intros w Hw. apply forallb_forall. intros tau Htau.
    apply forallb_forall. intros r _. specialize (Hc w tau Hw).
    assert (Hge : pi_now (to_pinst I) <= tau).
    { unfold instants, zrange in Htau. apply in_map_iff in Htau. destruct Htau as [k [<- _]]. lia. }
    specialize (Hc Hge r). lia.
Qed.

Lemma tetri_precedence_simulator : forall I a, wf_inst I -> ti_flavour I = Gurobi -> sat (gen_tetri I) a = true ->
  Forall (precedence_ok conv_c10 (to_pinst I) (plan_of (readback I a))) (plan_of (readback I a)).
Proof.
  intros I a W Hfl Hs. pose proof (sound_precedence I a W Hs Hfl) as P. rewrite Forall_forall in *.
  intros pl Hpl. apply precedence_weaken; auto. now apply sound_wellformed.
Qed.

Lemma precedence_c11b_iff : forall I p, Forall (fun x => exists t, find_task (pi_tasks (to_pinst I)) (pl_task x) = Some t) p ->
  (precedence_c11b I p = true <-> Forall (precedence_ok conv_c10 (to_pinst I) p) p).
Proof.
  intros I p H. unfold precedence_c11b. rewrite forallb_forall, !Forall_forall in *.
  split; intros G x Hx; apply (precedence_okb_iff conv_c10 (to_pinst I) p x (H x Hx)); auto.
Qed.

Lemma tetri_precedence_explicit : forall I a x q plx, wf_inst I -> ti_flavour I = Gurobi -> sat (gen_tetri I) a = true ->
  In x (free_tasks I) -> readback_task I a x = Some plx ->
  In (tt_id q) (tt_parents x) -> In q (ti_tasks I) ->
  match tt_state q with
  | SRunning _ _ rem => ti_now I + rem + 1 <= pl_start plx
  | _ => exists plq, readback_task I a q = Some plq /\
                     pl_start plq + slowest_runtime (tt_strats q) + 1 <= pl_start plx
  end.
Proof.
  intros I a x q plx W Hfl Hs Hxf R Hpid Hq.
  pose proof (sound_precedence I a W Hs Hfl) as P. rewrite Forall_forall in P.
  assert (Hin : In plx (plan_of (readback I a))) by (apply In_plan; eauto).
  pose proof Hxf as Hxf'. apply free_tasks_In in Hxf'. destruct Hxf' as [Hx _].
  specialize (P plx Hin (to_ptask I x) (tt_id q)).
  rewrite (readback_pl_task _ _ _ _ R), (find_task_pinst I x (wf_ids I W) Hx) in P. specialize (P eq_refl).
  cbn [to_ptask pt_parents] in P. rewrite Hfl in P. specialize (P Hpid).
  destruct P as [pq [e [Fq [He Hle]]]]. rewrite (find_task_pinst I q (wf_ids I W) Hq) in Fq. inversion Fq; subst pq. clear Fq.
  unfold parent_end in He. cbn [to_ptask pt_fixed pt_id pt_strats conv_tetri cv_slowest cv_gap] in He, Hle.
  destruct (tt_state q) as [| |wq sq rem] eqn:Sq.
  - destruct (find_pl (plan_of (readback I a)) (tt_id q)) as [y|] eqn:Fy; [|discriminate]. inversion He; subst e.
    assert (Hy : In y (plan_of (readback I a)) /\ pl_task y = tt_id q).
    { clear - Fy. induction (plan_of (readback I a)) as [|z p IH]; cbn in Fy; [discriminate|]. destruct (pl_task z =? tt_id q) eqn:E.
      - inversion Fy; subst. split; [now left|lia].
      - destruct (IH Fy). split; [now right|auto]. }
    destruct Hy as [Hy Ey]. apply In_plan in Hy. destruct Hy as [q' [Hq' Rq']].
    assert (q' = q).
    { pose proof (readback_pl_task _ _ _ _ Rq') as E. rewrite Ey in E. apply free_tasks_In in Hq'. destruct Hq' as [Hq' _].
      pose proof (find_tt_NoDup _ q (wf_ids I W) Hq) as F1. pose proof (find_tt_NoDup _ q' (wf_ids I W) Hq') as F2.
      rewrite E in F1. rewrite F1 in F2. now inversion F2. }
    subst q'. exists y. split; auto.
  - destruct (find_pl (plan_of (readback I a)) (tt_id q)) as [y|] eqn:Fy; [|discriminate]. inversion He; subst e.
    assert (Hy : In y (plan_of (readback I a)) /\ pl_task y = tt_id q).
    { clear - Fy. induction (plan_of (readback I a)) as [|z p IH]; cbn in Fy; [discriminate|]. destruct (pl_task z =? tt_id q) eqn:E.
      - inversion Fy; subst. split; [now left|lia].
      - destruct (IH Fy). split; [now right|auto]. }
    destruct Hy as [Hy Ey]. apply In_plan in Hy. destruct Hy as [q' [Hq' Rq']].
    assert (q' = q).
    { pose proof (readback_pl_task _ _ _ _ Rq') as E. rewrite Ey in E. apply free_tasks_In in Hq'. destruct Hq' as [Hq' _].
      pose proof (find_tt_NoDup _ q (wf_ids I W) Hq) as F1. pose proof (find_tt_NoDup _ q' (wf_ids I W) Hq') as F2.
      rewrite E in F1. rewrite F1 in F2. now inversion F2. }
    subst q'. exists y. split; auto.
  - inversion He; subst e. cbn [fx_remaining to_pinst pi_now] in Hle. lia.
Qed.
