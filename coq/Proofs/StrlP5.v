(* C20 — part 5: a coarser discretisation only shrinks the set of solutions (it can lose utility,
   never validity). *)
From Coq Require Import ZArith Bool List Lia ZifyBool.
Import ListNotations.
From Verif Require Import Model.Val Model.Strl Proofs.StrlP Proofs.StrlP2.
Open Scope Z_scope.

Lemma slots_from_ge : forall g n t y, 0 < g -> In y (slots_from g n t) -> t <= y.
Proof.
  induction n as [|n IH]; intros t y Hg Hin; [destruct Hin|]. cbn [slots_from] in Hin.
  destruct Hin as [<-|Hin]; [lia|]. specialize (IH _ _ Hg Hin). lia.
Qed.

Lemma slots_from_form : forall g n t y, In y (slots_from g n t) -> exists k, (k < n)%nat /\ y = t + Z.of_nat k * g.
Proof.
  induction n as [|n IH]; intros t y Hin; [destruct Hin|]. cbn [slots_from] in Hin.
  destruct Hin as [<-|Hin]; [exists 0%nat; split; lia|].
  destruct (IH _ _ Hin) as [k [Hk ->]]. exists (S k). split; lia.
Qed.

Lemma rsum_item_absent : forall a p kappa q x ts, ~ In kappa ts -> rsum a (p, kappa) (map (fun t => (q, t, x)) ts) = 0.
Proof.
  induction ts as [|t ts IH]; intros Hn; [reflexivity|]. cbn [map]. rewrite rsum_cons.
  unfold reg_key, key_eqb; cbn [fst snd].
  assert (t <> kappa) by (intros ->; apply Hn; left; reflexivity).
  assert ((q =? p) && (t =? kappa) = false) by lia. rewrite H0.
  rewrite IH; [lia|]. intros Hin. apply Hn. right; exact Hin.
Qed.

Lemma rsum_item_le : forall a p kappa q x g n t, 0 < g -> 0 <= aval a x ->
  rsum a (p, kappa) (map (fun t => (q, t, x)) (slots_from g n t)) <= aval a x.
Proof.
  induction n as [|n IH]; intros t Hg Hx; [cbn [slots_from map]; rewrite rsum_nil; lia|].
  cbn [slots_from map]. rewrite rsum_cons. unfold reg_key, key_eqb; cbn [fst snd].
  destruct ((q =? p) && (t =? kappa)) eqn:He.
  - assert (~ In kappa (slots_from g n (t + g))).
    { intros Hin. apply slots_from_ge in Hin; lia. }
    rewrite rsum_item_absent by assumption. lia.
  - specialize (IH (t + g) Hg Hx). lia.
Qed.

(* a slot of the fine discretisation lies in a slot of the coarse one that the same leaf registered *)
Lemma slot_coarser : forall g g' m s0 s d kappa, 0 < g -> 0 < m -> g' = m * g -> (s - s0) mod g' = 0 ->
  In kappa (slots g s d) -> In (slot_of g' s0 kappa) (slots g' s d).
Proof.
  intros g g' m s0 s d kappa Hg Hm -> Hal Hin. unfold slots in Hin.
  destruct (slots_from_form _ _ _ _ Hin) as [k [Hk ->]].
  apply slot_in; [nia|exact Hal|]. split; [nia|].
  (* k < ceil(d/g)  ->  k*g < d *)
  assert (Hk' : Z.of_nat k < (d + g - 1) / g) by lia.
  assert (Z.of_nat k * g < d); [|lia].
  pose proof (Z.div_mod (d + g - 1) g ltac:(lia)) as Hdm.
  pose proof (Z.mod_pos_bound (d + g - 1) g Hg) as Hb. nia.
Qed.

Lemma leaf_regs_coarser : forall a p kappa kappa' g n t ts' (items : list (Z * atom)),
  0 < g -> (forall it, In it items -> 0 <= aval a (snd it)) ->
  (In kappa (slots_from g n t) -> In kappa' ts') ->
  rsum a (p, kappa) (flat_map (fun it => map (fun u => (fst it, u, snd it)) (slots_from g n t)) items)
  <= rsum a (p, kappa') (flat_map (fun it => map (fun u => (fst it, u, snd it)) ts') items).
Proof.
  intros a p kappa kappa' g n t ts' items Hg Hnn Himp. rewrite !rsum_flat_map.
  apply sumZ_map_le. intros it Hit. specialize (Hnn it Hit).
  assert (Hrhs : 0 <= rsum a (p, kappa') (map (fun u => (fst it, u, snd it)) ts')).
  { apply rsum_nonneg. intros r Hr. apply in_map_iff in Hr. destruct Hr as [u [<- _]]. exact Hnn. }
  destruct (Z.eq_dec (fst it) p) as [Hq|Hq].
  - destruct (in_dec Z.eq_dec kappa (slots_from g n t)) as [Hin|Hnin].
    + eapply Z.le_trans; [apply rsum_item_le; assumption|].
      pose proof (rsum_one_item a p kappa' (fst it) (snd it) ts' (Himp Hin) Hnn) as H.
      rewrite Hq, Z.eqb_refl in H. rewrite Hq. exact H.
    + rewrite rsum_item_absent by assumption. exact Hrhs.
  - assert (rsum a (p, kappa) (map (fun u => (fst it, u, snd it)) (slots_from g n t)) = 0) as Hz.
    { clear -Hq. induction (slots_from g n t) as [|u l IH]; [reflexivity|]. cbn [map]. rewrite rsum_cons.
      unfold reg_key, key_eqb; cbn [fst snd]. assert ((fst it =? p) = false) by lia. rewrite H. cbn [andb]. lia. }
    rewrite Hz. exact Hrhs.
Qed.

Lemma node_regs_coarser : forall pt now g g' m a s0 p kappa x,
  0 < g -> 0 < m -> g' = m * g ->
  (forall s d, In (s, d) (leaf_span x) -> (s - s0) mod g' = 0) ->
  (forall n ps am s d u q, x = Choose n ps am s d u -> is_pu (parse pt now x) = true -> In q (sched pt ps) ->
     0 <= a (VAlloc n q)) ->
  (forall n al s d q y, x = Alloc n al s d -> In (q, y) al -> 0 <= y) ->
  rsum a (p, kappa) (own_regs pt now g x) <= rsum a (p, slot_of g' s0 kappa) (own_regs pt now g' x).
Proof.
  intros pt now g g' m a s0 p kappa x Hg Hm Hgg Hal Hc Ha.
  destruct x; cbn [own_regs]; try (rewrite !rsum_nil; lia).
  - (* Choose *)
    destruct (parse pt now (Choose n parts amount start dur util)) eqn:Hp; [rewrite !rsum_nil; lia|].
    pose proof (leaf_regs_coarser a p kappa (slot_of g' s0 kappa) g (Z.to_nat ((dur + g - 1) / g)) start (slots g' start dur)
                  (map (fun q => (q, AVar (VAlloc n q))) (sched pt parts)) Hg) as L.
    rewrite !flat_map_map in L. cbn [fst snd] in L. unfold slots at 1. apply L.
    + intros it Hit. apply in_map_iff in Hit. destruct Hit as [q [<- Hq]]. cbn [snd aval].
      apply (Hc n parts amount start dur util q eq_refl); [first [reflexivity|rewrite Hp; reflexivity]|exact Hq].
    + intros Hin. apply (slot_coarser g g' m s0 start dur kappa Hg Hm Hgg); [|exact Hin].
      apply (Hal start dur). left; reflexivity.
  - (* Alloc *)
    pose proof (leaf_regs_coarser a p kappa (slot_of g' s0 kappa) g (Z.to_nat ((dur + g - 1) / g)) start (slots g' start dur)
                  (map (fun pa => (fst pa, AConst (snd pa))) allocs) Hg) as L.
    rewrite !flat_map_map in L. cbn [fst snd] in L. unfold slots at 1. apply L.
    + intros it Hit. apply in_map_iff in Hit. destruct Hit as [[q y] [<- Hq]]. cbn [snd aval].
      exact (Ha n allocs start dur q y eq_refl Hq).
    + intros Hin. apply (slot_coarser g g' m s0 start dur kappa Hg Hm Hgg); [|exact Hin].
      apply (Hal start dur). left; reflexivity.
Qed.

(* every solution of the model compiled with the coarser granularity g' = m*g is a solution of the
   model compiled with g, with the same objective value: coarsening can only lose utility *)
Theorem coarser_shrinks : forall pt now g g' m e cs cs' a,
  0 < g -> 0 < m -> g' = m * g ->
  compile pt now g e = Ok cs -> compile pt now g' e = Ok cs' ->
  wf_in pt g' e -> aligned g' e -> sat cs' a = true ->
  sat cs a = true /\ objective_value cs a = objective_value cs' a.
Proof.
  intros pt now g g' m e cs cs' a Hg Hm Hgg Hc Hc' [Hg' [Hq Hal]] [s0 Hs0] Hs'.
  pose proof (sat_facts _ _ _ _ _ _ Hc' Hs') as F.
  pose proof (facts_alloc_nn _ _ _ _ _ F) as Hnn.
  destruct (compile_inv _ _ _ _ _ Hc) as [n [ks [He [_ Hcs]]]].
  destruct (compile_inv _ _ _ _ _ Hc') as [n' [ks' [He' [_ Hcs']]]].
  split; [|rewrite Hcs, Hcs'; reflexivity].
  rewrite Hcs. unfold sat; cbn [cs_rows cs_vars]. rewrite forallb_app, !andb_true_iff. repeat split.
  - apply forallb_forall. intros r Hr. unfold e_rows in Hr. apply in_flat_map in Hr. destruct Hr as [x [Hx Hr]].
    exact (f_rows _ _ _ _ _ F x r Hx Hr).
  - apply forallb_forall. intros r Hr. unfold cap_rows in Hr. apply in_map_iff in Hr. destruct Hr as [[p kappa] [<- Hk]].
    unfold cap_row. apply mkrow_LE. cbn [fst].
    change (lin_val a (regs_at (p, kappa) (e_regs pt now g e))) with (rsum a (p, kappa) (e_regs pt now g e)).
    set (k' := (p, slot_of g' s0 kappa)).
    assert (H1 : rsum a (p, kappa) (e_regs pt now g e) <= rsum a k' (e_regs pt now g' e)).
    { unfold e_regs. rewrite !rsum_flat_map. apply sumZ_map_le. intros x Hx.
      apply (node_regs_coarser pt now g g' m a s0 p kappa x Hg Hm Hgg).
      - intros s d Hin. apply (Hs0 s d). unfold leaf_spans. apply in_flat_map. exists x. split; assumption.
      - intros n0 ps am s d u q -> Hp Hq'. exact (Hnn n0 ps am s d u q Hx Hp Hq').
      - intros n0 al s d q y -> Hin. exact (Hal n0 al s d q y Hx Hin). }
    assert (H2 : rsum a k' (e_regs pt now g' e) <= qty0 pt p).
    { destruct (in_dec key_dec k' (reg_keys (e_regs pt now g' e))) as [Hin|Hnin].
      - pose proof (f_caps _ _ _ _ _ F k' Hin) as Hr. unfold cap_row in Hr. apply mkrow_LE in Hr. exact Hr.
      - rewrite rsum_no_key by assumption. apply Hq. }
    lia.
  - apply forallb_forall. intros d Hd. unfold e_vars in Hd. apply in_flat_map in Hd. destruct Hd as [x [Hx Hd]].
    exact (f_vars _ _ _ _ _ F x d Hx Hd).
Qed.

(* non-vacuous: granularity 4 against 2, two aligned Chooses on one unit *)
Example coarser_shrinks_nonvacuous :
  let pt : ptab := [(1, 1, true)] in
  let e := Objective 3 [Choose 1 [1] 1 0 3 1; Choose 2 [1] 1 4 4 1] in
  exists cs cs' a, compile pt 0 2 e = Ok cs /\ compile pt 0 4 e = Ok cs' /\ sat cs' a = true /\ sat cs a = true /\
                   objective_value cs' a = 2.
Proof.
  cbv zeta. eexists. eexists. exists (fun _ => 1).
  split; [vm_compute; reflexivity|]. split; [vm_compute; reflexivity|]. repeat split; vm_compute; reflexivity.
Qed.

(* ------------------------------------------------------------------ the hypotheses of the structure theorems
   (placements exact, Min, Max, LessThan) are satisfiable by a non-trivial tree and assignment *)
Definition ex_pt : ptab := [(1, 1, true); (2, 2, true)].
Definition ex_e : expr :=
  Objective 8 [Min 7 [LessThan 6 (Max 5 [Choose 1 [1] 1 0 2 3; Choose 2 [1; 2] 2 2 2 1]) (Choose 3 [2] 2 4 2 2);
                      Alloc 4 [(1, 1)] 6 2]].
Definition ex_a : asg := asg_of
  [(VInd 3, 1); (VAlloc 3 2, 2); (VInd 2, 1); (VAlloc 2 1, 1); (VAlloc 2 2, 1); (VInd 7, 1); (VEnd 7, 8);
   (VEnd 5, 4); (VInd 5, 1); (VInd 6, 1)].

Example structure_nonvacuous :
  exists cs, compile ex_pt 0 2 ex_e = Ok cs /\ sat cs ex_a = true /\ alignedb 2 ex_e = true /\
    nodupZ (map node_id (subs ex_e)) = true /\
    map pl_name (populate ex_pt 0 ex_a ex_e) = [2; 3] /\
    is_pu (parse ex_pt 0 (LessThan 6 (Max 5 [Choose 1 [1] 1 0 2 3; Choose 2 [1; 2] 2 2 2 1]) (Choose 3 [2] 2 4 2 2))) = true /\
    ex_a (VInd 7) = 1 /\ ex_a (VInd 5) = 1 /\ ex_a (VInd 2) = 1 /\ ex_a (VInd 1) = 0.
Proof.
  eexists. split; [vm_compute; reflexivity|]. repeat split; vm_compute; reflexivity.
Qed.
