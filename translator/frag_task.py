"""Fragment Task: workload/tasks.py TaskState + the state-changing methods of Task
(release, schedule, unschedule, start, step, preempt, resume, finish, cancel,
update_remaining_time, is_complete) -> Gen/Src_Task.v.

Each method becomes  m : task_dyn -> args -> result (task_dyn * ret)  following the
statements of the source: guards (`raise` -> Err 1, `assert` -> Err 2), assignments to
the modelled fields (record update), calls to other translated methods (bind).
Statements touching bookkeeping that no property reads (placement object, worker pool
id, probability, preemption list, logging) are dropped through an explicit allow-list;
anything else is a TranslateError.
"""
import ast
import os
import sys

sys.path.insert(0, os.path.dirname(os.path.abspath(__file__)))
import py2v  # noqa: E402
from py2v import TranslateError, die, attr_chain, is_logger_call  # noqa: E402

FIELDS = ["_state", "_pre_scheduling_state", "_release_time", "_start_time", "_completion_time",
          "_remaining_time", "_last_step_time", "_cancellation_time", "_deadline"]
GF = {f: "t" + f for f in FIELDS}          # gallina field names: t_state, t_release_time, ...
TIME_FIELDS = [f for f in FIELDS if f not in ("_state", "_pre_scheduling_state")]
IGNORED_FIELDS = {"_scheduling_time", "_scheduler_placement", "_worker_pool_id"}
PROPS = {"state": "_state", "start_time": "_start_time", "release_time": "_release_time",
         "deadline": "_deadline", "completion_time": "_completion_time"}


def setter(field, cur, val):
    parts = []
    for f in FIELDS:
        parts.append(val if f == field else "(%s %s)" % (GF[f], cur))
    return "(mkTask %s)" % " ".join(parts)


class MethodTr:
    def __init__(self, members, methods_known, opt_params, params, subst, ret_default, ret_type):
        self.members = members
        self.known = methods_known      # name -> (gallina fn, [arg types], partial) of already translated methods
        self.opt = set(opt_params)
        self.params = params            # name -> type
        self.subst = subst              # attr-chain tuple -> (code, type)
        self.ret_default = ret_default
        self.ret_type = ret_type
        self.n = 0
        self.locals = {}

    def fresh(self):
        self.n += 1
        return "s%d" % self.n

    def tr(self, cur):
        attrs = {}
        for f in FIELDS:
            ty = "TaskState" if f in ("_state", "_pre_scheduling_state") else "Z"
            attrs[("Task", f)] = (GF[f], ty)
        for p, f in PROPS.items():
            ty = "TaskState" if f == "_state" else "Z"
            attrs[("Task", p)] = (GF[f], ty)
        consts = {("EventTime", "zero"): ("0", "Z"), ("EventTime", "invalid"): ("(-1)", "Z")}
        for name, _ in self.members:
            consts[("TaskState", name)] = ("TS_" + name, "TaskState")
        consts.update(self.subst)
        cmps = dict(py2v.Z_CMPS)
        for op, tmpl in (("==", "(task_state_eqb {a} {b})"), ("!=", "(negb (task_state_eqb {a} {b}))"),
                         ("<", "(task_state_ltb {a} {b})"), (">", "(task_state_ltb {b} {a})")):
            cmps[("TaskState", op, "TaskState")] = (tmpl, False)
        cmps[("OptZ", "is", "None")] = ("(opt_is_none {a})", False)
        cmps[("OptZ", "isnot", "None")] = ("(negb (opt_is_none {a}))", False)
        methods = {("Z", "is_invalid"): ("time_is_invalid", [], "bool", False)}
        for name, (fn, argtys, partial, rty) in self.known.items():
            if rty is not None:
                methods[("Task", name)] = (fn, argtys, rty, partial)
        vars_ = {"self": (cur, "Task")}
        for p, ty in self.params.items():
            vars_[p] = (p, ty)
        for p, (c, ty) in self.locals.items():
            vars_[p] = (c, ty)
        consts[("None",)] = ("None", "None")
        consts[("tuple", "RELEASABLE_TASK_STATES")] = self.releasable
        t = py2v.Tr(vars_, attrs, methods, consts, dict(py2v.Z_BINOPS), cmps)
        return t

    def cond(self, e, cur):
        """Boolean condition; optional parameters used as truth values mean `is not None`."""
        e = _none_fix(e)
        if isinstance(e, ast.Name) and e.id in self.opt:
            return "(negb (opt_is_none %s))" % e.id
        if isinstance(e, ast.BoolOp):
            parts = [self.cond(v, cur) for v in e.values]
            return "(" + (" && " if isinstance(e.op, ast.And) else " || ").join(parts) + ")"
        if isinstance(e, ast.UnaryOp) and isinstance(e.op, ast.Not):
            return "(negb %s)" % self.cond(e.operand, cur)
        if _is_type_test(e):
            return "false"       # `type(x) != T`: Python-level type errors are not modelled
        t = self.tr(cur)
        c, ty = t.expr(e)
        if t.binds:
            die(e, "partial call inside a condition")
        if ty != "bool":
            die(e, "condition of type %s" % ty)
        return c

    def value(self, e, cur, want=None):
        e = _none_fix(e)
        if isinstance(e, ast.IfExp):
            return "(if %s then %s else %s)" % (self.cond(e.test, cur), self.value(e.body, cur, want), self.value(e.orelse, cur, want))
        if isinstance(e, ast.Name) and e.id in self.opt:
            return "(opt_get %s)" % e.id
        t = self.tr(cur)
        c, ty = t.expr(e)
        if t.binds:
            die(e, "partial call inside a value")
        if want and ty != want:
            die(e, "value of type %s where %s expected" % (ty, want))
        return c

    def stmts(self, body, cur):
        if not body:
            return "(Ok (%s, %s))" % (cur, self.ret_default)
        s, rest = body[0], body[1:]
        if isinstance(s, ast.Expr) and isinstance(s.value, ast.Constant):
            return self.stmts(rest, cur)
        if isinstance(s, ast.Pass) or is_logger_call(s):
            return self.stmts(rest, cur)
        if isinstance(s, ast.Raise):
            return "(Err 1)"
        if isinstance(s, ast.Return):
            if s.value is None:
                return "(Ok (%s, %s))" % (cur, self.ret_default)
            return "(Ok (%s, %s))" % (cur, self.value(s.value, cur, self.ret_type))
        if isinstance(s, ast.Assert):
            return "(if %s then %s else (Err 2))" % (self.cond(s.test, cur), self.stmts(rest, cur))
        if isinstance(s, ast.If):
            c = self.cond(s.test, cur)
            # an `if` whose body only logs is dropped together with its test
            body_ = [x for x in s.body if not (is_logger_call(x) or isinstance(x, ast.Pass))]
            else_ = [x for x in s.orelse if not (is_logger_call(x) or isinstance(x, ast.Pass))]
            if not body_ and not else_:
                return self.stmts(rest, cur)
            save = dict(self.locals)
            a = self.stmts(body_ + rest, cur)
            self.locals = dict(save)
            b = self.stmts(else_ + rest, cur)
            self.locals = save
            return "(if %s then %s else %s)" % (c, a, b)
        if isinstance(s, (ast.Assign, ast.AugAssign)):
            tgt = s.targets[0] if isinstance(s, ast.Assign) else s.target
            if isinstance(s, ast.Assign) and len(s.targets) != 1:
                die(s, "multiple assignment targets")
            ch = attr_chain(tgt)
            if ch and ch[0] == "self" and len(ch) == 2:
                f = ch[1]
                if f in IGNORED_FIELDS:
                    return self.stmts(rest, cur)
                if f not in FIELDS:
                    die(s, "assignment to unmodelled field %s" % f)
                want = "TaskState" if f in ("_state", "_pre_scheduling_state") else "Z"
                if isinstance(s, ast.AugAssign):
                    if not isinstance(s.op, ast.Sub) or want != "Z":
                        die(s, "augmented assignment")
                    v = "(%s %s - %s)" % (GF[f], cur, self.value(s.value, cur, "Z"))
                else:
                    v = self.value(s.value, cur, want)
                n = self.fresh()
                return "(let %s := %s in %s)" % (n, setter(f, cur, v), self.stmts(rest, n))
            if ch and ch[0] == "self" and len(ch) == 3 and ch[1] == "last_preemption":
                return self.stmts(rest, cur)           # preemption record: not modelled
            if isinstance(tgt, ast.Name) and isinstance(s, ast.Assign):
                # local: either the fuzzed runtime (an oracle input) or a plain value
                if _mentions(s.value, "fuzz"):
                    if "draw" not in self.params:
                        die(s, "fuzz() in a method without a draw parameter")
                    self.locals[tgt.id] = ("draw", "Z")
                    return self.stmts(rest, cur)
                if tgt.id == "new_worker_pool":
                    return self.stmts(rest, cur)
                v = self.value(s.value, cur)
                self.locals[tgt.id] = (tgt.id, "Z")
                return "(let %s := %s in %s)" % (tgt.id, v, self.stmts(rest, cur))
            die(s, "assignment target")
        if isinstance(s, ast.Expr) and isinstance(s.value, ast.Call):
            ch = attr_chain(s.value.func)
            if ch == ["self", "update_probability"]:
                return self.stmts(rest, cur)
            if ch == ["self", "_preemptions", "append"]:
                return self.stmts(rest, cur)
            if ch and ch[0] == "self" and len(ch) == 2 and ch[1] in self.known:
                fn, argtys, partial, rty = self.known[ch[1]]
                if len(s.value.args) != len(argtys) or s.value.keywords:
                    die(s, "arity of self.%s" % ch[1])
                args = [self.value(a, cur, t) for a, t in zip(s.value.args, argtys)]
                n = self.fresh()
                call = "(%s %s)" % (fn, " ".join([cur] + args))
                if partial:
                    return "(bind %s (fun r%s => let %s := fst r%s in %s))" % (call, n, n, n, self.stmts(rest, n))
                die(s, "call of a total method as a statement")
            die(s, "call statement")
        die(s, "statement")


def _mentions(e, name):
    for n in ast.walk(e):
        if isinstance(n, ast.Attribute) and n.attr == name:
            return True
    return False


def _is_type_test(e):
    return (isinstance(e, ast.Compare) and isinstance(e.left, ast.Call) and attr_chain(e.left.func) == ["type"])


class _NF(ast.NodeTransformer):
    def visit_Constant(self, n):
        if n.value is None:
            return ast.copy_location(ast.Name(id="None", ctx=ast.Load()), n)
        return n


def _none_fix(e):
    import copy
    return _NF().visit(copy.deepcopy(e))


def frag_task(repo):
    mod = py2v.load(repo, "workload/tasks.py")
    TS = py2v.find_class(mod, "TaskState")
    members = py2v.enum_members(TS)
    expect = ["VIRTUAL", "RELEASED", "SCHEDULED", "RUNNING", "PREEMPTED", "EVICTED", "COMPLETED", "CANCELLED"]
    if [n for n, _ in members] != expect:
        die(TS, "TaskState members changed: %s" % [n for n, _ in members])
    out = [py2v.HEADER % "workload/tasks.py (TaskState, Task state-changing methods)"]
    out.append("Inductive task_state := %s.\n" % " | ".join("TS_" + n for n, _ in members))
    out.append("Definition task_state_value (s : task_state) : Z :=\n  match s with %s end.\n" %
               " | ".join("TS_%s => %d" % (n, v) for n, v in members))
    out.append("Definition all_task_states : list task_state := [%s].\n" % "; ".join("TS_" + n for n, _ in members))
    # __lt__ / __eq__ by value
    attrs = {("TS", "value"): ("task_state_value", "Z")}
    for py, gn in (("__lt__", "task_state_ltb"), ("__eq__", "task_state_eqb")):
        f = py2v.find_func(TS, py)
        tr = py2v.Tr({"self": ("self", "TS"), "other": ("other", "TS")}, attrs, {}, {}, py2v.Z_BINOPS, py2v.Z_CMPS)
        out.append("Definition %s (self other : task_state) : bool :=\n  %s.\n" %
                   (gn, py2v.fn_body(tr, py2v.strip_body(f.body, is_logger_call), False, "bool")))
    # RELEASABLE_TASK_STATES
    rel = None
    for n in mod.body:
        if isinstance(n, ast.Assign) and attr_chain(n.targets[0]) == ["RELEASABLE_TASK_STATES"] and isinstance(n.value, ast.Tuple):
            rel = n.value.elts
    if rel is None:
        raise TranslateError("RELEASABLE_TASK_STATES not found")
    out.append("Record task_dyn := mkTask { %s }.\n" % "; ".join(
        "%s : %s" % (GF[f], "task_state" if f in ("_state", "_pre_scheduling_state") else "Z") for f in FIELDS))
    out.append("Definition opt_is_none (o : option Z) : bool := match o with None => true | Some _ => false end.\n"
               "Definition opt_get (o : option Z) : Z := match o with Some x => x | None => 0 end.\n"
               "Definition time_is_invalid (t : Z) : bool := t =? -1.\n")
    T = py2v.find_class(mod, "Task")
    # __init__ must still initialise the modelled fields the way the model's initial record does
    init = py2v.find_func(T, "__init__")
    inits = {}
    for s in ast.walk(init):
        if isinstance(s, ast.Assign) and len(s.targets) == 1:
            ch = attr_chain(s.targets[0])
            if ch and ch[0] == "self" and len(ch) == 2 and ch[1] in FIELDS:
                inits[ch[1]] = ast.unparse(s.value)
    want = {"_state": "TaskState.VIRTUAL", "_pre_scheduling_state": "TaskState.VIRTUAL", "_release_time": "release_time",
            "_start_time": "start_time", "_completion_time": "completion_time", "_remaining_time": "None",
            "_last_step_time": "-1", "_cancellation_time": "None", "_deadline": "deadline"}
    if inits != want:
        die(init, "Task.__init__ initialises the modelled fields differently: %s" % inits)
    out.append("(* initial record: remaining/cancellation `None` are modelled as -1 *)\n"
               "Definition task_init (release deadline : Z) : task_dyn := mkTask TS_VIRTUAL TS_VIRTUAL release (-1) (-1) (-1) (-1) (-1) deadline.\n")
    for p, fld in PROPS.items():
        f = py2v.find_func(T, p)
        b = py2v.strip_body(f.body, is_logger_call)
        if not (len(b) == 1 and isinstance(b[0], ast.Return) and attr_chain(b[0].value) == ["self", fld]):
            die(f, "Task.%s is no longer a plain getter of %s" % (p, fld))

    known = {}

    def method(name, gname, params, opt=(), subst=None, ret_default="tt", ret_type=None, ret_gallina="unit"):
        f = py2v.find_func(T, name)
        args = [a.arg for a in f.args.args[1:]]
        for p in params:
            if p not in args and p != "draw" and p != "runtime":
                die(f, "parameter %s of Task.%s disappeared" % (p, name))
        m = MethodTr(members, known, opt, params, subst or {}, ret_default, ret_type)
        t0 = py2v.Tr({}, {}, {}, {("TaskState", n): ("TS_" + n, "TaskState") for n, _ in members}, {}, {})
        m.releasable = rel
        body = m.stmts(list(f.body), "self")
        sig = " ".join("(%s : %s)" % (p, {"Z": "Z", "OptZ": "option Z"}[ty]) for p, ty in params.items())
        out.append("Definition %s (self : task_dyn) %s : result (task_dyn * %s) :=\n  %s.\n" % (gname, sig, ret_gallina, body))
        known[name] = (gname, list(params.values()), True, None)

    # is_complete (total, boolean)
    f = py2v.find_func(T, "is_complete")
    m = MethodTr(members, {}, (), {}, {}, "tt", "bool")
    m.releasable = rel
    b = py2v.strip_body(f.body, is_logger_call)
    if not (len(b) == 1 and isinstance(b[0], ast.Return)):
        die(f, "is_complete body")
    out.append("Definition task_is_complete (self : task_dyn) : bool :=\n  %s.\n" % m.value(b[0].value, "self", "bool"))
    known["is_complete"] = ("task_is_complete", [], False, "bool")

    method("update_remaining_time", "task_update_remaining_time", {"time": "Z"})
    method("release", "task_release", {"time": "OptZ"}, opt=("time",))
    method("schedule", "task_schedule", {"time": "Z", "runtime": "Z"},
           subst={("placement", "execution_strategy", "runtime"): ("runtime", "Z")})
    method("unschedule", "task_unschedule", {"time": "Z"})
    method("start", "task_start", {"time": "OptZ", "draw": "Z"}, opt=("time",))
    method("step", "task_step", {"current_time": "Z", "step_size": "Z"}, ret_default="false", ret_type="bool",
           ret_gallina="bool")
    method("preempt", "task_preempt", {"time": "Z"})
    method("resume", "task_resume", {"time": "Z"})
    method("finish", "task_finish", {"time": "OptZ"}, opt=("time",))
    method("cancel", "task_cancel", {"time": "Z"})
    return "\n".join(out)


FRAGMENTS = {"Task": frag_task}

if __name__ == "__main__":
    print(frag_task(sys.argv[1] if len(sys.argv) > 1 else "/repo"))
