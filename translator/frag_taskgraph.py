"""Fragment TaskGraph: the decisive guards of workload/tasks.py at the TaskGraph level
-> Gen/Src_TaskGraph.v (on top of Gen/Src_Task.v: task_state, task_state_eqb/ltb).

Translated from the source, fail closed (anything unexpected is a TranslateError):
  RELEASABLE_TASK_STATES                        -> releasable_state
  Task.is_ready_to_run                          -> is_ready_to_run  (any / all over the parents, state tuple)
  Task.remaining_time (property)                -> task_remaining_time
  TaskGraph.cancel: the two guards of the loop  -> tgc_proceeds
  TaskGraph.notify_task_completion              -> notify_moved_beyond, notify_child_guard, notify_releases
  TaskGraph.get_releasable_tasks                -> releasable_parents_ok (and the use of RELEASABLE_TASK_STATES)
  TaskGraph.get_schedulable_tasks               -> ect_initial (per-state estimate), sched_child_skipped,
                                                   sched_child_updates, sched_offer (the horizon filter), sched_preempt_filter
The loops, the dict/queue handling, resolve_conditional and the float tests on probabilities are
hand-modelled in Model/TaskGraph.v and tied by the correspondence stream only.
"""
import ast
import copy
import os
import sys

sys.path.insert(0, os.path.dirname(os.path.abspath(__file__)))
import py2v  # noqa: E402
from py2v import TranslateError, die, attr_chain, is_logger_call  # noqa: E402

STATES = ["VIRTUAL", "RELEASED", "SCHEDULED", "RUNNING", "PREEMPTED", "EVICTED", "COMPLETED", "CANCELLED"]


class Subst(ast.NodeTransformer):
    """Replace every sub-expression whose source text is a key of `table` by a Name / Attribute."""

    def __init__(self, table):
        self.table = table
        self.used = set()

    def generic_visit(self, node):
        if isinstance(node, ast.expr):
            try:
                txt = ast.unparse(node)
            except Exception:
                txt = None
            if txt in self.table:
                self.used.add(txt)
                rep = self.table[txt]
                new = ast.parse(rep, mode="eval").body
                return ast.copy_location(new, node)
        return super().generic_visit(node)


def subst(node, table, require=()):
    s = Subst(table)
    out = s.visit(copy.deepcopy(node))
    ast.fix_missing_locations(out)
    for r in require:
        if r not in s.used:
            die(node, "expected sub-expression `%s` not found" % r)
    return out


def mk_tr(vars_, extra_attrs=None, list_vars=None):
    consts = {("TaskState", n): ("TS_" + n, "TaskState") for n in STATES}
    cmps = dict(py2v.Z_CMPS)
    for op, tmpl in (("==", "(task_state_eqb {a} {b})"), ("!=", "(negb (task_state_eqb {a} {b}))"),
                     ("<", "(task_state_ltb {a} {b})"), (">", "(task_state_ltb {b} {a})"),
                     (">=", "(negb (task_state_ltb {a} {b}))"), ("<=", "(negb (task_state_ltb {b} {a}))")):
        cmps[("TaskState", op, "TaskState")] = (tmpl, False)
    cmps[("bool", "==", "bool")] = ("(Bool.eqb {a} {b})", False)
    cmps[("bool", "!=", "bool")] = ("(negb (Bool.eqb {a} {b}))", False)
    attrs = dict(extra_attrs or {})
    list_vars = dict(list_vars or {})       # python name -> (gallina name, element type)

    def quant(fn):
        def h(tr, e):
            if len(e.args) != 1 or e.keywords:
                die(e, "any/all arity")
            a = e.args[0]
            if isinstance(a, ast.Name) and a.id in list_vars:
                g, ety = list_vars[a.id]
                if ety != "bool":
                    die(e, "any/all over a list of %s" % ety)
                return "(%s (fun b => b) %s)" % (fn, g), "bool"
            if isinstance(a, (ast.GeneratorExp, ast.ListComp)):
                if len(a.generators) != 1 or a.generators[0].ifs or a.generators[0].is_async:
                    die(e, "comprehension shape")
                gen = a.generators[0]
                if not (isinstance(gen.target, ast.Name) and isinstance(gen.iter, ast.Name) and gen.iter.id in list_vars):
                    die(e, "comprehension over something that is not a known list")
                g, ety = list_vars[gen.iter.id]
                saved = dict(tr.vars)
                tr.vars[gen.target.id] = (gen.target.id, ety)
                c, ty = tr.expr(a.elt)
                tr.vars = saved
                if ty != "bool":
                    die(e, "comprehension element of type %s" % ty)
                return "(%s (fun %s => %s) %s)" % (fn, gen.target.id, c, g), "bool"
            die(e, "any/all argument")
        return h

    def zmax(tr, e):
        if len(e.args) != 2 or e.keywords:
            die(e, "max arity")
        a, ta = tr.expr(e.args[0])
        b, tb = tr.expr(e.args[1])
        if ta != "Z" or tb != "Z":
            die(e, "max over (%s, %s)" % (ta, tb))
        return "(Z.max %s %s)" % (a, b), "Z"

    ctors = {("any",): quant("existsb"), ("all",): quant("forallb"), ("max",): zmax}
    return py2v.Tr(vars_, attrs, {}, consts, dict(py2v.Z_BINOPS), cmps, ctors)


def texpr(tr, e, want):
    c, ty = tr.expr(e)
    if tr.binds:
        die(e, "partial call")
    if ty != want:
        die(e, "expression of type %s where %s expected" % (ty, want))
    return c


def is_noise(s):
    """logger calls, docstrings, `if debug: <logging>`"""
    if isinstance(s, ast.Expr) and isinstance(s.value, ast.Constant):
        return True
    if is_logger_call(s):
        return True
    if isinstance(s, ast.If) and isinstance(s.test, ast.Name) and s.test.id == "debug" and not s.orelse \
            and all(is_noise(x) or isinstance(x, ast.Assign) for x in s.body):
        return True
    return False


def clean(body):
    return [s for s in body if not is_noise(s)]


def chain(tr, stmts, leaf, fall):
    """if/elif chains -> nested Gallina `if`; `leaf(block)` gives the outcome of a block of
    non-`if` statements (it must consume the whole remainder); `fall` is the outcome of falling off."""
    stmts = clean(stmts)
    if not stmts:
        return fall
    s, rest = stmts[0], stmts[1:]
    if isinstance(s, ast.If):
        c = texpr(tr, s.test, "bool")
        a = chain(tr, list(s.body) + ([] if ends(s.body) else rest), leaf, fall)
        b = chain(tr, list(s.orelse) + ([] if (s.orelse and ends(s.orelse)) else rest), leaf, fall)
        return "(if %s then %s else %s)" % (c, a, b)
    return leaf(stmts)


def ends(body):
    body = clean(body)
    if not body:
        return False
    last = body[-1]
    if isinstance(last, (ast.Continue, ast.Raise, ast.Return)):
        return True
    if isinstance(last, ast.If) and last.orelse:
        return ends(last.body) and ends(last.orelse)
    return False


def exc_name(s):
    e = s.exc
    if isinstance(e, ast.Call):
        e = e.func
    return e.id if isinstance(e, ast.Name) else "?"


def find_loop(fn, pred):
    for n in ast.walk(fn):
        if isinstance(n, ast.For) and pred(n):
            return n
    die(fn, "expected loop not found")


def src(n):
    return ast.unparse(n)


def frag_taskgraph(repo):
    mod = py2v.load(repo, "workload/tasks.py")
    TS = py2v.find_class(mod, "TaskState")
    members = py2v.enum_members(TS)
    if [n for n, _ in members] != STATES:
        die(TS, "TaskState members changed: %s" % [n for n, _ in members])
    out = [py2v.HEADER % "workload/tasks.py (TaskGraph-level guards)"]
    out.append("From Verif Require Import Gen.Src_Task.\n")

    # ---- RELEASABLE_TASK_STATES
    rel = None
    for n in mod.body:
        if isinstance(n, ast.Assign) and attr_chain(n.targets[0]) == ["RELEASABLE_TASK_STATES"] and isinstance(n.value, ast.Tuple):
            rel = n.value
    if rel is None:
        raise TranslateError("RELEASABLE_TASK_STATES not found")
    tr = mk_tr({"state": ("state", "TaskState")})
    test = ast.parse("state in %s" % src(rel), mode="eval").body
    out.append("Definition releasable_state (state : task_state) : bool :=\n  %s.\n" % texpr(tr, test, "bool"))

    T = py2v.find_class(mod, "Task")
    TG = py2v.find_class(mod, "TaskGraph")

    # ---- Task.is_ready_to_run
    f = py2v.find_func(T, "is_ready_to_run")
    b = clean(f.body)
    if len(b) != 4 or not all(isinstance(x, t) for x, t in zip(b, (ast.Assign, ast.Assign, ast.If, ast.Return))):
        die(f, "is_ready_to_run: unexpected statements")
    if src(b[0]) != "parents = task_graph.get_parents(self)":
        die(b[0], "is_ready_to_run: the parents are obtained differently")
    if src(b[1]) != "parents_completion_status = [parent_task.is_complete() for parent_task in parents]":
        die(b[1], "is_ready_to_run: parents' completion status is computed differently")
    br = b[2]
    tb, eb_ = clean(br.body), clean(br.orelse)
    if not (src(br.test) == "self.terminal" and len(tb) == 1 and len(eb_) == 1 and isinstance(tb[0], ast.Assign)
            and isinstance(eb_[0], ast.Assign) and src(tb[0].targets[0]) == "parents_complete"
            and src(eb_[0].targets[0]) == "parents_complete"):
        die(br, "is_ready_to_run: the terminal / regular case distinction changed")
    tbl = {"self.terminal": "terminal", "self.state": "state", "parent_task.is_complete()": "parent_task.complete"}
    tr = mk_tr({"terminal": ("terminal", "bool"), "state": ("state", "TaskState")},
               extra_attrs={("A", "state"): ("state_of", "TaskState"), ("A", "complete"): ("complete_of", "bool")},
               list_vars={"parents_completion_status": ("(map complete_of parents)", "bool"), "parents": ("parents", "A")})
    pc_t = texpr(tr, subst(tb[0].value, tbl), "bool")
    pc_e = texpr(tr, subst(eb_[0].value, tbl), "bool")
    tr.vars["parents_complete"] = ("parents_complete", "bool")
    ret = texpr(tr, subst(b[3].value, tbl, ["self.state"]), "bool")
    out.append("Definition is_ready_to_run {A : Type} (complete_of : A -> bool) (state_of : A -> task_state)\n"
               "    (terminal : bool) (parents : list A) (state : task_state) : bool :=\n"
               "  let parents_complete := (if terminal then %s else %s) in\n  %s.\n" % (pc_t, pc_e, ret))

    # ---- Task.remaining_time
    f = py2v.find_func(T, "remaining_time")
    tbl = {"self.state": "state", "self._remaining_time": "raw", "EventTime.zero()": "0",
           "self.available_execution_strategies.get_slowest_strategy().runtime": "slowest"}
    tr = mk_tr({"state": ("state", "TaskState"), "raw": ("raw", "Z"), "slowest": ("slowest", "Z")})

    def leaf_ret(block):
        if len(block) != 1 or not isinstance(block[0], ast.Return):
            die(block[0], "remaining_time: expected a return")
        return texpr(tr, block[0].value, "Z")
    body = [subst(s, tbl) for s in clean(f.body)]
    out.append("Definition task_remaining_time (state : task_state) (raw slowest : Z) : Z :=\n  %s.\n" %
               chain(tr, body, leaf_ret, "0"))
    if not ends(body):
        die(f, "remaining_time falls off the end")

    # ---- TaskGraph.cancel
    f = py2v.find_func(TG, "cancel")
    loop = find_loop(f, lambda n: src(n.iter) == "self.topological_sort()")
    if src(loop.target) != "child":
        die(loop, "cancel: loop variable")
    pre = [s for s in clean(f.body) if s is not loop]
    want_pre = ["cancelled_tasks = []", "cancelled_now = set()", "descendants = set(self.depth_first(task))",
                "return cancelled_tasks"]
    if [src(s) for s in pre] != want_pre:
        die(f, "cancel: statements around the loop changed: %s" % [src(s) for s in pre])
    lb = clean(loop.body)
    if len(lb) != 6 or src(lb[0]) != "if child not in descendants:\n    continue":
        die(loop, "cancel: loop body shape")
    if [src(s) for s in lb[3:]] != ["cancelled_tasks.append(child)", "cancelled_now.add(child)", "child.cancel(time)"]:
        die(loop, "cancel: the cancelling statements changed")
    g1, g2 = lb[1], lb[2]
    if not (isinstance(g1, ast.If) and src(g1.test) == "child != task" and not g1.orelse):
        die(g1, "cancel: first guard")
    inner = clean(g1.body)
    if not (len(inner) == 2 and src(inner[0]) == "parents = self.get_parents(child)"):
        die(g1, "cancel: parents of the child")
    tbl = {"child != task": "not is_requested", "child.terminal": "terminal", "child.state": "child_state",
           "parent in cancelled_now": "parent.in_now"}
    tr = mk_tr({"is_requested": ("is_requested", "bool"), "terminal": ("terminal", "bool"),
                "child_state": ("child_state", "TaskState")},
               extra_attrs={("A", "state"): ("state_of", "TaskState"), ("A", "in_now"): ("in_now", "bool")},
               list_vars={"parents": ("parents", "A")})

    def leaf_continue(block):
        if len(block) == 1 and isinstance(block[0], ast.Continue):
            return "false"
        die(block[0], "cancel: unexpected statement in a guard")
    g1n = ast.If(test=g1.test, body=inner[1:], orelse=[])
    code = chain(tr, [subst(g1n, tbl, ["child != task"]), subst(g2, tbl, ["child.state"])], leaf_continue, "true")
    out.append("(* TaskGraph.cancel, for a descendant `child` of the requested task: true iff the loop body reaches\n"
               "   `child.cancel(time)` *)\n"
               "Definition tgc_proceeds {A : Type} (state_of : A -> task_state) (in_now : A -> bool)\n"
               "    (is_requested terminal : bool) (parents : list A) (child_state : task_state) : bool :=\n  %s.\n" % code)

    # ---- notify_task_completion
    f = py2v.find_func(TG, "notify_task_completion")
    top = None
    for s in clean(f.body):
        if isinstance(s, ast.If) and src(s.test) == "task.conditional":
            top = s
    if top is None:
        die(f, "notify_task_completion: `if task.conditional` not found")
    guard = None
    for s in clean(top.body):
        if isinstance(s, ast.If) and "child_to_release.state" in src(s.test):
            guard = s
    if guard is None or not (len(clean(guard.body)) == 1 and isinstance(clean(guard.body)[0], ast.Raise)
                             and exc_name(clean(guard.body)[0]) == "RuntimeError") or guard.orelse:
        die(top, "notify_task_completion: guard on the chosen child")
    tr = mk_tr({"state": ("state", "TaskState")})
    out.append("Definition notify_moved_beyond (state : task_state) : bool :=\n  %s.\n" %
               texpr(tr, subst(guard.test, {"child_to_release.state": "state"}, ["child_to_release.state"]), "bool"))
    # the two tests on the children's probabilities (floats): recognised by their exact text, rendered over
    # integer numerators (probability = numerator / g_den, exactly representable quotients)
    ztest = rtest = None
    for st in clean(top.body):
        if isinstance(st, ast.If) and src(st.test).startswith("all("):
            ztest = st
        if isinstance(st, ast.If) and len(clean(st.body)) == 1 and isinstance(clean(st.body)[0], ast.Raise) \
                and "task_children_probabilities" in src(st.test):
            rtest = st
    ZFORMS = {"all([prob <= sys.float_info.epsilon for prob in task_children_probabilities])":
              "forallb (fun prob => prob <=? 0) probs"}
    RFORMS = {"sum(task_children_probabilities) - 1.0 > sys.float_info.epsilon": "den <? total",
              "abs(sum(task_children_probabilities) - 1.0) > sys.float_info.epsilon": "negb (total =? den)"}
    if ztest is None or src(ztest.test) not in ZFORMS:
        die(top, "notify_task_completion: the all-children-zero test changed: %s" % (src(ztest.test) if ztest else None))
    if rtest is None or src(rtest.test) not in RFORMS or exc_name(clean(rtest.body)[0]) != "ValueError":
        die(top, "notify_task_completion: the probability sanity test changed: %s" % (src(rtest.test) if rtest else None))
    zb = clean(ztest.body)
    if not (len(zb) == 2 and isinstance(zb[0], ast.For) and src(zb[0].iter) == "task_children"
            and [src(x) for x in clean(zb[0].body)] == ["cancelled_tasks.extend(self.cancel(child, finish_time))"]
            and src(zb[1]) == "return (released_tasks, cancelled_tasks)"):
        die(ztest, "notify_task_completion: the all-children-zero branch changed")
    out.append("(* probabilities as integer numerators over g_den; `total` = their sum *)\n"
               "Definition probs_all_zero (probs : list Z) : bool :=\n  %s.\n" % ZFORMS[src(ztest.test)])
    out.append("Definition probs_rejected (total den : Z) : bool :=\n  %s.\n" % RFORMS[src(rtest.test)])
    # the loop over the children after the draw: chosen child / a join that another parent still leads to / cancel
    cl = None
    for st in clean(top.body):
        if isinstance(st, ast.For) and src(st.iter) == "task_children" and src(st.target) == "child":
            cl = st
    cb = clean(cl.body) if cl is not None else []
    if not (len(cb) == 1 and isinstance(cb[0], ast.If) and src(cb[0].test) == "child == child_to_release"
            and [src(x) for x in clean(cb[0].body)] == ["child.update_probability(1.0)"]
            and len(clean(cb[0].orelse)) == 1 and isinstance(clean(cb[0].orelse)[0], ast.If)):
        die(top, "notify_task_completion: loop over the children after the draw changed")
    keep = clean(cb[0].orelse)[0]
    if not (len(clean(keep.body)) == 1 and isinstance(clean(keep.body)[0], ast.Continue)
            and [src(x) for x in clean(keep.orelse)] == ["cancelled_tasks.extend(self.cancel(child, finish_time))"]):
        die(keep, "notify_task_completion: the untaken children are handled differently")
    tbl = {"child.terminal": "terminal", "self.get_parents(child)": "parents", "parent != task": "not parent.is_task"}
    tr = mk_tr({"terminal": ("terminal", "bool")},
               extra_attrs={("A", "state"): ("state_of", "TaskState"), ("A", "is_task"): ("is_task", "bool")},
               list_vars={"parents": ("parents", "A")})
    out.append("(* an untaken child that is a join which another parent can still reach is left alone *)\n"
               "Definition notify_keeps_join {A : Type} (state_of : A -> task_state) (is_task : A -> bool)\n"
               "    (terminal : bool) (parents : list A) : bool :=\n  %s.\n" % texpr(tr, subst(keep.test, tbl, list(tbl)), "bool"))
    eb = clean(top.orelse)
    if not (len(eb) == 1 and isinstance(eb[0], ast.For) and src(eb[0].iter) == "self.get_children(task)"
            and src(eb[0].target) == "child"):
        die(top, "notify_task_completion: loop over the children")
    lb = clean(eb[0].body)
    if len(lb) != 2 or not all(isinstance(x, ast.If) for x in lb):
        die(eb[0], "notify_task_completion: loop body shape")

    def leaf_guard(block):
        if len(block) == 1 and isinstance(block[0], ast.Continue):
            return "(Ok false)"
        if len(block) == 1 and isinstance(block[0], ast.Raise):
            return {"RuntimeError": "(Err 3)", "ValueError": "(Err 1)"}.get(exc_name(block[0])) or die(block[0], "exception class")
        die(block[0], "notify_task_completion: unexpected statement in the guard")
    tr = mk_tr({"state": ("state", "TaskState")})
    out.append("(* Ok true: go on to the release test; Ok false: `continue`; Err 3: RuntimeError *)\n"
               "Definition notify_child_guard (state : task_state) : result bool :=\n  %s.\n" %
               chain(tr, [subst(lb[0], {"child.state": "state"}, ["child.state"])], leaf_guard, "(Ok true)"))
    rel_if = lb[1]
    if rel_if.orelse or [src(s) for s in clean(rel_if.body)] != ["released_tasks.append(child)"]:
        die(rel_if, "notify_task_completion: release statement")
    tbl = {"child.terminal": "terminal",
           "map(lambda task: task.is_complete(), self.get_parents(child))": "parent_statuses"}
    tr = mk_tr({"terminal": ("terminal", "bool")}, list_vars={"parent_statuses": ("parent_statuses", "bool")})
    out.append("Definition notify_releases (terminal : bool) (parent_statuses : list bool) : bool :=\n  %s.\n" %
               texpr(tr, subst(rel_if.test, tbl, list(tbl)), "bool"))

    # ---- get_releasable_tasks
    f = py2v.find_func(TG, "get_releasable_tasks")
    loop = find_loop(f, lambda n: src(n.iter) == "self.get_nodes()")
    lb = clean(loop.body)
    if [src(s) for s in lb[:2]] != ["if task.state not in RELEASABLE_TASK_STATES:\n    continue",
                                    "parents = self.get_parents(task)"] or len(lb) != 3:
        die(loop, "get_releasable_tasks: loop body shape")
    if not (isinstance(lb[2], ast.If) and not lb[2].orelse and
            [src(s) for s in clean(lb[2].body)] == ["tasks_to_be_released.append(task)"]):
        die(lb[2], "get_releasable_tasks: release statement")
    tbl = {"map(lambda task: task.is_complete(), parents)": "parent_statuses"}
    tr = mk_tr({}, list_vars={"parent_statuses": ("parent_statuses", "bool")})
    out.append("Definition releasable_parents_ok (parent_statuses : list bool) : bool :=\n  %s.\n" %
               texpr(tr, subst(lb[2].test, tbl, list(tbl)), "bool"))

    # ---- get_schedulable_tasks
    f = py2v.find_func(TG, "get_schedulable_tasks")
    body = clean(f.body)
    loop1 = None
    for s in body:
        if isinstance(s, ast.For) and src(s.iter) == "self.get_nodes()":
            loop1 = s
            break
    if loop1 is None or src(loop1.target) != "task":
        die(f, "get_schedulable_tasks: first loop")
    lb = clean(loop1.body)
    if len(lb) != 2 or src(lb[1]) != "task_queue.append(task)":
        die(loop1, "get_schedulable_tasks: first loop body")
    tbl = {"task.state": "state", "task.completion_time": "completion", "task.remaining_time": "remaining",
           "task.release_time": "release", "task.expected_start_time": "expected_start",
           "slowest_strategy.runtime": "slowest"}
    zv = ["completion", "time", "remaining", "release", "expected_start", "slowest"]
    vars_ = {v: (v, "Z") for v in zv}
    vars_["state"] = ("state", "TaskState")
    vars_["retract_schedules"] = ("retract_schedules", "bool")
    tr = mk_tr(vars_)

    def leaf_ect(block):
        block = [s for s in block
                 if src(s) != "slowest_strategy = task.available_execution_strategies.get_slowest_strategy()"]
        if len(block) == 1 and isinstance(block[0], ast.Continue):
            return "(Ok None)"
        if len(block) == 1 and isinstance(block[0], ast.Raise):
            return "(Err 1)"
        if len(block) == 1 and isinstance(block[0], ast.Assign) and src(block[0].targets[0]) == "estimated_completion_time[task]":
            return "(Ok (Some %s))" % texpr(tr, block[0].value, "Z")
        die(block[0], "get_schedulable_tasks: unexpected statement in the per-state estimate")
    out.append("(* first loop of get_schedulable_tasks: the estimate entered for a materialised task *)\n"
               "Definition ect_initial (state : task_state) (completion time remaining release expected_start slowest : Z)\n"
               "    (retract_schedules : bool) : result (option Z) :=\n  %s.\n" %
               chain(tr, [subst(lb[0], tbl, ["task.state"])], leaf_ect, "(Ok None)"))

    wl = None
    for s in body:
        if isinstance(s, ast.While) and src(s.test) == "len(task_queue) > 0":
            wl = s
    if wl is None:
        die(f, "get_schedulable_tasks: work-list loop")
    inner = None
    for s in clean(wl.body):
        if isinstance(s, ast.For) and src(s.iter) == "children_tasks":
            inner = s
    if inner is None:
        die(wl, "get_schedulable_tasks: loop over the children")
    ib = clean(inner.body)
    want = ["slowest_strategy = child_task.available_execution_strategies.get_slowest_strategy()",
            "child_completion_time = completion_time + slowest_strategy.runtime",
            "if child_task.release_time:\n    child_completion_time = max(child_completion_time, child_task.release_time + slowest_strategy.runtime)"]
    if len(ib) != 5 or [src(s) for s in ib[1:4]] != want:
        die(inner, "get_schedulable_tasks: child estimate changed: %s" % [src(s) for s in ib[1:4]])
    skip, upd = ib[0], ib[4]
    if not (isinstance(skip, ast.If) and not skip.orelse and len(clean(skip.body)) == 1 and isinstance(clean(skip.body)[0], ast.Continue)):
        die(skip, "get_schedulable_tasks: skip test")
    tr = mk_tr({"retract_schedules": ("retract_schedules", "bool"), "state": ("state", "TaskState")})
    out.append("Definition sched_child_skipped (retract_schedules : bool) (state : task_state) : bool :=\n  %s.\n" %
               texpr(tr, subst(skip.test, {"child_task.state": "state"}, ["child_task.state"]), "bool"))
    if not (isinstance(upd, ast.If) and not upd.orelse and [src(s) for s in clean(upd.body)] ==
            ["estimated_completion_time[child_task] = child_completion_time", "task_queue.append(child_task)"]):
        die(upd, "get_schedulable_tasks: update statement")
    tbl = {"child_task not in estimated_completion_time": "not in_ect",
           "estimated_completion_time[child_task]": "ect", "child_completion_time": "cct"}
    tr = mk_tr({"in_ect": ("in_ect", "bool"), "ect": ("ect", "Z"), "cct": ("cct", "Z")})
    out.append("Definition sched_child_updates (in_ect : bool) (cct ect : Z) : bool :=\n  %s.\n" %
               texpr(tr, subst(upd.test, tbl, list(tbl)), "bool"))

    loop3 = None
    for s in body:
        if isinstance(s, ast.For) and src(s.iter) == "self.topological_sort()":
            loop3 = s
    if loop3 is None or src(loop3.target) != "task":
        die(f, "get_schedulable_tasks: loop over topological_sort()")
    pre3 = body[body.index(loop3) - 2:body.index(loop3)]
    if [src(s) for s in pre3] != ["tasks = []", "any_released = False"]:
        die(loop3, "get_schedulable_tasks: initialisation of the offer loop")
    tbl = {"task.state": "state", "task.release_time": "release", "task in estimated_completion_time": "in_ect",
           "estimated_completion_time[task]": "ect", "task.remaining_time": "remaining",
           "task.available_execution_strategies.get_slowest_strategy().runtime": "slowest"}
    vars_ = {v: (v, "Z") for v in ["release", "time", "lookahead", "ect", "remaining", "slowest"]}
    vars_.update({"state": ("state", "TaskState"), "in_ect": ("in_ect", "bool"), "any_released": ("any_released", "bool"),
                  "release_taskgraphs": ("release_taskgraphs", "bool"), "retract_schedules": ("retract_schedules", "bool")})
    tr = mk_tr(vars_)

    def leaf_offer(block):
        txt = [src(s) for s in block]
        if txt == ["any_released = True"]:
            return "(false, true)"
        if txt == ["tasks.append(task)", "any_released = True"]:
            return "(true, true)"
        die(block[0], "get_schedulable_tasks: unexpected statements in the offer loop: %s" % txt)
    out.append("(* one iteration of the offer loop: (task appended, any_released afterwards) *)\n"
               "Definition sched_offer (state : task_state) (release time lookahead : Z) (in_ect : bool) (ect : Z)\n"
               "    (any_released release_taskgraphs retract_schedules : bool) (remaining slowest : Z) : bool * bool :=\n  %s.\n" %
               chain(tr, [subst(s, tbl) for s in clean(loop3.body)], leaf_offer, "(false, any_released)"))

    pre_if = None
    for s in body:
        if isinstance(s, ast.If) and src(s.test) == "preemption":
            pre_if = s
    if pre_if is None or pre_if.orelse or len(clean(pre_if.body)) != 1:
        die(f, "get_schedulable_tasks: preemption block")
    wp = clean(pre_if.body)[0]
    if not (isinstance(wp, ast.If) and src(wp.test) == "worker_pools"
            and [src(s) for s in clean(wp.body)] == ["tasks.extend(worker_pools.get_placed_tasks())"]):
        die(wp, "get_schedulable_tasks: worker pool branch")
    eb = clean(wp.orelse)
    call = eb[0].value if len(eb) == 1 and isinstance(eb[0], ast.Expr) else None
    if not (isinstance(call, ast.Call) and src(call.func) == "tasks.extend" and len(call.args) == 1
            and isinstance(call.args[0], ast.Call) and src(call.args[0].func) == "self.filter"
            and isinstance(call.args[0].args[0], ast.Lambda)):
        die(wp, "get_schedulable_tasks: filter of the scheduled/running tasks")
    tr = mk_tr({"state": ("state", "TaskState")})
    out.append("Definition sched_preempt_filter (state : task_state) : bool :=\n  %s.\n" %
               texpr(tr, subst(call.args[0].args[0].body, {"task.state": "state"}, ["task.state"]), "bool"))
    if src(body[-1]) != "return tasks":
        die(f, "get_schedulable_tasks: return")
    return "\n".join(out)


FRAGMENTS = {"TaskGraph": frag_taskgraph}

if __name__ == "__main__":
    print(frag_taskgraph(sys.argv[1] if len(sys.argv) > 1 else "/repo"))
