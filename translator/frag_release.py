"""Fragment Release: the decisive comparisons / arithmetic of release-time generation, closed-loop
re-release and deadline computation  ->  Gen/Src_Release.v

Translated from source (an edit changes the generated definition and breaks a bridge lemma of
Proofs/ReleasePBridge.v):
  workload/jobs.py  ReleasePolicy.get_release_times: arguments of np.arange (PERIODIC) and np.linspace (FIXED),
                    `size` of rng.poisson / rng.gamma, the seed of the GAMMA running time (converted to us or not),
                    the CLOSED_LOOP count `concurrency if N >= concurrency else N`
                    JobGraph.get_next_task_graph: guard and the two counter updates
                    JobGraph.generate_task_graphs: remaining = N - len(releases), index = len(task_graphs) - 1
                    JobGraph._generate_task_graph: release time of source / non-source tasks
  workload/workload.py notify_task_graph_completion: start of the next graph = finish_time + 1 us
  utils.py          EventTime.fuzz: the interval handed to uniform, the clamp max(min_bound, min(max_bound, .)) with
                    its argument order, round(self.time + fuzzed)
Checked structurally (fail closed, TranslateError): the callee names (np.arange, np.linspace with endpoint=False,
round / int around the emitted times, EventTime.Unit.US), so a changed call shape stops the check.
"""
import ast
import os
import sys

sys.path.insert(0, os.path.dirname(os.path.abspath(__file__)))
import py2v  # noqa: E402
from py2v import TranslateError, attr_chain, die, find_class, find_func, load  # noqa: E402

TIMES = {("self", "_start"): "start", ("completion_time",): "completion", ("self", "_period"): "period"}
SCALARS = {("self", "_fixed_invocation_nums"): "n", ("self", "_concurrency"): "conc",
           ("self", "_remaining_task_graphs"): "remaining", ("self", "_task_graph_index"): "index",
           ("self", "time"): "t", ("self", "release_policy", "num_invocations"): "n",
           ("min_variance",): "minv", ("max_variance",): "maxv"}


def chain(e):
    try:
        c = attr_chain(e)
        return tuple(c) if c else None
    except Exception:  # noqa: BLE001
        return None


def is_us(e):
    return chain(e) == ("EventTime", "Unit", "US")


def E(e, lens=None):
    """Python integer/boolean expression -> Gallina text over the variables named above."""
    if isinstance(e, ast.Constant) and type(e.value) is int:
        return "(%d)" % e.value
    if isinstance(e, ast.UnaryOp) and isinstance(e.op, ast.USub):
        return "(- %s)" % E(e.operand, lens)
    if isinstance(e, ast.Attribute) and e.attr == "time":
        v = e.value
        if isinstance(v, ast.Call) and isinstance(v.func, ast.Attribute) and v.func.attr == "to" and len(v.args) == 1 \
                and is_us(v.args[0]) and chain(v.func.value) in TIMES:
            return TIMES[chain(v.func.value)] + "_us"
        if chain(v) in TIMES:
            return TIMES[chain(v)] + "_raw"
    c = chain(e)
    if c in SCALARS:
        return SCALARS[c]
    if isinstance(e, ast.BinOp) and isinstance(e.op, (ast.Add, ast.Sub, ast.Mult)):
        op = {ast.Add: "+", ast.Sub: "-", ast.Mult: "*"}[type(e.op)]
        return "(%s %s %s)" % (E(e.left, lens), op, E(e.right, lens))
    if isinstance(e, ast.Compare) and len(e.ops) == 1:
        a, b = E(e.left, lens), E(e.comparators[0], lens)
        t = {ast.Gt: "(%s <? %s)" % (b, a), ast.GtE: "(%s <=? %s)" % (b, a), ast.Lt: "(%s <? %s)" % (a, b),
             ast.LtE: "(%s <=? %s)" % (a, b), ast.Eq: "(%s =? %s)" % (a, b)}.get(type(e.ops[0]))
        if t:
            return t
    if isinstance(e, ast.IfExp):
        return "(if %s then %s else %s)" % (E(e.test, lens), E(e.body, lens), E(e.orelse, lens))
    if isinstance(e, ast.Call) and isinstance(e.func, ast.Name) and len(e.args) == 1 and not e.keywords:
        if e.func.id == "abs":
            return "(Z.abs %s)" % E(e.args[0], lens)
        if e.func.id == "len" and lens and chain(e.args[0]) in lens:
            return lens[chain(e.args[0])]
    die(e, "expression outside the translated fragment")


def branches(fn):
    """policy type name -> body of its branch in get_release_times"""
    out = {}
    node = None
    for s in fn.body:
        if isinstance(s, ast.If) and isinstance(s.test, ast.Compare) and chain(s.test.left) == ("self", "_policy_type"):
            node = s
    if node is None:
        die(fn, "no `if self._policy_type == ...` chain in get_release_times")
    while True:
        c = chain(node.test.comparators[0])
        if not c or c[:2] != ("JobGraph", "ReleasePolicyType"):
            die(node.test, "unexpected policy test")
        out[c[2]] = node.body
        if len(node.orelse) == 1 and isinstance(node.orelse[0], ast.If):
            node = node.orelse[0]
        else:
            break
    return out


def calls(body, pred):
    return [n for s in body for n in ast.walk(s) if isinstance(n, ast.Call) and pred(n)]


def one(xs, what, node=None):
    if len(xs) != 1:
        raise TranslateError("expected exactly one %s, found %d" % (what, len(xs)))
    return xs[0]


def kw(call, name):
    for k in call.keywords:
        if k.arg == name:
            return k.value
    return None


def frag_release(repo):
    jobs = load(repo, "workload/jobs.py")
    jg = find_class(jobs, "JobGraph")
    rp = find_class(jg, "ReleasePolicy")
    br = branches(find_func(rp, "get_release_times"))
    out = [py2v.HEADER % "workload/jobs.py, workload/workload.py, utils.py (release times, closed loop, fuzz)",
           "From Verif Require Import Model.Release.\n"]
    tv = "(start_us start_raw completion_us completion_raw period_us period_raw n : Z)"

    # PERIODIC: np.arange(a, b, c), every value wrapped in EventTime(int(.), US)
    ar = one(calls(br["PERIODIC"], lambda c: chain(c.func) == ("np", "arange")), "np.arange call")
    if len(ar.args) != 3 or ar.keywords:
        die(ar, "np.arange shape")
    out.append("Definition src_periodic_args %s : Z * Z * Z := (%s, %s, %s).\n" % ((tv,) + tuple(E(a) for a in ar.args)))
    # FIXED: np.linspace(a, b, num=.., endpoint=False)
    ls = one(calls(br["FIXED"], lambda c: chain(c.func) == ("np", "linspace")), "np.linspace call")
    ep = kw(ls, "endpoint")
    if len(ls.args) != 2 or kw(ls, "num") is None or not (isinstance(ep, ast.Constant) and ep.value is False):
        die(ls, "np.linspace shape (two positional arguments, num=, endpoint=False)")
    out.append("Definition src_fixed_args %s : Z * Z * Z := (%s, %s, %s).\n"
               % (tv, E(ls.args[0]), E(ls.args[1]), E(kw(ls, "num"))))
    for name in ("PERIODIC", "FIXED"):
        lam = one([n for s in br[name] for n in ast.walk(s) if isinstance(n, ast.Lambda)], "lambda in " + name)
        b = lam.body
        if not (isinstance(b, ast.Call) and chain(b.func) == ("EventTime",) and len(b.args) == 2 and is_us(b.args[1])
                and isinstance(b.args[0], ast.Call) and chain(b.args[0].func) == ("int",)):
            die(lam, "release instants must be EventTime(int(time), EventTime.Unit.US)")
    # POISSON / GAMMA: requested sizes, the seed of the running time, the rounding of the emitted time
    po = one(calls(br["POISSON"], lambda c: chain(c.func) == ("self", "_rng", "poisson")), "rng.poisson call")
    if len(po.args) != 2:
        die(po, "rng.poisson shape")
    out.append("Definition src_poisson_size (n : Z) : Z := %s.\n" % E(po.args[1]))
    ga = one(calls(br["GAMMA"], lambda c: chain(c.func) == ("self", "_rng", "gamma")), "rng.gamma call")
    if kw(ga, "size") is None:
        die(ga, "rng.gamma size=")
    out.append("Definition src_gamma_size (n : Z) : Z := %s.\n" % E(kw(ga, "size")))
    for name in ("GAMMA", "FIXED_AND_GAMMA"):
        seed = one([s for s in br[name] if isinstance(s, ast.Assign) and len(s.targets) == 1
                    and chain(s.targets[0]) == ("current_release_time",)], "current_release_time seed in " + name)
        out.append("Definition src_%s_seed (start_us start_raw : Z) : Z := %s.\n" % (name.lower(), E(seed.value)))
        ets = calls(br[name], lambda c: chain(c.func) == ("EventTime",) and c.args and isinstance(c.args[0], ast.Call)
                    and chain(c.args[0].args[0] if c.args[0].args else None) == ("current_release_time",))
        if len(ets) != 2 or any(chain(c.args[0].func) != ("round",) or not is_us(c.args[1]) for c in ets):
            raise TranslateError("%s: releases must be EventTime(round(current_release_time), EventTime.Unit.US) twice" % name)
    # CLOSED_LOOP: the number of initial releases
    nr = one([s for s in br["CLOSED_LOOP"] if isinstance(s, ast.Assign) and chain(s.targets[0]) == ("num_releases",)],
             "num_releases assignment")
    out.append("Definition src_cl_num (conc n : Z) : Z := %s.\n" % E(nr.value))

    # get_next_task_graph
    gn = find_func(jg, "get_next_task_graph")
    top = one([s for s in gn.body if isinstance(s, ast.If)], "if in get_next_task_graph")
    out.append("Definition src_next_guard (remaining : Z) : bool := %s.\n" % E(top.test))
    aug = [s for s in top.body if isinstance(s, ast.AugAssign)]
    if len(aug) != 2:
        die(top, "two counter updates expected")
    for s in aug:
        var = SCALARS.get(chain(s.target))
        op = {ast.Add: "+", ast.Sub: "-"}.get(type(s.op))
        if var not in ("remaining", "index") or op is None:
            die(s, "counter update")
        out.append("Definition src_next_%s (%s : Z) : Z := (%s %s %s).\n" % (var, var, var, op, E(s.value)))
    # generate_task_graphs
    gt = find_func(jg, "generate_task_graphs")
    lens = {("releases",): "len", ("task_graphs",): "len"}
    for s in ast.walk(gt):
        if isinstance(s, ast.Assign) and len(s.targets) == 1 and chain(s.targets[0]) in (("self", "_remaining_task_graphs"),
                                                                                         ("self", "_task_graph_index")):
            var = SCALARS[chain(s.targets[0])]
            out.append("Definition src_init_%s (n len : Z) : Z := %s.\n" % (var, E(s.value, lens)))
    # _generate_task_graph: release time of a task
    gg = find_func(jg, "_generate_task_graph")
    tr = one([s for s in ast.walk(gg) if isinstance(s, ast.Assign) and chain(s.targets[0]) == ("task_release_time",)],
             "task_release_time assignment")
    v = tr.value
    if not (isinstance(v, ast.IfExp) and isinstance(v.test, ast.Call) and chain(v.test.func) == ("self", "is_source")
            and chain(v.body) == ("release_time",) and isinstance(v.orelse, ast.Call) and chain(v.orelse.func) == ("EventTime",)
            and is_us(v.orelse.args[1])):
        die(tr, "task_release_time shape")
    out.append("Definition src_task_release (is_source : bool) (release : Z) : Z := if is_source then release else %s.\n"
               % E(v.orelse.args[0]))
    dl = one([s for s in ast.walk(gg) if isinstance(s, ast.Assign) and chain(s.targets[0]) == ("task_graph_deadline",)],
             "task_graph_deadline assignment")
    d = dl.value
    if not (isinstance(d, ast.BinOp) and isinstance(d.op, ast.Add) and chain(d.left) == ("release_time",)
            and isinstance(d.right, ast.Call) and chain(d.right.func) == ("weighted_task_graph_length", "fuzz")
            and [chain(a) for a in d.right.args] == [("deadline_variance",), ("deadline_bounds",)]):
        die(dl, "task_graph_deadline must be release_time + weighted_task_graph_length.fuzz(deadline_variance, deadline_bounds)")

    # Workload.notify_task_graph_completion: the next graph starts at finish_time + EventTime(k, US)
    wl = load(repo, "workload/workload.py")
    nt = find_func(find_class(wl, "Workload"), "notify_task_graph_completion")
    st = one([k.value for c in calls(nt.body, lambda c: isinstance(c.func, ast.Attribute) and c.func.attr == "get_next_task_graph")
              for k in c.keywords if k.arg == "start_time"], "start_time= of get_next_task_graph")
    if not (isinstance(st, ast.BinOp) and isinstance(st.op, ast.Add) and chain(st.left) == ("finish_time",)
            and isinstance(st.right, ast.Call) and chain(st.right.func) == ("EventTime",) and is_us(st.right.args[1])):
        die(st, "start_time shape")
    out.append("Definition src_rerelease_offset : Z := %s.\n" % E(st.right.args[0]))

    # EventTime.fuzz
    ut = load(repo, "utils.py")
    fz = find_func(find_class(ut, "EventTime"), "fuzz")
    asg = one([s for s in fz.body if isinstance(s, ast.Assign) and chain(s.targets[0]) == ("fuzzed_time",)], "fuzzed_time")
    names = {("min_bound",): "minb", ("max_bound",): "maxb"}

    def clamp(e):
        if isinstance(e, ast.Call) and chain(e.func) in (("max",), ("min",)) and len(e.args) == 2:
            return "(py_%s %s %s)" % (chain(e.func)[0], clamp(e.args[0]), clamp(e.args[1]))
        if chain(e) in names:
            return names[chain(e)]
        if isinstance(e, ast.Call) and isinstance(e.func, ast.Attribute) and e.func.attr == "uniform" and len(e.args) == 2:
            bounds = []
            for a in e.args:
                if not (isinstance(a, ast.BinOp) and isinstance(a.op, ast.Div) and isinstance(a.right, ast.Constant)
                        and a.right.value == 100.0):
                    die(a, "uniform bound must be <int expression> / 100.0")
                bounds.append(E(a.left))
            clamp.bounds = bounds
            return "u"
        die(e, "clamp expression")
    body = clamp(asg.value)
    out.append("Definition src_fuzz_clamp (minb maxb u : num) : num := %s.\n" % body)
    out.append("Definition src_fuzz_interval (t minv maxv : Z) : Z * Z := (%s, %s).   (* numerators of x / 100.0 *)\n"
               % tuple(clamp.bounds))
    ret = one([s for s in fz.body if isinstance(s, ast.Return)], "return of fuzz")
    r = ret.value
    if not (isinstance(r, ast.Call) and chain(r.func) == ("EventTime",) and chain(r.args[1]) == ("self", "unit")
            and isinstance(r.args[0], ast.Call) and chain(r.args[0].func) == ("round",)
            and isinstance(r.args[0].args[0], ast.BinOp) and isinstance(r.args[0].args[0].op, ast.Add)
            and chain(r.args[0].args[0].left) == ("self", "time") and chain(r.args[0].args[0].right) == ("fuzzed_time",)):
        die(ret, "fuzz must return EventTime(round(self.time + fuzzed_time), self.unit)")
    out.append("Definition src_fuzz_result (t : Z) (c : num) : Z := round_num (z_add_num t c).\n")
    return "".join(out)


FRAGMENTS = {"Release": frag_release}
