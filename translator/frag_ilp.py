"""Fragment Ilp: the decisive arithmetic of schedulers/ilp_scheduler.py -> Gen/Src_Ilp.v.

Translated (fail closed: an unexpected shape of the statement is a TranslateError):
  * the lower bound of a task's start variable           (TaskOptimizerVariables.__init__, `lb=max(...)`)
  * whether the warm-start loop of a SCHEDULED task skips the constant-0 pairs (same function)
  * the deadline row  start + sum(x * runtime) <= deadline  (_initialize_timing_constraints)
  * the two placement rows  sum(x) == 1 / <= 1            (_initialize_placement_constraints)
  * the precedence row  child >= parent + x * (runtime + 1) (_add_task_dependency_constraints)
  * the three all-parents-placed indicator rows            (same function)
  * the four overlap indicator rows and the three-way sum  (_overlaps)
  * the capacity row's sense and right-hand side           (_add_resource_constraints)

Every row is rendered as  (coefficients of the named leaves, sense, right-hand side)  where the
leaves are the sub-expressions listed in the tables below; the Gallina model (Model/IlpModel.v)
builds its rows from these definitions, Proofs/IlpP.v proves `Bridge` lemmas fixing their values.
"""
import ast
import os
import sys

sys.path.insert(0, os.path.dirname(os.path.abspath(__file__)))
from py2v import TranslateError, die, load, find_class, find_func  # noqa: E402

US = "to(EventTime.Unit.US).time"
SENSES = {ast.LtE: "SLe", ast.GtE: "SGe", ast.Eq: "SEq"}
GRB_SENSES = {"GRB.LESS_EQUAL": "SLe", "GRB.GREATER_EQUAL": "SGe", "GRB.EQUAL": "SEq"}


def unp(e):
    return ast.unparse(e).replace("\n", " ")


class Lin:
    """Linear form over named leaves: {leaf: coefficient-expression (Gallina, over the parameters)}."""

    def __init__(self, leaves, params):
        self.leaves = leaves      # unparsed python text -> leaf name
        self.params = params      # unparsed python text -> gallina parameter (scalars allowed in coefficients)

    def scalar(self, e):
        """A Gallina Z expression over the parameters, or None."""
        t = unp(e)
        if t in self.params:
            return self.params[t]
        if isinstance(e, ast.Constant) and isinstance(e.value, int) and not isinstance(e.value, bool):
            return "(%d)" % e.value
        if isinstance(e, ast.UnaryOp) and isinstance(e.op, ast.USub):
            s = self.scalar(e.operand)
            return None if s is None else "(- %s)" % s
        if isinstance(e, ast.BinOp) and isinstance(e.op, (ast.Add, ast.Sub, ast.Mult)):
            a, b = self.scalar(e.left), self.scalar(e.right)
            if a is None or b is None:
                return None
            return "(%s %s %s)" % (a, {ast.Add: "+", ast.Sub: "-", ast.Mult: "*"}[type(e.op)], b)
        if isinstance(e, ast.Call) and unp(e.func) == "max" and len(e.args) == 2 and not e.keywords:
            a, b = self.scalar(e.args[0]), self.scalar(e.args[1])
            if a is None or b is None:
                return None
            return "(Z.max %s %s)" % (a, b)
        return None

    def form(self, e):
        """dict leaf -> coefficient, plus key '' for the constant."""
        t = unp(e)
        if t in self.leaves:
            return {self.leaves[t]: "1"}
        s = self.scalar(e)
        if s is not None:
            return {"": s}
        if isinstance(e, ast.UnaryOp) and isinstance(e.op, ast.USub):
            return {k: "(- %s)" % v for k, v in self.form(e.operand).items()}
        if isinstance(e, ast.BinOp) and isinstance(e.op, (ast.Add, ast.Sub)):
            a, b = self.form(e.left), self.form(e.right)
            out = dict(a)
            for k, v in b.items():
                v2 = v if isinstance(e.op, ast.Add) else "(- %s)" % v
                out[k] = "(%s + %s)" % (out[k], v2) if k in out else v2
            return out
        if isinstance(e, ast.BinOp) and isinstance(e.op, ast.Mult):
            for x, y in ((e.left, e.right), (e.right, e.left)):
                s = self.scalar(y)
                if s is not None:
                    return {k: "(%s * %s)" % (v, s) for k, v in self.form(x).items()}
        die(e, "ilp fragment: expression is not a linear form over the expected leaves")

    def coef(self, f, leaf):
        return f.get(leaf, "0")


def calls_in(fn, text_prefix):
    """Call nodes inside fn whose callee unparses to text_prefix, in source order."""
    out = [n for n in ast.walk(fn) if isinstance(n, ast.Call) and unp(n.func) == text_prefix]
    return sorted(out, key=lambda n: (n.lineno, n.col_offset))


def kw(call, name):
    for k in call.keywords:
        if k.arg == name:
            return k.value
    return None


def name_of(call):
    n = kw(call, "name")
    return unp(n) if n is not None else ""


def temp_constr(call):
    """addConstr(<lhs> <op> <rhs>, name=...) -> (lhs, sense, rhs)"""
    if not call.args or not isinstance(call.args[0], ast.Compare) or len(call.args[0].ops) != 1:
        die(call, "ilp fragment: addConstr argument is not a single comparison")
    c = call.args[0]
    s = SENSES.get(type(c.ops[0]))
    if s is None:
        die(c, "ilp fragment: comparison operator")
    return c.left, s, c.comparators[0]


def one(calls, pred, what):
    hits = [c for c in calls if pred(c)]
    if len(hits) != 1:
        raise TranslateError("ilp fragment: expected exactly one %s, found %d" % (what, len(hits)))
    return hits[0]


def frag_ilp(repo):
    mod = load(repo, "schedulers/ilp_scheduler.py")
    TOV = find_class(mod, "TaskOptimizerVariables")
    SCH = find_class(mod, "ILPScheduler")
    out = ["(* GENERATED by /verif/translator/frag_ilp.py from schedulers/ilp_scheduler.py -- do not edit; regenerated on every run *)\n"
           "From Coq Require Import ZArith Bool List.\nImport ListNotations.\nOpen Scope Z_scope.\n\n"
           "Inductive sense := SLe | SGe | SEq.\n"]

    # ---- start lower bound
    init = find_func(TOV, "__init__")
    c = one(calls_in(init, "optimizer.addVar"), lambda c: "_start" in name_of(c), "addVar(..._start)")
    lb = kw(c, "lb")
    if lb is None or kw(c, "ub") is not None or unp(kw(c, "vtype")) != "GRB.INTEGER":
        die(c, "ilp fragment: start variable is no longer an integer variable with only a lower bound")
    L = Lin({}, {"current_time." + US: "now", "task.release_time." + US: "release"})
    s = L.scalar(lb)
    if s is None:
        die(lb, "ilp fragment: start lower bound")
    out.append("Definition start_lb (now release : Z) : Z := %s.\n" % s)
    # the running task's start constant
    run_assign = [n for n in ast.walk(init) if isinstance(n, ast.Assign) and unp(n.targets[0]) == "self._start_time"
                  and not isinstance(n.value, ast.Call) or
                  (isinstance(n, ast.Assign) and unp(n.targets[0]) == "self._start_time" and unp(n.value) == "current_time." + US)]
    vals = sorted({unp(n.value) for n in run_assign})
    if vals != ["current_time." + US]:
        raise TranslateError("ilp fragment: start of a RUNNING task is no longer the current time: %s" % vals)
    out.append("Definition running_start (now : Z) : Z := now.\n")

    # ---- warm start of a SCHEDULED task: `.Start` may only be assigned to real variables
    loops = [n for n in ast.walk(init) if isinstance(n, ast.For) and unp(n.iter) == "self._placed_on_worker_with_strategy.items()"
             and any(isinstance(m, ast.Assign) and unp(m.targets[0]) == "placement_variable.Start" for m in ast.walk(n))]
    if len(loops) != 1:
        raise TranslateError("ilp fragment: warm-start loop over the placement variables not found (%d)" % len(loops))
    first = loops[0].body[0]
    guarded = (isinstance(first, ast.If) and unp(first.test) == "not isinstance(placement_variable, gp.Var)"
               and not first.orelse and isinstance(first.body[-1], ast.Continue)
               and all(isinstance(x, (ast.Continue, ast.Expr)) for x in first.body))
    touched = [m for st_ in (loops[0].body[1:] if guarded else loops[0].body) for m in ast.walk(st_)
               if isinstance(m, ast.Assign) and unp(m.targets[0]) == "placement_variable.Start"]
    if not touched:
        raise TranslateError("ilp fragment: warm-start loop no longer assigns placement_variable.Start")
    out.append("(* the warm-start loop skips (worker, strategy) pairs represented by the constant 0 *)\n"
               "Definition warm_start_guarded : bool := %s.\n" % ("true" if guarded else "false"))

    # ---- deadline row
    f = find_func(TOV, "_initialize_timing_constraints")
    c = one(calls_in(f, "optimizer.addConstr"), lambda c: "enforce_deadlines" in name_of(c), "deadline addConstr")
    lhs, sense, rhs = temp_constr(c)
    if unp(lhs) != "deadline_enforcement_expression":
        die(c, "ilp fragment: deadline row left-hand side")
    inits = [n for n in ast.walk(f) if isinstance(n, ast.Assign) and unp(n.targets[0]) == "deadline_enforcement_expression"]
    if len(inits) != 1 or unp(inits[0].value) != "gp.LinExpr(self.start_time)":
        raise TranslateError("ilp fragment: deadline expression no longer starts as LinExpr(self.start_time)")
    adds = calls_in(f, "deadline_enforcement_expression.add")
    if len(adds) != 1 or len(adds[0].args) != 1:
        raise TranslateError("ilp fragment: deadline expression: expected one .add(term)")
    L = Lin({"placement_variable": "x"}, {"execution_strategy.runtime." + US: "runtime"})
    fm = L.form(adds[0].args[0])
    if set(fm) != {"x"}:
        die(adds[0], "ilp fragment: deadline term")
    Lr = Lin({}, {"self.task.deadline." + US: "deadline"})
    r = Lr.scalar(rhs)
    if r is None:
        die(rhs, "ilp fragment: deadline row right-hand side")
    # guarded by `if enforce_deadlines:`
    guards = [n for n in f.body if isinstance(n, ast.If)]
    if len(guards) != 1 or unp(guards[0].test) != "enforce_deadlines" or guards[0].orelse:
        raise TranslateError("ilp fragment: deadline row is no longer guarded by `if enforce_deadlines`")
    out.append("Definition deadline_start_coef : Z := 1.\n"
               "Definition deadline_term_coef (runtime : Z) : Z := %s.\n"
               "Definition deadline_sense : sense := %s.\n"
               "Definition deadline_rhs (deadline : Z) : Z := %s.\n" % (fm["x"], sense, r))

    # ---- placement rows
    f = find_func(TOV, "_initialize_placement_constraints")
    cs = calls_in(f, "optimizer.addConstr")
    for tag, nm in (("required", "previously_scheduled_required_placement"), ("consistent", "consistent_placement")):
        c = one(cs, lambda c: nm in name_of(c), nm)
        lhs, sense, rhs = temp_constr(c)
        if unp(lhs) != "gp.quicksum(self._placed_on_worker_with_strategy.values())":
            die(c, "ilp fragment: placement row left-hand side")
        r = Lin({}, {}).scalar(rhs)
        if r is None:
            die(rhs, "ilp fragment: placement row right-hand side")
        out.append("Definition placement_%s : sense * Z := (%s, %s).\n" % (tag, sense, r))
    g = [n for n in f.body if isinstance(n, ast.If)]
    if len(g) != 1 or unp(g[0].test) != "self.task.state == TaskState.SCHEDULED and (not retract_schedules)":
        raise TranslateError("ilp fragment: guard of the required-placement row changed: %s" % (unp(g[0].test) if g else "?"))

    # ---- precedence row and the all-parents-placed indicators
    f = find_func(SCH, "_add_task_dependency_constraints")
    c = one(calls_in(f, "optimizer.addConstr"), lambda c: "_start_after_" in name_of(c), "precedence addConstr")
    lhs, sense, rhs = temp_constr(c)
    L = Lin({"task_variable.start_time": "child", "parent_variable.start_time": "parent",
             "parent_variable.placed_on_worker_with_strategy(worker_id, strategy)": "x"},
            {"strategy.runtime." + US: "runtime"})
    fl, fr = L.form(lhs), L.form(rhs)
    if set(fl) != {"child"} or fl["child"] != "1" or set(fr) != {"parent", "x"}:
        die(c, "ilp fragment: precedence row shape (child <op> parent + x * k)")
    out.append("Definition prec_sense : sense := %s.\n"
               "Definition prec_parent_coef : Z := %s.\n"
               "Definition prec_x_coef (runtime : Z) : Z := %s.\n" % (sense, fr["parent"], fr["x"]))
    inds = calls_in(f, "optimizer.addGenConstrIndicator")
    Ln = Lin({}, {"len(parent_tasks)": "n"})
    for tag, nm, expr in (("app_false", "_parents_placed_False", "parent_placement_expr"),
                          ("app_true", "_parents_placed_True", "parent_placement_expr"),
                          ("app_child", "_placement_False", "gp.quicksum(task_variable.placed_on_workers)")):
        c = one(inds, lambda c: nm in name_of(c), nm)
        if len(c.args) != 5 or unp(c.args[0]) != "all_parents_placed" or unp(c.args[2]) != expr:
            die(c, "ilp fragment: indicator %s shape" % nm)
        bv = Ln.scalar(c.args[1])
        s = GRB_SENSES.get(unp(c.args[3]))
        r = Ln.scalar(c.args[4])
        if bv is None or s is None or r is None:
            die(c, "ilp fragment: indicator %s arguments" % nm)
        out.append("Definition %s (n : Z) : Z * sense * Z := (%s, %s, %s).\n" % (tag, bv, s, r))
    # the parent sum: num_parents_in_variable * quicksum(placed_on_workers)
    adds = calls_in(f, "parent_placement_expr.add")
    if len(adds) != 1 or unp(adds[0].args[0]) != "num_parents_in_variable * gp.quicksum(parent_variable.placed_on_workers)":
        raise TranslateError("ilp fragment: parent placement sum changed")

    # ---- overlap indicators
    f = find_func(SCH, "_overlaps")
    inds = calls_in(f, "optimizer.addGenConstrIndicator")
    L = Lin({"task_1.start_time": "s1", "task_2.start_time": "s2",
             "task_1_remaining_time_expr": "r1", "task_2_remaining_time_expr": "r2"}, {})
    for tag, nm, bvar in (("after_false", "_ends_False", "task_1_starts_after_task_2_ends"),
                          ("after_true", "_ends_True", "task_1_starts_after_task_2_ends"),
                          ("before_false", "_starts_False", "task_1_ends_before_task_2_starts"),
                          ("before_true", "_starts_True", "task_1_ends_before_task_2_starts")):
        c = one(inds, lambda c: name_of(c).endswith(nm + "'"), nm)
        if len(c.args) != 5 or unp(c.args[0]) != bvar:
            die(c, "ilp fragment: overlap indicator %s shape" % nm)
        fm = L.form(c.args[2])
        if "" in fm:
            die(c, "ilp fragment: overlap indicator %s has a constant in its expression" % nm)
        bv = L.scalar(c.args[1])
        s = GRB_SENSES.get(unp(c.args[3]))
        r = L.scalar(c.args[4])
        if bv is None or s is None or r is None:
            die(c, "ilp fragment: overlap indicator %s arguments" % nm)
        out.append("(* coefficients of (start_1, runtime_1, start_2, runtime_2), indicator value, sense, rhs *)\n"
                   "Definition ov_%s : (Z * Z * Z * Z) * Z * sense * Z := ((%s, %s, %s, %s), %s, %s, %s).\n"
                   % (tag, L.coef(fm, "s1"), L.coef(fm, "r1"), L.coef(fm, "s2"), L.coef(fm, "r2"), bv, s, r))
    # remaining-time expressions: sum over (worker, strategy) of placed * runtime
    for who in ("task_1", "task_2"):
        adds = calls_in(f, "%s_remaining_time_expr.add" % who)
        want = "%s.placed_on_worker_with_strategy(worker_id, strategy) * strategy.runtime.%s" % (who, US)
        if len(adds) != 1 or unp(adds[0].args[0]) != want:
            raise TranslateError("ilp fragment: %s_remaining_time_expr changed" % who)
    c = one(calls_in(f, "optimizer.addConstr"), lambda c: "_overlap_" in name_of(c), "three-way overlap sum")
    lhs, sense, rhs = temp_constr(c)
    L3 = Lin({"task_1_starts_after_task_2_ends": "a", "task_1_ends_before_task_2_starts": "b", "overlap_variable": "o"}, {})
    fm = L3.form(lhs)
    r = L3.scalar(rhs)
    if set(fm) != {"a", "b", "o"} or r is None:
        die(c, "ilp fragment: overlap sum row")
    out.append("Definition ov_sum : (Z * Z * Z) * sense * Z := ((%s, %s, %s), %s, %s).\n" % (fm["a"], fm["b"], fm["o"], sense, r))

    # ---- capacity row and the dependent-pair row
    f = find_func(SCH, "_add_resource_constraints")
    cs = calls_in(f, "optimizer.addConstr")
    c = one(cs, lambda c: "_constraint" in name_of(c), "capacity addConstr")
    lhs, sense, rhs = temp_constr(c)
    if unp(lhs) != "resource_constraint_expression" or unp(rhs) != "quantity":
        die(c, "ilp fragment: capacity row shape")
    out.append("Definition cap_sense : sense := %s.\n" % sense)
    adds = calls_in(f, "resource_constraint_expression.add")
    want = ["task_1_variable.placed_on_worker_with_strategy(worker_index, execution_strategy) * task_1_request_for_resource",
            "task_2_variable.placed_on_worker_with_strategy(worker_index, execution_strategy) * overlap_variable * task_2_resource_reqs"]
    if [unp(a.args[0]) for a in adds] != want:
        raise TranslateError("ilp fragment: capacity terms changed: %s" % [unp(a.args[0]) for a in adds])
    c = one(cs, lambda c: "_no_overlap_" in name_of(c), "dependent-pair addConstr")
    lhs, sense, rhs = temp_constr(c)
    r = Lin({}, {}).scalar(rhs)
    if unp(lhs) != "task_pair_overlap_variable" or r is None:
        die(c, "ilp fragment: dependent-pair row shape")
    out.append("Definition dep_row : sense * Z := (%s, %s).\n" % (sense, r))
    return "\n".join(out)


FRAGMENTS = {"Ilp": frag_ilp}

if __name__ == "__main__":
    print(frag_ilp(sys.argv[1] if len(sys.argv) > 1 else "/repo"))
