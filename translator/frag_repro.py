"""Fragment Repro (C09): where every random-looking value of a run comes from, and which code iterates in a
hash-dependent order  ->  Gen/Src_Repro.v   (model types: coq/Model/Repro.v)

Two parts, both fail closed:

1. ANCHOR SITES, translated to Gallina data the theorems of Props/C09.v are stated about
     main.py            `random.seed(FLAGS.random_seed)` is a statement of main() that precedes every call other than
                        os.* / FLAGS.*  -> main_prefix = [BSeedGlobal <seed expression>]
     utils.py           EventTime.__init__: `type(self)._rng = random.Random(<e>)` sites -> C_ctor_fuzz <e>;
                        EventTime.fuzz: the `type(self)._rng.uniform(..)` draw -> C_draw G_fuzz
     workload/jobs.py   ReleasePolicy.__init__: `self._rng = (default_rng() if rng_seed is None else default_rng(seed=rng_seed))`
                        -> policy_ctor; ReleasePolicyType values; which branches of get_release_times read self._rng;
                        which factory forwards rng_seed
     data/workload_loader.py  `self._rng_seed = getattr(_flags, "random_seed", None)`, handed to __create_release_policy,
                        and which factory calls receive rng_seed=rng_seed -> kinds, loader_seed
     ids                `self._id = uuid.UUID(int=random.getrandbits(128), version=4)` in Task, Job, Resource, Worker,
                        WorkerPool (-> C_draw G_global; `uuid.uuid4()` -> C_draw G_os)
     simulator.py       Simulator.__log_utilization: `for resource_name in dict.fromkeys(..)` -> ordered, `set(..)` -> set_order
2. AUDIT of every non-test module on the yaml path (FILES below): every occurrence of
     uuid4/uuid1/os.urandom/secrets/SystemRandom, random.Random(..)/default_rng(..), module-level random.*,
     numpy's legacy global generator, X._rng.<method>(..), time.time/perf_counter/..., datetime.now/..., hash(..)/id(..),
     iteration (for, comprehension, list/tuple/min/max/next/iter/enumerate/sorted-with-key, set.pop) over an expression
     that is syntactically a set
   is classified by a rule or by the explicit ALLOW list below (one justification each).  Occurrences that are
   neither are emitted as C_unclassified, which makes `audit_ok` false and the theorems of C09 unprovable.
   An ALLOW entry that no longer matches its number of occurrences is an error as well (stale list).
"""
import ast
import glob
import os
import sys

sys.path.insert(0, os.path.dirname(os.path.abspath(__file__)))
from py2v import TranslateError, load  # noqa: E402


def files(repo):
    out = ["main.py", "simulator.py", "utils.py"]
    for pat in ("workload/*.py", "workers/*.py", "schedulers/*.py"):
        out += sorted(os.path.relpath(p, repo) for p in glob.glob(os.path.join(repo, pat)))
    out += ["data/__init__.py", "data/base_workload_loader.py", "data/workload_loader.py", "data/worker_loader.py",
            "data/csv_reader.py", "data/csv_types.py"]
    # the trace / benchmark loaders: audited for every hidden input EXCEPT their private generators (see TRACE_LOADERS)
    out += [r for r in sorted(os.path.relpath(p, repo) for p in glob.glob(os.path.join(repo, "data/*.py"))) if r not in out]
    return out


def is_trace_loader(rel):
    """loaders of replayed traces and benchmarks: each owns a private generator (`self._rng`) built from the seed flag; those
    generators are outside the modelled generator program (sites recorded as C_private_gen with scope false).  Everything
    else in these modules - iteration over sets, hash()/id(), wall clock, OS entropy, the process-global generator - is
    audited in scope like the yaml path."""
    return rel.startswith("data/") and rel not in ("data/__init__.py", "data/base_workload_loader.py", "data/workload_loader.py",
                                                   "data/worker_loader.py", "data/csv_reader.py", "data/csv_types.py")


# policies the claim does not cover (solver-backed or not among EDF/FIFO/LSF): their sites are listed, never requested
OUT_OF_SCOPE = {"schedulers/branch_prediction_scheduler.py", "schedulers/clockwork_scheduler.py",
                "schedulers/graphene_scheduler.py", "schedulers/gurobi_scheduler.py", "schedulers/ilp_scheduler.py",
                "schedulers/tetrisched_cplex_scheduler.py", "schedulers/tetrisched_gurobi_scheduler.py",
                "schedulers/tetrisched_scheduler.py", "schedulers/z3_scheduler.py"}

GLOBAL_DRAW_FNS = {"getrandbits", "random", "choice", "choices", "randint", "uniform", "sample", "shuffle", "randrange",
                   "gauss", "normalvariate", "expovariate", "betavariate", "triangular", "randbytes"}

WALL = "the value only measures how long the policy took; it reaches the trace through the masked true-runtime field, " \
       "and reaches a decision only when --scheduler_runtime is not fixed (the property fixes it)"
# (file, enclosing function, kind, text) -> (class, expected count, justification)
ALLOW = {
    ("main.py", "<module>", "global_random", "random.randint(0, sys.maxsize)"):
        ("C_import_time_unused", 1, "default of --random_seed, drawn while importing; the property fixes the flag"),
    ("schedulers/base_scheduler.py", "BaseScheduler.start", "wall_clock", "time.time()"): ("C_wall_measure", 2, WALL),
    ("schedulers/edf_scheduler.py", "EDFScheduler.schedule", "wall_clock", "time.time()"): ("C_wall_measure", 2, WALL),
    ("schedulers/fifo_scheduler.py", "FIFOScheduler.schedule", "wall_clock", "time.time()"): ("C_wall_measure", 2, WALL),
    ("schedulers/lsf_scheduler.py", "LSFScheduler.schedule", "wall_clock", "time.time()"): ("C_wall_measure", 2, WALL),
    ("schedulers/base_scheduler.py", "BaseScheduler.start", "set_iter", "comprehension over work_profiles"):
        ("C_iter_idhash", 1, "a log line; WorkProfile hashes by its seeded uuid"),
    ("schedulers/base_scheduler.py", "BaseScheduler.start", "set_iter", "for over work_profiles"):
        ("C_iter_idhash", 1, "WorkProfile.__hash__ is hash(uuid drawn from the seeded generator): an integer hash, not salted"),
    ("workload/tasks.py", "Task.__init__", "hash_id", "hash(self._id)"):
        ("C_hash_def", 1, "cached value returned by Task.__hash__; the uuid comes from the seeded generator"),
    ("workload/strategy.py", "ExecutionStrategy.__init__", "hash_id", "hash(self._id)"):
        ("C_hash_def", 1, "cached value returned by __hash__"),
    ("workload/strategy.py", "BatchStrategy.__init__", "hash_id", "hash(self._id)"):
        ("C_hash_def", 1, "cached value returned by __hash__"),
    # ---- outside the claim's scope (recorded honestly; C_iter_set_order / C_draw G_os are NOT hidden-input free)
    ("schedulers/ilp_scheduler.py", "BatchTask.__init__", "hash_id", "hash(self._id)"): ("C_hash_def", 1, "cached __hash__"),
    ("schedulers/ilp_scheduler.py", "TaskOptimizerVariables.__init__", "hash_id", "hash(self._id)"): ("C_hash_def", 1, "cached __hash__"),
    ("schedulers/tetrisched_cplex_scheduler.py", "BatchTask.__init__", "hash_id", "hash(self._id)"): ("C_hash_def", 1, "cached __hash__"),
    ("schedulers/ilp_scheduler.py", "ILPScheduler._add_task_dependency_constraints", "set_iter", "for over parent_tasks"):
        ("C_iter_commutative", 2, "counts the parents inside a batch: a sum; Task hashes by its seeded uuid"),
    ("schedulers/ilp_scheduler.py", "ILPScheduler._add_objective", "set_iter", "for over reward_tasks"):
        ("C_iter_idhash", 1, "set of Task (seeded-uuid hash); the order of solver terms follows it"),
    ("schedulers/clockwork_scheduler.py", "ClockworkScheduler.start", "set_iter", "for over work_profiles"):
        ("C_iter_idhash", 1, "set of WorkProfile (seeded-uuid hash)"),
    ("schedulers/z3_scheduler.py", "TaskOptimizerVariables.__init__", "set_iter", "comprehension over resource_types"):
        ("C_iter_set_order", 1, "a set of resource-name strings builds a dict whose order is the salted hash order"),
    ("schedulers/tetrisched_scheduler.py", "TetriSchedScheduler._cancel_task_graphs", "set_iter", "for over task_graph_names"):
        ("C_iter_set_order", 1, "Set[str] of task-graph names iterated while cancelling (order of cancellations)"),
    ("schedulers/tetrisched_scheduler.py", "TetriSchedScheduler._get_plan_ahead_this_cycle", "set_iter", "for over task_graph_names"):
        ("C_iter_commutative", 1, "a maximum / sum of remaining times"),
    ("schedulers/tetrisched_scheduler.py", "TetriSchedScheduler.schedule", "set_iter", "for over task_graph_names"):
        ("C_iter_set_order", 1, "Set[str]: the order of the children of the objective expression handed to the solver"),
    ("schedulers/tetrisched_scheduler.py", "TetriSchedScheduler.schedule", "set_iter", "list over self._skipped_task_names"):
        ("C_iter_set_order", 1, "a debug log line in set order"),
    ("schedulers/tetrisched_scheduler.py", "TetriSchedScheduler.construct_task_strl", "hash_id", "hash(execution_strategy)"):
        ("C_hash_def", 1, "label of a choose expression; ExecutionStrategy hashes by its seeded uuid"),
    ("schedulers/tetrisched_scheduler.py", "TetriSchedScheduler._choose_task_graphs_for_scheduling", "numpy_global",
     "np.random.choice(reschedulable_task_graphs, self._selectively_choose_task_graphs_sample_size, replace=False)"):
        ("C_draw G_os", 1, "numpy's legacy global generator is never seeded: OS entropy (selective rescheduling only)"),
}


def chain(e):
    out = []
    while isinstance(e, ast.Attribute):
        out.append(e.attr)
        e = e.value
    if isinstance(e, ast.Name):
        out.append(e.id)
        return tuple(reversed(out))
    return None


def ann_is_set(a):
    s = ast.unparse(a)
    for pre in ("typing.", ""):
        for nm in ("Set", "FrozenSet", "AbstractSet", "MutableSet", "set", "frozenset"):
            if s == pre + nm or s.startswith(pre + nm + "["):
                return True
    return False


def is_set0(e):
    if isinstance(e, (ast.Set, ast.SetComp)):
        return True
    return isinstance(e, ast.Call) and isinstance(e.func, ast.Name) and e.func.id in ("set", "frozenset")


SETMETH = {"union", "intersection", "difference", "symmetric_difference", "copy"}


class FileAudit(ast.NodeVisitor):
    def __init__(self, rel, tree, set_returning):
        self.rel = rel
        self.out = []
        self.set_returning = set_returning
        self.set_attrs = set()      # self._x assigned from / annotated as a set anywhere in the file
        self.fn_sets = [set()]
        self.stack = []
        self.fdepth = 0             # > 0 inside a function body (0: executed while importing)
        for n in ast.walk(tree):
            if isinstance(n, (ast.Assign, ast.AnnAssign)):
                tgts = n.targets if isinstance(n, ast.Assign) else [n.target]
                for t in tgts:
                    c = chain(t) if isinstance(t, ast.Attribute) else None
                    if c and c[0] == "self" and n.value is not None and is_set0(n.value):
                        self.set_attrs.add(c)
                    if c and isinstance(n, ast.AnnAssign) and ann_is_set(n.annotation):
                        self.set_attrs.add(c)

    def is_set(self, e):
        if is_set0(e):
            return True
        if isinstance(e, ast.Name) and e.id in self.fn_sets[-1]:
            return True
        if isinstance(e, ast.Attribute):
            c = chain(e)
            if c and (c in self.set_attrs or c[-1] in self.set_returning):
                return True
        if isinstance(e, ast.BinOp) and isinstance(e.op, (ast.BitOr, ast.BitAnd, ast.Sub, ast.BitXor)) and \
                (self.is_set(e.left) or self.is_set(e.right)):
            return True
        if isinstance(e, ast.Call):
            f = e.func
            if isinstance(f, ast.Attribute) and f.attr in SETMETH and self.is_set(f.value):
                return True
            if chain(f) == ("dict", "fromkeys") and e.args and self.is_set(e.args[0]):
                return True
            if isinstance(f, ast.Attribute) and f.attr in ("keys", "values", "items") and self.is_set(f.value):
                return True
            nm = f.attr if isinstance(f, ast.Attribute) else (f.id if isinstance(f, ast.Name) else None)
            if nm in self.set_returning:
                return True
        return False

    def add(self, node, kind, text):
        self.out.append({"file": self.rel, "line": node.lineno, "end": getattr(node, "end_lineno", node.lineno) or node.lineno, "kind": kind,
                         "func": ".".join(self.stack) or "<module>", "text": text, "infunc": self.fdepth > 0})

    def visit_FunctionDef(self, n):
        # default arguments and decorators are evaluated while importing: they belong to the enclosing scope
        for d in n.args.defaults + [k for k in n.args.kw_defaults if k is not None] + n.decorator_list:
            self.visit(d)
        self.stack.append(n.name)
        names = set()
        for a in n.args.args + n.args.kwonlyargs:
            if a.annotation is not None and ann_is_set(a.annotation):
                names.add(a.arg)
        self.fn_sets.append(names)
        changed = True
        while changed:
            changed = False
            for m in ast.walk(n):
                tg = []
                if isinstance(m, ast.Assign):
                    tg = [(t, m.value, None) for t in m.targets]
                elif isinstance(m, ast.AnnAssign):
                    tg = [(m.target, m.value, m.annotation)]
                for t, v, ann in tg:
                    if isinstance(t, ast.Name) and t.id not in names and \
                            ((ann is not None and ann_is_set(ann)) or (v is not None and self.is_set(v))):
                        names.add(t.id)
                        changed = True
        self.fdepth += 1
        for s in n.body:
            self.visit(s)
        self.fdepth -= 1
        self.fn_sets.pop()
        self.stack.pop()

    visit_AsyncFunctionDef = visit_FunctionDef

    def visit_Lambda(self, n):
        self.generic_visit(n)

    def visit_ClassDef(self, n):
        self.stack.append(n.name)
        self.generic_visit(n)
        self.stack.pop()

    def visit_For(self, n):
        if self.is_set(n.iter):
            self.add(n, "set_iter", "for over " + ast.unparse(n.iter))
        self.generic_visit(n)

    def visit_comprehension(self, n):
        if self.is_set(n.iter):
            self.add(n.iter, "set_iter", "comprehension over " + ast.unparse(n.iter))
        self.generic_visit(n)

    def visit_Call(self, n):
        c = chain(n.func)
        f = n.func
        txt = ast.unparse(n)
        if c is None and isinstance(f, ast.Attribute):
            # e.g. type(self)._rng.uniform(..): the attribute path above a non-name base
            attrs = []
            b = f
            while isinstance(b, ast.Attribute):
                attrs.append(b.attr)
                b = b.value
            if any(a in ("_rng", "rng", "_random_number_generator") for a in attrs[1:]):
                self.add(n, "rng_method", txt)
        if c:
            last = c[-1]
            if last in ("uuid4", "uuid1", "urandom", "SystemRandom", "getrandom") or c[0] == "secrets":
                self.add(n, "entropy", txt)
            elif c == ("random", "Random") or c == ("Random",):
                self.add(n, "rng_ctor", txt)
            elif last in ("default_rng", "RandomState"):
                self.add(n, "rng_ctor", txt)
            elif len(c) == 2 and c[0] == "random":
                self.add(n, "global_random", txt)
            elif len(c) >= 3 and c[0] in ("np", "numpy") and c[1] == "random":
                self.add(n, "numpy_global", txt)
            elif "_rng" in c[:-1] or "rng" in c[:-1] or "_random_number_generator" in c[:-1]:
                self.add(n, "rng_method", txt)
            if (c[0] == "time" and last in ("time", "perf_counter", "monotonic", "process_time", "time_ns",
                                             "perf_counter_ns", "monotonic_ns")) or \
               (last in ("now", "utcnow", "today") and ("datetime" in c or "date" in c)):
                self.add(n, "wall_clock", txt)
            if c == ("hash",) or c == ("id",):
                self.add(n, "hash_id", txt)
            if c in (("list",), ("tuple",), ("min",), ("max",), ("next",), ("iter",), ("enumerate",), ("sorted",)) \
                    and n.args and self.is_set(n.args[0]):
                if not (c == ("sorted",) and not any(k.arg == "key" for k in n.keywords)):
                    self.add(n, "set_iter", "%s over %s" % (c[0], ast.unparse(n.args[0])))
        if isinstance(f, ast.Attribute) and f.attr == "pop" and not n.args and self.is_set(f.value):
            self.add(n, "set_iter", "set.pop " + txt)
        self.generic_visit(n)


def occurrences(repo):
    trees = {rel: load(repo, rel) for rel in files(repo)}
    set_returning = set()
    for tree in trees.values():
        for n in ast.walk(tree):
            if isinstance(n, (ast.FunctionDef, ast.AsyncFunctionDef)) and n.returns is not None and ann_is_set(n.returns):
                set_returning.add(n.name)
    out = []
    for rel, tree in trees.items():
        fa = FileAudit(rel, tree, set_returning)
        fa.visit(tree)
        out += fa.out
    return out, trees


# ---------------------------------------------------------------------------------------------------- anchors
def seed_expr(args, keywords, argname=None):
    """seed expression of a generator construction / random.seed call"""
    vals = list(args) + [k.value for k in keywords if k.arg in ("seed", "x", "a")]
    if len(vals) != len(args) + len(keywords):
        raise TranslateError("generator constructed with an unknown keyword: %s" % [k.arg for k in keywords])
    if not vals:
        return "SE_none"
    if len(vals) > 1:
        raise TranslateError("generator constructed with several seed arguments")
    v = vals[0]
    if isinstance(v, ast.Constant) and v.value is None:
        return "SE_none"
    if isinstance(v, ast.Constant) and type(v.value) is int:
        return "(SE_const %s)" % ("(%d)" % v.value if v.value < 0 else str(v.value))
    c = chain(v)
    if c in (("FLAGS", "random_seed"), ("flags", "FLAGS", "random_seed"), ("_flags", "random_seed")):
        return "SE_flag"
    if argname is not None and c == (argname,):
        return "SE_arg"
    raise TranslateError("seed expression outside the translated fragment (line %s): %s" % (v.lineno, ast.unparse(v)))


def find_class(scope, name):
    for n in ast.walk(scope):
        if isinstance(n, ast.ClassDef) and n.name == name:
            return n
    raise TranslateError("class %s not found" % name)


def find_func(cls, name):
    for n in cls.body:
        if isinstance(n, ast.FunctionDef) and n.name == name:
            return n
    raise TranslateError("function %s not found in %s" % (name, getattr(cls, "name", "module")))


def span(n):
    return n.lineno, max(getattr(m, "end_lineno", n.lineno) or n.lineno for m in ast.walk(n) if hasattr(m, "lineno"))


def anchor_main(trees):
    """main(): the seeding statement and what precedes it."""
    mod = trees["main.py"]
    fn = find_func(mod, "main")
    seeds = [n for n in ast.walk(mod) if isinstance(n, ast.Call) and chain(n.func) == ("random", "seed")]
    if not seeds:
        return [], None
    if len(seeds) > 1:
        raise TranslateError("main.py seeds the global generator more than once")
    idx = None
    for i, s in enumerate(fn.body):
        if isinstance(s, ast.Expr) and s.value is seeds[0]:
            idx = i
    if idx is None:
        raise TranslateError("random.seed(..) is not a top-level statement of main() (line %d)" % seeds[0].lineno)
    for s in fn.body[:idx]:
        for n in ast.walk(s):
            if isinstance(n, ast.Call):
                c = chain(n.func)
                if not c or c[0] not in ("os", "FLAGS"):
                    raise TranslateError("main() calls %s before seeding the global generator (line %d)"
                                         % (ast.unparse(n.func), n.lineno))
    return ["(BSeedGlobal %s)" % seed_expr(seeds[0].args, seeds[0].keywords)], seeds[0].lineno


def anchor_policy(trees):
    jobs = trees["workload/jobs.py"]
    rp = find_class(jobs, "ReleasePolicy")
    init = find_func(rp, "__init__")
    asg = [n for n in ast.walk(init) if isinstance(n, ast.Assign) and len(n.targets) == 1
           and chain(n.targets[0]) == ("self", "_rng")]
    if len(asg) != 1:
        raise TranslateError("ReleasePolicy.__init__: expected exactly one assignment to self._rng, found %d" % len(asg))
    v = asg[0].value

    def ctor(e):
        if isinstance(e, ast.Call) and chain(e.func) in (("np", "random", "default_rng"), ("numpy", "random", "default_rng")):
            return seed_expr(e.args, e.keywords, argname="rng_seed")
        raise TranslateError("ReleasePolicy._rng is not built by np.random.default_rng (line %d): %s" % (e.lineno, ast.unparse(e)))
    if isinstance(v, ast.IfExp):
        t = v.test
        if isinstance(t, ast.Compare) and chain(t.left) == ("rng_seed",) and len(t.ops) == 1 and \
                isinstance(t.comparators[0], ast.Constant) and t.comparators[0].value is None:
            if isinstance(t.ops[0], ast.Is):
                pc = (ctor(v.body), ctor(v.orelse))
            elif isinstance(t.ops[0], ast.IsNot):
                pc = (ctor(v.orelse), ctor(v.body))
            else:
                raise TranslateError("ReleasePolicy._rng: unknown test " + ast.unparse(t))
        else:
            raise TranslateError("ReleasePolicy._rng: unknown test " + ast.unparse(t))
    else:
        pc = (ctor(v), ctor(v))
    # if rng_seed is None, SE_arg means "no seed"
    pc = ("SE_none" if pc[0] == "SE_arg" else pc[0], pc[1])
    # enum values
    en = find_class(jobs, "ReleasePolicyType")
    members = {}
    for n in en.body:
        if isinstance(n, ast.Assign) and isinstance(n.targets[0], ast.Name) and isinstance(n.value, ast.Constant) \
                and type(n.value.value) is int:
            members[n.targets[0].id] = n.value.value
    if not members or len(set(members.values())) != len(members):
        raise TranslateError("ReleasePolicyType: no members / aliases")
    # which branches of get_release_times read the generator
    grt = find_func(rp, "get_release_times")
    reads = {k: False for k in members}
    seen = set()

    def walk_if(s):
        t = s.test
        if not (isinstance(t, ast.Compare) and chain(t.left) == ("self", "_policy_type") and len(t.ops) == 1 and
                isinstance(t.ops[0], ast.Eq) and (chain(t.comparators[0]) or ())[-2:-1] == ("ReleasePolicyType",)):
            raise TranslateError("get_release_times: unknown dispatch (line %d): %s" % (s.lineno, ast.unparse(t)))
        k = chain(t.comparators[0])[-1]
        if k not in members or k in seen:
            raise TranslateError("get_release_times: unknown / repeated policy type %s" % k)
        seen.add(k)
        reads[k] = any(isinstance(m, ast.Attribute) and m.attr in ("_rng",) for b in s.body for m in ast.walk(b))
        if len(s.orelse) == 1 and isinstance(s.orelse[0], ast.If):
            walk_if(s.orelse[0])
        else:
            for b in s.orelse:
                for m in ast.walk(b):
                    if isinstance(m, ast.Attribute) and m.attr == "_rng":
                        raise TranslateError("get_release_times: the generator is read in the final else branch")
    disp = [s for s in grt.body if isinstance(s, ast.If) and isinstance(s.test, ast.Compare)
            and chain(s.test.left) == ("self", "_policy_type")]
    if len(disp) != 1:
        raise TranslateError("get_release_times: expected one dispatch on self._policy_type")
    walk_if(disp[0])
    for s in grt.body:
        if s is not disp[0]:
            for m in ast.walk(s):
                if isinstance(m, ast.Attribute) and m.attr == "_rng":
                    raise TranslateError("get_release_times reads the generator outside the dispatch (line %d)" % m.lineno)
    for f in rp.body:
        if isinstance(f, ast.FunctionDef) and f.name not in ("__init__", "get_release_times"):
            for m in ast.walk(f):
                if isinstance(m, ast.Attribute) and m.attr == "_rng":
                    raise TranslateError("ReleasePolicy.%s reads the generator" % f.name)
    # factories: name -> (policy type, forwards rng_seed)
    fact = {}
    for f in rp.body:
        if isinstance(f, ast.FunctionDef) and any(chain(d) == ("staticmethod",) for d in f.decorator_list):
            rets = [n for n in ast.walk(f) if isinstance(n, ast.Return)]
            if len(rets) != 1 or not isinstance(rets[0].value, ast.Call) or \
                    (chain(rets[0].value.func) or ())[-1:] != ("ReleasePolicy",):
                raise TranslateError("ReleasePolicy.%s: not a factory of the known shape" % f.name)
            kw = {k.arg: k.value for k in rets[0].value.keywords}
            if rets[0].value.args or "policy_type" not in kw:
                raise TranslateError("ReleasePolicy.%s: positional construction" % f.name)
            k = (chain(kw["policy_type"]) or ("?",))[-1]
            if k not in members:
                raise TranslateError("ReleasePolicy.%s: unknown policy type" % f.name)
            fwd = "rng_seed" in kw and chain(kw["rng_seed"]) == ("rng_seed",) and \
                any(a.arg == "rng_seed" for a in f.args.args + f.args.kwonlyargs)
            if "rng_seed" in kw and not fwd:
                raise TranslateError("ReleasePolicy.%s: rng_seed=%s" % (f.name, ast.unparse(kw["rng_seed"])))
            fact[f.name] = (k, fwd)
    # loader
    wl = trees["data/workload_loader.py"]
    cls = find_class(wl, "WorkloadLoader")
    init = find_func(cls, "__init__")
    asg = [n for n in ast.walk(init) if isinstance(n, ast.Assign) and chain(n.targets[0]) == ("self", "_rng_seed")]
    loader_seed = "SE_none"
    if asg:
        first = asg[0].value   # the `if _flags:` branch comes first; main.py always passes _flags
        if isinstance(first, ast.Call) and chain(first.func) == ("getattr",) and len(first.args) == 3 and \
                chain(first.args[0]) == ("_flags",) and isinstance(first.args[1], ast.Constant) and \
                first.args[1].value == "random_seed":
            loader_seed = "SE_flag"
        elif chain(first) == ("_flags", "random_seed"):
            loader_seed = "SE_flag"
        elif isinstance(first, ast.Constant) and first.value is None:
            loader_seed = "SE_none"
        else:
            raise TranslateError("WorkloadLoader._rng_seed = %s" % ast.unparse(first))
    crp = None
    for f in cls.body:
        if isinstance(f, ast.FunctionDef) and f.name.endswith("__create_release_policy"):
            crp = f
    if crp is None:
        raise TranslateError("WorkloadLoader.__create_release_policy not found")
    has_param = any(a.arg == "rng_seed" for a in crp.args.args)
    calls = [n for n in ast.walk(init) if isinstance(n, ast.Call) and (chain(n.func) or ("",))[-1].endswith("__create_release_policy")]
    handed = has_param and len(calls) == 1 and any(chain(a) == ("self", "_rng_seed") for a in calls[0].args + [k.value for k in calls[0].keywords])
    if not handed:
        loader_seed = "SE_none"
    passes = {k: None for k in members}
    for n in ast.walk(crp):
        if isinstance(n, ast.Return) and isinstance(n.value, ast.Call):
            c = chain(n.value.func) or ()
            if c[-2:-1] != ("ReleasePolicy",) or c[-1] not in fact:
                raise TranslateError("__create_release_policy returns %s" % ast.unparse(n.value.func))
            k, fwd = fact[c[-1]]
            kw = {q.arg: q.value for q in n.value.keywords}
            p = fwd and "rng_seed" in kw and chain(kw["rng_seed"]) == ("rng_seed",)
            if "rng_seed" in kw and chain(kw["rng_seed"]) != ("rng_seed",):
                raise TranslateError("__create_release_policy: rng_seed=%s" % ast.unparse(kw["rng_seed"]))
            passes[k] = p if passes[k] is None else (passes[k] and p)
    # only the policy types the yaml loader constructs can be requested (FIXED_AND_GAMMA is built by the Alibaba
    # loader only, which is not on the audited path)
    kinds = [(members[k], reads[k], bool(passes[k]), k) for k in members if passes[k] is not None]
    if not kinds:
        raise TranslateError("__create_release_policy constructs no release policy")
    return pc, kinds, loader_seed, members


ID_ANCHORS = [("task", "workload/tasks.py", "Task"), ("job", "workload/jobs.py", "Job"),
              ("resource", "workload/resource.py", "Resource"), ("worker", "workers/workers.py", "Worker"),
              ("pool", "workers/workers.py", "WorkerPool")]


def anchor_ids(trees, occ):
    out = {}
    for nm, rel, cname in ID_ANCHORS:
        init = find_func(find_class(trees[rel], cname), "__init__")
        asg = [n for n in ast.walk(init) if isinstance(n, ast.Assign) and len(n.targets) == 1
               and chain(n.targets[0]) == ("self", "_id")]
        if len(asg) != 1:
            raise TranslateError("%s.__init__: expected one assignment to self._id" % cname)
        lo, hi = span(asg[0])
        inside = [o for o in occ if o["file"] == rel and lo <= o["line"] <= hi and o["kind"] in ("global_random", "entropy", "rng_method", "numpy_global")]
        if len(inside) != 1:
            raise TranslateError("%s.__init__: self._id = %s is not one draw from a known generator"
                                 % (cname, ast.unparse(asg[0].value)))
        v = asg[0].value
        if isinstance(v, ast.IfExp):    # Resource: `<draw> if _id is None else _id`
            v = v.body
        if inside[0]["kind"] == "global_random":
            ok = isinstance(v, ast.Call) and chain(v.func) == ("uuid", "UUID") and not v.args and \
                {k.arg for k in v.keywords} == {"int", "version"} and \
                any(k.arg == "int" and isinstance(k.value, ast.Call) and chain(k.value.func) == ("random", "getrandbits")
                    and len(k.value.args) == 1 and isinstance(k.value.args[0], ast.Constant) and k.value.args[0].value == 128
                    for k in v.keywords) and \
                any(k.arg == "version" and isinstance(k.value, ast.Constant) and k.value.value == 4 for k in v.keywords)
            if not ok:
                raise TranslateError("%s.__init__: id expression outside the fragment: %s" % (cname, ast.unparse(v)))
        out[nm] = (rel, inside[0]["line"])
    return out


def anchor_util(trees):
    sim = find_class(trees["simulator.py"], "Simulator")
    fn = None
    for f in sim.body:
        if isinstance(f, ast.FunctionDef) and f.name.endswith("__log_utilization"):
            fn = f
    if fn is None:
        raise TranslateError("Simulator.__log_utilization not found")
    loops = [n for n in ast.walk(fn) if isinstance(n, ast.For) and isinstance(n.target, ast.Name) and n.target.id == "resource_name"]
    if len(loops) != 1:
        raise TranslateError("__log_utilization: expected one loop over resource names")
    it = loops[0].iter
    if isinstance(it, ast.Call) and chain(it.func) == ("dict", "fromkeys") and len(it.args) == 1 and not is_set0(it.args[0]):
        return "ordered", loops[0].lineno
    if isinstance(it, ast.Call) and chain(it.func) in (("set",), ("frozenset",)):
        return "set_order", loops[0].lineno
    if isinstance(it, ast.Call) and chain(it.func) == ("sorted",) and not it.keywords:
        return "ordered", loops[0].lineno
    raise TranslateError("__log_utilization iterates over %s" % ast.unparse(it))


# ---------------------------------------------------------------------------------------------------- classification
def classify(repo):
    occ, trees = occurrences(repo)
    prefix, seed_line = anchor_main(trees)
    pc, kinds, loader_seed, members = anchor_policy(trees)
    ids = anchor_ids(trees, occ)
    util, util_line = anchor_util(trees)
    used = {}
    named = {}
    for o in occ:
        rel, fn, kind, txt = o["file"], o["func"], o["kind"], o["text"]
        o["scope"] = rel not in OUT_OF_SCOPE
        key = (rel, fn, kind, txt)
        cls, why = None, None
        if key in ALLOW:
            cls, _, why = ALLOW[key]
            used[key] = used.get(key, 0) + 1
        elif kind == "global_random":
            name = txt.split("(")[0].split(".")[1]
            if name == "seed":
                if rel == "main.py" and fn == "main" and o["line"] == seed_line:
                    cls, why = "C_seeding", "main() seeds the process-global generator"
            elif name in GLOBAL_DRAW_FNS and o["infunc"]:      # module / class bodies and default arguments run while importing
                cls, why = "C_draw G_global", "module-level function of `random`"
        elif kind == "entropy":
            cls, why = "C_draw G_os", "OS entropy"
        elif kind == "numpy_global":
            cls, why = "C_draw G_os", "numpy's legacy global generator is never seeded by /repo"
        elif kind in ("rng_ctor", "rng_method") and is_trace_loader(rel):
            cls, why = "C_private_gen", "private generator of a trace loader (outside the generator program; scope false)"
            o["scope"] = False
        elif kind == "rng_ctor":
            if rel == "utils.py" and fn == "EventTime.__init__":
                node = ast.parse(txt, mode="eval").body
                cls, why = "C_ctor_fuzz %s" % seed_expr(node.args, node.keywords), "the fuzz generator EventTime._rng"
                named.setdefault("fuzz_ctor", []).append((o, cls))
            elif rel == "workload/jobs.py" and fn == "JobGraph.ReleasePolicy.__init__":
                cls, why = "C_ctor_policy", "ReleasePolicy._rng (seed expressions: policy_ctor)"
        elif kind == "rng_method":
            if rel == "utils.py" and fn == "EventTime.fuzz" and txt.startswith("type(self)._rng.uniform("):
                cls, why = "C_draw G_fuzz", "the only draw from EventTime._rng"
                named["fuzz_draw"] = o
            elif rel == "workload/jobs.py" and fn == "JobGraph.ReleasePolicy.get_release_times" and txt.startswith("self._rng."):
                cls, why = "C_draw G_policy", "inter-arrival times of one release policy object"
                named.setdefault("policy_draw", []).append(o)
        elif kind == "wall_clock" and not o["scope"]:
            cls, why = "C_wall_measure", "solver-backed policy, outside the claim: wall clock of the policy (not reviewed)"
        elif kind == "hash_id":
            last = fn.split(".")[-1]
            if last == "__hash__":
                cls, why = "C_hash_def", "defines __hash__"
            elif last in ("__deepcopy__", "__copy__") and txt == "id(self)":
                cls, why = "C_memo_key", "deepcopy memo key"
        if cls is None:
            cls, why = "C_unclassified", "NOT in the allow-list"
        o["class"], o["why"] = cls, why
    stale = [k for k, (c, n, w) in ALLOW.items() if used.get(k, 0) != n]
    # a stale allow-list entry on an in-scope file is an error; out-of-scope policies may be absent in a trimmed tree
    for k in stale:
        if used.get(k, 0) > ALLOW[k][1] or k[0] not in OUT_OF_SCOPE:
            raise TranslateError("allow-list entry %s expects %d occurrence(s), found %d" % (k, ALLOW[k][1], used.get(k, 0)))
    if "fuzz_draw" not in named:
        raise TranslateError("EventTime.fuzz does not draw through type(self)._rng.uniform(..)")
    # the fuzz generator must be created only under `if type(self)._rng is None`
    et = find_func(find_class(trees["utils.py"], "EventTime"), "__init__")
    for n in ast.walk(et):
        if isinstance(n, ast.Assign) and any(isinstance(t, ast.Attribute) and t.attr == "_rng" for t in n.targets):
            if not (isinstance(n.value, ast.Call) and chain(n.value.func) == ("random", "Random")):
                raise TranslateError("EventTime._rng = %s" % ast.unparse(n.value))
    return {"occ": occ, "prefix": prefix, "policy_ctor": pc, "kinds": kinds, "loader_seed": loader_seed, "ids": ids,
            "util": util, "util_line": util_line, "named": named, "members": members, "files": files(repo)}


def frag_repro(repo):
    d = classify(repo)
    fl = d["files"]
    occ = d["occ"]

    def idx(rel, line, kind=None):
        for i, o in enumerate(occ):
            if o["file"] == rel and o["line"] == line and (kind is None or o["kind"] == kind):
                return i
        raise TranslateError("site %s:%s not in the audit table" % (rel, line))
    L = ["(* GENERATED by translator/frag_repro.py from %s — do not edit *)" % ", ".join(
        ["main.py", "utils.py", "workload/jobs.py", "data/workload_loader.py", "simulator.py", "id sites", "audit of %d files" % len(fl)]),
        "From Coq Require Import ZArith List Bool.", "Import ListNotations.", "From Verif Require Import Model.Repro.",
        "Open Scope Z_scope.", "",
        "(* file codes: %s *)" % "; ".join("%d=%s" % (i, f) for i, f in enumerate(fl)), "",
        "Definition audit : list asite := ["]
    rows = []
    for o in occ:
        rows.append("  mkSite %d %d (%s) %s   (* %s %s | %s | %s *)" % (
            fl.index(o["file"]), o["line"], o["class"], "true" if o["scope"] else "false",
            o["kind"], o["func"], o["text"].replace("*)", "* )").replace("(*", "( *")[:90], o["why"].replace("*)", "* )")))
    # the separator must precede the trailing comment
    body = []
    for i, r in enumerate(rows):
        code, com = r.split("   (* ", 1)
        body.append(code + (";" if i + 1 < len(rows) else "") + "   (* " + com)
    L += body + ["].", ""]
    L.append("(* ReleasePolicyType value -> (its branch of get_release_times reads self._rng, the loader hands it rng_seed) *)")
    L.append("Definition kinds : list (Z * (bool * bool)) := [%s]." % "; ".join(
        "(%d, (%s, %s))" % (v, "true" if r else "false", "true" if p else "false") for (v, r, p, _) in d["kinds"]))
    for k, v in d["members"].items():
        L.append("Definition kind_%s : Z := %d." % (k.lower(), v))
    L.append("Definition policy_ctor : seed_expr * seed_expr := (%s, %s)." % d["policy_ctor"])
    L.append("Definition loader_seed : seed_expr := %s." % d["loader_seed"])
    L.append("Definition main_prefix : list boot := [%s]." % "; ".join(d["prefix"]))
    L.append("Definition util_iter : iter_discipline := %s.   (* simulator.py:%d *)" % (d["util"], d["util_line"]))
    L.append("Definition prog : program := mkProgram (map role_of audit) kinds policy_ctor loader_seed main_prefix.")
    L.append("")
    L.append("(* anchor sites by name (indices into `audit`) *)")
    for nm, (rel, line) in d["ids"].items():
        L.append("Definition site_%s_id : nat := %d.   (* %s:%d *)" % (nm, idx(rel, line), rel, line))
    fd = d["named"]["fuzz_draw"]
    L.append("Definition site_fuzz_draw : nat := %d.   (* %s:%d *)" % (idx(fd["file"], fd["line"], "rng_method"), fd["file"], fd["line"]))
    for j, (o, cls) in enumerate(d["named"].get("fuzz_ctor", [])):
        L.append("Definition site_fuzz_ctor_%d : nat := %d.   (* %s:%d %s *)" % (j, idx(o["file"], o["line"], "rng_ctor"), o["file"], o["line"], cls))
    for j, o in enumerate(d["named"].get("policy_draw", [])):
        L.append("Definition site_policy_draw_%d : nat := %d.   (* %s:%d *)" % (j, idx(o["file"], o["line"], "rng_method"), o["file"], o["line"]))
    gl = [i for i, o in enumerate(occ) if o["class"] == "C_draw G_global" and o["scope"] and o["file"] == "workload/tasks.py"
          and "choices" in o["text"]]
    if len(gl) != 1:
        raise TranslateError("workload/tasks.py: expected one random.choices(..) site for conditional branches, found %d" % len(gl))
    L.append("Definition site_branch_choice : nat := %d.   (* workload/tasks.py:%d *)" % (gl[0], occ[gl[0]]["line"]))
    L.append("")
    return "\n".join(L) + "\n"


FRAGMENTS = {"Repro": frag_repro}

if __name__ == "__main__":
    print(frag_repro(sys.argv[1] if len(sys.argv) > 1 else "/repo"))
