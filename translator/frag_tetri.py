"""Fragment Tetri: the decisive comparisons of the two space-time formulations, translated from source
(fail closed) into coq/Gen/Src_Tetri.v:

  *_occupies start runtime time          get_partition_variable: `start_time <= time and start_time + runtime > time`
  *_before_release start release         cell fixed to 0 when `start_time < release`
  *_past_deadline enforce start rt dl    cell fixed to 0 when `enforce_deadlines and start_time + runtime > deadline`
  c_hopeless deadline now fastest        CPLEX admission test `deadline < sim_time + fastest runtime`
  g_dep_gap / g_dep_gap_running          the constants added to a parent's start in the dependency rows

for g = tetrisched_gurobi_scheduler.py and c = tetrisched_cplex_scheduler.py.  EventTime values are
microsecond integers here (`x.to(EventTime.Unit.US).time`, and EventTime comparison/addition are integer
comparison/addition by the C16 theorems).
"""
import ast
import os
import sys

sys.path.insert(0, os.path.dirname(os.path.abspath(__file__)))
import py2v  # noqa: E402
from py2v import TranslateError, Tr, Z_BINOPS, Z_CMPS, die, find_class, find_func, load  # noqa: E402


class UsTime(ast.NodeTransformer):
    """`<e>.to(EventTime.Unit.US).time` -> Name for the known <e>."""
    KNOWN = {
        "strategy.runtime": "runtime", "task.deadline": "deadline", "task.release_time": "release",
        "current_time": "now", "sim_time": "now",
    }

    def visit_Attribute(self, n):
        if (n.attr == "time" and isinstance(n.value, ast.Call) and isinstance(n.value.func, ast.Attribute)
                and n.value.func.attr == "to" and len(n.value.args) == 1
                and py2v.attr_chain(n.value.args[0]) == ["EventTime", "Unit", "US"]):
            ch = py2v.attr_chain(n.value.func.value)
            key = ".".join(ch) if ch else None
            if key in self.KNOWN:
                return ast.copy_location(ast.Name(id=self.KNOWN[key], ctx=ast.Load()), n)
            die(n, "microsecond conversion of an unknown quantity")
        return self.generic_visit(n)


def tr(vars_):
    return Tr({v: (v, "Z") for v in vars_} | {"enforce_deadlines": ("enforce", "bool")}, {}, {}, {}, Z_BINOPS, Z_CMPS)


def _nd(a):
    return ast.dump(a).replace(", ctx=Store()", "").replace(", ctx=Load()", "").replace("ctx=Store()", "").replace("ctx=Load()", "")


def same(a, b):
    return _nd(a) == _nd(b)


def parse_expr(s):
    return ast.parse(s, mode="eval").body


def occupancy(cls, prefix, vartype):
    f = find_func(cls, "get_partition_variable")
    test = None
    for n in ast.walk(f):
        if isinstance(n, ast.If) and isinstance(n.test, ast.BoolOp) and isinstance(n.test.op, ast.And):
            test = n
            break
    if test is None or len(test.test.values) != 4:
        die(f, "get_partition_variable: the four-part occupancy test was not found")
    v = test.test.values
    if not same(v[0], parse_expr("worker_id == worker_index")):
        die(v[0], "occupancy test: worker comparison changed")
    if not (same(v[3], parse_expr("type(variable) == %s or variable == 1" % vartype))):
        die(v[3], "occupancy test: variable filter changed")
    # the body must append the variable under its strategy
    if not (len(test.body) == 1 and same(test.body[0], ast.parse("partition_variables[strategy].append(variable)").body[0])
            and not test.orelse):
        die(test, "occupancy test: body changed")
    # the loop must range over the whole matrix
    loop = None
    for n in ast.walk(f):
        if isinstance(n, ast.For) and test in n.body:
            loop = n
    if loop is None or not same(loop.iter, parse_expr("self._space_time_strategy_matrix.items()")):
        die(f, "occupancy loop no longer ranges over the whole space-time matrix")
    e = UsTime().visit(ast.BoolOp(op=ast.And(), values=[v[1], v[2]]))
    code, ty = tr(["start_time", "time", "runtime"]).expr(e)
    return "Definition %s_occupies (start_time runtime time : Z) : bool :=\n  %s.\n" % (prefix, code)


def cell_tests(cls, prefix):
    init = find_func(cls, "__init__")
    chain = None
    for n in ast.walk(init):
        if (isinstance(n, ast.If) and isinstance(n.test, ast.Compare)
                and same(n.test.left, ast.Name(id="start_time", ctx=ast.Load())) and isinstance(n.test.ops[0], ast.Lt)):
            chain = n
            break
    if chain is None:
        die(init, "release test of the space-time cells not found")

    def sets_zero(body):
        return (len(body) == 1 and isinstance(body[0], ast.Assign) and isinstance(body[0].value, ast.Constant)
                and body[0].value.value == 0
                and same(body[0].targets[0], parse_expr("self._space_time_strategy_matrix[(worker_id, start_time, strategy)]")))
    if not sets_zero(chain.body):
        die(chain, "a cell before the release is no longer fixed to 0")
    if not (len(chain.orelse) == 1 and isinstance(chain.orelse[0], ast.If)):
        die(chain, "deadline test of the space-time cells not found")
    dl = chain.orelse[0]
    if not sets_zero(dl.body):
        die(dl, "a cell past the deadline is no longer fixed to 0")
    # the else branch must create a decision variable
    eb = dl.orelse
    if not (len(eb) == 1 and isinstance(eb[0], ast.Assign) and isinstance(eb[0].value, ast.Call)
            and py2v.attr_chain(eb[0].value.func) in (["optimizer", "addVar"], ["optimizer", "binary_var"])):
        die(dl, "the remaining cells are no longer decision variables")
    t = tr(["start_time", "release", "runtime", "deadline"])
    c1, _ = t.expr(UsTime().visit(chain.test))
    c2, ty = t.expr(UsTime().visit(dl.test))
    if ty != "bool":
        die(dl.test, "deadline test is not boolean")
    return ("Definition %s_before_release (start_time release : Z) : bool :=\n  %s.\n"
            "Definition %s_past_deadline (enforce : bool) (start_time runtime deadline : Z) : bool :=\n  %s.\n"
            % (prefix, c1, prefix, c2))


def admission(sched_cls):
    f = find_func(sched_cls, "schedule")
    adm = None
    for n in ast.walk(f):
        if isinstance(n, ast.If) and same(n.test, parse_expr("self.enforce_deadlines")):
            adm = n
            break
    if adm is None:
        die(f, "admission control block not found")
    if not (len(adm.body) == 3 and isinstance(adm.body[0], ast.AnnAssign)
            and same(adm.body[0].target, ast.Name(id="tasks_to_remove", ctx=ast.Store()))
            and isinstance(adm.body[0].value, ast.List) and not adm.body[0].value.elts):
        die(adm, "admission block changed")
    loop = adm.body[1]
    if not (isinstance(loop, ast.For) and same(loop.iter, ast.Name(id="tasks_to_be_scheduled", ctx=ast.Load()))
            and len(loop.body) == 1 and isinstance(loop.body[0], ast.If)):
        die(adm, "admission loop changed")
    test = loop.body[0]
    if not (len(test.body) == 1 and same(test.body[0], ast.parse("tasks_to_remove.append(task)").body[0]) and not test.orelse):
        die(test, "admission body changed")
    # second loop: cancellation + removal for exactly the collected tasks
    if not (isinstance(adm.body[2], ast.For)
            and same(adm.body[2].iter, ast.Name(id="tasks_to_remove", ctx=ast.Load()))):
        die(adm, "cancellation loop changed")
    stm = [s for s in adm.body[2].body if not py2v.is_logger_call(s)]
    if not (len(stm) == 2 and same(stm[0], ast.parse("placements.append(Placement.create_task_cancellation(task))").body[0])
            and same(stm[1], ast.parse("tasks_to_be_scheduled.remove(task)").body[0])):
        die(adm.body[2], "cancellation loop body changed")

    class Adm(ast.NodeTransformer):
        def visit_Attribute(self, n):
            ch = py2v.attr_chain(n)
            if ch == ["task", "deadline"]:
                return ast.copy_location(ast.Name(id="deadline", ctx=ast.Load()), n)
            if (n.attr == "runtime" and isinstance(n.value, ast.Call)
                    and py2v.attr_chain(n.value.func) == ["task", "available_execution_strategies", "get_fastest_strategy"]):
                return ast.copy_location(ast.Name(id="fastest", ctx=ast.Load()), n)
            return self.generic_visit(n)

        def visit_Name(self, n):
            if n.id == "sim_time":
                return ast.copy_location(ast.Name(id="now", ctx=ast.Load()), n)
            return n
    code, ty = tr(["deadline", "now", "fastest"]).expr(Adm().visit(test.test))
    return "Definition c_hopeless (deadline now fastest : Z) : bool :=\n  %s.\n" % code


def dep_gaps(sched_cls):
    """start_child >= start_parent + slowest runtime + 1 ;  running parent: remaining_time + 1"""
    f = find_func(sched_cls, "_add_task_dependency_constraints")
    found = {}
    for n in ast.walk(f):
        if isinstance(n, ast.If) and same(n.test, parse_expr("parent_variable.previously_placed")):
            # then: parent_remaining_time = <remaining>.time + 1 ; addConstr(start >= parent.start + parent_remaining_time)
            a = n.body[0]
            if not (isinstance(a, ast.Assign) and same(a.targets[0], ast.Name(id="parent_remaining_time", ctx=ast.Store()))):
                die(n, "running-parent branch changed")

            class R(ast.NodeTransformer):
                def visit_Attribute(self, m):
                    if (m.attr == "time" and isinstance(m.value, ast.Call) and isinstance(m.value.func, ast.Attribute)
                            and m.value.func.attr == "to"
                            and py2v.attr_chain(m.value.func.value) == ["parent_variable", "task", "remaining_time"]):
                        return ast.copy_location(ast.Name(id="remaining", ctx=ast.Load()), m)
                    return self.generic_visit(m)
            code, _ = tr(["remaining"]).expr(R().visit(a.value))
            found["running"] = code
            c = n.body[1]
            if not (isinstance(c, ast.Expr) and isinstance(c.value, ast.Call)
                    and same(c.value.args[0], parse_expr("task_variable.start_time >= parent_variable.start_time + parent_remaining_time"))):
                die(c, "running-parent row changed")
            # else: slowest strategy
            e = n.orelse
            if not (len(e) == 3 and same(e[1], ast.parse("parent_strategy = parent_strategies.get_slowest_strategy()").body[0])):
                die(n, "slowest-strategy branch changed")
            row = e[2].value.args[0]
            if not (isinstance(row, ast.Compare) and isinstance(row.ops[0], ast.GtE)
                    and same(row.left, parse_expr("task_variable.start_time"))):
                die(row, "dependency row changed")

            class S(ast.NodeTransformer):
                def visit_Attribute(self, m):
                    ch = py2v.attr_chain(m)
                    if ch == ["parent_variable", "start_time"]:
                        return ast.copy_location(ast.Name(id="parent_start", ctx=ast.Load()), m)
                    if (m.attr == "time" and isinstance(m.value, ast.Call) and isinstance(m.value.func, ast.Attribute)
                            and m.value.func.attr == "to"
                            and py2v.attr_chain(m.value.func.value) == ["parent_strategy", "runtime"]):
                        return ast.copy_location(ast.Name(id="slowest", ctx=ast.Load()), m)
                    return self.generic_visit(m)
            code2, _ = tr(["parent_start", "slowest"]).expr(S().visit(row.comparators[0]))
            found["free"] = code2
    if set(found) != {"running", "free"}:
        die(f, "dependency rows not found")
    return ("Definition g_dep_gap_running (remaining : Z) : Z :=\n  %s.\n"
            "Definition g_dep_bound (parent_start slowest : Z) : Z :=\n  %s.\n" % (found["running"], found["free"]))


def frag_tetri(repo):
    out = [py2v.HEADER % "schedulers/tetrisched_gurobi_scheduler.py, schedulers/tetrisched_cplex_scheduler.py"]
    g = load(repo, "schedulers/tetrisched_gurobi_scheduler.py")
    c = load(repo, "schedulers/tetrisched_cplex_scheduler.py")
    gv = find_class(g, "TaskOptimizerVariables")
    cv = find_class(c, "TaskOptimizerVariables")
    out.append(occupancy(gv, "g", "gp.Var"))
    out.append(occupancy(cv, "c", "cpx_var.Var"))
    out.append(cell_tests(gv, "g"))
    out.append(cell_tests(cv, "c"))
    out.append(admission(find_class(c, "TetriSchedCPLEXScheduler")))
    out.append(dep_gaps(find_class(g, "TetriSchedGurobiScheduler")))
    return "\n".join(out)


FRAGMENTS = {"Tetri": frag_tetri}

if __name__ == "__main__":
    print(frag_tetri(sys.argv[1] if len(sys.argv) > 1 else "/repo"))
