"""Translator fragment for the greedy policies (EDF / FIFO / LSF)  ->  Gen/Src_Greedy.v

Translated from source (so that an edit breaks a bridge lemma):
  * the sort key of each policy (`sorted(..., key=...)`: a lambda, `attrgetter("x")`, or
    `partial(self.slack, sim_time)` with the body of `slack`),
  * the admission test under `enforce_deadlines` (`a < b` vs `a <= b` included),
  * whether the virtual cluster is `copy()` or `deepcopy()` of the live one.
Checked structurally (fail closed, no Gallina output): the call that obtains the offered tasks and
the first-fit loop over strategies x pools including the arguments of `place_task` and of the
`Placement` constructors.  Anything else in `schedule()` is logging / timing.
"""
import ast
import copy as _copy
import os
import sys

sys.path.insert(0, os.path.dirname(os.path.abspath(__file__)))
import py2v  # noqa: E402
from py2v import (TranslateError, Tr, attr_chain, die, find_class, find_func, is_logger_call, load,  # noqa: E402
                  strip_body, Z_BINOPS, Z_CMPS, HEADER)

TASK_ATTRS = {("Task", "deadline"): ("ta_deadline", "Z"),
              ("Task", "release_time"): ("ta_release_time", "Z"),
              ("Task", "remaining_time"): ("ta_remaining_time", "Z"),
              ("Task", "task_graph"): ("ta_task_graph", "Z")}

POLICIES = [("edf", "schedulers/edf_scheduler.py", "EDFScheduler"),
            ("fifo", "schedulers/fifo_scheduler.py", "FIFOScheduler"),
            ("lsf", "schedulers/lsf_scheduler.py", "LSFScheduler")]


def _tr(vars):
    return Tr(vars, TASK_ATTRS, {}, {("self", "enforce_deadlines"): ("enforce", "bool")}, Z_BINOPS, Z_CMPS)


def _key_list(tr, body):
    """A key expression (scalar or tuple of scalars) as a Gallina `list Z` (compared lexicographically,
    which is how Python compares equal-length tuples)."""
    elts = body.elts if isinstance(body, ast.Tuple) else [body]
    if not elts:
        die(body, "empty sort key")
    out = []
    for x in elts:
        c, ty = tr.expr(x)
        if ty != "Z":
            die(x, "sort key component of type %s" % ty)
        out.append(c)
    if tr.binds:
        die(body, "partial operation in a sort key")
    return "[" + "; ".join(out) + "]"


def _sort_key(cls, sched, pfx):
    calls = [n for n in ast.walk(sched) if isinstance(n, ast.Call) and isinstance(n.func, ast.Name) and n.func.id == "sorted"]
    if len(calls) != 1:
        die(sched, "expected exactly one sorted(...) call, found %d" % len(calls))
    call = calls[0]
    kws = {k.arg: k.value for k in call.keywords}
    if set(kws) != {"key"} or len(call.args) != 1 or not isinstance(call.args[0], ast.Name):
        die(call, "sorted() must be called as sorted(<tasks>, key=...) (no reverse=, no other arguments)")
    src_tasks = call.args[0].id
    key = kws["key"]
    if isinstance(key, ast.Lambda):
        a = key.args
        if len(a.args) != 1 or a.vararg or a.kwarg or a.kwonlyargs or a.defaults:
            die(key, "sort key lambda must take exactly one argument")
        p = a.args[0].arg
        code = _key_list(_tr({p: ("item", "Task")}), key.body)
    elif isinstance(key, ast.Call) and attr_chain(key.func) == ["attrgetter"]:
        if len(key.args) != 1 or key.keywords or not isinstance(key.args[0], ast.Constant) or not isinstance(key.args[0].value, str):
            die(key, "attrgetter with something other than one literal attribute name")
        fake = ast.Attribute(value=ast.Name(id="item", ctx=ast.Load()), attr=key.args[0].value, ctx=ast.Load())
        code = _key_list(_tr({"item": ("item", "Task")}), fake)
    elif isinstance(key, ast.Call) and attr_chain(key.func) == ["partial"]:
        if key.keywords or len(key.args) != 2 or attr_chain(key.args[0]) is None or attr_chain(key.args[0])[0] != "self" \
                or len(attr_chain(key.args[0])) != 2 or attr_chain(key.args[1]) != ["sim_time"]:
            die(key, "partial(...) must be partial(self.<method>, sim_time)")
        m = find_func(cls, attr_chain(key.args[0])[1])
        names = [x.arg for x in m.args.args]
        if len(names) != 3 or names[0] != "self" or m.args.vararg or m.args.kwarg or m.args.defaults:
            die(m, "key method must be (self, sim_time, task)")
        body = strip_body(m.body, is_logger_call)
        if len(body) != 1 or not isinstance(body[0], ast.Return):
            die(m, "key method must be a single return")
        code = _key_list(_tr({names[1]: ("sim_time", "Z"), names[2]: ("item", "Task")}), body[0].value)
    else:
        die(key, "sort key of a form the translator does not accept")
    # the sorted list must be what the placement loop iterates over
    return ("Definition %s_key (sim_time : Z) (item : tattrs) : list Z :=\n  %s.\n" % (pfx, code)), src_tasks, call


class _Fastest(ast.NodeTransformer):
    """task.available_execution_strategies.get_fastest_strategy().runtime  ->  name `fastest__`"""
    def visit_Attribute(self, n):
        if (n.attr == "runtime" and isinstance(n.value, ast.Call) and not n.value.args and not n.value.keywords
                and attr_chain(n.value.func) == ["task", "available_execution_strategies", "get_fastest_strategy"]):
            return ast.copy_location(ast.Name(id="fastest__", ctx=ast.Load()), n)
        return self.generic_visit(n)


def _is_cancel_append(s):
    return (isinstance(s, ast.Expr) and isinstance(s.value, ast.Call) and attr_chain(s.value.func) == ["placements", "append"]
            and len(s.value.args) == 1 and isinstance(s.value.args[0], ast.Call)
            and attr_chain(s.value.args[0].func) == ["Placement", "create_task_cancellation"])


def _admission(loop, pfx):
    """The `if <test>: placements.append(cancellation(task)); continue` at the head of the task loop."""
    body = strip_body(loop.body, is_logger_call)
    conds = [s for s in body if isinstance(s, ast.If) and any(_is_cancel_append(x) for x in ast.walk(s) if isinstance(x, ast.Expr))]
    cancels = [x for x in ast.walk(loop) if isinstance(x, ast.Expr) and _is_cancel_append(x)]
    if not conds:
        if cancels:
            die(loop, "a cancellation is created outside a top-level `if` of the task loop")
        return ("Definition %s_has_admission : bool := false.\n"
                "Definition %s_cancel_test (enforce : bool) (sim_time : Z) (task : tattrs) (fastest : Z) : bool := false.\n"
                % (pfx, pfx)), body
    if len(conds) != 1 or len(cancels) != 1 or body[0] is not conds[0]:
        die(loop, "the admission test must be the single, first statement of the task loop")
    s = conds[0]
    sb = strip_body(s.body, is_logger_call)
    if s.orelse or len(sb) != 2 or not _is_cancel_append(sb[0]) or not isinstance(sb[1], ast.Continue):
        die(s, "admission branch must be: append(cancellation); continue")
    c = sb[0].value.args[0]
    if c.args or [(k.arg, attr_chain(k.value)) for k in c.keywords] != [("task", ["task"])]:
        die(c, "create_task_cancellation must be called with task=task")
    t = s.test
    if not (isinstance(t, ast.BoolOp) and isinstance(t.op, ast.And) and len(t.values) == 2
            and attr_chain(t.values[0]) == ["self", "enforce_deadlines"]):
        die(t, "admission test must be `self.enforce_deadlines and <comparison>`")
    cmp_ = _Fastest().visit(_copy.deepcopy(t.values[1]))
    tr = _tr({"sim_time": ("sim_time", "Z"), "task": ("task", "Task"), "fastest__": ("fastest", "Z")})
    code, ty = tr.expr(cmp_)
    if ty != "bool" or tr.binds:
        die(t, "admission comparison")
    if "fastest" not in code:
        die(t, "admission comparison no longer uses the fastest strategy's runtime")
    return ("Definition %s_has_admission : bool := true.\n"
            "Definition %s_cancel_test (enforce : bool) (sim_time : Z) (task : tattrs) (fastest : Z) : bool :=\n  (enforce && %s).\n"
            % (pfx, pfx, code)), body[1:]


def _copy_mode(sched, pfx):
    """schedulable_worker_pools = copy(worker_pools) | deepcopy(worker_pools) under `if self.preemptive`"""
    def kind(v):
        if isinstance(v, ast.Call) and isinstance(v.func, ast.Name) and v.func.id in ("copy", "deepcopy") \
                and len(v.args) == 1 and not v.keywords and attr_chain(v.args[0]) == ["worker_pools"]:
            return v.func.id
        die(v, "virtual cluster must be copy(worker_pools) or deepcopy(worker_pools)")

    assigns = [n for n in ast.walk(sched) if isinstance(n, ast.Assign)
               and any(attr_chain(t) == ["schedulable_worker_pools"] for t in n.targets)]
    top = [s for s in sched.body if (isinstance(s, ast.Assign) and s in assigns)
           or (isinstance(s, ast.If) and any(a in list(ast.walk(s)) for a in assigns))]
    if len(top) != 1:
        die(sched, "expected one statement defining schedulable_worker_pools")
    s = top[0]
    if isinstance(s, ast.Assign):
        if len(assigns) != 1:
            die(s, "schedulable_worker_pools assigned more than once")
        k = kind(s.value)
        return "Definition %s_reset_on (preemptive : bool) : bool := %s.\n" % (pfx, "true" if k == "deepcopy" else "false")
    if attr_chain(s.test) != ["self", "preemptive"]:
        die(s, "copy mode must depend on self.preemptive only")
    a = strip_body(s.body, is_logger_call)
    b = strip_body(s.orelse, is_logger_call)
    if len(a) != 1 or len(b) != 1 or a[0] not in assigns or b[0] not in assigns or len(assigns) != 2:
        die(s, "copy-mode branches")
    ka, kb = kind(a[0].value), kind(b[0].value)
    g = {"copy": "false", "deepcopy": "true"}
    return "Definition %s_reset_on (preemptive : bool) : bool := if preemptive then %s else %s.\n" % (pfx, g[ka], g[kb])


# ---- structural check of the first-fit loop --------------------------------------------------
EXPECTED_LOOP = '''
is_task_placed = False
for execution_strategy in task.available_execution_strategies:
    for worker_pool in schedulable_worker_pools.worker_pools:
        if worker_pool.can_accomodate_strategy(execution_strategy):
            worker_pool.place_task(task, execution_strategy=execution_strategy)
            is_task_placed = True
            placements.append(Placement.create_task_placement(task=task, placement_time=sim_time, worker_pool_id=worker_pool.id, execution_strategy=execution_strategy))
            break
    if is_task_placed:
        break
if not is_task_placed:
    placements.append(Placement.create_task_placement(task=task))
'''


class _Norm(ast.NodeTransformer):
    def visit_Call(self, n):
        self.generic_visit(n)
        ch = attr_chain(n.func)
        if ch == ["Placement", "create_task_placement"] and len(n.args) == 1 and not any(k.arg == "task" for k in n.keywords):
            n.keywords.append(ast.keyword(arg="task", value=n.args[0]))
            n.args = []
        n.keywords.sort(key=lambda k: k.arg or "")
        return n


def _norm_body(body):
    out = []
    for s in strip_body(body, is_logger_call):
        if isinstance(s, (ast.For, ast.While)):
            s.body = _norm_body(s.body)
            if s.orelse:
                die(s, "loop with an else clause")
            if not s.body:      # a loop that only logs
                continue
        elif isinstance(s, ast.If):
            s.body = _norm_body(s.body)
            s.orelse = _norm_body(s.orelse)
            if not s.body and not s.orelse:
                continue
            if not s.body:      # `if c: <only logging> else: X`  ==  `if not c: X`
                s.test = ast.UnaryOp(op=ast.Not(), operand=s.test)
                s.body, s.orelse = s.orelse, []
        out.append(s)
    return out


def _dump(stmts):
    return [ast.dump(_Norm().visit(s), annotate_fields=True, include_attributes=False) for s in stmts]


def _check_loop(rest, pfx, node):
    got = _dump(_norm_body(_copy.deepcopy(rest)))
    exp = _dump(_norm_body(ast.parse(EXPECTED_LOOP).body))
    if got != exp:
        k = 0
        while k < min(len(got), len(exp)) and got[k] == exp[k]:
            k += 1
        raise TranslateError("%s: the first-fit loop over strategies x pools no longer has the modelled shape "
                             "(statement %d of the task loop differs; line %s)" %
                             (pfx, k, getattr(rest[k], "lineno", "?") if k < len(rest) else getattr(node, "lineno", "?")))


def _check_offered(sched, pfx):
    """<tasks> = workload.get_schedulable_tasks(time=sim_time, preemption=self.preemptive, worker_pools=worker_pools)"""
    calls = [n for n in ast.walk(sched) if isinstance(n, ast.Call) and attr_chain(n.func) == ["workload", "get_schedulable_tasks"]]
    if len(calls) != 1:
        die(sched, "expected one workload.get_schedulable_tasks call")
    c = calls[0]
    kws = sorted((k.arg, attr_chain(k.value)) for k in c.keywords)
    if c.args or kws != [("preemption", ["self", "preemptive"]), ("time", ["sim_time"]), ("worker_pools", ["worker_pools"])]:
        die(c, "get_schedulable_tasks arguments changed")
    for s in sched.body:
        if isinstance(s, ast.Assign) and s.value is c and len(s.targets) == 1 and isinstance(s.targets[0], ast.Name):
            return s.targets[0].id
    die(c, "offered tasks are not bound to a plain name")


def frag_greedy(repo):
    out = [HEADER % "schedulers/{edf,fifo,lsf}_scheduler.py (sort keys, admission tests, copy mode)"]
    out.append("(* the attributes of a task that the greedy policies read; task_graph is the rank of the\n"
               "   graph's name in Python's string order (assigned by the harness) *)\n"
               "Record tattrs := mkTA { ta_deadline : Z; ta_release_time : Z; ta_remaining_time : Z; ta_task_graph : Z }.\n")
    for pfx, rel, cname in POLICIES:
        mod = load(repo, rel)
        cls = find_class(mod, cname)
        sched = find_func(cls, "schedule")
        names = [a.arg for a in sched.args.args]
        if names != ["self", "sim_time", "workload", "worker_pools"]:
            die(sched, "schedule() signature changed")
        offered = _check_offered(sched, pfx)
        key_def, sorted_from, sorted_call = _sort_key(cls, sched, pfx)
        if sorted_from != offered:
            die(sorted_call, "sorted() is not applied to the offered tasks")
        # ordered = list(sorted(...)) ; for task in ordered:
        ordered = None
        for s in sched.body:
            if isinstance(s, ast.Assign) and len(s.targets) == 1 and isinstance(s.targets[0], ast.Name):
                v = s.value
                if v is sorted_call or (isinstance(v, ast.Call) and attr_chain(v.func) == ["list"] and len(v.args) == 1
                                        and v.args[0] is sorted_call and not v.keywords):
                    ordered = s.targets[0].id
        if ordered is None:
            die(sorted_call, "the sorted list is not bound to a plain name")
        loops = [s for s in sched.body if isinstance(s, ast.For) and attr_chain(s.iter) == [ordered]]
        if len(loops) != 1 or not isinstance(loops[0].target, ast.Name) or loops[0].target.id != "task" or loops[0].orelse:
            die(sched, "expected one `for task in %s:` loop" % ordered)
        loop = loops[0]
        # `placements = []` immediately relevant: must be initialised empty before the loop
        inits = [s for s in sched.body if isinstance(s, ast.Assign) and any(attr_chain(t) == ["placements"] for t in s.targets)]
        if len(inits) != 1 or not (isinstance(inits[0].value, ast.List) and not inits[0].value.elts):
            die(sched, "placements must be initialised once, to []")
        adm_def, rest = _admission(loop, pfx)
        _check_loop(rest, pfx, loop)
        out.append("(* %s *)" % rel)
        out.append(key_def)
        out.append(adm_def)
        out.append(_copy_mode(sched, pfx))
    return "\n".join(out)


FRAGMENTS = {"Greedy": frag_greedy}

if __name__ == "__main__":
    print(frag_greedy(sys.argv[1] if len(sys.argv) > 1 else "/repo"))
