"""Fragment Clockwork: the decisive comparisons of schedulers/clockwork_scheduler.py -> Gen/Src_Clockwork.v

Translated from the source on every run (fail closed on any shape the fragment does not know):

  cw_enforce_deadlines   the constant passed to BaseScheduler.__init__ by ClockworkScheduler.__init__
  cw_hopeless            the admission test of run_admission                     (:685-689)
  cw_expire_cond         the `while` test of the expiry loop                     (:240-244)
  cw_strategy_ready      the availability test of a strategy                     (:260-262)
  cw_priority            the priority of an available strategy                   (:263)
  cw_neg_batch           second component of the sort key                        (:264)
  cw_req_lt              Model.Request.__lt__ (used by bisect.insort)            (:153-154)
  cw_queue_short         the RuntimeError guard of get_placements                (:361)
  cw_not_loaded          the `continue` test of run_inference                    (:890)
  cw_goal_least_slack    the goal string that enables the least-slack ordering   (:876, :942)
  cw_strategy_eq/_lt     ExecutionStrategy.__eq__ / __lt__ (workload/strategy.py:55-67), over abstract Resources
                         comparisons; they break ties of the sort key

All quantities are microsecond integers (EventTime arithmetic is integer arithmetic: C16).
"""
import ast
import os
import sys

sys.path.insert(0, os.path.dirname(os.path.abspath(__file__)))
import py2v  # noqa: E402
from py2v import TranslateError, Tr, Z_BINOPS, Z_CMPS, attr_chain, die, find_class, find_func, load  # noqa: E402

SRC = "schedulers/clockwork_scheduler.py"


class _Subst(ast.NodeTransformer):
    """Replace exactly-known sub-expressions by plain names (anything else is left for Tr to refuse)."""

    def __init__(self, table):
        self.table = table      # list of (ast.dump of a sub-expression, replacement name)

    def generic_visit(self, node):
        if isinstance(node, ast.expr):
            d = ast.dump(node)
            for pat, name in self.table:
                if d == pat:
                    return ast.copy_location(ast.Name(id=name, ctx=ast.Load()), node)
        return super().generic_visit(node)

    def visit(self, node):
        if isinstance(node, ast.expr):
            d = ast.dump(node)
            for pat, name in self.table:
                if d == pat:
                    return ast.copy_location(ast.Name(id=name, ctx=ast.Load()), node)
        return super().visit(node)


def _e(src):
    return ast.dump(ast.parse(src, mode="eval").body)


def _tr(names):
    return Tr({n: (n, "Z") for n in names}, {}, {}, {}, dict(Z_BINOPS), dict(Z_CMPS))


def _bool_expr(node, table, names, what):
    node = _Subst([(_e(s), n) for s, n in table]).visit(node)
    tr = _tr(names)
    tr.vars["enforce"] = ("enforce", "bool")
    code, ty = tr.expr(node)
    if ty != "bool" or tr.binds:
        die(node, "%s: not a total boolean expression" % what)
    return code


def _z_expr(node, table, names, what):
    node = _Subst([(_e(s), n) for s, n in table]).visit(node)
    tr = _tr(names)
    code, ty = tr.expr(node)
    if ty != "Z" or tr.binds:
        die(node, "%s: not a total integer expression" % what)
    return code


def _only(stmts, kind, what):
    xs = [s for s in stmts if isinstance(s, kind)]
    if len(xs) != 1:
        raise TranslateError("%s: expected exactly one %s, found %d" % (what, kind.__name__, len(xs)))
    return xs[0]


def _calls(node, chain):
    return [n for n in ast.walk(node) if isinstance(n, ast.Call) and attr_chain(n.func) == chain]


def frag_clockwork(repo):
    mod = load(repo, SRC)
    out = [py2v.HEADER % (SRC + " (admission, expiry, availability, sort key, guards)")]
    CS = find_class(mod, "ClockworkScheduler")
    M = find_class(mod, "Model")
    R = find_class(M, "Request")

    # ---- enforce_deadlines constant
    init = find_func(CS, "__init__")
    sup = [c for c in ast.walk(init) if isinstance(c, ast.Call) and isinstance(c.func, ast.Attribute)
           and c.func.attr == "__init__"]
    if len(sup) != 1:
        die(init, "ClockworkScheduler.__init__: super().__init__ call not found")
    kw = {k.arg: k.value for k in sup[0].keywords}
    ed = kw.get("enforce_deadlines")
    if not (isinstance(ed, ast.Constant) and isinstance(ed.value, bool)):
        die(init, "enforce_deadlines is no longer a literal in ClockworkScheduler.__init__")
    out.append("Definition cw_enforce_deadlines : bool := %s.\n" % ("true" if ed.value else "false"))
    for opt in ("preemptive", "retract_schedules", "lookahead", "release_taskgraphs"):
        if opt in kw:
            die(init, "ClockworkScheduler now passes %s to the base scheduler (model assumes the defaults)" % opt)

    # ---- admission
    f = find_func(CS, "run_admission")
    loop = _only(f.body, ast.For, "run_admission")
    if not (isinstance(loop.target, ast.Name) and loop.target.id == "task" and attr_chain(loop.iter) == ["tasks_to_schedule"]):
        die(loop, "run_admission: loop header")
    body = py2v.strip_body(loop.body, py2v.is_logger_call)
    if not (len(body) == 1 and isinstance(body[0], ast.If)):
        die(loop, "run_admission: loop body is no longer a single if/else")
    iff = body[0]
    then_ = py2v.strip_body(iff.body, py2v.is_logger_call)
    else_ = py2v.strip_body(iff.orelse, py2v.is_logger_call)
    if not (len(then_) == 1 and _calls(then_[0], ["Placement", "create_task_cancellation"])
            and _calls(then_[0], ["placements", "append"])):
        die(iff, "run_admission: the then-branch no longer appends exactly a cancellation")
    if not (len(else_) == 1 and _calls(else_[0], ["self", "_models", "add_task"])):
        die(iff, "run_admission: the else-branch no longer only adds the task to the model queues")
    rets = [s for s in f.body if isinstance(s, ast.Return)]
    if not (len(rets) == 1 and attr_chain(rets[0].value) == ["placements"]):
        die(f, "run_admission: return value")
    code = _bool_expr(iff.test,
                      [("self.enforce_deadlines", "enforce"), ("task.deadline", "deadline"),
                       ("task.available_execution_strategies.get_fastest_strategy().runtime", "fastest_runtime")],
                      ["deadline", "current_time", "fastest_runtime"], "admission test")
    out.append("Definition cw_hopeless (enforce : bool) (deadline current_time fastest_runtime : Z) : bool :=\n  %s.\n" % code)

    # ---- expiry loop and availability
    f = find_func(M, "get_available_execution_strategies")
    fors = [s for s in f.body if isinstance(s, ast.For)]
    if len(fors) != 3:
        die(f, "get_available_execution_strategies: expected three for-loops")
    exp = fors[0]
    if ast.dump(exp.iter) != _e("self._request_queues.items()"):
        die(exp, "expiry loop no longer iterates self._request_queues.items()")
    if not (isinstance(exp.target, ast.Tuple) and [attr_chain(x) for x in exp.target.elts] == [["execution_strategy"], ["request_queue"]]):
        die(exp, "expiry loop targets")
    wh = _only(exp.body, ast.While, "expiry loop")
    wb = [ast.dump(s) for s in py2v.strip_body(wh.body, py2v.is_logger_call)]
    expect = [ast.dump(s) for s in ast.parse(
        "request = request_queue.pop(0)\nrequest.num_strategies -= 1\n"
        "if request.num_strategies == 0:\n    self.remove_task(request.task)\n").body]
    if wb != expect or wh.orelse:
        die(wh, "expiry loop body changed (pop head, decrement counter, remove at zero)")
    code = _bool_expr(wh.test,
                      [("len(request_queue)", "qlen"), ("request_queue[0].deadline", "head_deadline"),
                       ("execution_strategy.runtime", "runtime")],
                      ["qlen", "head_deadline", "current_time", "runtime"], "expiry test")
    out.append("Definition cw_expire_cond (qlen head_deadline current_time runtime : Z) : bool :=\n  %s.\n" % code)

    av = fors[1]
    if ast.dump(av.iter) != _e("self._request_queues.items()"):
        die(av, "availability loop no longer iterates self._request_queues.items()")
    ab = py2v.strip_body(av.body, py2v.is_logger_call)
    if not (len(ab) == 1 and isinstance(ab[0], ast.If) and not ab[0].orelse):
        die(av, "availability loop body")
    tbl = [("len(request_queue)", "qlen"), ("request_queue[0].deadline", "head_deadline"),
           ("strategy.runtime", "runtime"), ("strategy.batch_size", "batch_size")]
    code = _bool_expr(ab[0].test, tbl, ["batch_size", "qlen", "current_time", "runtime", "head_deadline"], "availability test")
    out.append("Definition cw_strategy_ready (batch_size qlen current_time runtime head_deadline : Z) : bool :=\n  %s.\n" % code)
    ib = py2v.strip_body(ab[0].body, py2v.is_logger_call)
    if not (len(ib) == 2 and isinstance(ib[0], ast.Assign) and attr_chain(ib[0].targets[0]) == ["priority"]
            and isinstance(ib[1], ast.Expr) and _calls(ib[1], ["strategies", "append"])):
        die(ab[0], "availability body (priority = ...; strategies.append(...))")
    out.append("Definition cw_priority (head_deadline runtime current_time : Z) : Z :=\n  %s.\n" %
               _z_expr(ib[0].value, tbl, ["head_deadline", "runtime", "current_time"], "priority"))
    tup = _calls(ib[1], ["strategies", "append"])[0].args
    if not (len(tup) == 1 and isinstance(tup[0], ast.Tuple) and len(tup[0].elts) == 3
            and attr_chain(tup[0].elts[0]) == ["priority"] and attr_chain(tup[0].elts[2]) == ["strategy"]):
        die(ib[1], "sort key is no longer (priority, <batch term>, strategy)")
    out.append("Definition cw_neg_batch (batch_size : Z) : Z :=\n  %s.\n" %
               _z_expr(tup[0].elts[1], tbl, ["batch_size"], "sort key batch term"))
    srt = fors[2]
    if ast.dump(srt.iter) != _e("sorted(strategies)"):
        die(srt, "strategies are no longer ordered by sorted(strategies)")

    # ---- Request.__lt__
    f = find_func(R, "__lt__")
    b = py2v.strip_body(f.body, py2v.is_logger_call)
    if not (len(b) == 1 and isinstance(b[0], ast.Return)):
        die(f, "Request.__lt__ body")
    out.append("Definition cw_req_lt (self_deadline other_deadline : Z) : bool :=\n  %s.\n" %
               _bool_expr(b[0].value, [("self.deadline", "self_deadline"), ("other.deadline", "other_deadline")],
                          ["self_deadline", "other_deadline"], "Request.__lt__"))
    f = find_func(R, "deadline")
    b = py2v.strip_body(f.body, py2v.is_logger_call)
    if not (len(b) == 1 and isinstance(b[0], ast.Return) and attr_chain(b[0].value) == ["self", "_task", "deadline"]):
        die(f, "Request.deadline is no longer the task's deadline")

    # ---- get_placements guard and slice
    f = find_func(M, "get_placements")
    first = py2v.strip_body(f.body, py2v.is_logger_call)[0]
    if not (isinstance(first, ast.If) and all(isinstance(s, ast.Raise) for s in first.body) and not first.orelse):
        die(f, "get_placements no longer starts with the queue-length guard")
    out.append("Definition cw_queue_short (qlen batch_size : Z) : bool :=\n  %s.\n" %
               _bool_expr(first.test, [("len(self._request_queues[strategy])", "qlen"), ("strategy.batch_size", "batch_size")],
                          ["qlen", "batch_size"], "get_placements guard"))
    loops = [s for s in f.body if isinstance(s, ast.For)]
    if not (len(loops) == 2 and ast.dump(loops[0].iter) == _e("self._request_queues[strategy][: strategy.batch_size]")
            and ast.dump(loops[1].iter) == _e("tasks_to_remove")):
        die(f, "get_placements: batch slice / removal loops changed")
    pl = _calls(loops[0], ["Placement", "create_task_placement"])
    if len(pl) != 1:
        die(loops[0], "get_placements: placement construction")
    kws = {k.arg: ast.dump(k.value) for k in pl[0].keywords}
    if kws != {"task": _e("request.task"), "placement_time": _e("sim_time"), "worker_pool_id": _e("worker_pool_id"),
               "worker_id": _e("worker_id"), "execution_strategy": _e("batch_strategy")}:
        die(pl[0], "get_placements: placement fields changed")

    # ---- run_inference: not-loaded test, goal string
    f = find_func(CS, "run_inference")
    conts = [n for n in ast.walk(f) if isinstance(n, ast.If) and any(isinstance(s, ast.Continue) for s in n.body)]
    if len(conts) != 1:
        die(f, "run_inference: expected exactly one `continue` guard")
    out.append("Definition cw_not_loaded (availability : Z) : bool :=\n  %s.\n" %
               _bool_expr(conts[0].test, [("worker.is_available(model.profile)", "availability"), ("EventTime.zero()", "zero_time")],
                          ["availability", "zero_time"], "not-loaded test").replace("zero_time", "0"))
    goals = [n for n in ast.walk(f) if isinstance(n, ast.Compare) and ast.dump(n.left) == _e("self._goal")]
    if len(goals) != 2 or any(not (len(g.ops) == 1 and isinstance(g.ops[0], ast.Eq) and isinstance(g.comparators[0], ast.Constant)
                                   and g.comparators[0].value == "least_slack") for g in goals):
        die(f, "run_inference: the two `self._goal == \"least_slack\"` tests changed")
    out.append("(* the inference loop reorders its queue only for the goal string \"least_slack\" *)\n"
               "Definition cw_goal_least_slack_tests : Z := %d.\n" % len(goals))
    # ---- ExecutionStrategy.__eq__ / __lt__ (third component of the sort key)
    smod = load(repo, "workload/strategy.py")
    ES = find_class(smod, "ExecutionStrategy")
    if ["total_ordering"] not in [attr_chain(d) for d in ES.decorator_list]:
        die(ES, "ExecutionStrategy is no longer @total_ordering")
    sub = _Subst([(_e(a), b) for a, b in (("self.batch_size", "bs1"), ("other.batch_size", "bs2"), ("self.runtime", "rt1"),
                                          ("other.runtime", "rt2"), ("self.resources", "r1"), ("other.resources", "r2"))])
    cmps = dict(Z_CMPS)
    cmps[("Res", "==", "Res")] = ("(res_eq {a} {b})", False)
    cmps[("Res", "<", "Res")] = ("(res_lt {a} {b})", False)
    for py, gn, par in (("__eq__", "cw_strategy_eq", "res_eq"), ("__lt__", "cw_strategy_lt", "res_lt")):
        f = sub.visit(find_func(ES, py))
        tr = Tr({"bs1": ("bs1", "Z"), "bs2": ("bs2", "Z"), "rt1": ("rt1", "Z"), "rt2": ("rt2", "Z"), "r1": ("r1", "Res"), "r2": ("r2", "Res")},
                {}, {}, {}, dict(Z_BINOPS), cmps)
        body = py2v.fn_body(tr, py2v.strip_body(f.body, py2v.is_logger_call), False, "bool")
        out.append("Definition %s {R : Type} (%s : R -> R -> bool) (bs1 rt1 : Z) (r1 : R) (bs2 rt2 : Z) (r2 : R) : bool :=\n  %s.\n"
                   % (gn, par, body))
    for prop, fld in (("batch_size", "_batch_size"), ("runtime", "_runtime"), ("resources", "_resources")):
        f = find_func(ES, prop)
        b = py2v.strip_body(f.body, py2v.is_logger_call)
        if not (len(b) == 1 and isinstance(b[0], ast.Return) and attr_chain(b[0].value) == ["self", fld]):
            die(f, "ExecutionStrategy.%s is no longer a plain getter" % prop)
    # get_fastest_strategy: min over the strategies by runtime
    EStr = find_class(smod, "ExecutionStrategies")
    f = find_func(EStr, "get_fastest_strategy")
    rets = [n for n in ast.walk(f) if isinstance(n, ast.Return)]
    if not any(ast.dump(r.value) == _e("min(self._strategies, key=lambda s: s.runtime)") for r in rets if r.value is not None):
        die(f, "get_fastest_strategy is no longer min(self._strategies, key=lambda s: s.runtime)")
    return "\n".join(out)


FRAGMENTS = {"Clockwork": frag_clockwork}

if __name__ == "__main__":
    print(frag_clockwork(sys.argv[1] if len(sys.argv) > 1 else "/repo"))
