"""Fail-closed translator of small, decisive fragments of /repo's Python into
Gallina.  Regenerated on every run; anything the translator does not know is an
error naming the node (never a silent default).

The core is a typed expression/statement translator over a tiny language:
names, attribute chains, int literals, `and/or/not`, comparisons (chains too),
`in` / `not in` over tuples of enum members, `+ - *`, conditional expressions,
`if/elif/else`, `return`, `raise` (-> `Err`), assignments to `self._field`
(-> record update).  Each fragment supplies the typing environment.
"""
import ast
import os


class TranslateError(Exception):
    pass


def die(node, msg):
    ln = getattr(node, "lineno", "?")
    raise TranslateError("%s (line %s): %s" % (msg, ln, ast.dump(node)[:200] if isinstance(node, ast.AST) else node))


def load(repo, rel):
    p = os.path.join(repo, rel)
    try:
        return ast.parse(open(p).read(), filename=p)
    except (OSError, SyntaxError) as e:
        raise TranslateError("cannot parse %s: %s" % (rel, e))


def find_class(mod, name):
    for n in ast.walk(mod):
        if isinstance(n, ast.ClassDef) and n.name == name:
            return n
    raise TranslateError("class %s not found" % name)


def find_func(scope, name):
    for n in scope.body:
        if isinstance(n, (ast.FunctionDef,)) and n.name == name:
            return n
    raise TranslateError("function %s not found in %s" % (name, getattr(scope, "name", "module")))


def enum_members(cls, allow_float=False):
    """[(NAME, int value)] of an Enum class body, in source order."""
    out = []
    for n in cls.body:
        if isinstance(n, ast.Assign) and len(n.targets) == 1 and isinstance(n.targets[0], ast.Name):
            v = n.value
            if isinstance(v, ast.Constant) and isinstance(v.value, int) and not isinstance(v.value, bool):
                out.append((n.targets[0].id, v.value))
            elif allow_float and isinstance(v, ast.Constant) and isinstance(v.value, float) and v.value == int(v.value):
                out.append((n.targets[0].id, int(v.value)))
            else:
                die(n, "enum member with a value the translator does not accept")
    if not out:
        die(cls, "no enum members")
    vals = [v for _, v in out]
    if len(set(vals)) != len(vals):
        die(cls, "enum aliases (equal values)")
    return out


def strip_body(body, is_ignorable):
    """Drop docstrings, `pass`, and statements accepted by `is_ignorable`."""
    out = []
    for s in body:
        if isinstance(s, ast.Expr) and isinstance(s.value, ast.Constant) and isinstance(s.value.value, str):
            continue
        if isinstance(s, ast.Pass):
            continue
        if is_ignorable(s):
            continue
        out.append(s)
    return out


def attr_chain(e):
    """a.b.c -> ['a','b','c'] or None"""
    parts = []
    while isinstance(e, ast.Attribute):
        parts.append(e.attr)
        e = e.value
    if isinstance(e, ast.Name):
        parts.append(e.id)
        return list(reversed(parts))
    return None


def is_logger_call(s):
    if isinstance(s, ast.Expr) and isinstance(s.value, ast.Call):
        ch = attr_chain(s.value.func)
        if ch and (("_logger" in ch) or ch[0] in ("logging", "logger")):
            return True
    return False


class Tr:
    """Typed expression translator.

    vars:    python name -> (gallina code, type)
    attrs:   (type, attr) -> (gallina accessor function, type)
    methods: (type, method) -> (gallina function, [arg types], ret type, partial)
    consts:  tuple(attr chain) -> (gallina code, type)
    binops:  (type, op, type) -> (gallina function, ret type, partial)
    cmps:    (type, op, type) -> (template with {a} {b}, partial)
    """

    def __init__(self, vars, attrs, methods, consts, binops, cmps, ctors=None):
        self.vars = dict(vars)
        self.attrs = attrs
        self.methods = methods
        self.consts = consts
        self.binops = binops
        self.cmps = cmps
        self.ctors = ctors or {}
        self.binds = []
        self.ntmp = 0

    def tmp(self, pcode):
        self.ntmp += 1
        n = "tmp%d" % self.ntmp
        self.binds.append((n, pcode))
        return n

    def wrap(self, code, partial_result):
        """Close the pending binds around `code` (a `result` term if partial_result)."""
        out = code if partial_result else "(Ok %s)" % code
        for n, pc in reversed(self.binds):
            out = "(bind %s (fun %s => %s))" % (pc, n, out)
        self.binds = []
        return out

    def expr(self, e):
        if isinstance(e, ast.Constant):
            if isinstance(e.value, bool):
                return ("true" if e.value else "false"), "bool"
            if isinstance(e.value, int):
                return ("(%d)" % e.value), "Z"
            die(e, "constant")
        if isinstance(e, ast.Name):
            if e.id in self.vars:
                return self.vars[e.id]
            if (e.id,) in self.consts:
                return self.consts[(e.id,)]
            die(e, "unknown name")
        if isinstance(e, ast.Attribute):
            ch = attr_chain(e)
            if ch and tuple(ch) in self.consts:
                return self.consts[tuple(ch)]
            base, ty = self.expr(e.value)
            if (ty, e.attr) in self.attrs:
                acc, rty = self.attrs[(ty, e.attr)]
                return "(%s %s)" % (acc, base), rty
            die(e, "unknown attribute .%s on type %s" % (e.attr, ty))
        if isinstance(e, ast.UnaryOp):
            if isinstance(e.op, ast.Not):
                c, ty = self.expr(e.operand)
                if ty != "bool":
                    die(e, "not on non-bool")
                return "(negb %s)" % c, "bool"
            if isinstance(e.op, ast.USub):
                c, ty = self.expr(e.operand)
                if ty != "Z":
                    die(e, "unary minus on non-int")
                return "(- %s)" % c, "Z"
            die(e, "unary operator")
        if isinstance(e, ast.BoolOp):
            parts = []
            for v in e.values:
                c, ty = self.expr(v)
                if ty != "bool":
                    die(v, "boolean operand of type %s" % ty)
                parts.append(c)
            op = " && " if isinstance(e.op, ast.And) else " || "
            return "(" + op.join(parts) + ")", "bool"
        if isinstance(e, ast.BinOp):
            a, ta = self.expr(e.left)
            b, tb = self.expr(e.right)
            op = {ast.Add: "+", ast.Sub: "-", ast.Mult: "*", ast.Div: "/"}.get(type(e.op))
            if op is None or (ta, op, tb) not in self.binops:
                die(e, "binary operator %s on (%s, %s)" % (op, ta, tb))
            fn, rty, partial = self.binops[(ta, op, tb)]
            code = "(%s %s %s)" % (fn, a, b)
            if partial:
                code = self.tmp(code)
            return code, rty
        if isinstance(e, ast.Compare):
            left, tl = self.expr(e.left)
            outs = []
            for op, comp in zip(e.ops, e.comparators):
                if isinstance(op, (ast.In, ast.NotIn)):
                    if isinstance(comp, (ast.Tuple, ast.List)):
                        elts = comp.elts
                    elif isinstance(comp, ast.Name) and ("tuple", comp.id) in self.consts:
                        elts = self.consts[("tuple", comp.id)]
                    else:
                        die(comp, "`in` over something that is not a literal tuple")
                    items = []
                    for x in elts:
                        c, ty = self.expr(x)
                        if ty != tl:
                            die(x, "membership test between %s and %s" % (tl, ty))
                        items.append(self.cmp(tl, "==", ty, left, c, e))
                    code = "(" + " || ".join(items) + ")" if items else "false"
                    if isinstance(op, ast.NotIn):
                        code = "(negb %s)" % code
                    outs.append(code)
                    right, tr_ = None, None
                else:
                    right, tr_ = self.expr(comp)
                    o = {ast.Eq: "==", ast.NotEq: "!=", ast.Lt: "<", ast.LtE: "<=", ast.Gt: ">", ast.GtE: ">=",
                         ast.Is: "is", ast.IsNot: "isnot"}.get(type(op))
                    if o is None:
                        die(e, "comparison operator")
                    outs.append(self.cmp(tl, o, tr_, left, right, e))
                left, tl = right, tr_
            return ("(" + " && ".join(outs) + ")" if len(outs) > 1 else outs[0]), "bool"
        if isinstance(e, ast.IfExp):
            c, tc = self.expr(e.test)
            a, ta = self.expr(e.body)
            b, tb = self.expr(e.orelse)
            if tc != "bool" or ta != tb:
                die(e, "conditional expression types")
            return "(if %s then %s else %s)" % (c, a, b), ta
        if isinstance(e, ast.Call):
            ch = attr_chain(e.func)
            if ch and tuple(ch) in self.ctors:
                return self.ctors[tuple(ch)](self, e)
            if isinstance(e.func, ast.Attribute):
                if ch and tuple(ch) in self.consts and not e.args and not e.keywords:
                    return self.consts[tuple(ch)]
                base, ty = self.expr(e.func.value)
                key = (ty, e.func.attr)
                if key not in self.methods:
                    die(e, "unknown method .%s on type %s" % (e.func.attr, ty))
                fn, argtys, rty, partial = self.methods[key]
                if e.keywords or len(e.args) != len(argtys):
                    die(e, "method arity")
                args = []
                for a, t in zip(e.args, argtys):
                    c, ty2 = self.expr(a)
                    if ty2 != t:
                        die(a, "argument of type %s where %s expected" % (ty2, t))
                    args.append(c)
                code = "(%s %s)" % (fn, " ".join([base] + args))
                if partial:
                    code = self.tmp(code)
                return code, rty
            die(e, "call")
        die(e, "expression")

    def cmp(self, ta, op, tb, a, b, node):
        key = (ta, op, tb)
        if key not in self.cmps:
            die(node, "comparison %s on (%s, %s)" % (op, ta, tb))
        tmpl, partial = self.cmps[key]
        code = tmpl.format(a=a, b=b)
        if partial:
            code = self.tmp(code)
        return code


Z_BINOPS = {("Z", "+", "Z"): ("Z.add", "Z", False), ("Z", "-", "Z"): ("Z.sub", "Z", False),
            ("Z", "*", "Z"): ("Z.mul", "Z", False)}
Z_CMPS = {("Z", "==", "Z"): ("({a} =? {b})", False), ("Z", "!=", "Z"): ("(negb ({a} =? {b}))", False),
          ("Z", "<", "Z"): ("({a} <? {b})", False), ("Z", "<=", "Z"): ("({a} <=? {b})", False),
          ("Z", ">", "Z"): ("({b} <? {a})", False), ("Z", ">=", "Z"): ("({b} <=? {a})", False)}

HEADER = ("(* GENERATED by /verif/translator/py2v.py from %s -- do not edit; regenerated on every run *)\n"
          "From Coq Require Import ZArith Bool List.\nImport ListNotations.\n"
          "From Verif Require Import Model.Val.\nOpen Scope Z_scope.\n\n")


def fn_body(tr, body, partial, retty=None):
    """Translate a statement list of the form  (if .. raise/return)* return e  into one term."""
    if not body:
        raise TranslateError("function body falls off the end")
    s = body[0]
    rest = body[1:]
    if isinstance(s, ast.Return):
        if rest:
            die(rest[0], "statement after return")
        c, ty = tr.expr(s.value)
        if retty is not None and ty != retty:
            die(s, "returns %s where %s expected" % (ty, retty))
        return tr.wrap(c, False) if partial else _nobinds(tr, c, s)
    if isinstance(s, ast.Raise):
        if not partial:
            die(s, "raise in a function declared total")
        tr.binds = []
        return "(Err 1)"
    if isinstance(s, ast.If):
        c, ty = tr.expr(s.test)
        if ty != "bool":
            die(s.test, "condition of type %s" % ty)
        cb = tr.binds
        tr.binds = []
        then_ = fn_body(tr, strip_body(s.body, is_logger_call) + ([] if _ends(s.body) else rest), partial, retty)
        else_body = strip_body(s.orelse, is_logger_call) if s.orelse else []
        else_ = fn_body(tr, else_body + ([] if (else_body and _ends(else_body)) else rest), partial, retty)
        tr.binds = cb
        code = "(if %s then %s else %s)" % (c, then_, else_)
        return tr.wrap(code, True) if partial else _nobinds(tr, code, s)
    die(s, "statement")


def _ends(body):
    last = body[-1]
    if isinstance(last, (ast.Return, ast.Raise)):
        return True
    if isinstance(last, ast.If) and last.orelse:
        return _ends(last.body) and _ends(last.orelse)
    return False


def _nobinds(tr, code, node):
    if tr.binds:
        die(node, "partial call inside a function declared total")
    return code


# ==========================================================================
# Fragment: utils.EventTime  ->  Gen/Src_Time.v
# ==========================================================================
def frag_time(repo):
    mod = load(repo, "utils.py")
    ET = find_class(mod, "EventTime")
    Unit = find_class(ET, "Unit")
    members = enum_members(Unit, allow_float=True)
    names = [n for n, _ in members]
    if names != ["US", "MS", "S"]:
        die(Unit, "EventTime.Unit members changed: %s" % names)
    out = [HEADER % "utils.py (class EventTime)"]
    out.append("Inductive unit_t := U_US | U_MS | U_S.\n")
    out.append("Definition unit_value (u : unit_t) : Z :=\n  match u with %s end.\n" %
               " | ".join("U_%s => %d" % (n, v) for n, v in members))
    out.append("Definition unit_eqb (a b : unit_t) : bool :=\n  match a, b with U_US, U_US | U_MS, U_MS | U_S, U_S => true | _, _ => false end.\n")

    # structural checks on the constructor and the two properties
    init = find_func(ET, "__init__")
    assigns = {}
    for s in ast.walk(init):
        if isinstance(s, ast.Assign) and len(s.targets) == 1:
            ch = attr_chain(s.targets[0])
            if ch and ch[0] == "self" and isinstance(s.value, ast.Name):
                assigns[ch[1]] = s.value.id
    if assigns.get("_time") != "time" or assigns.get("_unit") != "unit":
        die(init, "EventTime.__init__ no longer stores (time, unit) unchanged")
    for prop, fld in (("time", "_time"), ("unit", "_unit")):
        f = find_func(ET, prop)
        b = strip_body(f.body, is_logger_call)
        if not (len(b) == 1 and isinstance(b[0], ast.Return) and attr_chain(b[0].value) == ["self", fld]):
            die(f, "property %s is no longer a plain getter" % prop)
    out.append("Record etime := mkET { et_time : Z; et_unit : unit_t }.\n")

    attrs = {("ET", "time"): ("et_time", "Z"), ("ET", "unit"): ("et_unit", "Unit"),
             ("ET", "_time"): ("et_time", "Z"), ("ET", "_unit"): ("et_unit", "Unit"),
             ("Unit", "value"): ("unit_value", "Z")}
    consts = {("EventTime", "Unit", "US"): ("U_US", "Unit"), ("EventTime", "Unit", "MS"): ("U_MS", "Unit"),
              ("EventTime", "Unit", "S"): ("U_S", "Unit")}
    cmps = dict(Z_CMPS)
    binops = dict(Z_BINOPS)
    methods = {}

    def ctor_ET(tr, e):
        kw = {k.arg: k.value for k in e.keywords}
        args = list(e.args)
        t = kw.get("time", args[0] if args else None)
        u = kw.get("unit", args[1] if len(args) > 1 else None)
        if t is None or u is None:
            die(e, "EventTime(...) arguments")
        ct, tt = tr.expr(t)
        cu, tu = tr.expr(u)
        if tt != "Z" or tu != "Unit":
            die(e, "EventTime(%s, %s)" % (tt, tu))
        return "(mkET %s %s)" % (ct, cu), "ET"

    def ctor_int(tr, e):
        # int(<int> * <ratio>): the float product is modelled by the exact rational
        # product, truncated toward zero as CPython's int() does
        if len(e.args) == 1 and isinstance(e.args[0], ast.BinOp) and isinstance(e.args[0].op, ast.Mult):
            a, ta = tr.expr(e.args[0].left)
            b, tb = tr.expr(e.args[0].right)
            if ta == "Z" and tb == "ratio":
                return "(int_mul_ratio %s %s)" % (a, b), "Z"
        die(e, "int(...) of something other than <int> * <unit ratio>")

    ctors = {("EventTime",): ctor_ET, ("int",): ctor_int}

    def mk(vars):
        return Tr(vars, attrs, methods, consts, binops, cmps, ctors)

    # Unit.__lt__ : self.value < other.value
    f = find_func(Unit, "__lt__")
    tr = mk({"self": ("self", "Unit"), "other": ("other", "Unit")})
    out.append("Definition unit_ltb (self other : unit_t) : bool :=\n  %s.\n" %
               fn_body(tr, strip_body(f.body, is_logger_call), False, "bool"))
    # total_ordering derives the rest from __lt__ and (Enum identity) __eq__
    cmps[("Unit", "<", "Unit")] = ("(unit_ltb {a} {b})", False)
    cmps[("Unit", "==", "Unit")] = ("(unit_eqb {a} {b})", False)
    cmps[("Unit", ">", "Unit")] = ("(negb (unit_ltb {a} {b}) && negb (unit_eqb {a} {b}))", False)
    # Unit.to : self.value / other.value  (a ratio of two integral floats)
    f = find_func(Unit, "to")
    b = strip_body(f.body, is_logger_call)
    if not (len(b) == 1 and isinstance(b[0], ast.Return) and isinstance(b[0].value, ast.BinOp)
            and isinstance(b[0].value.op, ast.Div)
            and attr_chain(b[0].value.left) == ["self", "value"] and attr_chain(b[0].value.right) == ["other", "value"]):
        die(f, "Unit.to is no longer self.value / other.value")
    out.append("Definition ratio := (Z * Z)%type.\n"
               "Definition unit_to (self other : unit_t) : ratio := (unit_value self, unit_value other).\n"
               "(* int(t * r): exact rational product truncated toward zero; the double-precision product is\n"
               "   exact for magnitudes below 2^53 (stated as `in_range` in the theorems) *)\n"
               "Definition int_mul_ratio (t : Z) (r : ratio) : Z := Z.quot (t * fst r) (snd r).\n")
    methods[("Unit", "to")] = ("unit_to", ["Unit"], "ratio", False)

    # EventTime.to
    f = find_func(ET, "to")
    tr = mk({"self": ("self", "ET"), "unit": ("unit", "Unit")})
    out.append("Definition et_to (self : etime) (unit : unit_t) : result etime :=\n  %s.\n" %
               fn_body(tr, strip_body(f.body, is_logger_call), True, "ET"))
    methods[("ET", "to")] = ("et_to", ["Unit"], "ET", True)

    # __add__
    f = find_func(ET, "__add__")
    tr = mk({"self": ("self", "ET"), "other": ("other", "ET")})
    out.append("Definition et_add (self other : etime) : result etime :=\n  %s.\n" %
               fn_body(tr, strip_body(f.body, is_logger_call), True, "ET"))
    binops[("ET", "+", "ET")] = ("et_add", "ET", True)
    # __sub__
    f = find_func(ET, "__sub__")
    tr = mk({"self": ("self", "ET"), "other": ("other", "ET")})
    out.append("Definition et_sub (self other : etime) : result etime :=\n  %s.\n" %
               fn_body(tr, strip_body(f.body, is_logger_call), True, "ET"))
    binops[("ET", "-", "ET")] = ("et_sub", "ET", True)
    # __eq__, __lt__
    for py, gn in (("__eq__", "et_eqb"), ("__lt__", "et_ltb")):
        f = find_func(ET, py)
        tr = mk({"self": ("self", "ET"), "other": ("other", "ET")})
        out.append("Definition %s (self other : etime) : result bool :=\n  %s.\n" %
                   (gn, fn_body(tr, strip_body(f.body, is_logger_call), True, "bool")))
    # __mul__ (the type guard on `other` is a Python-level type error, not modelled)
    f = find_func(ET, "__mul__")

    def type_guard(s):
        return (isinstance(s, ast.If) and isinstance(s.test, ast.Compare) and isinstance(s.test.left, ast.Call)
                and attr_chain(s.test.left.func) == ["type"] and all(isinstance(x, ast.Raise) for x in s.body)
                and not s.orelse) or is_logger_call(s)
    tr = mk({"self": ("self", "ET"), "other": ("other", "Z")})
    out.append("Definition et_mul (self : etime) (other : Z) : etime :=\n  %s.\n" %
               fn_body(tr, strip_body(f.body, type_guard), False, "ET"))
    # __hash__
    f = find_func(ET, "__hash__")
    tr = mk({"self": ("self", "ET")})
    out.append("Definition et_hash (self : etime) : result Z :=\n  %s.\n" %
               fn_body(tr, strip_body(f.body, is_logger_call), True, "Z"))
    # is_invalid
    f = find_func(ET, "is_invalid")
    tr = mk({"self": ("self", "ET")})
    out.append("Definition et_is_invalid (self : etime) : bool :=\n  %s.\n" %
               fn_body(tr, strip_body(f.body, is_logger_call), False, "bool"))
    # zero / invalid
    for nm in ("zero", "invalid"):
        f = find_func(ET, nm)
        tr = mk({})
        out.append("Definition et_%s : etime :=\n  %s.\n" % (nm, fn_body(tr, strip_body(f.body, is_logger_call), False, "ET")))
    # total_ordering must still decorate the class: >, >=, <= derive from __lt__/__eq__
    decos = [attr_chain(d) for d in ET.decorator_list]
    if ["total_ordering"] not in decos:
        die(ET, "EventTime is no longer @total_ordering")
    return "\n".join(out)


# ==========================================================================
# Fragment: simulator.EventType / Event.__lt__  ->  Gen/Src_Event.v
# ==========================================================================
def frag_event(repo):
    mod = load(repo, "simulator.py")
    ETy = find_class(mod, "EventType")
    members = enum_members(ETy)
    out = [HEADER % "simulator.py (EventType, Event.__lt__)"]
    out.append("Inductive event_type :=\n  %s.\n" % "\n  ".join("| %s" % n for n, _ in members))
    out.append("Definition event_type_value (t : event_type) : Z :=\n  match t with\n  %s\n  end.\n" %
               "\n  ".join("| %s => %d" % (n, v) for n, v in members))
    out.append("Definition all_event_types : list event_type := [%s].\n" % "; ".join(n for n, _ in members))
    out.append("Definition event_type_code (t : event_type) : Z := event_type_value t.\n")
    # __lt__ / __eq__ of the enum
    attrs = {("EType", "value"): ("event_type_value", "Z")}
    for py, gn in (("__lt__", "event_type_ltb"), ("__eq__", "event_type_eqb")):
        f = find_func(ETy, py)
        tr = Tr({"self": ("self", "EType"), "other": ("other", "EType")}, attrs, {}, {}, Z_BINOPS, Z_CMPS)
        out.append("Definition %s (self other : event_type) : bool :=\n  %s.\n" %
                   (gn, fn_body(tr, strip_body(f.body, is_logger_call), False, "bool")))
    # Event: time is a microsecond integer here (C16's EventTime theorems justify the identification),
    # task is an optional unique name (an integer rank: the harness orders names as Python orders strings)
    Ev = find_class(mod, "Event")
    for prop, fld in (("time", "_time"), ("event_type", "_event_type"), ("task", "_task")):
        f = find_func(Ev, prop)
        b = strip_body(f.body, is_logger_call)
        if not (len(b) == 1 and isinstance(b[0], ast.Return) and attr_chain(b[0].value) == ["self", fld]):
            die(f, "Event.%s is no longer a plain getter" % prop)
    out.append("Record event := mkEv { ev_time : Z; ev_type : event_type; ev_task : option Z; ev_id : Z }.\n"
               "Definition opt_is_some (o : option Z) : bool := match o with Some _ => true | None => false end.\n"
               "Definition opt_get (o : option Z) : Z := match o with Some x => x | None => 0 end.\n")
    attrs2 = {("Ev", "time"): ("ev_time", "Z"), ("Ev", "event_type"): ("ev_type", "EType"),
              ("Ev", "task"): ("ev_task", "OptTask"), ("OptTask", "unique_name"): ("opt_get", "Z")}
    cmps = dict(Z_CMPS)
    cmps[("EType", "==", "EType")] = ("(event_type_eqb {a} {b})", False)
    cmps[("EType", "<", "EType")] = ("(event_type_ltb {a} {b})", False)
    cmps[("OptTask", "isnot", "None")] = ("(opt_is_some {a})", False)
    f = find_func(Ev, "__lt__")
    tr = Tr({"self": ("self", "Ev"), "other": ("other", "Ev")}, attrs2, {}, {("None",): ("None", "None")}, Z_BINOPS, cmps)

    class NoneFix(ast.NodeTransformer):
        def visit_Constant(self, n):
            if n.value is None:
                return ast.copy_location(ast.Name(id="None", ctx=ast.Load()), n)
            return n
    f = NoneFix().visit(f)
    out.append("Definition ev_ltb (self other : event) : bool :=\n  %s.\n" %
               fn_body(tr, strip_body(f.body, is_logger_call), False, "bool"))
    # which event types require a task (constructor check)
    init = find_func(Ev, "__init__")
    need = None
    for s in init.body:
        if (isinstance(s, ast.If) and isinstance(s.test, ast.Compare) and attr_chain(s.test.left) == ["event_type"]
                and isinstance(s.test.ops[0], ast.In) and isinstance(s.test.comparators[0], (ast.List, ast.Tuple))):
            need = [attr_chain(x) for x in s.test.comparators[0].elts]
            break
    if need is None or any(c is None or c[0] != "EventType" for c in need):
        die(init, "Event.__init__: list of task-carrying event types not found")
    need = [c[1] for c in need]
    out.append("Definition needs_task (t : event_type) : bool :=\n  match t with %s => true | _ => false end.\n" % " | ".join(need))
    return "\n".join(out)


FRAGMENTS = {"Time": frag_time, "Event": frag_event}


def _discover():
    """Every translator/frag_*.py contributes its own FRAGMENTS dict (name -> function(repo) -> text)."""
    import glob
    import importlib.util
    here = os.path.dirname(os.path.abspath(__file__))
    for f in sorted(glob.glob(os.path.join(here, "frag_*.py"))):
        spec = importlib.util.spec_from_file_location(os.path.basename(f)[:-3], f)
        m = importlib.util.module_from_spec(spec)
        spec.loader.exec_module(m)
        for k, v in getattr(m, "FRAGMENTS", {}).items():
            if k in FRAGMENTS:
                raise RuntimeError("duplicate fragment name %s in %s" % (k, f))
            FRAGMENTS[k] = v


_discover()

if __name__ == "__main__":
    import sys
    print(FRAGMENTS[sys.argv[1]](sys.argv[2] if len(sys.argv) > 2 else "/repo"))
