"""Common body of the S-sim checks (C01 C02 C03 C06): proofs about the abstract machine, the tie
(the implementation's call logs must be accepted by the machine and end in the same state), and the
property's own monitor on the implementation's logs to produce a concrete failing input."""
import json
import os

import core
import simcommon
import simgen

TRUSTED_SIM = [
    "translator fragments Task (TaskState, Task.release/schedule/unschedule/start/step/finish/cancel translated "
    "statement by statement), Event (EventType) and TaskGraph (Task.is_ready_to_run: the machine's placement guard IS the "
    "translated test; Proofs/SimP.v: is_ready_spec)",
    "the abstract machine Model/Sim.v is hand-written: each guard is a test the code performs at that call site; the tie is "
    "checked by feeding the implementation's call log of whole simulations (class-level wrappers installed by the harness, "
    "no source hooks) to the machine inside Coq and comparing the final task states, clock, counters and residents",
    "modelled, not verified: preemption/migration (excluded from the generated runs), batch strategies at simulator level "
    "(the worker-level treatment is C04's), utils.EventTime.fuzz (contract: runtime <= draw <= runtime*(1+v/100)+0.5), "
    "Python's heapq / dict order, logging, absl flags, YAML loading",
]


def world_stats(worlds, runs):
    pol = {}
    shapes = {"conditional": 0, "multi_strategy": 0, "variance": 0, "enforce_deadlines": 0, "drop_skipped": 0}
    for w in worlds:
        pname = "FUZZ" if w.get("fuzz") else w["flags"]["scheduler"]
        pol[pname] = pol.get(pname, 0) + 1
        if any(n.get("conditional") for g in w["workload"]["graphs"] for n in g["graph"]):
            shapes["conditional"] += 1
        if any(len(p["execution_strategies"]) > 1 for p in w["workload"]["profiles"]):
            shapes["multi_strategy"] += 1
        shapes["variance"] += w["flags"].get("runtime_variance", 0) > 0
        shapes["enforce_deadlines"] += bool(w["flags"].get("enforce_deadlines"))
        shapes["drop_skipped"] += bool(w["flags"].get("drop_skipped_tasks"))
    ev = {}
    for r in runs:
        for e in r["log"]:
            key = e[0] + (":" + e[1] if e[0] in ("task", "worker", "pool") else "")
            ev[key] = ev.get(key, 0) + 1
    return {"policies": pol, "world_features": shapes, "log_entries_by_kind": ev}


def nontrivial(run):
    """a run is non-trivial if at least two tasks ran and something other than a plain run happened"""
    starts = sum(1 for e in run["log"] if e[0] == "task" and e[1] == "start" and e[5] != "ERR")
    other = any((e[0] == "task" and e[1] in ("cancel", "unschedule")) or (e[0] == "pool" and not e[4]) for e in run["log"])
    overlap = any(e[0] == "step" and len(e[4]) >= 2 for e in run["log"])
    return starts >= 2 and (other or overlap)


def run_sim_property(ctx, props_files, monitor, what, deps=(), machine=True):
    ctx.fingerprint(simcommon.SIM_FILES)
    ctx.translate(["Task", "Event", "TaskGraph"])
    ok = True
    for pf in props_files:
        ok = ctx.build(pf, deps=["Model/Sim.v"] + list(deps)) and ok
    worlds, runs = simcommon.cached_runs(ctx)
    ctx.rules.append("S-sim: generated worlds (1-2 pools x 1-2 workers x 1-3 resource names; 1-3 job graphs from 11 shapes "
                     "incl. conditionals; 1-3 strategies; runtimes from {1,2,3,5,10,50}; fixed/periodic/poisson/gamma releases; "
                     "EDF/FIFO/LSF; frequency/delay/variance/timeout/worker-free/drop-skipped/enforce flags) run by the REAL "
                     "simulator; distinct = distinct call log; non-trivial = >= 2 tasks started and a cancellation, skip, "
                     "refused placement or two tasks running at once")
    seen = set()
    nt = 0
    for r in runs:
        h = hash(json.dumps(r["log"]))
        if h in seen:
            continue
        seen.add(h)
        nt += nontrivial(r)
    ctx.cov["distinct_nontrivial"] += nt
    ctx.cov.setdefault("input_distribution", {}).update(world_stats(worlds, runs))
    if runs and runs[0]["log"]:
        ctx.sample({"world_flags": worlds[0]["flags"], "first_log_entries": runs[0]["log"][1:9], "status": runs[0]["status"]})
    # a run that did not end normally is itself reported (C05 owns termination; here it breaks the tie)
    abnormal = [(i, r) for i, r in enumerate(runs) if r["status"] not in ("ended", "solver-licence-limit", "harness-timeout")]
    # 1. the property's own monitor on the implementation's logs: concrete failing inputs
    failures = []
    for i, (w, r) in enumerate(zip(worlds, runs)):
        if not r["log"]:
            continue
        msgs = monitor(r, w)
        if msgs:
            failures.append((i, msgs))
    ctx.cov["streams"]["S-sim:impl-monitor"] = {"cases": len(runs), "failing": len(failures)}
    for i, msgs in failures[:3]:
        ctx.violation("world%d" % i, {"stream": "S-sim monitor", "what": what, "failures": msgs[:5], "world": worlds[i],
                                      "run_status": runs[i]["status"]})
    if not machine:
        # a whole-simulation PART of a property whose theorems live on a unit-level model: the monitor above is the part;
        # the machine tie of these same runs is established by C01-C03
        return worlds, runs
    # 2. the tie: every call log must be accepted by the machine and end in the same state
    try:
        mism, fed = simcommon.machine_stream(ctx, worlds, runs)
    except core.ModelEvalError as e:
        ctx.broken.append({"kind": "correspondence", "name": "S-sim (machine does not evaluate)", "detail": str(e)[-500:]})
        mism, fed = [], 0
    for (i, mv, exp) in mism[:3]:
        rej = mv[0] if isinstance(mv, list) and mv else None
        detail = {"kind": "correspondence", "name": "S-sim: call log of world %d %s" %
                  (i, "rejected by the machine at entry %s" % rej[0] if rej else "accepted but final states differ"),
                  "detail": json.dumps({"model": mv, "implementation": exp})[:700]}
        ctx.broken.append(detail)
        if not failures:
            # keep the world so the disagreement can be replayed
            p = ctx.replay_path("tie_world%d" % i)
            json.dump({"world": worlds[i], "model": mv, "implementation": exp, "property": ctx.pid, "seed": ctx.seed,
                       "tier": ctx.tier}, open(p, "w"), indent=1, default=str)
    for i, r in abnormal[:3]:
        ctx.broken.append({"kind": "correspondence", "name": "S-sim: world %d did not end normally (%s)" % (i, r["status"]),
                           "detail": (r.get("error") or "")[:400]})
        if not failures:
            p = ctx.replay_path("abnormal_world%d" % i)
            json.dump({"world": worlds[i], "status": r["status"], "error": r.get("error"), "property": ctx.pid,
                       "seed": ctx.seed, "tier": ctx.tier}, open(p, "w"), indent=1, default=str)
    return worlds, runs
