"""Adapter for C19: runs the real ReleasePolicy / JobGraph / Workload / WorkloadLoader / WorkerLoader
of /repo on the payload's cases.  Random draws are RECORDED (numpy generator of the policy and
EventTime._rng are wrapped) and returned so that the model can be fed the same draws."""
import math
import os
import sys

import implutil

payload = implutil.begin()

from utils import EventTime  # noqa: E402

U = {0: EventTime.Unit.US, 1: EventTime.Unit.MS, 2: EventTime.Unit.S}
UC = {v: k for k, v in U.items()}
ERR = {"ValueError": 1, "ZeroDivisionError": 2, "NotImplementedError": 3, "AttributeError": 4, "KeyError": 5,
       "RuntimeError": 6, "TypeError": 7, "MemoryError": 8, "AssertionError": 10, "IndexError": 11}


def et(p):
    return EventTime(p[0], U[p[1]])


def vet(x):
    return [int(x.time), UC[x.unit]]


def fl_in(p):
    """[m, e] -> python float (exact: |m| < 2^53 by construction)."""
    return math.ldexp(p[0], p[1])


def fl_out(x):
    """python/numpy float -> canonical [odd mantissa, exponent]."""
    x = float(x)
    if x == 0.0:
        return [0, 0]
    n, d = x.as_integer_ratio()
    e = -(d.bit_length() - 1)
    while n % 2 == 0:
        n //= 2
        e += 1
    return [n, e]


def num_in(p):
    """['z', int] | ['f', [m, e]]"""
    return p[1] if p[0] == "z" else fl_in(p[1])


def guard(f):
    try:
        return [0, f()]
    except Exception as e:  # noqa: BLE001
        return [1, ERR.get(type(e).__name__, 99)]


class RecRng:
    """Wraps a numpy Generator: same draws, recorded."""

    def __init__(self, inner):
        self.inner = inner
        self.calls = []

    def poisson(self, lam, size=None):
        r = self.inner.poisson(lam, size)
        self.calls.append(["poisson", int(size), [int(x) for x in r]])
        return r

    def gamma(self, shape, scale=1.0, size=None):
        r = self.inner.gamma(shape, scale, size=size)
        self.calls.append(["gamma", int(size), [fl_out(x) for x in r]])
        return r


class RecUniform:
    """Wraps random.Random: records the value returned by every uniform() call."""

    def __init__(self, inner):
        self.inner = inner
        self.calls = []

    def uniform(self, a, b):
        r = self.inner.uniform(a, b)
        self.calls.append([fl_out(a), fl_out(b), fl_out(r)])
        return r

    def __getattr__(self, k):
        return getattr(self.inner, k)


def make_policy(p):
    from workload import JobGraph
    RP = JobGraph.ReleasePolicy
    k = p["type"]
    seed = p.get("seed", 0)
    if k == "periodic":
        pol = RP.periodic(period=et(p["period"]), start=et(p["start"]), rng_seed=seed)
    elif k == "fixed":
        pol = RP.fixed(period=et(p["period"]), num_invocations=p["n"], start=et(p["start"]), rng_seed=seed)
    elif k == "poisson":
        pol = RP.poisson(rate=num_in(p["rate"]), num_invocations=p["n"], start=et(p["start"]), rng_seed=seed)
    elif k == "gamma":
        pol = RP.gamma(rate=num_in(p["rate"]), coefficient=num_in(p["coef"]), num_invocations=p["n"],
                       start=et(p["start"]), rng_seed=seed)
    elif k == "fixed_gamma":
        pol = RP.fixed_gamma(variable_arrival_rate=num_in(p["rate"]), base_arrival_rate=num_in(p["base"]),
                             coefficient=num_in(p["coef"]), num_invocations=p["n"], start=et(p["start"]),
                             rng_seed=seed)
    elif k == "closed_loop":
        pol = RP.closed_loop(concurrency=p["conc"], num_invocations=p["n"], start=et(p["start"]))
    else:
        raise SystemExit("unknown policy %r" % k)
    pol._rng = RecRng(pol._rng)
    return pol


def release_times(cases):
    out = []
    for c in cases:
        try:
            pol = make_policy(c["policy"])
        except RuntimeError:
            out.append({"res": [1, 6], "draws": []})
            continue
        r = guard(lambda: [vet(x) for x in pol.get_release_times(et(c["completion"]))])
        out.append({"res": r, "draws": pol._rng.calls})
    return out


def float_ops(ops):
    out = []
    for o in ops:
        k = o[0]
        if k == "add":
            out.append(fl_out(fl_in(o[1]) + fl_in(o[2])))
        elif k == "ofz":
            out.append(fl_out(float(o[1])))
        elif k == "round":
            out.append(int(round(fl_in(o[1]))))
        elif k == "lt":
            out.append(int(fl_in(o[1]) < fl_in(o[2])))
        elif k == "fuzz":
            # EventTime.fuzz with the uniform draw forced to the given value
            class One:
                def uniform(self, a, b):
                    return fl_in(o[2])
            old = EventTime._rng
            x = EventTime(o[1], EventTime.Unit.US)
            EventTime._rng = One()
            try:
                out.append(int(x.fuzz((0, 0), (o[3], o[4])).time))
            finally:
                EventTime._rng = old
        else:
            raise SystemExit("unknown float op %r" % k)
    return out


res = {}
if "release_times" in payload:
    res["release_times"] = release_times(payload["release_times"])
if "float_ops" in payload:
    res["float_ops"] = float_ops(payload["float_ops"])
implutil.end(res)
