"""Adapter for C19: runs the real ReleasePolicy / JobGraph / Workload / WorkloadLoader / WorkerLoader
of /repo on the payload's cases.  Random draws are RECORDED (numpy generator of the policy and
EventTime._rng are wrapped) and returned so that the model can be fed the same draws."""
import math
import os
import sys

import implutil

payload = implutil.begin()

from utils import EventTime  # noqa: E402

U = {0: EventTime.Unit.US, 1: EventTime.Unit.MS, 2: EventTime.Unit.S}
UC = {v: k for k, v in U.items()}
ERR = {"ValueError": 1, "ZeroDivisionError": 2, "NotImplementedError": 3, "AttributeError": 4, "KeyError": 5,
       "RuntimeError": 6, "TypeError": 7, "MemoryError": 8, "AssertionError": 10, "IndexError": 11}


def et(p):
    return EventTime(p[0], U[p[1]])


def vet(x):
    return [int(x.time), UC[x.unit]]


def fl_in(p):
    """[m, e] -> python float (exact: |m| < 2^53 by construction)."""
    return math.ldexp(p[0], p[1])


def fl_out(x):
    """python/numpy float -> canonical [odd mantissa, exponent]."""
    x = float(x)
    if x == 0.0:
        return [0, 0]
    n, d = x.as_integer_ratio()
    e = -(d.bit_length() - 1)
    while n % 2 == 0:
        n //= 2
        e += 1
    return [n, e]


def num_in(p):
    """['z', int] | ['f', [m, e]]"""
    return p[1] if p[0] == "z" else fl_in(p[1])


def guard(f):
    try:
        return [0, f()]
    except Exception as e:  # noqa: BLE001
        return [1, ERR.get(type(e).__name__, 99)]


class RecRng:
    """Wraps a numpy Generator: same draws, recorded."""

    def __init__(self, inner):
        self.inner = inner
        self.calls = []

    def poisson(self, lam, size=None):
        r = self.inner.poisson(lam, size)
        self.calls.append(["poisson", int(size), [int(x) for x in r], [fl_out(lam)]])
        return r

    def gamma(self, shape, scale=1.0, size=None):
        r = self.inner.gamma(shape, scale, size=size)
        self.calls.append(["gamma", int(size), [fl_out(x) for x in r], [fl_out(shape), fl_out(scale)]])
        return r


class RecUniform:
    """Wraps random.Random: records the value returned by every uniform() call."""

    def __init__(self, inner):
        self.inner = inner
        self.calls = []

    def uniform(self, a, b):
        r = self.inner.uniform(a, b)
        self.calls.append([fl_out(a), fl_out(b), fl_out(r)])
        return r

    def __getattr__(self, k):
        return getattr(self.inner, k)


def make_policy(p):
    from workload import JobGraph
    RP = JobGraph.ReleasePolicy
    k = p["type"]
    seed = p.get("seed", 0)
    if k == "periodic":
        pol = RP.periodic(period=et(p["period"]), start=et(p["start"]), rng_seed=seed)
    elif k == "fixed":
        pol = RP.fixed(period=et(p["period"]), num_invocations=p["n"], start=et(p["start"]), rng_seed=seed)
    elif k == "poisson":
        pol = RP.poisson(rate=num_in(p["rate"]), num_invocations=p["n"], start=et(p["start"]), rng_seed=seed)
    elif k == "gamma":
        pol = RP.gamma(rate=num_in(p["rate"]), coefficient=num_in(p["coef"]), num_invocations=p["n"],
                       start=et(p["start"]), rng_seed=seed)
    elif k == "fixed_gamma":
        pol = RP.fixed_gamma(variable_arrival_rate=num_in(p["rate"]), base_arrival_rate=num_in(p["base"]),
                             coefficient=num_in(p["coef"]), num_invocations=p["n"], start=et(p["start"]),
                             rng_seed=seed)
    elif k == "closed_loop":
        pol = RP.closed_loop(concurrency=p["conc"], num_invocations=p["n"], start=et(p["start"]))
    else:
        raise SystemExit("unknown policy %r" % k)
    pol._rng = RecRng(pol._rng)
    return pol


def release_times(cases):
    out = []
    for c in cases:
        try:
            pol = make_policy(c["policy"])
        except RuntimeError:
            out.append({"res": [1, 6], "draws": []})
            continue
        r = guard(lambda: [vet(x) for x in pol.get_release_times(et(c["completion"]))])
        out.append({"res": r, "draws": pol._rng.calls})
    return out


def float_ops(ops):
    out = []
    for o in ops:
        k = o[0]
        if k == "add":
            out.append(fl_out(fl_in(o[1]) + fl_in(o[2])))
        elif k == "ofz":
            out.append(fl_out(float(o[1])))
        elif k == "round":
            out.append(int(round(fl_in(o[1]))))
        elif k == "lt":
            out.append(int(fl_in(o[1]) < fl_in(o[2])))
        elif k == "fuzz":
            # EventTime.fuzz with the uniform draw forced to the given value
            class One:
                def uniform(self, a, b):
                    return fl_in(o[2])
            old = EventTime._rng
            x = EventTime(o[1], EventTime.Unit.US)
            EventTime._rng = One()
            try:
                out.append(int(x.fuzz((0, 0), (o[3], o[4])).time))
            finally:
                EventTime._rng = old
        else:
            raise SystemExit("unknown float op %r" % k)
    return out



# --------------------------------------------------------------------------
# instantiation, closed loop, loaders
# --------------------------------------------------------------------------
import logging  # noqa: E402
import re  # noqa: E402
import types  # noqa: E402


def quiet_all():
    for name in ("Task", "Workload", "WorkloadLoader", "Resources", "WorkerLoader", "JobGraph"):
        implutil.quiet_logger(name)


UNI = None
NP_CALLS = []


def wrap_uniform():
    """Record every EventTime._rng.uniform() value."""
    global UNI
    EventTime(0, EventTime.Unit.US)        # makes sure the class-level rng exists
    if not isinstance(EventTime._rng, RecUniform):
        EventTime._rng = RecUniform(EventTime._rng)
    UNI = EventTime._rng
    UNI.calls = []


def wrap_policy_class():
    """Every ReleasePolicy created from now on records its numpy draws in NP_CALLS."""
    from workload import JobGraph
    RP = JobGraph.ReleasePolicy
    if getattr(RP, "_verif_wrapped", False):
        return
    orig = RP.__init__

    def init(self, *a, **k):
        orig(self, *a, **k)
        self._rng = RecRng(self._rng)
        self._rng.calls = NP_CALLS

    RP.__init__ = init
    RP._verif_wrapped = True


def obs_task_graphs(tgs, names):
    """[[index, [[name, release, deadline, prob, [children]]...]]...], all task ids distinct"""
    out = []
    ids = []
    for tg in tgs:
        tasks = []
        for t in tg.get_nodes():
            ids.append(t.id)
            tasks.append([names.index(t.name), vet(t.release_time), vet(t.deadline), fl_out(t.probability),
                          [names.index(c.name) for c in tg.get_children(t)]])
        out.append([int(tg.name.rsplit("@", 1)[1]), tasks])
    return [out, int(len(set(ids)) == len(ids))]


def build_job_graph(c, lg):
    from workload import (ExecutionStrategies, ExecutionStrategy, Job, JobGraph, Resource, Resources, WorkProfile)
    pol = make_policy(c["policy"])
    jg = JobGraph(name="G", release_policy=pol,
                  deadline_variance=None if c["variance"] is None else tuple(c["variance"]))
    jobs = []
    for k, j in enumerate(c["jobs"]):
        prof = None
        if j["runtimes"]:
            prof = WorkProfile(name="p%d" % k, execution_strategies=ExecutionStrategies(
                [ExecutionStrategy(resources=Resources({Resource("Slot", "any"): 1}, _logger=lg), batch_size=1,
                                   runtime=et(r)) for r in j["runtimes"]]))
        kw = {}
        if j["slo"] is not None:
            kw["slo"] = et(j["slo"])
        job = Job(name=c["names"][j["name"]], profile=prof, conditional=j["cond"], probability=num_in(j["prob"]),
                  terminal=j["term"], **kw)
        jobs.append(job)
        jg.add_job(job)
    for a, b in c["edges"]:
        jg.add_child(jobs[a], jobs[b])
    return jg, pol


def ns_flags(f):
    return types.SimpleNamespace(
        min_deadline_variance=f["minv"], max_deadline_variance=f["maxv"], min_deadline=f["minb"],
        max_deadline=f["maxb"], use_branch_predicated_deadlines=f.get("bpd", False),
        resolve_conditionals_at_submission=False, decompose_deadlines=False, log_dir=None, log_file_name=None,
        log_level="error")


def instantiate(cases):
    quiet_all()
    lg = implutil.quiet_logger()
    out = []
    for c in cases:
        wrap_uniform()
        try:
            jg, pol = build_job_graph(c, lg)
        except RuntimeError:
            out.append({"res": [1, 6], "ct": [1, 6], "draws": [], "uniform": []})
            continue
        flags_ = None if c["flags"] is None else ns_flags(c["flags"])
        ct = guard(lambda: (lambda t: [] if t is None else vet(t))(jg.completion_time))
        meta = []

        def run():
            tgs = list(jg.generate_task_graphs(et(c["completion"]), _flags=flags_).values())
            for tg in tgs:     # what the property names as observation points: TaskGraph release time / deadline
                meta.append([int(tg.release_time.to(EventTime.Unit.US).time), int(tg.deadline.to(EventTime.Unit.US).time)])
            return obs_task_graphs(tgs, c["names"])
        r = guard(run)
        out.append({"res": r, "ct": ct, "tg_meta": meta, "draws": pol._rng.calls, "uniform": [u[2] for u in UNI.calls],
                    "uniform_args": [[u[0], u[1]] for u in UNI.calls]})
    return out


def closed_loop(cases):
    from workload import (ExecutionStrategies, ExecutionStrategy, Job, JobGraph, Resource, Resources, TaskGraph,
                          WorkProfile, Workload)
    quiet_all()
    lg = implutil.quiet_logger()
    out = []
    for c in cases:
        wrap_uniform()
        try:
            pol = JobGraph.ReleasePolicy.closed_loop(concurrency=c["conc"], num_invocations=c["n"],
                                                     start=EventTime(c.get("start", 0), EventTime.Unit.US))
        except RuntimeError:
            out.append({"init": [1, 6], "steps": []})
            continue
        jg = JobGraph(name="G", release_policy=pol, deadline_variance=(0, 0))
        prof = WorkProfile(name="p", execution_strategies=ExecutionStrategies(
            [ExecutionStrategy(resources=Resources({Resource("Slot", "any"): 1}, _logger=lg), batch_size=1,
                               runtime=EventTime(10, EventTime.Unit.US))]))
        a = Job(name="A", profile=prof)
        b = Job(name="B", profile=prof)
        jg.add_job(a)
        jg.add_job(b)
        jg.add_child(a, b)
        wl = Workload.from_job_graphs({"G": jg})
        wl.populate_task_graphs(EventTime(0, EventTime.Unit.US))
        init = sorted(int(n.rsplit("@", 1)[1]) for n in wl.task_graphs)
        steps = []
        now = 100
        for g in c["notify"]:
            tg = wl.get_task_graph("G@%d" % g)
            if tg is None:
                tg = TaskGraph(name="G@%d" % g, tasks={}, job_graph=jg)
            before = set(wl.task_graphs)
            now += 7
            try:
                rel = wl.notify_task_graph_completion(tg, EventTime(now, EventTime.Unit.US))
                new = [n for n in wl.task_graphs if n not in before]
                item = [0, [int(n.rsplit("@", 1)[1]) for n in new], int(jg._remaining_task_graphs)]
                # the new graph starts one microsecond after the reported completion, at its sources only
                ok_time = all(t.release_time == EventTime(now + 1, EventTime.Unit.US) for t in rel) and \
                    all(wl.get_task_graph(n).release_time == EventTime(now + 1, EventTime.Unit.US) for n in new) and \
                    (len(rel) == len(new))
                steps.append(item + [int(ok_time)])
            except Exception as e:  # noqa: BLE001
                steps.append([1, ERR.get(type(e).__name__, 99)])
        out.append({"init": [0, init, int(jg._remaining_task_graphs)], "steps": steps})
    return out


_FLAGS = None


def real_flags(argv):
    global _FLAGS
    if _FLAGS is None:
        sys.argv = ["verif"]
        import main  # noqa: F401  (defines the simulator's absl flags)
        from absl import flags
        _FLAGS = flags.FLAGS
    _FLAGS.unparse_flags()
    _FLAGS(["verif", "--log_level=error"] + list(argv))
    return _FLAGS


def split_name(name, table):
    if name in table:
        return [table.index(name), 0]
    m = re.match(r"^(.*)_(\d+)$", name)
    if m and m.group(1) in table:
        return [table.index(m.group(1)), int(m.group(2))]
    return [-1, -1]


def obs_resources(res, c):
    if res is None:
        return None
    out = []
    for r, q in res._resource_vector.items():
        rid = r.id
        out.append([c["rnames"].index(r.name), 0 if rid == "any" else (c["rids"].index(rid) + 1 if rid in c["rids"] else -1),
                    int(q)])
    return [out]


def obs_strategies(sts, c):
    return [[obs_resources(s.resources, c), int(s.batch_size), vet(s.runtime)] for s in sts]


def obs_policy(p):
    def f(x):
        return fl_out(x) if x is not None else [0, 0]
    return [p._policy_type.value, vet(p._period), int(p._fixed_invocation_nums), f(p._variable_arrival_rate),
            f(p._coefficient), int(p._concurrency), vet(p._start)]


def write_doc(doc, fmt, idx):
    import json
    import yaml
    path = os.path.join(os.getcwd(), "C19_doc_%d_%d.%s" % (os.getpid(), idx, fmt))
    with open(path, "w") as f:
        if fmt == "json":
            json.dump(doc, f)
        else:
            yaml.safe_dump(doc, f, sort_keys=False)
    return path


def loader(cases):
    from data import WorkloadLoader
    quiet_all()
    wrap_policy_class()
    out = []
    for idx, c in enumerate(cases):
        wrap_uniform()
        del NP_CALLS[:]
        path = write_doc(c["doc"], c["fmt"], idx)
        try:
            flags_ = None if c["flags"] is None else real_flags(c["flags"])

            def run():
                wl = WorkloadLoader(path, _flags=flags_).workload
                jgs = []
                tgs = []
                for name, jg in wl.job_graphs.items():
                    jobs = []
                    for j in jg.get_nodes():
                        pr = j.profile
                        if pr.name.endswith("_work_profile") and split_name(pr.name, c["pnames"])[0] < 0:
                            pobs = None
                        else:
                            pobs = [split_name(pr.name, c["pnames"]) + [obs_strategies(pr.execution_strategies, c),
                                                                       obs_strategies(pr.loading_strategies, c)]]
                        jobs.append([c["names"].index(j.name), vet(j.slo), int(j.conditional), int(j.terminal),
                                     fl_out(j.probability), pobs, [c["names"].index(x.name) for x in jg.get_children(j)]])
                    var = jg._deadline_variance
                    jgs.append(split_name(name, c["gnames"]) + [obs_policy(jg.release_policy),
                                                               [] if var is None else [int(var[0]), int(var[1])], jobs])
                    mine = [tg for tg in wl.task_graphs.values() if tg.job_graph is jg]
                    tgs.append(split_name(name, c["gnames"]) + [obs_task_graphs(mine, c["names"])])
                return [jgs, tgs]
            r = guard(run)
        finally:
            os.remove(path)
        out.append({"res": r, "draws": [list(x) for x in NP_CALLS], "uniform": [u[2] for u in UNI.calls]})
    return out


def worker_loader(cases):
    from data import WorkerLoader
    quiet_all()
    out = []
    for idx, c in enumerate(cases):
        path = write_doc(c["doc"], c["fmt"], idx)
        try:
            def run():
                pools = WorkerLoader(path).get_worker_pools().worker_pools
                res = []
                for p in pools:
                    ws = []
                    for w in p.workers:
                        ws.append([c["wnames"].index(w.name), obs_resources(w.resources, c)[0]])
                    res.append([c["pnames"].index(p.name), ws])
                return res
            r = guard(run)
        finally:
            os.remove(path)
        out.append({"res": r})
    return out


res = {}
if "release_times" in payload:
    res["release_times"] = release_times(payload["release_times"])
if "float_ops" in payload:
    res["float_ops"] = float_ops(payload["float_ops"])
if "instantiate" in payload:
    res["instantiate"] = instantiate(payload["instantiate"])
if "closed_loop" in payload:
    res["closed_loop"] = closed_loop(payload["closed_loop"])
if "loader" in payload:
    res["loader"] = loader(payload["loader"])
if "worker_loader" in payload:
    res["worker_loader"] = worker_loader(payload["worker_loader"])
implutil.end(res)
