"""Adapter for the TetriSched parts (C10/C11/C12/C14 _tetri): builds real Workload / WorkerPools
objects from a JSON description, runs the REAL TetriSchedGurobiScheduler / TetriSchedCPLEXScheduler
schedule(), and reports

  * the instance exactly as the scheduler's own `_add_variables` received it (tasks in the order
    of the variable map, states, strategies, parents present in the map, workers),
  * the live solver model captured by wrapping gurobipy.Model.optimize / docplex Model.solve
    (variables with bounds, linear rows, indicator and AND constraints, objective), after renaming
    the solver's descriptive names into structured keys,
  * the solver's values and the Placements returned by schedule().

stdout is reserved for the JSON answer.
"""
import re
import sys
import traceback
from fractions import Fraction

import implutil

payload = implutil.begin()

import logging  # noqa: E402

logging.disable(logging.CRITICAL)

from utils import EventTime  # noqa: E402
from workers import Worker, WorkerPool, WorkerPools  # noqa: E402
from workload import (ExecutionStrategies, ExecutionStrategy, Job, Placement, Resource, Resources,  # noqa: E402
                      Task, TaskGraph, TaskState, Workload, WorkProfile)

US = EventTime.Unit.US
LG = implutil.quiet_logger()


MIXED_UNITS = [False]


def ET(x):
    """x microseconds as an EventTime; in worlds flagged `units` a positive multiple of 1000 is expressed in ms (of 10^6
    in s), so that strategies, deadlines and placements of one world carry different units"""
    x = int(x)
    if MIXED_UNITS[0] and x > 0 and x % 10 ** 6 == 0:
        return EventTime(x // 10 ** 6, EventTime.Unit.S)
    if MIXED_UNITS[0] and x > 0 and x % 1000 == 0:
        return EventTime(x // 1000, EventTime.Unit.MS)
    return EventTime(x, US)


class Unsupported(Exception):
    pass


# --------------------------------------------------------------------------
# building the world
# --------------------------------------------------------------------------
def build_world(d):
    """d: see harness/props/c10_tetri.py:gen_world.  Returns (workload, worker_pools, info)."""
    res_names = d["resources"]
    MIXED_UNITS[0] = bool(d.get("units"))
    pools = []
    widx = {}
    workers = []
    for pi, p in enumerate(d["pools"]):
        ws = []
        for w in p:
            wk = Worker(name=w["name"], resources=Resources(
                resource_vector={Resource(name=e[0], _id=(e[2] if len(e) > 2 else "any")): e[1] for e in w["res"]},
                _logger=LG), _logger=LG)
            ws.append(wk)
            workers.append(wk)
            widx[w["name"]] = wk
        pools.append(WorkerPool(name="P%d" % pi, workers=ws, _logger=LG))
    wps = WorkerPools(worker_pools=pools)
    pool_of = {}
    for p in pools:
        for w in p.workers:
            pool_of[w.id] = p
    graphs = {}
    tasks = {}
    for g in d["graphs"]:
        tl = {}
        for t in g["tasks"]:
            strategies = ExecutionStrategies(strategies=[
                ExecutionStrategy(resources=Resources(resource_vector={Resource(name=r, _id="any"): q for r, q in req},
                                                      _logger=LG),
                                  batch_size=1, runtime=ET(rt)) for rt, req in t["strats"]])
            tk = Task(name=t["name"], task_graph=g["name"], job=Job(name=t["name"], profile=None),
                      deadline=ET(t["deadline"]),
                      profile=WorkProfile(name=t["name"] + "_p", execution_strategies=strategies),
                      timestamp=0, release_time=ET(t.get("release", -1)), _logger=LG)
            tl[t["name"]] = tk
            tasks[t["name"] + "@" + g["name"]] = (tk, t)
        tg = TaskGraph(name=g["name"], tasks={tl[t["name"]]: [tl[c] for c in t["children"]] for t in g["tasks"]})
        graphs[g["name"]] = tg
    workload = Workload.from_task_graphs(graphs, _flags=None) if _accepts_flags(Workload.from_task_graphs) \
        else Workload.from_task_graphs(graphs)
    # states
    for un, (tk, t) in tasks.items():
        st = t["state"]
        if st == "virtual":
            continue
        tk.release(ET(t["release"]))
        if st == "released":
            continue
        pl = t["place"]
        wk = widx[pl["worker"]]
        strat = tk.available_execution_strategies[pl["strat"]]
        placement = Placement.create_task_placement(task=tk, placement_time=ET(pl["start"]),
                                                    worker_pool_id=pool_of[wk.id].id, worker_id=wk.id,
                                                    execution_strategy=strat)
        tk.schedule(ET(pl["sched_at"]), placement)
        if st == "scheduled":
            continue
        tk.start(ET(pl["start"]))
        if st == "running":
            wk.place_task(tk, strat)
            tk.update_remaining_time(ET(pl["remaining"]))
            continue
        if st == "completed":
            tk.update_remaining_time(ET(0))
            tk.finish(ET(pl["start"] + strat.runtime.to(US).time))
            continue
        raise SystemExit("unknown state %r" % st)
    return workload, wps, {"workers": workers, "tasks": tasks, "res_names": res_names}


def _accepts_flags(f):
    import inspect
    try:
        return "_flags" in inspect.signature(f).parameters
    except (TypeError, ValueError):
        return False


# --------------------------------------------------------------------------
# the instance as the scheduler sees it (arguments of its own _add_variables)
# --------------------------------------------------------------------------
def rvec(resources_items, res_names):
    out = []
    for r, q in resources_items:
        if r.id != "any":
            raise Unsupported("resource with a specific id")
        out.append([res_names.index(r.name), int(q)])
    return out


def rvec_by_name(resources_items, res_names):
    """A worker's vector summarised by resource NAME (entries with distinct ids of one name add up): the worker's true
    capacity of a resource type, computed here and NOT through Resources.get_unique_resource_types()."""
    acc = {}
    for r, q in resources_items:
        acc[r.name] = acc.get(r.name, 0) + int(q)
    return [[res_names.index(n), q] for n, q in acc.items()]


def extract_instance(sched, flavour, sim_time, tasks, workers, workload, res_names, true_now):
    tl = list(dict((t.unique_name, t) for t in tasks).values())      # the variable map is keyed by unique_name
    if len(tl) != len(tasks):
        raise Unsupported("a task was offered twice")
    names = [t.unique_name for t in tl]
    widx_of = {w.id: i for i, w in workers.items()}
    out_tasks = []
    for t in tl:
        strats = [[s.runtime.to(US).time, rvec(s.resources._resource_vector.items(), res_names)]
                  for s in t.available_execution_strategies]
        if any(s.batch_size != 1 for s in t.available_execution_strategies):
            raise Unsupported("batch size")
        if t.state == TaskState.RUNNING:
            cs = t.current_placement.execution_strategy
            state = ["running", widx_of[t.current_placement.worker_id],
                     [cs.runtime.to(US).time, rvec(cs.resources._resource_vector.items(), res_names)],
                     t.remaining_time.to(US).time]
        elif t.state == TaskState.SCHEDULED:
            state = ["scheduled", t.remaining_time.to(US).time]
        else:
            state = ["free"]
        tg = workload.get_task_graph(t.task_graph)
        parents = set(tg.get_parents(t))
        out_tasks.append({
            "name": t.unique_name, "state": state,
            "release": t.release_time.to(US).time, "deadline": t.deadline.to(US).time, "strats": strats,
            "parents": [i for i, p in enumerate(tl) if p in parents], "nparents": len(parents),
            "sink": bool(tg.is_sink_task(t)),
        })
    out_workers = []
    for i, w in workers.items():
        out_workers.append({"idx": i, "total": rvec_by_name(w.resources.resources, res_names),
                            "avail": rvec_by_name(w.resources._resource_vector.items(), res_names),
                            "entries": len(list(w.resources.resources))})
    pa = sched._plan_ahead
    # `now` is the time the harness invoked schedule() at, NOT the time the scheduler passes on internally
    return {"flavour": flavour, "now": int(true_now), "impl_now": sim_time.to(US).time,
            "plan_ahead": -1 if pa == EventTime(-1, US) else pa.to(US).time,
            "disc": sched._time_discretization.to(US).time, "enforce": bool(sched.enforce_deadlines),
            "retract": bool(sched.retract_schedules), "release_tg": bool(sched.release_taskgraphs),
            "tasks": out_tasks, "workers": out_workers, "names": names}


# --------------------------------------------------------------------------
# renaming of the solver's names into structured keys (same encoding as TetriModel.v_var / v_rname)
# --------------------------------------------------------------------------
class Namer:
    def __init__(self, inst, sid_of):
        self.names = inst["names"]
        self.order = sorted(range(len(self.names)), key=lambda i: -len(self.names[i]))
        self.sid_of = sid_of          # (task index, strategy uuid) -> strategy index
        self.res_names = None

    def split(self, s):
        for i in self.order:
            n = self.names[i]
            if s.startswith(n + "_"):
                return i, s[len(n) + 1:]
        return None, s

    def var(self, name):
        i, rest = self.split(name)
        if i is None:
            raise Unsupported("variable name %r" % name)
        m = re.fullmatch(r"placed_at_Worker_(\d+)_on_Time_(-?\d+)_with_strategy_(.+)", rest)
        if m:
            return [0, i, int(m.group(1)), int(m.group(2)), self.sid_of[(i, m.group(3))]]
        for k, pat in ((1, r"placed_at_time_(-?\d+)"), (2, r"not_placed_at_time_(-?\d+)"),
                       (3, r"phase_shift_at_time_(-?\d+)")):
            m = re.fullmatch(pat, rest)
            if m:
                return [k, i, int(m.group(1))]
        for k, lit in ((4, "start_time"), (5, "is_placed"), (6, "all_parents_placed"), (7, "reward")):
            if rest == lit:
                return [k, i]
        raise Unsupported("variable name %r" % name)

    def row(self, name, res_names):
        m = re.fullmatch(r"(.+)_utilization_Worker_(\d+)_at_Time_(-?\d+)", name)
        if m and m.group(1) in res_names:
            return [12, res_names.index(m.group(1)), int(m.group(2)), int(m.group(3))]
        i, rest = self.split(name)
        if i is None:
            raise Unsupported("row name %r" % name)
        for k, pat in ((0, r"placed_at_time_(-?\d+)_constraint"), (1, r"not_placed_at_time_(-?\d+)_constraint"),
                       (2, r"phase_shift_at_time_(-?\d+)_constraint"), (3, r"start_at_(-?\d+)_indicator")):
            m = re.fullmatch(pat, rest)
            if m:
                return [k, i, int(m.group(1))]
        for k, lit in ((4, "previously_scheduled_required_worker_placement"), (5, "consistent_worker_placement"),
                       (6, "is_placed_constraint"), (9, "parents_placed_False"), (10, "parents_placed_True"),
                       (11, "placement_False"), (13, "reward_constraint")):
            if rest == lit:
                return [k, i]
        m = re.fullmatch(r"start_after_running_task_(.+)_remaining_time_(-?\d+)", rest)
        if m and m.group(1) in self.names:
            return [7, i, self.names.index(m.group(1)), int(m.group(2))]
        m = re.fullmatch(r"start_after_(.+)", rest)
        if m and m.group(1) in self.names:
            return [8, i, self.names.index(m.group(1))]
        raise Unsupported("row name %r" % name)


def as_int(x, what):
    r = round(x)
    if abs(x - r) > 1e-9:
        raise Unsupported("non-integral %s %r" % (what, x))
    return int(r)


def scaled_int(x, den, what):
    """x is a rational with denominator dividing `den` computed in floating point: return x*den exactly."""
    f = Fraction(x).limit_denominator(10 ** 6) * den
    if f.denominator != 1 or abs(float(f) / den - x) > 1e-9:
        raise Unsupported("%s %r is not a multiple of 1/%d" % (what, x, den))
    return int(f)


def reward_den(inst):
    """Common denominator of the live objective coefficients (canonicalisation of floats only): computed from the time the
    IMPLEMENTATION planned from; the model computes its own from the true invocation time and the two are compared."""
    h = inst["plan_ahead"]
    if h == -1:
        for t in inst["tasks"]:
            if t["deadline"] > h:
                h = t["deadline"]
    now = inst.get("impl_now", inst["now"])
    sl = list(range(now, now + h + 1, inst["disc"]))
    d = (sl[-1] - sl[0]) if sl else 0
    return d if d != 0 else 1


def sort_terms(terms):
    return sorted(terms, key=lambda t: t[0])


SENSE = {"<": 0, "=": 1, ">": 2}


class RowNames:
    """Row names the renaming does not know are kept (key [99, n]) and reported; they must never stop the capture of the
    solver's values or the adversarial probes."""

    def __init__(self, namer, res_names):
        self.namer, self.res_names, self.unknown = namer, res_names, []

    def __call__(self, name):
        try:
            return self.namer.row(name, self.res_names)
        except Unsupported:
            self.unknown.append(str(name))
            return [99, len(self.unknown)]


def dump_gurobi(model, namer, res_names, den):
    rown = RowNames(namer, res_names)
    import gurobipy as gp
    from gurobipy import GRB
    model.update()
    vs = []
    for v in model.getVars():
        ty = {"B": 0, "I": 1, "C": 2}[v.VType]
        ub = [] if v.UB >= 1e29 else [as_int(v.UB, "bound")]
        vs.append([namer.var(v.VarName), ty, as_int(v.LB, "bound"), ub])
    rows = []

    def lin(e):
        return sort_terms([[namer.var(e.getVar(i).VarName), as_int(e.getCoeff(i), "coefficient")]
                           for i in range(e.size())])
    for c in model.getConstrs():
        r = model.getRow(c)
        rows.append([0, rown(c.ConstrName), lin(r), SENSE[c.Sense], as_int(c.RHS - r.getConstant(), "rhs")])
    for g in model.getGenConstrs():
        if g.GenConstrType == GRB.GENCONSTR_INDICATOR:
            b, bv, e, s, rhs = model.getGenConstrIndicator(g)
            rows.append([1, rown(g.GenConstrName), namer.var(b.VarName), int(bv), lin(e), SENSE[s],
                         as_int(rhs - e.getConstant(), "rhs")])
        elif g.GenConstrType == GRB.GENCONSTR_AND:
            r, ops = model.getGenConstrAnd(g)
            rows.append([2, rown(g.GenConstrName), namer.var(r.VarName), [namer.var(o.VarName) for o in ops]])
        else:
            raise Unsupported("general constraint of type %s" % g.GenConstrType)
    if model.NumQConstrs or model.NumSOS or model.IsQP:
        raise Unsupported("quadratic / SOS parts")
    if model.ModelSense != GRB.MAXIMIZE:
        raise Unsupported("not a maximisation")
    o = model.getObjective()
    obj = sort_terms([[namer.var(o.getVar(i).VarName), scaled_int(o.getCoeff(i), den, "objective coefficient")]
                      for i in range(o.size())])
    obj = [t for t in obj if t[1] != 0]
    return {"vars": vs, "rows": rows, "obj": obj, "den": den, "obj_const": o.getConstant(), "unknown_rows": rown.unknown}


def dump_cplex(model, namer, res_names, den):
    rown = RowNames(namer, res_names)
    from docplex.mp.constants import ComparisonType
    vs = []
    for v in model.iter_variables():
        ty = {"B": 0, "I": 1, "C": 2}[v.vartype.cplex_typecode]
        key = namer.var(v.name)
        scale = den if key[0] == 7 else 1
        ub = [] if v.ub >= 1e19 else [as_int(v.ub * scale, "bound")]
        vs.append([key, ty, as_int(v.lb * scale, "bound"), ub])
    rows = []
    for ct in model.iter_constraints():
        if not hasattr(ct, "lhs") or not hasattr(ct.lhs, "iter_terms"):
            raise Unsupported("constraint of type %s" % type(ct).__name__)
        name = rown(ct.name)
        acc = {}
        for side, sign in ((ct.lhs, 1), (ct.rhs, -1)):
            for v, c in side.iter_terms():
                k = tuple(namer.var(v.name))
                acc[k] = acc.get(k, 0) + sign * c
        const = ct.rhs.get_constant() - ct.lhs.get_constant()
        if name[0] == 13:
            # reward row: reward == sum(num/den * cell); compared after multiplying by den, with the
            # reward variable counted in units of 1/den
            terms = []
            for k, c in acc.items():
                terms.append([list(k), as_int(c, "coefficient") if k[0] == 7 else scaled_int(c, den, "reward coefficient")])
            const = scaled_int(const, den, "rhs")
        else:
            terms = [[list(k), as_int(c, "coefficient")] for k, c in acc.items()]
            const = as_int(const, "rhs")
        terms = [t for t in terms if t[1] != 0]
        sense = {ComparisonType.LE: 0, ComparisonType.EQ: 1, ComparisonType.GE: 2}[ct.sense]
        rows.append([0, name, sort_terms(terms), sense, const])
    if not model.is_maximized():
        raise Unsupported("not a maximisation")
    o = model.objective_expr
    obj = sort_terms([[namer.var(v.name), as_int(c, "objective coefficient")] for v, c in o.iter_terms()])
    return {"vars": vs, "rows": rows, "obj": obj, "den": den, "obj_const": o.get_constant(), "unknown_rows": rown.unknown}



# --------------------------------------------------------------------------
# adversarial probing: the SAME live constraint system, re-optimised under objectives aimed at the negation of
# each property; every assignment found is handed to the monitors by the harness (independent of the Coq model)
# --------------------------------------------------------------------------
class GurobiProbe:
    def __init__(self, model, namer, optimize):
        import gurobipy as gp
        self.gp = gp
        self.optimize = optimize       # the UNWRAPPED gurobipy.Model.optimize
        self.model = model
        self.names = {tuple(namer.var(v.VarName)): v.VarName for v in model.getVars()}
        self.objval = model.ObjVal if model.SolCount > 0 else None

    def solve(self, obj_terms, maximize, extra, keep_optimal=False):
        gp = self.gp
        m = self.model.copy()
        m.Params.OutputFlag = 0
        m.Params.Threads = 1
        m.Params.MIPGap = 0
        m.Params.TimeLimit = 10
        gv = {k: m.getVarByName(n) for k, n in self.names.items()}
        if keep_optimal and self.objval is not None:
            m.addConstr(m.getObjective() >= self.objval - 1e-6)
        for terms, sense, rhs in extra:
            e = gp.quicksum(c * gv[k] for c, k in terms)
            m.addConstr(e == rhs if sense == "=" else (e <= rhs if sense == "<" else e >= rhs))
        m.setObjective(gp.quicksum(c * gv[k] for c, k in obj_terms), gp.GRB.MAXIMIZE if maximize else gp.GRB.MINIMIZE)
        self.optimize(m)
        if m.SolCount == 0:
            return None
        return m.ObjVal, [[list(k), int(round(v.X))] for k, v in gv.items() if abs(v.X) > 1e-6 and k[0] != 7]


class CplexProbe:
    def __init__(self, model, namer, sol, solve):
        self.model = model
        self.solve_fn = solve          # the UNWRAPPED docplex Model.solve
        self.names = {tuple(namer.var(v.name)): v.name for v in model.iter_variables()}
        self.objval = sol.objective_value if sol else None

    def solve(self, obj_terms, maximize, extra, keep_optimal=False):
        m = self.model.clone()
        try:
            m.context.cplex_parameters.threads = 1
            m.parameters.mip.tolerances.mipgap = 0
            m.parameters.timelimit = 10
            gv = {k: m.get_var_by_name(n) for k, n in self.names.items()}
            if keep_optimal and self.objval is not None:
                m.add_constraint(m.objective_expr >= self.objval - 1e-6)
            for terms, sense, rhs in extra:
                e = m.sum(c * gv[k] for c, k in terms)
                m.add_constraint(e == rhs if sense == "=" else (e <= rhs if sense == "<" else e >= rhs))
            m.set_objective("max" if maximize else "min", m.sum(c * gv[k] for c, k in obj_terms))
            sol = self.solve_fn(m)
            if not sol:
                return None
            return sol.objective_value, [[list(k), int(round(sol.get_value(v)))] for k, v in gv.items()
                                         if abs(sol.get_value(v)) > 1e-6 and k[0] != 7]
        finally:
            m.end()


def run_probes(pr, inst, spec):
    """spec: {"kinds": [...], "max": n, "seed": s}.  Returns a list of {"kind", "desc", "obj", "values"}."""
    import random
    rng = random.Random(spec.get("seed", 0))
    nmax = int(spec.get("max", 3))
    tasks = inst["tasks"]
    cells = sorted(k for k in pr.names if k[0] == 0)
    by_task = {}
    for k in cells:
        by_task.setdefault(k[1], []).append(k)
    out = []

    def add(kind, desc, r):
        if r is not None:
            out.append({"kind": kind, "desc": desc, "obj": float(r[0]), "values": r[1]})
    for kind in spec.get("kinds", []):
        if kind == "c11" and inst["flavour"] == "gurobi":
            pairs = [(i, q) for i, t in enumerate(tasks) for q in t["parents"]
                     if t["state"][0] != "running" and i in by_task and (4, i) in pr.names]
            rng.shuffle(pairs)

            def preferred(pq):      # parents SCHEDULED earlier whose remaining time differs from their slowest runtime first
                st = tasks[pq[1]]["state"]
                return 0 if (st[0] == "scheduled" and len(st) > 1
                             and st[1] != max(x[0] for x in tasks[pq[1]]["strats"])) else 1
            pairs.sort(key=preferred)
            for i, q in pairs[:int(spec.get("max_pairs", nmax))]:
                placed = [([(1, k) for k in by_task[i]], "=", 1)]
                if tasks[q]["state"][0] == "running":
                    add(kind, "minimise start of %s (running parent %s)" % (tasks[i]["name"], tasks[q]["name"]),
                        pr.solve([(1, (4, i))], False, placed))
                elif (4, q) in pr.names:
                    obj = [(1, (4, i)), (-1, (4, q))] + [(-tasks[q]["strats"][k[4]][0], k) for k in by_task.get(q, [])]
                    add(kind, "minimise start(%s) - start(%s) - chosen runtime of the parent" % (tasks[i]["name"], tasks[q]["name"]),
                        pr.solve(obj, False, placed))
        elif kind == "c10" and cells:
            for _ in range(nmax):
                k0 = rng.choice(cells)
                s0 = tasks[k0[1]]["strats"][k0[4]]
                reqs = [r for r, q in s0[1] if q > 0]
                if not reqs or s0[0] <= 0:
                    continue
                r = rng.choice(reqs)
                tau = rng.randint(k0[3], k0[3] + s0[0] - 1)
                obj = []
                for k in cells:
                    st = tasks[k[1]]["strats"][k[4]]
                    q = dict(st[1]).get(r, 0)
                    if k[2] == k0[2] and q > 0 and k[3] <= tau < k[3] + st[0]:
                        obj.append((q, k))
                add(kind, "maximise the load of worker %d, resource %d at instant %d" % (k0[2], r, tau), pr.solve(obj, True, []))
        elif kind == "c12" and inst["enforce"]:
            cand = [i for i in by_task]
            rng.shuffle(cand)
            for i in cand[:nmax]:
                obj = [(k[3] + tasks[i]["strats"][k[4]][0] - tasks[i]["deadline"], k) for k in by_task[i]]
                add(kind, "maximise the lateness of %s" % tasks[i]["name"],
                    pr.solve(obj, True, [([(1, k) for k in by_task[i]], "=", 1)]))
        elif kind == "c14" and cells and pr.objval is not None:
            add(kind, "fewest placements among the optimal assignments", pr.solve([(1, k) for k in cells], False, [], keep_optimal=True))
            if nmax > 1 and len(by_task) > 1:
                i = rng.choice(sorted(by_task))
                add(kind, "optimal assignment avoiding %s if possible" % tasks[i]["name"],
                    pr.solve([(1, k) for k in by_task[i]], False, [], keep_optimal=True))
    return out

# --------------------------------------------------------------------------
def run_case(d, probe=None):
    workload, wps, info = build_world(d)
    res_names = info["res_names"]
    cfg = d["cfg"]
    flavour = cfg["flavour"]
    kw = dict(runtime=EventTime.zero(), enforce_deadlines=cfg["enforce"], retract_schedules=cfg["retract"],
              time_discretization=ET(cfg["disc"]), plan_ahead=ET(cfg["plan_ahead"]), _flags=None)
    cap = {"calls": 0}
    if flavour == "gurobi":
        import gurobipy as gp
        from schedulers import tetrisched_gurobi_scheduler as mod
        sched = mod.TetriSchedGurobiScheduler(release_taskgraphs=cfg["release_tg"], **kw)
    else:
        from schedulers import tetrisched_cplex_scheduler as mod
        sched = mod.TetriSchedCPLEXScheduler(**kw)
    sched._logger = LG
    sim_time = ET(d["now"])
    cls = type(sched)
    orig_add = cls._add_variables

    def add_variables(self, sim_time, optimizer, tasks_to_be_scheduled, workers):
        cap["calls"] += 1
        try:
            cap["inst"] = extract_instance(self, flavour, sim_time, list(tasks_to_be_scheduled), workers, workload, res_names,
                                           d["now"])
            cap["task_objs"] = list(dict((t.unique_name, t) for t in tasks_to_be_scheduled).values())
            cap["workers"] = dict(workers)
        except Unsupported as e:
            cap["unsupported"] = str(e)
        return orig_add(self, sim_time=sim_time, optimizer=optimizer, tasks_to_be_scheduled=tasks_to_be_scheduled,
                        workers=workers)

    def make_namer():
        inst = cap["inst"]
        sid = {}
        for i, t in enumerate(cap["task_objs"]):
            for j, s in enumerate(t.available_execution_strategies):
                sid[(i, s.id)] = j
        return Namer(inst, sid)

    cls._add_variables = add_variables
    restore = []
    if flavour == "gurobi":
        orig_opt = gp.Model.optimize

        def optimize(model, *a, **k):
            if "inst" in cap and "unsupported" not in cap:
                try:
                    cap["dump"] = dump_gurobi(model, make_namer(), res_names, reward_den(cap["inst"]))
                except Exception as e:      # the canonicalisation failed: reported, but values and probes are still captured
                    cap["dump_error"] = "%s: %s" % (type(e).__name__, str(e)[:300])
            model.Params.Threads = 1
            model.Params.Seed = 1
            r = orig_opt(model, *a, **k)
            if "inst" in cap and "unsupported" not in cap:
                nm = make_namer()
                cap["status"] = int(model.Status)
                try:
                    if model.SolCount > 0:
                        cap["values"] = [[nm.var(v.VarName), as_int(v.X, "value")] for v in model.getVars()
                                         if abs(v.X) > 1e-9]
                        cap["objbound"] = float(model.ObjBound)
                        cap["objval"] = scaled_int(model.ObjVal - model.getObjective().getConstant(),
                                                   reward_den(cap["inst"]), "objective value")
                except Exception as e:
                    cap["values_error"] = "%s: %s" % (type(e).__name__, str(e)[:300])
                if probe:
                    try:
                        cap["probes"] = run_probes(GurobiProbe(model, nm, orig_opt), cap["inst"], probe)
                    except Exception as e:      # probing must never disturb the run of the real scheduler
                        cap["probe_error"] = "%s: %s" % (type(e).__name__, str(e)[:300])
            return r
        gp.Model.optimize = optimize
        restore.append(lambda: setattr(gp.Model, "optimize", orig_opt))
    else:
        import docplex.mp.model as cpx
        orig_solve = cpx.Model.solve

        def solve(model, *a, **k):
            if "inst" in cap and "unsupported" not in cap:
                try:
                    cap["dump"] = dump_cplex(model, make_namer(), res_names, reward_den(cap["inst"]))
                except Exception as e:
                    cap["dump_error"] = "%s: %s" % (type(e).__name__, str(e)[:300])
            model.context.cplex_parameters.threads = 1
            model.context.cplex_parameters.randomseed = 1
            sol = orig_solve(model, *a, **k)
            if "inst" in cap and "unsupported" not in cap and sol:
                nm = make_namer()
                den = reward_den(cap["inst"])
                cap["status"] = 2
                try:
                    vals = []
                    for v in model.iter_variables():
                        x = sol.get_value(v)
                        key = nm.var(v.name)
                        if abs(x) > 1e-9:
                            vals.append([key, scaled_int(x, den, "value") if key[0] == 7 else as_int(x, "value")])
                    cap["values"] = vals
                    cap["objval"] = scaled_int(sol.objective_value - model.objective_expr.get_constant(), den, "objective value")
                except Exception as e:
                    cap["values_error"] = "%s: %s" % (type(e).__name__, str(e)[:300])
                if probe:
                    try:
                        cap["probes"] = run_probes(CplexProbe(model, nm, sol, orig_solve), cap["inst"], probe)
                    except Exception as e:
                        cap["probe_error"] = "%s: %s" % (type(e).__name__, str(e)[:300])
            elif "inst" in cap and "unsupported" not in cap:
                cap["status"] = 3
            return sol
        cpx.Model.solve = solve
        restore.append(lambda: setattr(cpx.Model, "solve", orig_solve))
    out = {}
    try:
        before = world_state(info, wps)
        try:
            placements = sched.schedule(sim_time, workload, wps)
            out["error"] = None
        except Unsupported as e:
            out["unsupported"] = str(e)
            return out
        except Exception as e:      # the scheduler itself raised
            out["error"] = "%s: %s" % (type(e).__name__, str(e)[:300])
            out["traceback"] = traceback.format_exc()[-1500:]
            placements = None
        after = world_state(info, wps)
        out["state_unchanged"] = before == after
        if before != after:
            out["state_diff"] = [b for b, a in zip(before, after) if a != b][:4]
    finally:
        cls._add_variables = orig_add
        for r in restore:
            r()
    out["model_built"] = cap["calls"]
    for k in ("inst", "dump", "values", "objval", "status", "unsupported", "objbound", "probes", "probe_error", "dump_error",
              "values_error"):
        if k in cap:
            out[k] = cap[k]
    if placements is not None:
        widx_of = {w.id: i for i, w in cap.get("workers", {}).items()} if "workers" in cap else \
            {w.id: i + 1 for i, w in enumerate(info["workers"])}
        pls = []
        for p in placements:
            t = p.task
            ent = {"task": t.unique_name, "type": p.placement_type.name, "placed": bool(p.is_placed())}
            if p.placement_type.name == "PLACE_TASK" and p.is_placed():
                ent["worker"] = widx_of.get(p.worker_id, -1)
                ent["pool_ok"] = bool(p.worker_pool_id is not None and any(
                    pool.id == p.worker_pool_id and any(w.id == p.worker_id for w in pool.workers)
                    for pool in wps.worker_pools))
                ent["start"] = p.placement_time.to(US).time
                ent["strat"] = next((j for j, s in enumerate(t.available_execution_strategies)
                                     if s is p.execution_strategy), -1)
            pls.append(ent)
        out["placements"] = pls
        out["offered_states"] = {un: tk.state.name for un, (tk, _) in info["tasks"].items()}
    return out


def world_state(info, wps):
    """Everything a scheduler could have disturbed: task states/placements and worker occupancy."""
    st = []
    for un, (tk, _) in sorted(info["tasks"].items()):
        cp = tk.current_placement
        st.append([un, tk.state.name, tk.remaining_time.to(US).time, tk.release_time.to(US).time,
                   tk.deadline.to(US).time,
                   None if cp is None else [str(cp.worker_id), None if cp.placement_time is None else cp.placement_time.to(US).time]])
    for w in info["workers"]:
        st.append([w.name, sorted((r.name, q) for r, q in w.resources._resource_vector.items()),
                   sorted(t.unique_name for t in w.get_placed_tasks())])
    return st


results = []
for case in payload["cases"]:
    try:
        results.append(run_case(case, payload.get("probe")))
    except Unsupported as e:
        results.append({"unsupported": str(e)})
implutil.end({"results": results})
