"""Adapter S-sim: runs whole simulations of /repo in process (through main.main) and records
the call log the monitors and the abstract machine read.  Nothing in /repo is edited: all
observation is done by class-level wrappers and logging handlers installed here.

payload: {"worlds": [world, ...]}   world: see harness/simgen.py
answer:  {"runs": [{"status", "error", "log", "rows"}]}
"""
import logging
import os
import signal
import sys
import tempfile
import traceback

import implutil

payload = implutil.begin()

import utils  # noqa: E402

ROWS = []
LOG = []


class Cap(logging.Handler):
    def emit(self, record):
        try:
            ROWS.append([record.name, record.getMessage()])
        except Exception:          # never let logging break the run
            ROWS.append([record.name, "<unformattable>"])


CAP = Cap()


def quiet_setup_logging(name, fmt=None, date_fmt=None, log_dir=None, log_file=None, log_level="debug"):
    lg = logging.getLogger(name)
    lg.propagate = False
    if name.endswith("_CSV"):
        lg.handlers = [CAP]
        lg.setLevel(logging.DEBUG)
    else:
        lg.handlers = [logging.NullHandler()]
        lg.setLevel(logging.ERROR)
    return lg


utils.setup_logging = quiet_setup_logging

import random  # noqa: E402
import yaml  # noqa: E402
from absl import flags  # noqa: E402
import main as erdos_main  # noqa: E402  (defines the flags)
import simulator as simmod  # noqa: E402
from simulator import Simulator, EventQueue, EventType  # noqa: E402
from utils import EventTime  # noqa: E402
from workload import Task, TaskGraph, Workload, TaskState  # noqa: E402
from workers import Worker, WorkerPool  # noqa: E402

FLAGS = flags.FLAGS
CUR = {"sim": None, "live_workers": {}, "live_pools": {}, "zero_steps": 0, "seen_graphs": set()}


class Livelock(Exception):
    pass


class WallClock(Exception):
    pass


def us(t):
    return None if t is None else t.to(EventTime.Unit.US).time


def un(task):
    return None if task is None else task.unique_name


def wrap(cls, name, fn):
    orig = getattr(cls, name)

    def w(self, *a, **k):
        return fn(orig, self, *a, **k)
    w.__name__ = name
    setattr(cls, name, w)


# ---------------------------------------------------------------- Task operations
def task_op(opname):
    def f(orig, self, *a, **k):
        before = self.state.name
        t = k.get("time", a[0] if a else None)
        try:
            r = orig(self, *a, **k)
        except Exception as e:
            if CUR["sim"] is not None and not getattr(self, "_verif_batch", False):
                LOG.append(["task", opname, un(self), us(t) if isinstance(t, EventTime) else None, before, "ERR", type(e).__name__])
            raise
        if CUR["sim"] is not None and not self.name.startswith("BatchFor"):
            extra = None
            if opname == "schedule":
                pl = k.get("placement", a[1] if len(a) > 1 else None)
                strat = pl.execution_strategy
                idx = strategy_index(self, strat)
                extra = [us(pl.placement_time), pl.worker_pool_id, idx, us(strat.runtime) if strat is not None else None]
            elif opname == "start":
                extra = [us(self._remaining_time), us(self.start_time), us(self.release_time)]
            elif opname == "finish":
                extra = [us(self.completion_time), us(self._remaining_time)]
            elif opname == "release":
                extra = [us(self.release_time)]
            LOG.append(["task", opname, un(self), us(t) if isinstance(t, EventTime) else None, before, self.state.name, extra])
        return r
    return f


for _op in ("release", "schedule", "unschedule", "start", "finish", "cancel", "preempt", "resume"):
    wrap(Task, _op, task_op(_op))


# ---------------------------------------------------------------- live cluster
def strategy_index(task, strat):
    """index of the strategy among the task's: by identity first — ExecutionStrategy.__eq__ is coarse (a request vector
    equals any vector that covers it, a specific unit equals `any`), so `==` may name another strategy of the task"""
    if strat is None:
        return None
    avail = list(task.available_execution_strategies)
    for i, s in enumerate(avail):
        if s is strat:
            return i
    same = [i for i, s in enumerate(avail) if strat_desc(s) == strat_desc(strat)]
    return same[0] if same else None


def strat_desc(s):
    return [us(s.runtime), sorted([[r.name, r.id, q] for r, q in s.resources.resources]), s.batch_size]


def w_place(orig, self, task, execution_strategy):
    live = id(self) in CUR["live_workers"]
    try:
        r = orig(self, task, execution_strategy)
    except Exception as e:
        if live:
            LOG.append(["worker", "place", CUR["live_workers"][id(self)], un(task), strat_desc(execution_strategy), "ERR:" + type(e).__name__])
        raise
    if live:
        LOG.append(["worker", "place", CUR["live_workers"][id(self)], un(task), strat_desc(execution_strategy), "ok",
                    worker_usage(self)])
    return r


def worker_usage(w):
    """[resource name -> (allocated, total)] through the public getters"""
    from workload import Resource
    out = []
    names = []
    for r, _ in w.resources.resources:
        if r.name not in names:
            names.append(r.name)
    for n in names:
        res = Resource(name=n, _id="any")
        out.append([n, w.resources.get_allocated_quantity(res), w.resources.get_total_quantity(res)])
    return out


def w_remove(orig, self, current_time, task):
    live = id(self) in CUR["live_workers"]
    try:
        r = orig(self, current_time, task)
    except Exception as e:
        if live:
            LOG.append(["worker", "remove", CUR["live_workers"][id(self)], un(task), None, "ERR:" + type(e).__name__])
        raise
    if live:
        LOG.append(["worker", "remove", CUR["live_workers"][id(self)], un(task), None, "ok", worker_usage(self)])
    return r


wrap(Worker, "place_task", w_place)
wrap(Worker, "remove_task", w_remove)


def p_place(orig, self, task, execution_strategy=None, worker_id=None):
    r = orig(self, task, execution_strategy=execution_strategy, worker_id=worker_id)
    if id(self) in CUR["live_pools"]:
        LOG.append(["pool", "place", CUR["live_pools"][id(self)], un(task), bool(r)])
    return r


wrap(WorkerPool, "place_task", p_place)


# ---------------------------------------------------------------- graphs and frontier
def describe_graph(tg):
    tasks = []
    for t in tg.get_nodes():
        strategies = [strat_desc(s) for s in t.available_execution_strategies]
        tasks.append({"name": un(t), "parents": [un(p) for p in tg.get_parents(t)],
                      "children": [un(c) for c in tg.get_children(t)],
                      "terminal": bool(t.terminal), "conditional": bool(t.conditional),
                      "deadline": us(t.deadline), "release": us(t.release_time), "state": t.state.name,
                      "prob": float(t.probability), "strategies": strategies})
    return {"graph": tg.name, "release": us(tg.release_time), "deadline": us(tg.deadline), "tasks": tasks}


def note_graphs(workload):
    for name, tg in workload.task_graphs.items():
        if name not in CUR["seen_graphs"]:
            CUR["seen_graphs"].add(name)
            LOG.append(["graph", describe_graph(tg)])


def tg_notify(orig, self, task, finish_time):
    r = orig(self, task, finish_time)
    if CUR["sim"] is not None:
        LOG.append(["notify", un(task), us(finish_time), [un(t) for t in r[0]], [un(t) for t in r[1]]])
    return r


def tg_cancel(orig, self, task, time):
    r = orig(self, task, time)
    if CUR["sim"] is not None:
        LOG.append(["tgcancel", un(task), us(time), [un(t) for t in r]])
    return r


wrap(TaskGraph, "notify_task_completion", tg_notify)
wrap(TaskGraph, "cancel", tg_cancel)


def wl_sched(orig, self, time, lookahead=EventTime.zero(), preemption=False, retract_schedules=False,
             worker_pools=None, policy=None, branch_prediction_accuracy=0.50, release_taskgraphs=False):
    kw = {}
    if policy is not None:
        kw["policy"] = policy
    r = orig(self, time, lookahead, preemption, retract_schedules, worker_pools,
             branch_prediction_accuracy=branch_prediction_accuracy, release_taskgraphs=release_taskgraphs, **kw)
    if CUR["sim"] is not None:
        LOG.append(["offer", us(time), us(lookahead), bool(preemption), bool(retract_schedules), bool(release_taskgraphs),
                    [[un(t), t.state.name] for t in r]])
    return r


wrap(Workload, "get_schedulable_tasks", wl_sched)


def wl_tg_done(orig, self, task_graph, finish_time):
    r = orig(self, task_graph, finish_time)
    if CUR["sim"] is not None:
        LOG.append(["graphdone", task_graph.name, us(finish_time), [un(t) for t in r]])
        note_graphs(self)
    return r


wrap(Workload, "notify_task_graph_completion", wl_tg_done)


# ---------------------------------------------------------------- simulator loop
def sim_step(orig, self, step_size=EventTime(1, EventTime.Unit.US)):
    d = us(step_size)
    nxt = self._event_queue.peek()
    running = [[un(t), us(t.remaining_time), t.state.name] for t in self._worker_pools.get_placed_tasks()]
    LOG.append(["step", us(self._simulator_time), d, us(nxt.time) if nxt is not None else None, running])
    # watchdog on SIMULATED progress (not on wall-clock time): the clock must advance within a bounded number of
    # loop iterations (generated worlds handle at most a few hundred events per instant)
    if len(LOG) > LOG_LIMIT:
        raise LogLimit("more than %d log entries" % LOG_LIMIT)
    if d == 0:
        CUR["zero_steps"] += 1
        if CUR["zero_steps"] > 20000:
            raise Livelock("more than 20000 consecutive loop iterations without the clock advancing, at time %s"
                           % us(self._simulator_time))
    else:
        CUR["zero_steps"] = 0
    return orig(self, step_size)


def sim_handle(orig, self, event):
    pend = [[us(e.time), e.event_type.name, un(e.task)] for e in self._event_queue._event_queue]
    entry = ["handle", us(event.time), event.event_type.name, un(event.task), us(self._simulator_time), pend]
    if event.event_type == EventType.TASK_PLACEMENT and event.placement is not None and event.task is not None:
        # what the TASK_PLACEMENT event carries and the graph-level fact the handler reads (stream S-handlers)
        try:
            pl = event.placement
            pool = self._worker_pools.get_worker_pool(pl.worker_pool_id)
            wname = None
            if pl.worker_id is not None and pool is not None:
                wname = next((w.name for w in pool.workers if w.id == pl.worker_id), "?")
            tg = self._workload.get_task_graph(event.task.task_graph)
            entry.append({"pool": pool.name if pool is not None else None, "worker": wname,
                          "strategy": strat_desc(pl.execution_strategy) if pl.execution_strategy is not None else None,
                          "gcancelled": bool(tg.is_cancelled()) if tg is not None else None})
        except Exception as e:          # the observation must never change the run
            entry.append({"error": type(e).__name__})
    LOG.append(entry)
    r = orig(self, event)
    if event.event_type == EventType.UPDATE_WORKLOAD:
        note_graphs(self._workload)
    LOG.append(["handled", event.event_type.name, bool(r),
                sorted(self._future_placement_events[k].task.unique_name for k in self._future_placement_events)])
    return r


def sim_next_sched(orig, self, event, scheduler_frequency, last_scheduler_start_time, loop_timeout=None):
    """log the inputs the next-scheduler-time rule reads, and its answer (C05)"""
    from operator import attrgetter
    try:
        running = self._worker_pools.get_placed_tasks() + [p.task for p in self._future_placement_events.values()]
        comps = []
        for t in running:
            if t.state == TaskState.SCHEDULED:
                comps.append(us(t.expected_start_time + t.remaining_time))
            elif t.state == TaskState.RUNNING:
                comps.append(us(self._simulator_time + t.remaining_time))
        # the earliest pending release / workload update, computed from the pending events themselves (not through the
        # queue's own get_next_event_of_type, which is part of what is being checked)
        pend = list(self._event_queue._event_queue)
        rels = [e for e in pend if e.event_type == EventType.TASK_RELEASE]
        upds = [e for e in pend if e.event_type == EventType.UPDATE_WORKLOAD]
        nrel = min(rels, key=lambda e: us(e.time)) if rels else None
        nupd = min(upds, key=lambda e: us(e.time)) if upds else None
        full = bool(self._worker_pools.is_full())
        pre = {"now": us(event.time), "freq": us(scheduler_frequency), "last": us(last_scheduler_start_time),
               "timeout": us(loop_timeout), "delay": us(self._scheduler_delay), "worker_free": bool(self._run_scheduler_at_worker_free),
               "min_completion": min(comps) if comps else None, "n_running": len(running),
               "next_release": us(nrel.time) if nrel is not None else None,
               "next_update": us(nupd.time) if nupd is not None else None, "queue_empty": self._event_queue.peek() is None,
               "full": full}
    except Exception as e:          # observation must never change the run
        pre = {"error": "%s: %s" % (type(e).__name__, e)}
    mark = len(LOG)
    r = orig(self, event, scheduler_frequency, last_scheduler_start_time, loop_timeout)
    offers = [x for x in LOG[mark:] if x[0] == "offer"]
    if offers and "error" not in pre:
        fr = offers[-1][6]
        pre["n_sched"] = len(fr)
        pre["all_running_or_scheduled"] = all(st in ("RUNNING", "SCHEDULED") for _, st in fr)
        # the compatibility clause of the rule, re-evaluated on the same state
        try:
            byname = {un(t): t for tg in self._workload.task_graphs.values() for t in tg.get_nodes()}
            tasks = [byname[n] for n, _ in fr]
            pre["no_compatible"] = all(
                len(worker.get_compatible_strategies(t.available_execution_strategies)) == 0
                for t in tasks for pool in self._worker_pools.worker_pools for worker in pool.workers
                if worker.is_available(t.profile) == EventTime.zero())
        except Exception as e:
            pre["error"] = "%s: %s" % (type(e).__name__, e)
    LOG.append(["nextsched", pre, r.event_type.name, us(r.time)])
    return r


wrap(Simulator, "_Simulator__get_next_scheduler_event", sim_next_sched)
def _decision_entry(placement):
    from workload import Placement
    kind = "cancel" if placement.placement_type == Placement.PlacementType.CANCEL_TASK else \
        ("place" if placement.is_placed() else "unplaced")
    strat = placement.execution_strategy if kind == "place" else None
    return ["decision", un(placement.task), kind, us(placement.placement_time) if kind == "place" else None,
            us(strat.runtime) if strat is not None else None, placement.task.state.name]


def sim_decide(orig, self, event_time, placement):
    """Simulator.__create_events_from_task_placement: marks where the processing of one decision begins (stream S-decisions)"""
    try:
        LOG.append(_decision_entry(placement))
    except Exception:
        LOG.append(["decision", None, "unreadable", None, None, None])
    CUR["in_decision"] = True
    try:
        return orig(self, event_time, placement)
    finally:
        CUR["in_decision"] = False


def sim_decide_skip(orig, self, time, placement, drop_skipped_tasks=False):
    if not CUR.get("in_decision"):
        try:
            LOG.append(_decision_entry(placement))
        except Exception:
            LOG.append(["decision", None, "unreadable", None, None, None])
    return orig(self, time, placement, drop_skipped_tasks)


wrap(Simulator, "_Simulator__create_events_from_task_placement", sim_decide)
wrap(Simulator, "_Simulator__create_events_from_task_placement_skip", sim_decide_skip)
wrap(Simulator, "_Simulator__step", sim_step)
wrap(Simulator, "_Simulator__handle_event", sim_handle)

# ---------------------------------------------------------------- the simulator's event queue
def qkey(e):
    return [us(e.time), e.event_type.name, un(e.task)]


def q_add(orig, self, event):
    if CUR["sim"] is not None and self is CUR["sim"]._event_queue:
        LOG.append(["qpush"] + qkey(event))
    return orig(self, event)


def q_next(orig, self):
    e = orig(self)
    if CUR["sim"] is not None and self is CUR["sim"]._event_queue:
        LOG.append(["qpop"] + qkey(e))
    return e


def q_remove(orig, self, event):
    if CUR["sim"] is not None and self is CUR["sim"]._event_queue:
        LOG.append(["qremove"] + qkey(event))
    return orig(self, event)


def q_reheap(orig, self):
    r = orig(self)
    if CUR["sim"] is not None and self is CUR["sim"]._event_queue:
        LOG.append(["qsync", [qkey(e) for e in self._event_queue]])
    return r


wrap(EventQueue, "add_event", q_add)
wrap(EventQueue, "next", q_next)
wrap(EventQueue, "remove_event", q_remove)
wrap(EventQueue, "reheapify", q_reheap)

_orig_sim_init = Simulator.__init__


def sim_init(self, *a, **k):
    _orig_sim_init(self, *a, **k)
    CUR["sim"] = self
    CUR["live_workers"] = {}
    CUR["live_pools"] = {}
    cluster = []
    for pool in self._worker_pools.worker_pools:
        CUR["live_pools"][id(pool)] = pool.name
        ws = []
        for w in pool.workers:
            CUR["live_workers"][id(w)] = w.name
            ws.append([w.name, [[r.name, r.id, q] for r, q in w.resources.resources]])
        cluster.append([pool.name, pool.id, ws])
    LOG.append(["cluster", cluster, {str(w.id): w.name for pool in self._worker_pools.worker_pools for w in pool.workers}])
    for e in self._event_queue._event_queue:
        LOG.append(["qpush"] + qkey(e))


Simulator.__init__ = sim_init


def sched_wrap(scheduler_cls):
    if scheduler_cls.__dict__.get("_verif_wrapped", False) or "schedule" not in scheduler_cls.__dict__:
        return
    orig = scheduler_cls.schedule

    def schedule(self, sim_time, workload, worker_pools):
        before = [[w.name, worker_usage(w)] for p in worker_pools.worker_pools for w in p.workers]
        states_before = {un(t): t.state.name for tg in workload.task_graphs.values() for t in tg.get_nodes()}
        r = orig(self, sim_time, workload, worker_pools)
        after = [[w.name, worker_usage(w)] for p in worker_pools.worker_pools for w in p.workers]
        states_after = {un(t): t.state.name for tg in workload.task_graphs.values() for t in tg.get_nodes()}
        decs = []
        for p in r:
            kind = p.placement_type.name
            if kind in ("PLACE_TASK", "CANCEL_TASK"):
                strat = p.execution_strategy if kind == "PLACE_TASK" else None
                idx = None
                idx = strategy_index(p.task, strat)
                decs.append([kind, un(p.task), p.task.state.name, p.worker_pool_id, p.worker_id,
                             us(p.placement_time), idx, us(strat.runtime) if strat is not None else None])
            else:
                decs.append([kind, None, None, p.worker_pool_id, p.worker_id, us(p.placement_time), None, None])
        LOG.append(["decisions", us(sim_time), decs, us(r.runtime), before == after, states_before == states_after])
        return r
    scheduler_cls.schedule = schedule
    scheduler_cls._verif_wrapped = True


def make_fuzz_scheduler(cfg):
    """A scheduling policy that makes random but well-formed decisions (C10's contract: existing pool, a strategy of the
    task that fits some worker of that pool when empty, time >= now): the simulator properties hold for EVERY scheduler,
    so an adversarial one reaches the re-queue / retry / re-time / unschedule / cancel paths the bundled policies
    rarely take."""
    import time as _time
    from schedulers import BaseScheduler
    from workload import Placement, Placements, BranchPredictionPolicy

    class FuzzScheduler(BaseScheduler):
        def __init__(self, _flags=None):
            super().__init__(preemptive=False, runtime=EventTime(0, EventTime.Unit.US),
                             lookahead=EventTime(cfg.get("lookahead", 0), EventTime.Unit.US),
                             enforce_deadlines=False, policy=BranchPredictionPolicy.RANDOM,
                             retract_schedules=bool(cfg.get("retract", False)),
                             release_taskgraphs=bool(cfg.get("release_taskgraphs", False)), _flags=_flags)
            self._rng = random.Random(cfg.get("seed", 0))

        def schedule(self, sim_time, workload, worker_pools):
            rng = self._rng
            tasks = workload.get_schedulable_tasks(sim_time, self.lookahead, self.preemptive, self.retract_schedules,
                                                   worker_pools, self.policy, self.branch_prediction_accuracy,
                                                   self.release_taskgraphs)
            placements = []
            now = us(sim_time)
            for task in tasks:
                if task.state in (TaskState.RUNNING, TaskState.COMPLETED, TaskState.CANCELLED):
                    continue
                r = rng.random()
                if r < cfg.get("p_cancel", 0.03):
                    placements.append(Placement.create_task_cancellation(task))
                    continue
                if r < cfg.get("p_cancel", 0.03) + cfg.get("p_unplaced", 0.15):
                    placements.append(Placement.create_task_placement(task))
                    continue
                options = []
                from copy import deepcopy
                for strat in task.available_execution_strategies:
                    for pool in worker_pools.worker_pools:
                        # the strategy must fit some worker of the pool when that worker is empty (ids included)
                        if any(deepcopy(w).can_accomodate_strategy(strat) for w in pool.workers):
                            options.append((strat, pool))
                if not options:
                    placements.append(Placement.create_task_placement(task))
                    continue
                strat, pool = rng.choice(options)
                if task.state == TaskState.SCHEDULED and rng.random() < cfg.get("p_keep", 0.0):
                    # re-issue the earlier plan unchanged (same time, pool and strategy) — what an optimiser with a stable
                    # solution does under retraction; the time may be `now` exactly
                    prev = task.current_placement
                    keep_t = us(task.expected_start_time)
                    if prev is not None and prev.is_placed() and keep_t is not None and keep_t >= now:
                        wid = None
                        if rng.random() < cfg.get("p_worker", 0.0):
                            # same time, pool and strategy — only the worker of the pool changes
                            ppool = [pl for pl in worker_pools.worker_pools if pl.id == prev.worker_pool_id]
                            fitting = [w for w in (ppool[0].workers if ppool else [])
                                       if deepcopy(w).can_accomodate_strategy(prev.execution_strategy)]
                            others = [w for w in fitting if w.id != prev.worker_id] or fitting
                            if others:
                                wid = rng.choice(others).id
                        placements.append(Placement.create_task_placement(
                            task=task, placement_time=EventTime(keep_t, EventTime.Unit.US),
                            worker_pool_id=prev.worker_pool_id, worker_id=wid,
                            execution_strategy=prev.execution_strategy))
                        continue
                rel = us(task.release_time)
                base = max(now, rel if rel is not None and rel >= 0 else now)
                if rng.random() < cfg.get("p_future", 0.4):
                    base += rng.choice(cfg.get("future_choices") or [1, 2, 3, 5, 10, 25])
                    if cfg.get("coarse_units") and rng.random() < 0.5:
                        base = (base // 1000 + 1) * 1000          # the next instant that is exact in milliseconds
                ptime = coarse(base) if cfg.get("coarse_units") else EventTime(base, EventTime.Unit.US)
                wid = None
                if rng.random() < cfg.get("p_worker", 0.0):
                    fitting = [w for w in pool.workers if deepcopy(w).can_accomodate_strategy(strat)]
                    if fitting:
                        wid = rng.choice(fitting).id
                placements.append(Placement.create_task_placement(
                    task=task, placement_time=ptime, worker_pool_id=pool.id, worker_id=wid,
                    execution_strategy=strat))
            return Placements(runtime=EventTime(0, EventTime.Unit.US), true_runtime=EventTime(0, EventTime.Unit.US),
                              placements=placements)

    return FuzzScheduler


def run_with_fuzz_scheduler(world):
    """main.main() with the scheduler replaced by the fuzzing policy (same loaders, same Simulator construction)."""
    from data import WorkerLoader, WorkloadLoader
    random.seed(FLAGS.random_seed)
    workload_loader = WorkloadLoader(path=FLAGS.workload_profile_path, _flags=FLAGS)
    cls = make_fuzz_scheduler(world["fuzz"])
    sched_wrap(cls)
    scheduler = cls(_flags=FLAGS)
    worker_loader = WorkerLoader(worker_profile_path=FLAGS.worker_profile_path, _flags=FLAGS)
    simulator = Simulator(worker_pools=worker_loader.get_worker_pools(), scheduler=scheduler,
                          workload_loader=workload_loader,
                          loop_timeout=EventTime(FLAGS.loop_timeout, EventTime.Unit.US),
                          scheduler_frequency=EventTime(FLAGS.scheduler_frequency, EventTime.Unit.US), _flags=FLAGS)
    simulator.simulate()


def coarse(v):
    """the same instant in the coarsest EventTime unit that represents it exactly"""
    if v > 0 and v % 10 ** 6 == 0:
        return EventTime(v // 10 ** 6, EventTime.Unit.S)
    if v > 0 and v % 1000 == 0:
        return EventTime(v // 1000, EventTime.Unit.MS)
    return EventTime(v, EventTime.Unit.US)


def run_direct(world):
    """the simulator on TaskGraphs built directly (Workload.from_task_graphs), with the bundled policy named by the flags"""
    from data import WorkerLoader
    from data.base_workload_loader import BaseWorkloadLoader
    from workload import (ExecutionStrategies, ExecutionStrategy, Job, Resource, Resources, Task, TaskGraph, WorkProfile,
                          Workload)
    import schedulers
    random.seed(FLAGS.random_seed)
    profs = {}
    for p in world["workload"]["profiles"]:
        strategies = ExecutionStrategies()
        for st in p["execution_strategies"]:
            res = {}
            for k, q in st["resource_requirements"].items():
                n, _, i = k.partition(":")
                res[Resource(name=n, _id=i or "any")] = q
            strategies.add_strategy(ExecutionStrategy(resources=Resources(res), batch_size=st.get("batch_size", 1),
                                                      runtime=(coarse(st["runtime"]) if world["direct"].get("coarse_runtimes")
                                                               else EventTime(st["runtime"], EventTime.Unit.US))))
        profs[p["name"]] = WorkProfile(name=p["name"], execution_strategies=strategies)
    graphs = {}
    for g in world["direct"]["graphs"]:
        tasks = {}
        for t in g["tasks"]:
            job = Job(name=t["name"], profile=profs[t["profile"]])
            tasks[t["name"]] = Task(name=t["name"], task_graph=g["name"], job=job,
                                    deadline=coarse(t["deadline"]), timestamp=0,
                                    release_time=(EventTime(t["release"], EventTime.Unit.US) if "release" in t
                                                  else EventTime.invalid()))
        graphs[g["name"]] = TaskGraph(name=g["name"],
                                      tasks={tasks[t["name"]]: [tasks[c] for c in t["children"]] for t in g["tasks"]})

    class DirectLoader(BaseWorkloadLoader):
        def __init__(self):
            self._done = False

        def get_next_workload(self, current_time):
            if self._done:
                return None
            self._done = True
            return Workload.from_task_graphs(graphs, _flags=FLAGS)

    rt = EventTime(FLAGS.scheduler_runtime, EventTime.Unit.US)
    if world.get("fuzz"):
        cls = make_fuzz_scheduler(world["fuzz"])
        sched_wrap(cls)
        scheduler = cls(_flags=FLAGS)
    elif FLAGS.scheduler == "EDF":
        scheduler = schedulers.EDFScheduler(preemptive=False, runtime=rt, enforce_deadlines=False, _flags=FLAGS)
    elif FLAGS.scheduler == "FIFO":
        scheduler = schedulers.FIFOScheduler(preemptive=False, runtime=rt, _flags=FLAGS)
    else:
        scheduler = schedulers.LSFScheduler(preemptive=False, runtime=rt, _flags=FLAGS)
    worker_loader = WorkerLoader(worker_profile_path=FLAGS.worker_profile_path, _flags=FLAGS)
    simulator = Simulator(worker_pools=worker_loader.get_worker_pools(), scheduler=scheduler,
                          workload_loader=DirectLoader(),
                          loop_timeout=EventTime(FLAGS.loop_timeout, EventTime.Unit.US),
                          scheduler_frequency=EventTime(FLAGS.scheduler_frequency, EventTime.Unit.US), _flags=FLAGS)
    simulator.simulate()


LOG_LIMIT = 150000


class LogLimit(Exception):
    pass


def alarm(signum, frame):
    raise WallClock("wall-clock limit")


def run_world(world, tmpdir):
    del ROWS[:]
    del LOG[:]
    CUR.update({"sim": None, "zero_steps": 0, "seen_graphs": set()})
    wl = os.path.join(tmpdir, "workload.yaml")
    wk = os.path.join(tmpdir, "workers.yaml")
    with open(wl, "w") as f:
        yaml.safe_dump(world["workload"], f)
    with open(wk, "w") as f:
        yaml.safe_dump(world["workers"], f)
    argv = ["verif", "--execution_mode=yaml", "--workload_profile_path=" + wl, "--worker_profile_path=" + wk,
            "--log_level=info", "--log_dir=" + tmpdir]
    for k, v in world["flags"].items():
        if isinstance(v, bool):
            argv.append("--%s%s" % ("" if v else "no", k))
        else:
            argv.append("--%s=%s" % (k, v))
    FLAGS.unparse_flags()
    FLAGS(argv)
    EventTime._rng = random.Random(FLAGS.random_seed)
    import schedulers
    for nm in dir(schedulers):
        c = getattr(schedulers, nm)
        if isinstance(c, type) and hasattr(c, "schedule"):
            sched_wrap(c)
    status, err = "ended", None
    signal.signal(signal.SIGALRM, alarm)
    signal.alarm(int(world.get("wall_limit", 120)))
    try:
        if world.get("fuzz") and not world.get("direct"):
            run_with_fuzz_scheduler(world)
        elif world.get("direct"):
            run_direct(world)
        else:
            erdos_main.main([])
    except Livelock as e:
        status, err = "livelock", str(e)
    except WallClock as e:
        status, err = "wallclock", str(e)
    except LogLimit as e:
        # the harness's own bound on the size of an observation (e.g. a placement retried every microsecond up to a
        # distant loop timeout): inconclusive, like a harness timeout
        status, err = "harness-timeout", str(e)
    except Exception as e:
        status, err = "exception", "%s: %s | %s" % (type(e).__name__, e, traceback.format_exc()[-900:])
    finally:
        signal.alarm(0)
    final = []
    sim = CUR["sim"]
    if sim is not None:
        for tg in sim._workload.task_graphs.values():
            for t in tg.get_nodes():
                final.append([un(t), t.state.name, us(t.start_time), us(t.completion_time), us(t.release_time), us(t.deadline)])
        idle = [[w.name, worker_usage(w), [un(t) for t in w.get_placed_tasks()]] for p in sim._worker_pools.worker_pools for w in p.workers]
        counters = [sim._finished_tasks, sim._cancelled_tasks, sim._missed_task_deadlines, sim._finished_task_graphs,
                    len(sim._workload.get_cancelled_task_graphs()), sim._missed_task_graph_deadlines]
        graphs = [[tg.name, tg.is_complete(), tg.is_cancelled(), us(tg.deadline)] for tg in sim._workload.task_graphs.values()]
    else:
        idle, counters, graphs = [], [], []
    rows = [m for (n, m) in ROWS if n == "Simulator_CSV"]
    return {"status": status, "error": err, "log": list(LOG), "rows": rows, "final": final, "idle": idle,
            "counters": counters, "graphs": graphs, "sim_time": us(sim._simulator_time) if sim else None}


runs = []
with tempfile.TemporaryDirectory(prefix="verif_sim_") as td:
    for w in payload["worlds"]:
        try:
            runs.append(run_world(w, td))
        except Exception as e:
            runs.append({"status": "adapter-error", "error": traceback.format_exc()[-1500:], "log": [], "rows": []})
implutil.end({"runs": runs})
