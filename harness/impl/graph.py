"""Adapter for C17: runs the real workload.graph.Graph (and the TaskGraph / JobGraph wrappers)
on generated graphs and reports every public routine's output in canonical form
(node k is the string "n<k>" on the Python side, the integer k in the report)."""
import implutil

payload = implutil.begin()

from workload.graph import Graph  # noqa: E402

# RecursionError is a RuntimeError: it is reported apart (the model never answers 5)
ERR = [(RecursionError, 5), (ValueError, 1), (RuntimeError, 2), (KeyError, 3), (TypeError, 4), (IndexError, 6),
       (AttributeError, 7), (StopIteration, 8)]


def code(e):
    for cls, c in ERR:
        if isinstance(e, cls):
            return c
    raise e


def nm(k):
    return "n%d" % k


def un(s):
    return int(s[1:])


def res(f, conv):
    try:
        return [0, conv(f())]
    except Exception as e:  # noqa: BLE001
        return [1, code(e)]


GEN_CAP = [100000]


def gen(f):
    """Observation of a generator: (items yielded, 0 | exception code); an iteration that yields more
    than the cap (far beyond any terminating run on the generated graphs) is cut and reported as 9."""
    out = []
    try:
        for x in f():
            out.append(un(x))
            if len(out) > GEN_CAP[0]:
                return [out[:50], 9]
        return [out, 0]
    except Exception as e:  # noqa: BLE001
        return [out, code(e)]


def names(l):
    return [un(x) for x in l]


def build(mapping):
    return Graph({nm(n): [nm(c) for c in cs] for n, cs in mapping})


def observe(case):
    GEN_CAP[0] = 50 * (len(case["map"]) + sum(len(cs) for _, cs in case["map"])) + max(case.get("fuel", 0), 100)
    try:
        g = build(case["map"])
    except Exception as e:  # noqa: BLE001
        return [1, code(e)]
    wt = {nm(int(k)): v for k, v in case["w"]}

    def w(n):
        return wt.get(n, 1)
    sinks = [n for n in g.get_nodes() if len(g.get_children(n)) == 0]
    per_node = []
    for k in case["nodes"]:
        n = nm(k)
        per_node.append([
            res(lambda: g.get_children(n), names),
            res(lambda: g.get_parents(n), names),
            res(lambda: g.is_source(n), int),
            res(lambda: g.get_node_depth(n), int),
            res(lambda: g.get_node_depth(n, func=min), int),
            gen(lambda: g.depth_first(n)),
            gen(lambda: g.breadth_first(n)),
        ])
    pairs = [res(lambda: g.are_dependent(nm(u), nm(v)), int) for u, v in case["pairs"]]
    return [
        0,
        names(g.get_nodes()),
        [[un(a), un(b)] for a, b in g.get_edges()],
        names(g.get_sources()),
        names(sinks),
        res(g.topological_sort, names),
        gen(g.breadth_first),
        gen(g.depth_first),
        res(g.get_longest_path, names),
        res(lambda: g.get_longest_path(w), names),
        res(lambda: sum(w(x) for x in g.get_longest_path(w)), int),
        per_node,
        pairs,
    ]


# ---------------------------------------------------------------------------
# the wrappers: TaskGraph.critical_path_runtime / get_source_tasks / get_sink_tasks /
# topological_sort / depth_first, JobGraph.critical_path_runtime / completion_time
def wrappers(case):
    from utils import EventTime
    from workload import (ExecutionStrategies, ExecutionStrategy, Job, JobGraph, Resource, Resources, Task,
                          TaskGraph, WorkProfile)
    lg = implutil.quiet_logger()
    wt = {int(k): v for k, v in case["w"]}
    order = []
    for n, cs in case["map"]:
        for x in [n] + list(cs):
            if x not in order:
                order.append(x)

    def et(v):
        # the same instant in the coarsest unit that represents it exactly (mixed units inside one graph)
        if v > 0 and v % 10 ** 6 == 0:
            return EventTime(v // 10 ** 6, EventTime.Unit.S)
        if v > 0 and v % 1000 == 0:
            return EventTime(v // 1000, EventTime.Unit.MS)
        return EventTime(v, EventTime.Unit.US)

    def profile(k):
        return WorkProfile(
            name="p%d" % k,
            execution_strategies=ExecutionStrategies([
                ExecutionStrategy(resources=Resources({Resource(name="CPU", _id="any"): 1}), batch_size=1,
                                  runtime=et(wt.get(k, 1))),
                # a faster strategy: the wrappers must use the slowest one
                ExecutionStrategy(resources=Resources({Resource(name="CPU", _id="any"): 2}), batch_size=1,
                                  runtime=EventTime(max(wt.get(k, 1) - 1, 0), EventTime.Unit.US)),
            ]))
    p0 = set(case.get("p0", []))
    slo = {int(k): v for k, v in case.get("slo", [])}
    jobs = {k: Job(name=nm(k), profile=profile(k), probability=0.0 if k in p0 else 1.0,
                   slo=EventTime(slo[k], EventTime.Unit.US) if k in slo else EventTime.invalid()) for k in order}
    out = {}
    try:
        jg = JobGraph(name="JG", jobs={jobs[n]: [jobs[c] for c in cs] for n, cs in case["map"]})
        out["job_cp"] = res(lambda: jg.critical_path_runtime.to(EventTime.Unit.US).time, int)
        out["job_ct"] = res(lambda: jg.completion_time.to(EventTime.Unit.US).time, int)
        out["job_bfs"] = gen(lambda: (j.name for j in jg.breadth_first()))
        import sys as _sys
        out["job_path"] = res(lambda: jg.get_longest_path(
            weights=lambda job: (job.execution_strategies.get_slowest_strategy().runtime.to(EventTime.Unit.US).time
                                 if job.probability > _sys.float_info.epsilon else 0)), lambda l: [un(j.name) for j in l])
        out["job_sources"] = [un(j.name) for j in jg.get_sources()]
    except Exception as e:  # noqa: BLE001
        out["job_error"] = code(e)
    tasks = {k: Task(name=nm(k), task_graph="TG", job=jobs[k], deadline=EventTime(10 ** 9, EventTime.Unit.US),
                     timestamp=0, _logger=lg) for k in order}
    try:
        tg = TaskGraph(name="TG", tasks={tasks[n]: [tasks[c] for c in cs] for n, cs in case["map"]})
        out["task_cp"] = res(lambda: tg.critical_path_runtime.to(EventTime.Unit.US).time, int)
        out["task_sources"] = [un(t.name) for t in tg.get_source_tasks()]
        out["task_sinks"] = [un(t.name) for t in tg.get_sink_tasks()]
        out["task_topo"] = res(tg.topological_sort, lambda l: [un(t.name) for t in l])
        out["task_dfs"] = gen(lambda: (t.name for t in tg.depth_first()))
    except Exception as e:  # noqa: BLE001
        out["task_error"] = code(e)
    return out


def observe_remove(case):
    try:
        g = build(case["map"])
        g.remove(nm(case["remove"]))
    except Exception as e:  # noqa: BLE001
        return [1, code(e)]
    GEN_CAP[0] = 1000
    return [0, names(g.get_nodes()), [[un(a), un(b)] for a, b in g.get_edges()], names(g.get_sources()),
            res(g.topological_sort, names), gen(g.breadth_first), gen(g.depth_first)]


def run_history(case):
    """Mutators and queries interleaved on ONE live object (a Graph, or a TaskGraph whose nodes are Tasks)."""
    via_tg = case.get("via") == "taskgraph"
    if via_tg:
        from utils import EventTime
        from workload import Job, Task, TaskGraph
        lg = implutil.quiet_logger()
        objs = {}

        def ob(k):
            if k not in objs:
                objs[k] = Task(name=nm(k), task_graph="TG", job=Job(name=nm(k), profile=None),
                               deadline=EventTime(10 ** 9, EventTime.Unit.US), timestamp=0, _logger=lg)
            return objs[k]

        def key(x):
            return un(x.name)
    else:
        def ob(k):
            return nm(k)

        def key(x):
            return un(x)
    wt = {int(k): v for k, v in case["w"]}

    def w(x):
        return wt.get(key(x), 1)

    def ks(l):
        return [key(x) for x in l]

    def g_gen(f):
        out = []
        try:
            for x in f():
                out.append(key(x))
                if len(out) > 2000:
                    return [out[:50], 9]
            return [out, 0]
        except Exception as e:  # noqa: BLE001
            return [out, code(e)]

    def mut(f):
        try:
            f()
            return [0]
        except Exception as e:  # noqa: BLE001
            return [1, code(e)]
    try:
        if via_tg:
            g = TaskGraph(name="TG", tasks={ob(n): [ob(c) for c in cs] for n, cs in case["map"]})
        else:
            g = Graph({ob(n): [ob(c) for c in cs] for n, cs in case["map"]})
    except Exception as e:  # noqa: BLE001
        return [1, code(e)]
    out = []
    for op in case["ops"]:
        k = op[0]
        if k == "add_node":
            if via_tg:
                out.append(mut(lambda: g.add_task(ob(op[1]), [ob(c) for c in op[2]])))
            else:
                out.append(mut(lambda: g.add_node(ob(op[1]), *[ob(c) for c in op[2]])))
        elif k == "add_child":
            out.append(mut(lambda: g.add_child(ob(op[1]), ob(op[2]))))
        elif k == "remove":
            out.append(mut(lambda: g.remove(ob(op[1]))))
        elif k == "nodes":
            out.append(ks(g.get_nodes()))
        elif k == "sources":
            out.append(ks(g.get_sources()))
        elif k == "topo":
            out.append(res(g.topological_sort, ks))
        elif k == "depth":
            out.append(res(lambda: g.get_node_depth(ob(op[1]), func=max if op[2] else min), int))
        elif k == "dep":
            out.append(res(lambda: g.are_dependent(ob(op[1]), ob(op[2])), int))
        elif k == "long":
            out.append(res(g.get_longest_path, ks))
        elif k == "longw":
            out.append(res(lambda: g.get_longest_path(w), ks))
        elif k == "bfs":
            out.append(g_gen(lambda: g.breadth_first() if op[1] is None else g.breadth_first(ob(op[1]))))
        elif k == "dfs":
            out.append(g_gen(lambda: g.depth_first() if op[1] is None else g.depth_first(ob(op[1]))))
        else:
            raise SystemExit("unknown history op %r" % (op,))
    return out


result = {}
if "histories" in payload:
    result["histories"] = [run_history(c) for c in payload["histories"]]
if "remove" in payload:
    result["remove"] = [observe_remove(c) for c in payload["remove"]]
if "cases" in payload:
    result["obs"] = [observe(c) for c in payload["cases"]]
if "jobgraphs" in payload:
    result["jobgraphs"] = [wrappers(c) for c in payload["jobgraphs"]]
if "wrappers" in payload:
    result["wrappers"] = [wrappers(c) for c in payload["wrappers"]]
implutil.end(result)
