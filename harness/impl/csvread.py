"""Adapter: runs the project's own CSVReader on traces captured from simulations (C08)."""
import os
import tempfile
import traceback

import implutil

payload = implutil.begin()
from data.csv_reader import CSVReader  # noqa: E402

out = []
with tempfile.TemporaryDirectory(prefix="verif_csv_") as td:
    for k, rows in enumerate(payload["traces"]):
        p = os.path.join(td, "t%d.csv" % k)
        with open(p, "w") as f:
            f.write("\n".join(rows) + "\n")
        try:
            rd = CSVReader(csv_paths=[p])
            sim = rd._simulators[p]
            tasks = {}
            for t in sim.tasks:
                tasks[t.task_id] = {"name": t.name, "graph": t.task_graph, "release": t.release_time,
                                    "placement": t.placement_time, "completion": t.completion_time,
                                    "cancelled": bool(t.cancelled), "missed": bool(t.missed_deadline), "deadline": t.deadline}
            graphs = {n: {"completion": g.completion_at, "cancelled": bool(g.cancelled), "deadline": g.deadline,
                          "num_tasks": g.num_tasks} for n, g in sim.task_graphs.items()}
            out.append({"ok": True, "tasks": tasks, "graphs": graphs,
                        "end": [sim.finished_tasks, sim.dropped_tasks, sim.missed_deadlines, sim.finished_task_graphs,
                                sim.dropped_taskgraphs, sim.missed_taskgraphs]})
        except Exception as e:
            out.append({"ok": False, "error": "%s: %s" % (type(e).__name__, str(e)[:300]),
                        "trace": traceback.format_exc()[-600:]})
implutil.end({"results": out})
