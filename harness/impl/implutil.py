"""Helpers shared by the adapters that run /repo's real code (PYTHONPATH=/repo)."""
import json
import logging
import os
import sys

_real_stdout = None


def begin():
    """Read the JSON payload from stdin; keep stdout clean for the JSON answer."""
    global _real_stdout
    payload = json.load(sys.stdin)
    _real_stdout = os.fdopen(os.dup(1), "w")
    os.dup2(2, 1)          # anything /repo prints goes to stderr
    sys.stdout = sys.stderr
    return payload


def end(result):
    _real_stdout.write(json.dumps(result))
    _real_stdout.flush()


def quiet_logger(name="verif_quiet"):
    lg = logging.getLogger(name)
    lg.handlers = [logging.NullHandler()]
    lg.propagate = False
    lg.setLevel(logging.CRITICAL + 1)
    return lg


def setup_flags(argv=()):
    """Make absl FLAGS usable by code that reads it at construction time."""
    from absl import flags
    FLAGS = flags.FLAGS
    if not FLAGS.is_parsed():
        FLAGS(["verif"] + list(argv), known_only=True)
    return FLAGS
