"""Adapter S-tape (C09): runs /repo's main.py ONCE, in this fresh process, exactly as `python main.py <flags>` would
(runpy, run_name="__main__"), with module-/class-level wrappers that record where every random-looking value came
from and in what order.  Nothing in /repo is edited.

payload: {"argv": [flags...], "csv": path of the CSV file the run writes}
answer:  {"events": [...], "rows": [...], "rc": 0|1, "error": str|None}

events (only calls whose DIRECT caller is a file of /repo are recorded):
  ["phase", "main"]                               absl.app.run(main) entered: everything before is import time
  ["seed", value|None, file, line]                random.seed(..)
  ["g", fn, file, line, bits|None]                module-level random.<fn>(..)  (the process-global generator)
  ["new_random", seed|None, file, line, inst]     random.Random(..) constructed
  ["r", inst, fn, file, line]                     <Random instance>.<fn>(..)
  ["new_np", seed|None, file, line, inst]         numpy.random.default_rng(..)
  ["n", inst, fn, file, line]                     <numpy Generator>.<fn>(..)
  ["npg", fn, file, line]                         numpy.random.<legacy fn>(..)   (numpy's global generator)
  ["os", fn, file, line]                          uuid.uuid4 / uuid.uuid1 / os.urandom
  ["policy", kind value, np inst|None]            a ReleasePolicy was constructed
  ["obj", class, id int|None, bits|None]          an object with an id was constructed; bits: the getrandbits value
                                                  drawn inside its own __init__
"""
import os
import runpy
import sys
import traceback

import implutil

payload = implutil.begin()

import random  # noqa: E402
import uuid  # noqa: E402

import numpy  # noqa: E402

REPO = os.path.realpath(os.environ.get("VERIF_REPO", "/repo"))
EVENTS = []


def site(depth=2):
    """(file relative to /repo, line) of the direct caller of the wrapped function, or None"""
    f = sys._getframe(depth)
    fn = os.path.realpath(f.f_code.co_filename)
    if fn.startswith(REPO + os.sep):
        return os.path.relpath(fn, REPO), f.f_lineno
    return None


def plain(x):
    return x if isinstance(x, int) and not isinstance(x, bool) else (None if x is None else "?" + type(x).__name__)


# ------------------------------------------------------------------ the process-global generator
_seed = random.seed


def seed_w(a=None, *rest, **kw):
    s = site()
    if s:
        EVENTS.append(["seed", plain(a), s[0], s[1]])
    return _seed(a, *rest, **kw)


random.seed = seed_w

for _fn in ("getrandbits", "random", "choice", "choices", "randint", "uniform", "sample", "shuffle", "randrange", "gauss",
            "normalvariate", "expovariate", "betavariate", "triangular", "randbytes", "lognormvariate", "vonmisesvariate",
            "gammavariate", "paretovariate", "weibullvariate"):
    if not hasattr(random, _fn):
        continue

    def mk(name, orig):
        def w(*a, **k):
            s = site()
            r = orig(*a, **k)
            if s:
                EVENTS.append(["g", name, s[0], s[1], r if name == "getrandbits" else None])
            return r
        w.__name__ = name
        return w
    setattr(random, _fn, mk(_fn, getattr(random, _fn)))

# ------------------------------------------------------------------ Random instances
_Random = random.Random
N_RANDOM = [0]


class TracedRandom(_Random):
    def __init__(self, *a, **k):
        super().__init__(*a, **k)
        s = site()
        self._verif_inst = None
        if s:
            self._verif_inst = N_RANDOM[0]
            N_RANDOM[0] += 1
            x = a[0] if a else k.get("x")
            EVENTS.append(["new_random", plain(x), s[0], s[1], self._verif_inst])


def mkr(name):
    orig = getattr(_Random, name)

    def w(self, *a, **k):
        s = site()
        if s and getattr(self, "_verif_inst", None) is not None:
            EVENTS.append(["r", self._verif_inst, name, s[0], s[1]])
        return orig(self, *a, **k)
    w.__name__ = name
    return w


for _fn in ("getrandbits", "random", "choice", "choices", "randint", "uniform", "sample", "shuffle", "randrange", "gauss",
            "normalvariate", "expovariate", "betavariate", "triangular"):
    if hasattr(_Random, _fn):
        setattr(TracedRandom, _fn, mkr(_fn))
TracedRandom.__name__ = "Random"
random.Random = TracedRandom

# ------------------------------------------------------------------ numpy generators
_default_rng = numpy.random.default_rng
N_NP = [0]


class NpProxy:
    def __init__(self, real, inst):
        object.__setattr__(self, "_real", real)
        object.__setattr__(self, "_inst", inst)

    def __getattr__(self, name):
        v = getattr(self._real, name)
        if callable(v):
            inst = self._inst

            def w(*a, **k):
                s = site()
                if s:
                    EVENTS.append(["n", inst, name, s[0], s[1]])
                return v(*a, **k)
            return w
        return v


def default_rng_w(*a, **k):
    s = site()
    real = _default_rng(*a, **k)
    if not s:
        return real
    inst = N_NP[0]
    N_NP[0] += 1
    x = a[0] if a else k.get("seed")
    EVENTS.append(["new_np", plain(x), s[0], s[1], inst])
    return NpProxy(real, inst)


numpy.random.default_rng = default_rng_w

for _fn in ("choice", "rand", "randn", "randint", "random", "random_sample", "poisson", "gamma", "shuffle", "permutation",
            "uniform", "normal", "exponential", "seed", "sample", "ranf", "bytes", "binomial", "beta"):
    if not hasattr(numpy.random, _fn):
        continue

    def mkn(name, orig):
        def w(*a, **k):
            s = site()
            if s:
                EVENTS.append(["npg", name, s[0], s[1]])
            return orig(*a, **k)
        w.__name__ = name
        return w
    setattr(numpy.random, _fn, mkn(_fn, getattr(numpy.random, _fn)))

# ------------------------------------------------------------------ OS entropy
for _mod, _fn in ((uuid, "uuid4"), (uuid, "uuid1"), (os, "urandom")):
    def mko(name, orig):
        def w(*a, **k):
            s = site()
            if s:
                EVENTS.append(["os", name, s[0], s[1]])
            return orig(*a, **k)
        w.__name__ = name
        return w
    setattr(_mod, _fn, mko(_fn, getattr(_mod, _fn)))


# ------------------------------------------------------------------ objects with ids; phase marker
def wrap_init(cls, label):
    orig = cls.__init__
    code = orig.__code__
    fn = os.path.realpath(code.co_filename)
    rel = os.path.relpath(fn, REPO)
    lines = [ln for (_, _, ln) in code.co_lines() if ln is not None]
    lo, hi = min(lines), max(lines)

    def w(self, *a, **k):
        n0 = len(EVENTS)
        orig(self, *a, **k)
        bits = None
        for e in EVENTS[n0:]:
            if e[0] == "g" and e[1] == "getrandbits" and e[2] == rel and lo <= e[3] <= hi:
                bits = e[4]
                break
        i = getattr(self, "_id", None)
        EVENTS.append(["obj", label, i.int if isinstance(i, uuid.UUID) else None, bits])
    w.__name__ = "__init__"
    cls.__init__ = w


def install_class_wrappers():
    import workers.workers as ww
    import workload.jobs as wj
    import workload.resource as wr
    import workload.tasks as wt
    for cls, label in ((wt.Task, "Task"), (wj.Job, "Job"), (wr.Resource, "Resource"), (ww.Worker, "Worker"),
                       (ww.WorkerPool, "WorkerPool")):
        wrap_init(cls, label)
    rp = wj.JobGraph.ReleasePolicy
    orig = rp.__init__

    def w(self, *a, **k):
        n0 = len(EVENTS)
        orig(self, *a, **k)
        inst = None
        for e in EVENTS[n0:]:
            if e[0] == "new_np":
                inst = e[4]
        EVENTS.append(["policy", self._policy_type.value, inst])
    rp.__init__ = w


from absl import app as absl_app  # noqa: E402

_app_run = absl_app.run


def app_run_w(main, *a, **k):
    install_class_wrappers()
    EVENTS.append(["phase", "main"])
    return _app_run(main, *a, **k)


absl_app.run = app_run_w

# ------------------------------------------------------------------ run main.py as a script
rc, err = 0, None
main_py = os.path.join(REPO, "main.py")
sys.argv = [main_py] + list(payload["argv"])
try:
    runpy.run_path(main_py, run_name="__main__")
except SystemExit as e:
    rc = 0 if e.code in (None, 0) else 1
    if rc:
        err = "SystemExit(%r)" % (e.code,)
except BaseException as e:  # noqa: BLE001
    rc = 1
    err = "%s: %s | %s" % (type(e).__name__, e, traceback.format_exc()[-600:])
import logging  # noqa: E402
logging.shutdown()
rows = []
try:
    with open(payload["csv"]) as f:
        rows = [ln.rstrip("\n") for ln in f]
except OSError as e:
    err = (err or "") + " | no csv: %s" % e
implutil.end({"events": EVENTS, "rows": rows, "rc": rc, "error": err})
