"""Adapter for the Z3 parts of C10 / C11 / C12: builds real Task / TaskGraph / Workload / Worker /
WorkerPool(s) objects from a JSON spec, runs the real Z3Scheduler.schedule() with z3.Optimize.check
wrapped so that the asserted formulas and the solver's model are captured, and returns

  * the *instance*: what schedule() reads from the live objects (through the real getters),
  * the asserted formulas, serialised structurally (operator codes, canonical variable codes),
  * the soft constraints / objective rows,
  * the returned placements and the solver's values of the decision variables,
  * z3's evaluation of the captured assertions on candidate assignments (enumerated by the
    solver itself, perturbed, and random),
  * feasible assignments found by asking z3 for a point of the captured system that violates a
    property stated independently of the scheduler (adversarial search),
  * every getter of the cluster / task state before and after the call.

stdout is reserved for the JSON answer.
"""
import random
import sys

import implutil

payload = implutil.begin()

import z3 as _z3pkg  # noqa: E402,F401
from z3 import z3  # noqa: E402

from schedulers import Z3Scheduler  # noqa: E402
from utils import EventTime  # noqa: E402
from workers import Worker, WorkerPool, WorkerPools  # noqa: E402
from workload import (  # noqa: E402
    ExecutionStrategies,
    ExecutionStrategy,
    Job,
    Placement,
    Resource,
    Resources,
    Task,
    TaskGraph,
    WorkProfile,
    Workload,
)

QL = implutil.quiet_logger()
US = EventTime.Unit.US


def et(x):
    return EventTime(int(x), US)


def rname(i):
    return "R%d" % i


# --------------------------------------------------------------------------
# world construction
# --------------------------------------------------------------------------
class World:
    pass


def build(spec):
    """spec:
      now, opts{enforce,lookahead,retract,release_taskgraphs,preemptive},
      pools: [[worker,...],...]  worker = {"name": k, "res": [[rname, qty, anyid?], ...]}
      graphs: [{"tasks": [{"strats": [[runtime, [[rname, q], ...]], ...], "deadline": d,
                           "release": r, "state": s, "on": [pool, worker], "strat": k,
                           "at": t, "rem": x}], "edges": [[i, j], ...]}]
    """
    w = World()
    w.spec = spec
    w.pools = []
    w.workers = []        # flat, in the order schedule() enumerates them
    for pi, p in enumerate(spec["pools"]):
        ws = []
        for wi, wk in enumerate(p):
            rv = {}
            for ent in wk["res"]:
                rv[Resource(name=rname(ent[0]))] = ent[1]
            worker = Worker(name="W%d" % wk["name"], resources=Resources(rv, _logger=QL), _logger=QL)
            ws.append(worker)
            w.workers.append((worker, wk["name"], pi))
        w.pools.append(WorkerPool(name="P%d" % pi, workers=ws, _logger=QL))
    w.worker_pools = WorkerPools(worker_pools=w.pools)
    w.tasks = []          # flat list: (task, gid, local index)
    w.graphs = []
    tgs = {}
    tid = 0
    for gi, g in enumerate(spec["graphs"]):
        gname = "G%d" % gi
        ts = []
        for ti, t in enumerate(g["tasks"]):
            strats = ExecutionStrategies(strategies=[
                ExecutionStrategy(resources=Resources({Resource(name=rname(r), _id="any"): q for r, q in s[1]},
                                                      _logger=QL),
                                  batch_size=1, runtime=et(s[0])) for s in t["strats"]])
            prof = WorkProfile(name="wp%d" % tid, execution_strategies=strats)
            task = Task(name="t%d" % tid, task_graph=gname, job=Job(name="j%d" % tid, profile=prof, _logger=QL)
                        if _job_takes_logger() else Job(name="j%d" % tid, profile=prof),
                        deadline=et(t["deadline"]), profile=prof, timestamp=0,
                        release_time=et(t.get("release_at_ctor", -1)), _logger=QL)
            ts.append(task)
            w.tasks.append((task, gi, ti, tid))
            tid += 1
        children = {t: [] for t in ts}
        for a, b in g["edges"]:
            children[ts[a]].append(ts[b])
        tg = TaskGraph(name=gname, tasks=children)
        tgs[gname] = tg
        w.graphs.append(tg)
        # states
        for ti, t in enumerate(g["tasks"]):
            task = ts[ti]
            st = t["state"]
            if st == "virtual":
                continue
            task.release(et(t["release"]))
            if st == "released":
                continue
            if st == "completed":
                strat = task.available_execution_strategies[t.get("strat", 0)]
                pool = w.pools[t["on"][0]]
                task.schedule(et(t["at"]), Placement.create_task_placement(
                    task, et(t["at"]), pool.id, None, strat))
                task.start(et(t["at"]))
                task.update_remaining_time(EventTime.zero())
                task.finish(et(t["at"] + strat.runtime.time))
                continue
            strat = task.available_execution_strategies[t.get("strat", 0)]
            pool = w.pools[t["on"][0]]
            worker = [x for x in pool.workers][t["on"][1]]
            task.schedule(et(t.get("sched_at", 0)), Placement.create_task_placement(
                task, et(t["at"]), pool.id, worker.id, strat))
            if st == "scheduled":
                continue
            ok = pool.place_task(task, execution_strategy=strat, worker_id=worker.id)
            if not ok:
                raise SystemExit("spec places a running task that does not fit")
            task.start(et(t["at"]))
            if "rem" in t:
                task.update_remaining_time(et(t["rem"]))
            if st == "running":
                continue
            raise SystemExit("unknown state %r" % st)
    w.workload = Workload.from_task_graphs(tgs)
    w.workload._logger = QL
    return w


_JTL = None


def _job_takes_logger():
    global _JTL
    if _JTL is None:
        import inspect
        _JTL = "_logger" in inspect.signature(Job.__init__).parameters
    return _JTL


def make_scheduler(spec):
    o = spec["opts"]
    s = Z3Scheduler(preemptive=bool(o.get("preemptive", False)), runtime=EventTime.zero(),
                    lookahead=et(o.get("lookahead", 0)), enforce_deadlines=bool(o.get("enforce", False)),
                    retract_schedules=bool(o.get("retract", False)),
                    release_taskgraphs=bool(o.get("release_taskgraphs", False)))
    s._logger = QL
    return s


# --------------------------------------------------------------------------
# the instance: everything schedule() reads, through the real getters
# --------------------------------------------------------------------------
def extract_instance(w, sched, now):
    tid_of = {t: tid for (t, _, _, tid) in w.tasks}
    gid_of = {"G%d" % i: i for i in range(len(w.graphs))}
    offered = w.workload.get_schedulable_tasks(
        now, sched.lookahead, sched.preemptive, sched.retract_schedules, w.worker_pools, sched.policy,
        sched.branch_prediction_accuracy, sched.release_taskgraphs)
    tasks = []
    for t in offered:
        tg = w.workload.get_task_graph(t.task_graph)
        strats = []
        for s in t.available_execution_strategies:
            strats.append([s.runtime.to(US).time,
                           [[int(r.name[1:]), q] for r, q in s.resources.resources]])
        tasks.append({
            "id": tid_of[t], "graph": gid_of[t.task_graph],
            "release": t.release_time.to(US).time,
            "remaining": t.remaining_time.to(US).time,
            "deadline": t.deadline.to(US).time,
            "strats": strats,
            "parents": [tid_of[p] for p in tg.get_parents(t)],
            "depth": tg.get_node_depth(t),
            "state": t.state.value,
        })
    workers = []
    for pi, pool in enumerate(w.worker_pools.worker_pools):
        for worker in pool.workers:
            name = int(worker.name[1:])
            res = []
            for r, q in worker.resources.resources:
                # per key: name, total, currently available under that key
                res.append([int(r.name[1:]), q, worker.resources._resource_vector[r]])
            workers.append({"name": name, "pool": pi, "res": res})
    dep = []
    for a in offered:
        for b in offered:
            if a is not b and a.task_graph == b.task_graph:
                if w.workload.get_task_graph(a.task_graph).are_dependent(a, b):
                    dep.append([tid_of[a], tid_of[b]])
    gdl = [[gid_of[n], g.deadline.to(US).time] for n, g in w.workload.task_graphs.items()]
    # for C11's second clause: parents that are not offered, with their expected finish
    outside = []
    offered_ids = {tid_of[t] for t in offered}
    for t in offered:
        tg = w.workload.get_task_graph(t.task_graph)
        for p in tg.get_parents(t):
            if tid_of[p] in offered_ids:
                continue
            st = p.state.value
            fin = None
            if st == 4:      # RUNNING
                fin = now.to(US).time + p.remaining_time.to(US).time
            elif st == 3:    # SCHEDULED
                fin = p.expected_start_time.to(US).time + p.remaining_time.to(US).time
            elif st == 7:
                fin = p.completion_time.to(US).time
            outside.append([tid_of[t], tid_of[p], st, fin])
    return {"now": now.to(US).time, "enforce": bool(sched.enforce_deadlines), "tasks": tasks,
            "workers": workers, "dependent": dep, "graph_deadline": gdl, "outside_parents": outside}


# --------------------------------------------------------------------------
# canonical names of solver variables
# --------------------------------------------------------------------------
def name_table(w, inst):
    tn = {}

    def put(k, v):
        if k in tn and tn[k] != v:
            raise SystemExit("ambiguous solver variable name %r" % k)
        tn[k] = v
    names = {tid: t.unique_name for (t, _, _, tid) in w.tasks}
    ids = [t["id"] for t in inst["tasks"]]
    rns = set()
    for t in inst["tasks"]:
        for s in t["strats"]:
            for r, _ in s[1]:
                rns.add(r)
    for wk in inst["workers"]:
        for r, _, _ in wk["res"]:
            rns.add(r)
    for i in ids:
        put(names[i] + "_start", [0, i])
        put(names[i] + "_is_placed", [1, i])
        put(names[i] + "_worker", [2, i])
        for r in rns:
            put("%s_%s" % (names[i], rname(r)), [3, i, r])
        for j in ids:
            if i == j:
                continue
            put("%s_ends_before_%s_starts" % (names[i], names[j]), [4, i, j])
            put("%s_%s_overlap" % (names[i], names[j]), [5, i, j])
            for wk in inst["workers"]:
                for r in rns:
                    put("W%d_%s_independent_%s_%s" % (wk["name"], rname(r), names[i], names[j]),
                        [6, wk["name"], r, i, j])
    put("TASK_SKIP_PENALTY", [7])
    for g in range(len(w.graphs)):
        put("G%d_slack" % g, [8, g])
    put("TASK_SLACK_SUM", [9])
    return tn


class DumpError(Exception):
    pass


def dump(e, tn):
    """z3 expression -> nested lists (the same shape the Gallina `ser` produces)."""
    if z3.is_int_value(e):
        return [0, e.as_long()]
    if z3.is_bv_value(e):
        return [11, e.as_long(), e.size()]
    d = e.decl()
    k = d.kind()
    ch = e.children()
    if k == z3.Z3_OP_UNINTERPRETED:
        if ch:
            raise DumpError("uninterpreted function application")
        code = tn.get(d.name())
        if code is None:
            raise DumpError("unknown solver variable %s" % d.name())
        if z3.is_int(e):
            return [1, code]
        if z3.is_bool(e):
            return [29, code]
        if z3.is_bv(e):
            return [10, code, e.size()]
        raise DumpError("variable of unexpected sort")
    c = [dump(x, tn) for x in ch]
    if k == z3.Z3_OP_ADD:
        return [2, c]
    if k == z3.Z3_OP_SUB and len(c) == 2:
        return [3, c[0], c[1]]
    if k == z3.Z3_OP_ITE:
        return [4, c[0], c[1], c[2]]
    if k == z3.Z3_OP_BXOR and len(c) == 2:
        return [12, c[0], c[1]]
    if k == z3.Z3_OP_EXTRACT:
        hi, lo = d.params()
        return [13, hi, lo, c[0]]
    if k == z3.Z3_OP_AND:
        return [20, c]
    if k == z3.Z3_OP_OR:
        return [21, c]
    if k == z3.Z3_OP_NOT:
        return [22, c[0]]
    if k == z3.Z3_OP_IMPLIES:
        return [23, c[0], c[1]]
    if k == z3.Z3_OP_EQ:
        return [24, c[0], c[1]]
    if k == z3.Z3_OP_DISTINCT and len(c) == 2:
        return [25, c[0], c[1]]
    if k == z3.Z3_OP_GE:
        return [26, c[0], c[1]]
    if k == z3.Z3_OP_LE:
        return [27, c[0], c[1]]
    if k == z3.Z3_OP_LT:
        return [28, c[0], c[1]]
    if k == z3.Z3_OP_TRUE:
        return [20, []]
    if k == z3.Z3_OP_FALSE:
        return [21, []]
    raise DumpError("operator outside the modelled language: %s" % d.name())


# --------------------------------------------------------------------------
# capture
# --------------------------------------------------------------------------
class Capture:
    def __init__(self):
        self.assertions = None
        self.opt = None
        self.soft = []
        self.checks = 0


def run_schedule(w, sched, now):
    cap = Capture()
    orig_check = z3.Optimize.check
    orig_soft = z3.Optimize.add_soft

    def check(self, *a):
        cap.checks += 1
        if cap.assertions is None:
            cap.assertions = list(self.assertions())
            cap.opt = self
        return orig_check(self, *a)

    def add_soft(self, arg, weight="1", id=None):
        cap.soft.append((arg, str(weight)))
        return orig_soft(self, arg, weight, id)

    z3.Optimize.check = check
    z3.Optimize.add_soft = add_soft
    err = None
    placements = None
    try:
        placements = sched.schedule(now, w.workload, w.worker_pools)
    except z3.Z3Exception as e:
        err = [1, str(e)[:200]]
    except AssertionError as e:
        err = [2, str(e)[:200]]
    except Exception as e:  # anything else is reported with its type
        err = [3, "%s: %s" % (type(e).__name__, str(e)[:200])]
    finally:
        z3.Optimize.check = orig_check
        z3.Optimize.add_soft = orig_soft
    return cap, placements, err


# --------------------------------------------------------------------------
# state snapshot through getters
# --------------------------------------------------------------------------
def snapshot(w):
    out = []
    tid_of = {t: tid for (t, _, _, tid) in w.tasks}
    for pi, pool in enumerate(w.worker_pools.worker_pools):
        out.append(["pool", pi, sorted(tid_of[t] for t in pool.get_placed_tasks()), len(pool)])
        for wi, worker in enumerate(pool.workers):
            res = worker.resources
            keys = []
            for r, q in res.resources:
                keys.append([r.name, q, res._resource_vector[r], res.get_available_quantity(r),
                             res.get_allocated_quantity(r),
                             sorted([tid_of.get(c, -1), a] for c, a in res.get_allocated_computation(r))])
            out.append(["worker", pi, wi, worker.name, keys,
                        sorted(tid_of[t] for t in worker.get_placed_tasks())])
    for (t, gi, ti, tid) in w.tasks:
        out.append(["task", tid, t.state.value, t.release_time.to(US).time,
                    t.deadline.to(US).time,
                    None if t._remaining_time is None else t._remaining_time.to(US).time,
                    None if t.current_placement is None else
                    [str(t.current_placement.worker_pool_id) == str(w.pools[0].id),
                     t.current_placement.placement_time.to(US).time],
                    t.start_time.to(US).time if t.start_time is not None else None,
                    str(t.worker_pool_id) if t.worker_pool_id is not None else None,
                    len(t.available_execution_strategies)])
    for gi, g in enumerate(w.graphs):
        out.append(["graph", gi, len(g), g.deadline.to(US).time])
    return out


# --------------------------------------------------------------------------
# assignments
# --------------------------------------------------------------------------
def all_vars(assertions, tn):
    vs = {}

    def walk(e):
        if z3.is_const(e) and e.decl().kind() == z3.Z3_OP_UNINTERPRETED:
            vs[e.decl().name()] = e
        for c in e.children():
            walk(c)
    for a in assertions:
        walk(a)
    unknown = [k for k in vs if k not in tn]
    if unknown:
        raise DumpError("unknown solver variable %s" % unknown[0])
    return [vs[k] for k in sorted(vs, key=lambda n: tn[n])]


def val_of(model, v):
    x = model.eval(v, model_completion=True)
    if z3.is_bool(v):
        return 1 if z3.is_true(x) else 0
    return x.as_long()


def to_z3_val(v, x):
    if z3.is_bool(v):
        return z3.BoolVal(bool(x))
    if z3.is_bv(v):
        return z3.BitVecVal(x, v.size())
    return z3.IntVal(x)


def evaluate(assertions, vs, asg):
    """z3's own evaluation of the captured assertions under a total assignment."""
    sub = [(v, to_z3_val(v, asg[v.decl().name()])) for v in vs]
    for a in assertions:
        r = z3.simplify(z3.substitute(a, *sub))
        if z3.is_true(r):
            continue
        if z3.is_false(r):
            return 0
        raise SystemExit("assertion did not evaluate to a constant: %s" % r)
    return 1


def enumerate_models(assertions, vs, extra, limit, main_only):
    """models of assertions /\\ extra, blocked on the main (non auxiliary) variables"""
    s = z3.Solver()
    s.set("timeout", 20000)
    for a in assertions:
        s.add(a)
    for x in extra:
        s.add(x)
    out = []
    while len(out) < limit and s.check() == z3.sat:
        m = s.model()
        asg = {v.decl().name(): val_of(m, v) for v in vs}
        out.append(asg)
        s.add(z3.Or([v != to_z3_val(v, asg[v.decl().name()]) for v in main_only]))
    return out


def main_vars(vs, tn):
    return [v for v in vs if tn[v.decl().name()][0] in (0, 1, 2, 3)]


def candidates(assertions, vs, tn, rng, inst, n_models, n_rand):
    out = []
    seen = set()

    def push(a, why):
        key = tuple(a[v.decl().name()] for v in vs)
        if key in seen:
            return
        seen.add(key)
        out.append((a, why))
    mv = main_vars(vs, tn)
    models = enumerate_models(assertions, vs, [], n_models, mv) if mv else enumerate_models(assertions, vs, [], 1, vs[:1])
    for m in models:
        push(m, 0)
    now = inst["now"]
    horizon = now + sum(t["remaining"] for t in inst["tasks"]) + 3

    def rand_value(v):
        c = tn[v.decl().name()]
        if z3.is_bool(v):
            return rng.randrange(2)
        if z3.is_bv(v):
            return rng.randrange(2 ** v.size())
        if c[0] == 0:
            return rng.randint(now - 2, horizon)
        return rng.randint(-5, 5)
    # perturbations of feasible points: one variable changed
    for m in models:
        for _ in range(max(1, n_rand // max(1, len(models)))):
            a = dict(m)
            v = rng.choice(vs)
            a[v.decl().name()] = rand_value(v)
            push(a, 1)
            # and the same with the defined variables recomputed
            b = redefine(a, vs, tn, inst)
            if b is not None:
                push(b, 2)
    for _ in range(n_rand):
        a = {v.decl().name(): rand_value(v) for v in vs}
        b = redefine(a, vs, tn, inst)
        push(b if (b is not None and rng.random() < 0.8) else a, 3)
    return out


def redefine(a, vs, tn, inst):
    """Set the auxiliary variables to the values their *documented meaning* gives them
    (independent of the asserted definitions): ends_before, overlap, independent, slack, goal."""
    a = dict(a)
    byid = {t["id"]: t for t in inst["tasks"]}
    code2name = {tuple(tn[v.decl().name()]): v.decl().name() for v in vs}

    def get(code):
        n = code2name.get(tuple(code))
        return None if n is None else a[n]
    for v in vs:
        c = tn[v.decl().name()]
        if c[0] == 4:
            s1, s2 = get([0, c[1]]), get([0, c[2]])
            if s1 is None or s2 is None:
                return None
            a[v.decl().name()] = int(s1 + byid[c[1]]["remaining"] < s2)
    for v in vs:
        c = tn[v.decl().name()]
        if c[0] == 5:
            e1, e2 = get([4, c[1], c[2]]), get([4, c[2], c[1]])
            if e1 is None or e2 is None:
                return None
            a[v.decl().name()] = int(not (e1 or e2))
        elif c[0] == 7:
            a[v.decl().name()] = -2000000000
    return a


# --------------------------------------------------------------------------
def property_negations(w, inst, vs, tn):
    """z3 formulas, built from the instance only, saying that an assignment violates the
    precedence / time / capacity parts of the properties (used for the adversarial search)."""
    code2v = {tuple(tn[v.decl().name()]): v for v in vs}
    byid = {t["id"]: t for t in inst["tasks"]}
    ids = [t["id"] for t in inst["tasks"]]
    negs = []
    for t in inst["tasks"]:
        c = t["id"]
        pc, sc = code2v.get((1, c)), code2v.get((0, c))
        if pc is None:
            continue
        for p in t["parents"]:
            if p not in byid:
                continue
            pp, sp = code2v.get((1, p)), code2v.get((0, p))
            if pp is None:
                continue
            if sc is not None and sp is not None:
                negs.append(("prec", z3.And(pc, z3.Or(z3.Not(pp), sc < sp + byid[p]["remaining"]))))
            else:
                negs.append(("prec", z3.And(pc, z3.Not(pp))))
        if sc is not None:
            negs.append(("time", z3.And(pc, sc < inst["now"])))
            negs.append(("release", z3.And(pc, sc < t["release"])))
            if inst["enforce"]:
                negs.append(("deadline", z3.And(pc, sc + t["remaining"] > t["deadline"])))
        wv = code2v.get((2, c))
        if wv is not None:
            n = wv.size()
            negs.append(("worker", z3.And(pc, z3.And([wv != 2 ** i for i in range(n)]))))
    # two placed tasks on one worker, intervals intersect, same slot of a shared resource
    for i in ids:
        for j in ids:
            if i >= j:
                continue
            pi_, pj = code2v.get((1, i)), code2v.get((1, j))
            si, sj = code2v.get((0, i)), code2v.get((0, j))
            wi, wj = code2v.get((2, i)), code2v.get((2, j))
            if None in (pi_, pj, si, sj, wi, wj):
                continue
            inter = z3.And(si < sj + byid[j]["remaining"], sj < si + byid[i]["remaining"])
            for k, wk in enumerate(inst["workers"]):
                tot = {}
                for r, q, _ in wk["res"]:
                    tot[r] = tot.get(r, 0) + q
                for r, q in tot.items():
                    ri, rj = code2v.get((3, i, r)), code2v.get((3, j, r))
                    if ri is None or rj is None or q == 0:
                        continue
                    m = min(q, ri.size())
                    share = z3.Extract(m - 1, 0, ri) & z3.Extract(m - 1, 0, rj)
                    negs.append(("slot", z3.And(pi_, pj, wi == 2 ** k, wj == 2 ** k, inter, share != 0)))
    return negs


def adversarial(assertions, vs, tn, negs, per_kind=2):
    out = []
    counts = {}
    for kind, f in negs:
        if counts.get(kind, 0) >= per_kind:
            continue
        s = z3.Solver()
        s.set("timeout", 20000)
        for a in assertions:
            s.add(a)
        s.add(f)
        if s.check() == z3.sat:
            m = s.model()
            out.append([kind, {v.decl().name(): val_of(m, v) for v in vs}])
            counts[kind] = counts.get(kind, 0) + 1
    return out


def asg_codes(a, tn):
    return sorted([[tn[k], v] for k, v in a.items()])


# --------------------------------------------------------------------------
def one_case(spec, rng, n_models, n_rand):
    w = build(spec)
    sched = make_scheduler(spec)
    now = et(spec["now"])
    inst = extract_instance(w, sched, now)
    tn = name_table(w, inst)
    before = snapshot(w)
    cap, placements, err = run_schedule(w, sched, now)
    after = snapshot(w)
    res = {"instance": inst, "unchanged": before == after, "error": err, "checks": cap.checks}
    if before != after:
        res["diff"] = [[b, a] for b, a in zip(before, after) if a != b][:4]
    if cap.assertions is None:
        res["formulas"] = None
        return res
    try:
        res["formulas"] = [dump(a, tn) for a in cap.assertions]
    except DumpError as e:
        res["formulas"] = None
        res["dump_error"] = str(e)
    try:
        res["soft"] = [[dump(a, tn), int(float(wt))] for a, wt in cap.soft]
    except DumpError as e:
        res["soft"] = None
        res["dump_error"] = str(e)
    if res["formulas"] is None:
        return res
    vs = all_vars(cap.assertions, tn)
    res["vars"] = [[tn[v.decl().name()], (2 if z3.is_bv(v) else 1 if z3.is_bool(v) else 0),
                    (v.size() if z3.is_bv(v) else 0)] for v in vs]
    tid_of = {t: tid for (t, _, _, tid) in w.tasks}
    if placements is not None:
        pool_ix = {str(p.id): i for i, p in enumerate(w.pools)}
        worker_ix = {}
        k = 0
        for p in w.worker_pools.worker_pools:
            for wk in p.workers:
                worker_ix[str(wk.id)] = k
                k += 1
        pl = []
        for p in placements:
            ptype = p.placement_type.value
            if p.is_placed():
                pl.append([tid_of[p.task], ptype, 1, p.placement_time.to(US).time, pool_ix[str(p.worker_pool_id)],
                           worker_ix[str(p.worker_id)] if p.worker_id is not None else -1,
                           0 if p.execution_strategy is None else 1])
            else:
                pl.append([tid_of[p.task], ptype, 0])
        res["placements"] = pl
        res["n_placements"] = len(placements)
        # the solver's own values
        try:
            m = cap.opt.model()
            res["solver_model"] = asg_codes({v.decl().name(): val_of(m, v) for v in vs}, tn)
            res["solver_sat"] = 1
        except z3.Z3Exception:
            res["solver_model"] = None
            res["solver_sat"] = 0
    cands = candidates(cap.assertions, vs, tn, rng, inst, n_models, n_rand)
    res["candidates"] = [[asg_codes(a, tn), evaluate(cap.assertions, vs, a), why] for a, why in cands]
    negs = property_negations(w, inst, vs, tn)
    res["adversarial"] = [[k, asg_codes(a, tn)] for k, a in adversarial(cap.assertions, vs, tn, negs)]
    res["feasible"] = [asg_codes(a, tn) for a, why in cands if why == 0]
    return res


def main():
    rng = random.Random(payload.get("seed", 0))
    out = []
    for k, spec in enumerate(payload["cases"]):
        # /repo draws object ids (uuid) from the global generator; hash-ordered containers of tasks
        # then iterate in an order that depends on them: fix it per case
        random.seed("%s/%d" % (payload.get("seed", 0), k))
        out.append(one_case(spec, rng, payload.get("n_models", 6), payload.get("n_rand", 12)))
    implutil.end({"cases": out})


main()
