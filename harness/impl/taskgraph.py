"""Adapter for C18 / C07 / C06-closure: builds REAL Task / TaskGraph / Workload objects of /repo in the
requested states and runs the real TaskGraph.cancel, notify_task_completion, get_releasable_tasks,
get_schedulable_tasks, resolve_conditional, is_ready_to_run, is_complete / is_cancelled on them.

payload: {"cases": [{"graphs": [graph, ...], "op": [...]}, ...]}
  graph = {"adj": [[id, [child ids]], ...]   the mapping handed to TaskGraph(tasks=...), in this order
           "tasks": {id: [state, release, deadline, raw_remaining, prob_num, terminal, conditional,
                          expected_start, completion, [runtimes]]}, "den": D}
answer: {"results": [canonical value per case], "orders": [key order of Graph._graph of graph 0 per case]}
Random draws are INPUTS: random.choices / random.random / random.choice are replaced, for the duration of
an operation, by functions that return the element at the index given in the payload.
"""
import random

import implutil

payload = implutil.begin()

from utils import EventTime  # noqa: E402
from workload import (BranchPredictionPolicy, ExecutionStrategies, ExecutionStrategy, Job, Placement,  # noqa: E402
                      Resources, Task, TaskGraph, TaskState, WorkProfile, Workload)

LG = implutil.quiet_logger()
for _n in ("Workload", "Resources", "Task"):
    implutil.quiet_logger(_n)
US = EventTime.Unit.US
POLICIES = [BranchPredictionPolicy.WORST_CASE, BranchPredictionPolicy.BEST_CASE, BranchPredictionPolicy.MAXIMUM,
            BranchPredictionPolicy.RANDOM, BranchPredictionPolicy.ALL]


def et(x):
    return EventTime(int(x), US)


def build_graph(gi, spec):
    den = spec["den"]
    tasks = {}
    for sid, f in spec["tasks"].items():
        i = int(sid)
        state, release, deadline, raw, prob, terminal, conditional, estart, completion, runtimes = f
        strategies = ExecutionStrategies([ExecutionStrategy(resources=Resources(resource_vector={}, _logger=LG),
                                                            batch_size=1, runtime=et(r)) for r in runtimes])
        job = Job(name="n%d" % i, profile=WorkProfile(name="p%d_%d" % (gi, i), execution_strategies=strategies),
                  conditional=bool(conditional), terminal=bool(terminal), probability=prob / den)
        t = Task(name="n%d" % i, task_graph="G%d" % gi, job=job, deadline=et(deadline), release_time=et(release),
                 _logger=LG)
        # put the task in the requested state (direct construction of a state vector)
        t._state = TaskState(state)
        t._remaining_time = et(raw)
        t._completion_time = et(completion)
        if estart is not None:
            t._scheduler_placement = Placement.create_task_placement(
                task=t, placement_time=et(estart), worker_pool_id="wp", worker_id="w",
                execution_strategy=strategies[0] if runtimes else None)
        t._verif_id = i
        tasks[i] = t
    late = [tuple(e) for e in spec.get("late", [])]
    mapping = {}
    for n, cs in spec["adj"]:
        cs = list(cs)
        for (p, c) in late:
            if p == n:
                # (eligible late edges are the LAST children of their parent, removed from the end)
                assert cs and cs[-1] == c or c in cs
                cs.reverse()
                cs.remove(c)
                cs.reverse()
        mapping[tasks[n]] = [tasks[c] for c in cs]
    tg = TaskGraph(name="G%d" % gi, tasks=mapping)
    if late:
        # the graph is used once (what any scheduler invocation, cancel or remaining-time query does), THEN the remaining
        # dependencies are declared with Graph.add_child directly
        try:
            tg.topological_sort()
        except Exception:
            pass
        try:
            tg.get_remaining_time()
        except Exception:
            pass
        for (p, c) in late:
            tg.add_child(tasks[p], tasks[c])
    return tg, tasks, den


def ids(ts):
    return [t._verif_id for t in ts]


def state_vector(tg, den):
    out = []
    for t in tg.get_nodes():
        p = t.probability * den
        if p != int(p):
            raise SystemExit("probability %r is not a multiple of 1/%d" % (t.probability, den))
        out.append([t._verif_id, t.state.value, int(p), t.remaining_time.to(US).time])
    return out


class Draws:
    """replaces the three functions of the `random` module that the modelled code reads"""

    def __init__(self, draws, forced_choice=None):
        self.draws = list(draws)
        self.forced = forced_choice
        self.choices_calls = 0
        self.saved = None

    def __enter__(self):
        self.saved = (random.choices, random.random, random.choice)

        def choices(population, weights=None, k=1, **kw):
            self.choices_calls += 1
            if self.forced is None or not (0 <= self.forced < len(population)) or k != 1:
                raise IndexError("draw out of range")
            return [population[self.forced]]

        def rnd():
            if not self.draws:
                raise IndexError("no draw left")
            d = self.draws.pop(0)
            return 0.0 if d != 0 else 1.0

        def choice(seq):
            if not self.draws:
                raise IndexError("no draw left")
            i = self.draws.pop(0)
            if not (0 <= i < len(seq)):
                raise IndexError("draw out of range")
            return seq[i]

        random.choices, random.random, random.choice = choices, rnd, choice
        return self

    def __exit__(self, *a):
        random.choices, random.random, random.choice = self.saved


def guard(f):
    try:
        return [0, f()]
    except ValueError:
        return [1, 1]
    except RuntimeError as e:
        return [1, 6 if "not a DAG" in str(e) else 3]
    except IndexError:
        return [1, 5]
    except (KeyError, AttributeError):
        return [1, 4]


class FakePools:
    def __init__(self, placed):
        self.placed = placed

    def __len__(self):
        return 1

    def get_placed_tasks(self):
        return list(self.placed)


def sched_kwargs(o, tasks):
    return dict(time=et(o["time"]), lookahead=et(o["lookahead"]), preemption=bool(o["preemption"]),
                retract_schedules=bool(o["retract"]),
                worker_pools=None if o["placed"] is None else FakePools([tasks[i] for i in o["placed"]]),
                policy=POLICIES[o["policy"]], release_taskgraphs=bool(o["release_tg"]))


def run_case(case):
    built = [build_graph(i, g) for i, g in enumerate(case["graphs"])]
    tg, tasks, den = built[0]
    op = case["op"]
    k = op[0]
    order = ids(tg.get_nodes())
    if k == "cancel":
        r = guard(lambda: ids(tg.cancel(tasks[op[1]], et(op[2]))))
        return [r, state_vector(tg, den)], order
    if k == "notify":
        with Draws([], forced_choice=op[3]) as d:
            r = guard(lambda: [ids(x) for x in tg.notify_task_completion(tasks[op[1]], et(op[2]))])
        return [r, state_vector(tg, den), d.choices_calls], order
    if k == "releasable":
        return ids(tg.get_releasable_tasks()), order
    if k == "sched":
        with Draws(op[2]) as d:
            r = guard(lambda: ids(tg.get_schedulable_tasks(**sched_kwargs(op[1], tasks))))
            left = len(d.draws)
        return ([1, r[1]] if r[0] else [0, [r[1], left]]), order
    if k == "wl_sched":
        wl = Workload.from_task_graphs({b[0].name: b[0] for b in built})
        alltasks = {}
        where = {}
        for gi, b in enumerate(built):
            for i, t in b[1].items():
                where[id(t)] = [gi, i]
        o = op[1]
        kw = sched_kwargs(dict(o, placed=None), tasks)
        if o["placed"] is not None:
            kw["worker_pools"] = FakePools([built[gi][1][i] for gi, i in o["placed"]])
        with Draws(op[2]) as d:
            r = guard(lambda: [where[id(t)] for t in wl.get_schedulable_tasks(**kw)])
            left = len(d.draws)
        return ([1, r[1]] if r[0] else [0, [r[1], left]]), order
    if k == "fallback":
        # REAL lifecycle calls on task x: scheduled ahead of its release, released while SCHEDULED, unscheduled
        x = tasks[op[1]]
        x._state = TaskState.VIRTUAL
        x._pre_scheduling_state = TaskState.VIRTUAL
        strat = x.available_execution_strategies[0]
        x.schedule(et(op[2]), Placement.create_task_placement(task=x, placement_time=et(op[2] + 3), worker_pool_id="wp",
                                                              worker_id="w", execution_strategy=strat))
        x.release(et(op[3]))
        x.unschedule(et(op[3]))
        after = [x.state.value, x.release_time.to(US).time]
        with Draws(op[5]) as d:
            r = guard(lambda: ids(tg.get_schedulable_tasks(**sched_kwargs(op[4], tasks))))
            left = len(d.draws)
        return [after, ([1, r[1]] if r[0] else [0, [r[1], left]]), ids(tg.get_releasable_tasks())], order
    if k == "ready":
        return int(tasks[op[1]].is_ready_to_run(tg)), order
    if k == "flags":
        return [int(tg.is_complete()), int(tg.is_cancelled())], order
    if k == "topo":
        return guard(lambda: ids(tg.topological_sort())), order
    if k == "dfs":
        return [ids(tg.depth_first(tasks[op[1]]))], order
    if k == "resolve":
        with Draws(op[3]) as d:
            r = guard(lambda: ids(tg.resolve_conditional(tasks[op[1]], POLICIES[op[2]])))
            left = len(d.draws)
        return ([1, r[1]] if r[0] else [0, [r[1], left]]), order
    raise SystemExit("unknown op %r" % (k,))


def choices_contract(samples):
    """the real random.choices on weight vectors with zeros: index returned, per sample"""
    out = []
    rng = random.Random(12345)
    for w in samples:
        pop = list(range(len(w)))
        out.append([rng.choices(population=pop, weights=w, k=1)[0] for _ in range(20)])
    return out


def submission(cases):
    """JobGraph._generate_task_graph with resolve_conditionals_at_submission: which child of each
    conditional got probability 1 (jobs.py), then the real notify_task_completion with the REAL
    random.choices on the resolved graph."""
    from workload import JobGraph
    out = []
    for c in cases:
        jobs = {}
        for i, (terminal, conditional, prob) in c["jobs"].items():
            strategies = ExecutionStrategies([ExecutionStrategy(resources=Resources(resource_vector={}, _logger=LG),
                                                                batch_size=1, runtime=et(5))])
            jobs[int(i)] = Job(name="j%s" % i, profile=WorkProfile(name="jp%s" % i, execution_strategies=strategies),
                               conditional=bool(conditional), terminal=bool(terminal), probability=prob / c["den"])
        jg = JobGraph(name="JG", jobs={jobs[n]: [jobs[x] for x in cs] for n, cs in c["adj"]})

        class F:
            resolve_conditionals_at_submission = True
            min_deadline_variance = 0
            max_deadline_variance = 0
            min_deadline = 0
            max_deadline = 10 ** 9
            use_branch_predicated_deadlines = False
            decompose_deadlines = False
            log_dir = None
            log_file_name = None
            log_level = "error"
            random_seed = c["seed"]
        tg = jg._generate_task_graph(release_time=et(0), task_graph_name="JG@0", timestamp=0, _flags=F)
        byname = {t.name: t for t in tg.get_nodes()}
        res = []
        for i in sorted(jobs):
            t = byname["j%d" % i]
            if not t.conditional:
                continue
            kids = tg.get_children(t)
            probs = [k.probability for k in kids]
            t._state = TaskState.COMPLETED
            random.seed(c["seed"])
            try:
                rel, can = tg.notify_task_completion(t, et(1))
                res.append([i, [int(k.name[1:]) for k in kids], [int(p * c["den"]) for p in probs],
                            [int(x.name[1:]) for x in rel], sorted(int(x.name[1:]) for x in can)])
            except (ValueError, RuntimeError) as e:
                res.append([i, [int(k.name[1:]) for k in kids], [int(p * c["den"]) for p in probs], None, str(e)[:80]])
            break      # only the first conditional: completing it changes the graph
        out.append(res)
    return out


def submission_probs(cases):
    """JobGraph._generate_task_graph(resolve_conditionals_at_submission=True): the probability of every task
    afterwards (numerators), with the key order / children lists of the JOB graph"""
    from workload import JobGraph
    out = []
    for c in cases:
        jobs = {}
        for i, (terminal, conditional, prob) in c["jobs"].items():
            strategies = ExecutionStrategies([ExecutionStrategy(resources=Resources(resource_vector={}, _logger=LG),
                                                                batch_size=1, runtime=et(5))])
            jobs[int(i)] = Job(name="j%s" % i, profile=WorkProfile(name="jp%s" % i, execution_strategies=strategies),
                               conditional=bool(conditional), terminal=bool(terminal), probability=prob / c["den"])
        jg = JobGraph(name="JG", jobs={jobs[n]: [jobs[x] for x in cs] for n, cs in c["adj"]})

        class F:
            resolve_conditionals_at_submission = True
            min_deadline_variance = 0
            max_deadline_variance = 0
            min_deadline = 0
            max_deadline = 10 ** 9
            use_branch_predicated_deadlines = False
            decompose_deadlines = False
            log_dir = None
            log_file_name = None
            log_level = "error"
            random_seed = 0
        canon = [[int(j.name[1:]), [int(x.name[1:]) for x in cs]] for j, cs in jg._graph.items()]
        try:
            tg = jg._generate_task_graph(release_time=et(0), task_graph_name="JG@0", timestamp=0, _flags=F)
            probs = {}
            for t in tg.get_nodes():
                p = t.probability * c["den"]
                if p != int(p):
                    raise SystemExit("probability %r is not a multiple of 1/%d" % (t.probability, c["den"]))
                probs[int(t.name[1:])] = int(p)
            out.append([canon, [0, [[n, probs[n]] for n, _ in canon]]])
        except ZeroDivisionError:
            out.append([canon, [1, 8]])
        except IndexError:
            out.append([canon, [1, 5]])
        except RuntimeError as e:
            out.append([canon, [1, 2 if "not a DAG" in str(e) else 3]])
        except (ValueError, KeyError, TypeError) as e:
            out.append([canon, [1, 1]])
    return out


res = {}
if "cases" in payload:
    rs, orders = [], []
    for c in payload["cases"]:
        r, o = run_case(c)
        rs.append(r)
        orders.append(o)
    res["results"] = rs
    res["orders"] = orders
if "choices_contract" in payload:
    res["choices_contract"] = choices_contract(payload["choices_contract"])
if "submission" in payload:
    res["submission"] = submission(payload["submission"])
if "submission_probs" in payload:
    res["submission_probs"] = submission_probs(payload["submission_probs"])
implutil.end(res)
