#!/bin/bash
# Build the C20 driver from the CURRENT tetrisched sources of a repo checkout.
#   usage: build.sh <repo root> <output dir>
# Compiles Types/Partition/SolverModel/CapacityConstraint/Expression/OptimizationPasses.cpp as they are (no edits),
# against the sequential TBB shim in ./shim, plus driver.cpp.  Never cached across source changes:
# the caller passes a fresh/cleaned output dir keyed by the source fingerprints.
set -e
REPO="$1"; OUT="$2"
HERE="$(cd "$(dirname "$0")" && pwd)"
T="$REPO/schedulers/tetrisched"
mkdir -p "$OUT"
FLAGS="-std=c++20 -O0 -w -I $T/include -I $HERE/shim"
pids=()
for f in Types Partition SolverModel CapacityConstraint Expression OptimizationPasses; do
  g++ $FLAGS -c "$T/src/$f.cpp" -o "$OUT/$f.o" 2> "$OUT/$f.err" &
  pids+=($!)
done
g++ $FLAGS -c "$HERE/driver.cpp" -o "$OUT/driver.o" 2> "$OUT/driver.err" &
pids+=($!)
rc=0
for p in "${pids[@]}"; do wait "$p" || rc=1; done
if [ $rc -ne 0 ]; then cat "$OUT"/*.err >&2; exit 1; fi
g++ -o "$OUT/strl_driver" "$OUT"/Types.o "$OUT"/Partition.o "$OUT"/SolverModel.o "$OUT"/CapacityConstraint.o "$OUT"/Expression.o "$OUT"/OptimizationPasses.o "$OUT"/driver.o -lpthread
