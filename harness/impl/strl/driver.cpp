// Stand-alone driver for property C20 (/verif): builds STRL expression trees from a line-based
// description on stdin, runs the REAL tetrisched lowering (Expression::parse,
// CapacityConstraintMap) from /repo's current sources, dumps the compiled optimisation model,
// injects variable values and dumps Expression::populateResults().
//
// No solver back-end is linked: the model types declare `friend tetrisched::GurobiSolver`, and
// that class is only forward-declared by Types.hpp, so this file defines it (as a pure
// accessor) to read variables / bounds / constraints / objective and to set solution values.
//
// Input (whitespace separated tokens, one record per line):
//   CASE <now> <granularity>
//   RANGES <k> (<first> <second> <granularity>)*k     range-based (dynamic) discretisation, as passed to
//                                                      Scheduler::registerSTRL(timeRangeToGranularities)
//   PASSES <critical-path 0|1> <discretisation-selection 0|1> <capacity-purge 0|1> <minDisc> <maxDisc> <threshold%>
//                                                      OptimizationPassRunner, run around parse like Scheduler.cpp:84-110
//   PART <pid> <quantity> <available 0|1>
//   NODE <idx> CHOOSE <name> <amount> <start> <dur> <util> <k> <pid>*k
//   NODE <idx> ALLOC  <name> <start> <dur> <k> (<pid> <amount>)*k
//   NODE <idx> WCHOOSE <name> <amount> <start> <dur> <end> <gran> <util> <k> <pid>*k
//   NODE <idx> MIN|MAX|OBJ <name> <k> <child idx>*k
//   NODE <idx> LT <name> <k> <child idx>*k
//   NODE <idx> SCALE <name> <factor> <disregard 0|1> <k> <child idx>*k
//   ROOT <idx>
//   ASSIGN <n> <value>*n          (values by variable position, variables sorted by id)
//   END
// Output: one JSON object per CASE on its own line.
#include <algorithm>
#include <cmath>
#include <cstdio>
#include <iostream>
#include <map>
#include <sstream>
#include <string>
#include <vector>

#include "tetrisched/CapacityConstraint.hpp"
#include "tetrisched/Expression.hpp"
#include "tetrisched/OptimizationPasses.hpp"
#include "tetrisched/Partition.hpp"
#include "tetrisched/SolverModel.hpp"

namespace tetrisched {
class GurobiSolver {
 public:
  static SolverModelPtr newModel() { return SolverModelPtr(new SolverModel()); }
  static std::vector<VariablePtr> variables(SolverModelPtr m) {
    std::vector<VariablePtr> vs;
    for (auto& kv : m->modelVariables) vs.push_back(kv.second);
    std::sort(vs.begin(), vs.end(),
              [](const VariablePtr& a, const VariablePtr& b) { return a->variableId < b->variableId; });
    return vs;
  }
  static std::vector<ConstraintPtr> constraints(SolverModelPtr m) {
    std::vector<ConstraintPtr> cs;
    for (auto& kv : m->modelConstraints) cs.push_back(kv.second);
    std::sort(cs.begin(), cs.end(),
              [](const ConstraintPtr& a, const ConstraintPtr& b) { return a->constraintId < b->constraintId; });
    return cs;
  }
  static ObjectiveFunctionPtr objective(SolverModelPtr m) { return m->objectiveFunction; }
  static int vtype(const VariablePtr& v) { return static_cast<int>(v->variableType); }
  static std::optional<double> lb(const VariablePtr& v) { return v->lowerBound; }
  static std::optional<double> ub(const VariablePtr& v) { return v->upperBound; }
  static uint32_t vid(const VariablePtr& v) { return v->variableId; }
  static void setValue(const VariablePtr& v, double x) { v->solutionValue = x; }
  static const tbb::concurrent_vector<std::pair<double, VariablePtr>>& terms(const ConstraintPtr& c) {
    return c->terms;
  }
  static double rhs(const ConstraintPtr& c) { return c->rightHandSide; }
  static int ctype(const ConstraintPtr& c) { return static_cast<int>(c->constraintType); }
  static bool active(const ConstraintPtr& c) { return c->active; }
  static bool lazy(const ConstraintPtr& c) { return c->attributes.count(ConstraintAttribute::LAZY_CONSTRAINT) > 0; }
  static const tbb::concurrent_vector<std::pair<double, VariablePtr>>& oterms(const ObjectiveFunctionPtr& o) {
    return o->terms;
  }
  static int otype(const ObjectiveFunctionPtr& o) { return static_cast<int>(o->objectiveType); }
};
}  // namespace tetrisched

using namespace tetrisched;
using G = tetrisched::GurobiSolver;

struct NodeSpec {
  std::string kind, name;
  std::vector<long long> a;       // scalar arguments
  std::vector<long long> pids;    // partitions (CHOOSE/WCHOOSE) or flattened (pid, amount) pairs (ALLOC)
  std::vector<int> kids;
};
struct CaseSpec {
  long long now = 0, gran = 1;
  std::vector<std::array<long long, 3>> parts;
  std::vector<std::pair<int, NodeSpec>> nodes;   // in input order: children before parents
  int root = -1;
  std::vector<std::vector<double>> assigns;
  std::vector<std::array<long long, 3>> ranges;     // empty: static discretisation
  std::array<long long, 6> passes{0, 0, 0, 1, 5, 80};
};

static std::string jnum(double x) {
  char buf[64];
  if (std::isfinite(x) && x == std::floor(x) && std::fabs(x) < 9e15) {
    snprintf(buf, sizeof buf, "%lld", static_cast<long long>(x));
  } else if (std::isfinite(x)) {
    snprintf(buf, sizeof buf, "%.17g", x);
  } else {
    snprintf(buf, sizeof buf, "\"%s\"", x > 0 ? "inf" : (x < 0 ? "-inf" : "nan"));
  }
  return buf;
}
static std::string jstr(const std::string& s) {
  std::string o = "\"";
  for (char c : s) {
    if (c == '"' || c == '\\') { o += '\\'; o += c; }
    else if (c == '\n') o += "\\n";
    else if (static_cast<unsigned char>(c) < 32) o += ' ';
    else o += c;
  }
  return o + "\"";
}
static std::string jopt(const std::optional<double>& v) { return v.has_value() ? jnum(*v) : "null"; }

struct Built {
  std::map<int, ExpressionPtr> nodes;
  std::map<long long, PartitionPtr> parts;
  Partitions available;
  SolverModelPtr model;
  CapacityConstraintMapPtr cmap;
};

static Partitions mkParts(Built& b, const std::vector<long long>& pids) {
  Partitions p;
  for (auto pid : pids) p.addPartition(b.parts.at(pid));
  return p;
}

static void build(const CaseSpec& cs, Built& b) {
  for (auto& p : cs.parts) {
    b.parts[p[0]] = std::make_shared<Partition>(static_cast<uint32_t>(p[0]), "p" + std::to_string(p[0]),
                                                static_cast<size_t>(p[1]));
    if (p[2]) b.available.addPartition(b.parts[p[0]]);
  }
  for (auto& [idx, n] : cs.nodes) {
    ExpressionPtr e;
    if (n.kind == "CHOOSE") {
      e = std::make_shared<ChooseExpression>(n.name, mkParts(b, n.pids), static_cast<uint32_t>(n.a[0]),
                                             static_cast<Time>(n.a[1]), static_cast<Time>(n.a[2]),
                                             static_cast<double>(n.a[3]));
    } else if (n.kind == "ALLOC") {
      PriorPlacement pp;
      for (size_t i = 0; i + 1 < n.pids.size(); i += 2)
        pp.push_back({b.parts.at(n.pids[i]), static_cast<uint32_t>(n.pids[i + 1])});
      e = std::make_shared<AllocationExpression>(n.name, pp, static_cast<Time>(n.a[0]), static_cast<Time>(n.a[1]));
    } else if (n.kind == "WCHOOSE") {
      e = std::make_shared<WindowedChooseExpression>(n.name, mkParts(b, n.pids), static_cast<uint32_t>(n.a[0]),
                                                     static_cast<Time>(n.a[1]), static_cast<Time>(n.a[2]),
                                                     static_cast<Time>(n.a[3]), static_cast<Time>(n.a[4]),
                                                     static_cast<double>(n.a[5]));
    } else if (n.kind == "MIN") {
      e = std::make_shared<MinExpression>(n.name);
    } else if (n.kind == "MAX") {
      e = std::make_shared<MaxExpression>(n.name);
    } else if (n.kind == "OBJ") {
      e = std::make_shared<ObjectiveExpression>(n.name);
    } else if (n.kind == "LT") {
      e = std::make_shared<LessThanExpression>(n.name);
    } else if (n.kind == "SCALE") {
      e = std::make_shared<ScaleExpression>(n.name, static_cast<double>(n.a[0]), n.a[1] != 0);
    } else {
      throw std::runtime_error("unknown node kind " + n.kind);
    }
    for (int k : n.kids) e->addChild(b.nodes.at(k));
    b.nodes[idx] = e;
  }
  b.model = G::newModel();
  // Scheduler::registerSTRL, Scheduler.cpp:77-83
  if (cs.ranges.empty()) {
    b.cmap = std::make_shared<CapacityConstraintMap>(static_cast<Time>(cs.gran));
  } else {
    std::vector<std::pair<TimeRange, Time>> rs;
    for (auto& r : cs.ranges)
      rs.push_back({{static_cast<Time>(r[0]), static_cast<Time>(r[1])}, static_cast<Time>(r[2])});
    b.cmap = std::make_shared<CapacityConstraintMap>(rs);
  }
}

// registerSTRL: pre-translation passes, parse, post-translation passes (Scheduler.cpp:84-110)
static void lower(const CaseSpec& cs, Built& b) {
  auto root = b.nodes.at(cs.root);
  if (root->getType() != ExpressionType::EXPR_OBJECTIVE)
    throw std::runtime_error("The expression passed to the scheduler is not an objective function");
  auto cfg = std::make_shared<OptimizationPassConfig>();
  cfg->minDiscretization = static_cast<Time>(cs.passes[3]);
  cfg->maxDiscretization = static_cast<Time>(cs.passes[4]);
  cfg->maxOccupancyThreshold = static_cast<float>(cs.passes[5]) / 100.0f;
  OptimizationPassRunner runner(cfg, false);
  if (cs.passes[0]) runner.addOptimizationPass(OptimizationPassCategory::CRITICAL_PATH_PASS);
  if (cs.passes[1]) runner.addOptimizationPass(OptimizationPassCategory::DYNAMIC_DISCRETIZATION_PASS);
  if (cs.passes[2]) runner.addOptimizationPass(OptimizationPassCategory::CAPACITY_CONSTRAINT_PURGE_PASS);
  runner.runPreTranslationPasses(static_cast<Time>(cs.now), root, b.cmap);
  root->parse(b.model, b.available, b.cmap, static_cast<Time>(cs.now));
  runner.runPostTranslationPasses(static_cast<Time>(cs.now), root, b.cmap);
}

static std::string dumpModel(Built& b) {
  std::ostringstream o;
  auto vs = G::variables(b.model);
  std::map<uint32_t, int> pos;
  o << "\"vars\":[";
  for (size_t i = 0; i < vs.size(); i++) {
    pos[G::vid(vs[i])] = static_cast<int>(i);
    o << (i ? "," : "") << "[" << jstr(vs[i]->getName()) << "," << G::vtype(vs[i]) << "," << jopt(G::lb(vs[i]))
      << "," << jopt(G::ub(vs[i])) << "]";
  }
  o << "],\"rows\":[";
  auto cs = G::constraints(b.model);
  for (size_t i = 0; i < cs.size(); i++) {
    o << (i ? "," : "") << "{\"name\":" << jstr(cs[i]->getName()) << ",\"terms\":[";
    bool first = true;
    for (auto& [coef, var] : G::terms(cs[i])) {
      o << (first ? "" : ",") << "[" << jnum(coef) << "," << (var ? pos.at(G::vid(var)) : -1) << "]";
      first = false;
    }
    o << "],\"sense\":" << G::ctype(cs[i]) << ",\"rhs\":" << jnum(G::rhs(cs[i])) << ",\"active\":"
      << (G::active(cs[i]) ? 1 : 0) << ",\"lazy\":" << (G::lazy(cs[i]) ? 1 : 0) << "}";
  }
  o << "],\"obj\":";
  auto obj = G::objective(b.model);
  if (!obj) {
    o << "null";
  } else {
    o << "{\"type\":" << G::otype(obj) << ",\"ub\":" << jopt(obj->getUpperBound()) << ",\"terms\":[";
    bool first = true;
    for (auto& [coef, var] : G::oterms(obj)) {
      o << (first ? "" : ",") << "[" << jnum(coef) << "," << (var ? pos.at(G::vid(var)) : -1) << "]";
      first = false;
    }
    o << "]}";
  }
  return o.str();
}

static std::string dumpSolution(const CaseSpec& cs, Built& b, const std::vector<double>& vals) {
  std::ostringstream o;
  auto vs = G::variables(b.model);
  if (vals.size() != vs.size()) {
    return "{\"err\":\"assignment has " + std::to_string(vals.size()) + " values for " + std::to_string(vs.size()) +
           " variables\"}";
  }
  for (size_t i = 0; i < vs.size(); i++) G::setValue(vs[i], vals[i]);
  auto root = b.nodes.at(cs.root);
  auto sol = root->populateResults(b.model);
  o << "{\"err\":null,\"objective\":" << jnum(b.model->getObjectiveValue()) << ",\"type\":" << static_cast<int>(sol->type)
    << ",\"utility\":" << jopt(sol->utility) << ",\"placements\":[";
  std::vector<std::string> names;
  for (auto& [name, _] : sol->placements) names.push_back(name);
  std::sort(names.begin(), names.end());
  for (size_t i = 0; i < names.size(); i++) {
    auto& p = sol->placements.at(names[i]);
    o << (i ? "," : "") << "{\"name\":" << jstr(p->getName()) << ",\"placed\":" << (p->isPlaced() ? 1 : 0)
      << ",\"start\":" << (p->getStartTime() ? jnum(*p->getStartTime()) : "null")
      << ",\"end\":" << (p->getEndTime() ? jnum(*p->getEndTime()) : "null") << ",\"allocs\":[";
    std::vector<std::array<long long, 3>> al;
    for (auto& [pid, s] : p->getPartitionAllocations())
      for (auto& [t, q] : s) al.push_back({pid, t, q});
    std::sort(al.begin(), al.end());
    for (size_t k = 0; k < al.size(); k++)
      o << (k ? "," : "") << "[" << al[k][0] << "," << al[k][1] << "," << al[k][2] << "]";
    o << "]}";
  }
  o << "],\"nodes\":[";
  bool first = true;
  for (auto& [idx, e] : b.nodes) {
    auto s = e->getSolution();
    o << (first ? "" : ",") << "[" << idx << ",";
    first = false;
    if (!s.has_value()) {
      o << "null]";
      continue;
    }
    auto sv = s.value();
    o << static_cast<int>(sv->type) << "," << (sv->startTime ? jnum(*sv->startTime) : "null") << ","
      << (sv->endTime ? jnum(*sv->endTime) : "null") << "," << jopt(sv->utility) << "]";
  }
  o << "]}";
  return o.str();
}

static std::string runCase(const CaseSpec& cs) {
  std::ostringstream o;
  o << "{";
  try {
    Built b;
    build(cs, b);
    lower(cs, b);
    o << "\"err\":null," << dumpModel(b) << ",\"sols\":[";
    for (size_t i = 0; i < cs.assigns.size(); i++) {
      o << (i ? "," : "");
      try {
        Built b2;   // populateResults memoises the solution in the tree: rebuild and re-parse per assignment
        build(cs, b2);
        lower(cs, b2);
        o << dumpSolution(cs, b2, cs.assigns[i]);
      } catch (std::exception& e) {
        o << "{\"err\":" << jstr(e.what()) << "}";
      }
    }
    o << "]";
  } catch (std::exception& e) {
    o.str("");
    o << "{\"err\":" << jstr(e.what());
  }
  o << "}";
  return o.str();
}

int main() {
  std::ios::sync_with_stdio(false);
  std::string line;
  CaseSpec cs;
  bool open = false;
  // AllocationExpression::parse prints to stdout (print=true); keep stdout for JSON only.
  std::streambuf* realOut = std::cout.rdbuf();
  while (std::getline(std::cin, line)) {
    std::istringstream in(line);
    std::string tok;
    if (!(in >> tok)) continue;
    if (tok == "CASE") {
      cs = CaseSpec();
      in >> cs.now >> cs.gran;
      open = true;
    } else if (tok == "RANGES") {
      int k;
      in >> k;
      for (int i = 0; i < k; i++) {
        std::array<long long, 3> r{};
        in >> r[0] >> r[1] >> r[2];
        cs.ranges.push_back(r);
      }
    } else if (tok == "PASSES") {
      for (int i = 0; i < 6; i++) in >> cs.passes[i];
    } else if (tok == "PART") {
      std::array<long long, 3> p{};
      in >> p[0] >> p[1] >> p[2];
      cs.parts.push_back(p);
    } else if (tok == "NODE") {
      int idx;
      NodeSpec n;
      in >> idx >> n.kind >> n.name;
      int nargs = n.kind == "CHOOSE" ? 4 : n.kind == "ALLOC" ? 2 : n.kind == "WCHOOSE" ? 6 : n.kind == "SCALE" ? 2 : 0;
      for (int i = 0; i < nargs; i++) { long long v; in >> v; n.a.push_back(v); }
      int k;
      in >> k;
      bool leaf = n.kind == "CHOOSE" || n.kind == "ALLOC" || n.kind == "WCHOOSE";
      if (n.kind == "ALLOC") k *= 2;
      for (int i = 0; i < k; i++) {
        long long v;
        in >> v;
        if (leaf) n.pids.push_back(v); else n.kids.push_back(static_cast<int>(v));
      }
      cs.nodes.push_back({idx, n});
    } else if (tok == "ROOT") {
      in >> cs.root;
    } else if (tok == "ASSIGN") {
      int n;
      in >> n;
      std::vector<double> v(n);
      for (int i = 0; i < n; i++) in >> v[i];
      cs.assigns.push_back(v);
    } else if (tok == "END") {
      if (open) {
        std::ostringstream sink;
        std::cout.rdbuf(sink.rdbuf());     // swallow the library's own prints while it runs
        std::string res = runCase(cs);
        std::cout.rdbuf(realOut);
        std::cout << res << "\n";
      }
      open = false;
    }
  }
  return 0;
}
