// Sequential stand-in for tbb::parallel_for / tbb::blocked_range.
#ifndef VERIF_TBB_SHIM_PARALLEL_FOR_H
#define VERIF_TBB_SHIM_PARALLEL_FOR_H
#include <cstddef>
namespace tbb {
template <typename T>
class blocked_range {
  T b, e;

 public:
  blocked_range(T b_, T e_) : b(b_), e(e_) {}
  T begin() const { return b; }
  T end() const { return e; }
};
template <typename R, typename F>
void parallel_for(const R& r, const F& f) { f(r); }
}  // namespace tbb
#endif
