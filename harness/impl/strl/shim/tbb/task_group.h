// Sequential stand-in for tbb::task_group: run() executes the task at once.
#ifndef VERIF_TBB_SHIM_TASK_GROUP_H
#define VERIF_TBB_SHIM_TASK_GROUP_H
namespace tbb {
class task_group {
 public:
  template <typename F> void run(F&& f) { f(); }
  void wait() {}
};
}  // namespace tbb
#endif
