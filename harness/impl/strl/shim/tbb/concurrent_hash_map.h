// Sequential stand-in for tbb::concurrent_hash_map (only the members used by tetrisched).
// Part of the /verif harness for property C20; /repo's extern/tbb submodule is empty.
#ifndef VERIF_TBB_SHIM_CONCURRENT_HASH_MAP_H
#define VERIF_TBB_SHIM_CONCURRENT_HASH_MAP_H
#include <cstddef>
#include <functional>
#include <unordered_map>
#include <utility>
namespace tbb {
template <typename K>
struct tbb_hash_compare {
  static size_t hash(const K& k) { return std::hash<K>()(k); }
  static bool equal(const K& a, const K& b) { return a == b; }
};
template <typename K, typename V, typename HC = tbb_hash_compare<K>>
class concurrent_hash_map {
  struct H { size_t operator()(const K& k) const { return HC::hash(k); } };
  struct E { bool operator()(const K& a, const K& b) const { return HC::equal(a, b); } };
  using M = std::unordered_map<K, V, H, E>;
  M m;

 public:
  using value_type = typename M::value_type;
  using iterator = typename M::iterator;
  using const_iterator = typename M::const_iterator;
  class accessor {
    value_type* p = nullptr;
    friend class concurrent_hash_map;

   public:
    value_type* operator->() const { return p; }
    value_type& operator*() const { return *p; }
    bool empty() const { return p == nullptr; }
    void release() { p = nullptr; }
  };
  class const_accessor {
    const value_type* p = nullptr;
    friend class concurrent_hash_map;

   public:
    const value_type* operator->() const { return p; }
    const value_type& operator*() const { return *p; }
    bool empty() const { return p == nullptr; }
    void release() { p = nullptr; }
  };
  struct range_type {
    M* m;
    iterator begin() const { return m->begin(); }
    iterator end() const { return m->end(); }
  };
  bool find(accessor& a, const K& k) {
    auto it = m.find(k);
    if (it == m.end()) { a.p = nullptr; return false; }
    a.p = &*it;
    return true;
  }
  bool find(const_accessor& a, const K& k) const {
    auto it = m.find(k);
    if (it == m.end()) { a.p = nullptr; return false; }
    a.p = &*it;
    return true;
  }
  bool insert(accessor& a, const K& k) {
    auto r = m.try_emplace(k);
    a.p = &*r.first;
    return r.second;
  }
  bool insert(accessor& a, const value_type& kv) {
    auto r = m.insert(kv);
    a.p = &*r.first;
    return r.second;
  }
  bool erase(const K& k) { return m.erase(k) > 0; }
  size_t size() const { return m.size(); }
  bool empty() const { return m.empty(); }
  void clear() { m.clear(); }
  iterator begin() { return m.begin(); }
  iterator end() { return m.end(); }
  const_iterator begin() const { return m.begin(); }
  const_iterator end() const { return m.end(); }
  range_type range() { return range_type{&m}; }
};
}  // namespace tbb
#endif
