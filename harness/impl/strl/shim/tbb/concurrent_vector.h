// Sequential stand-in for tbb::concurrent_vector.
#ifndef VERIF_TBB_SHIM_CONCURRENT_VECTOR_H
#define VERIF_TBB_SHIM_CONCURRENT_VECTOR_H
#include <vector>
namespace tbb {
template <typename T>
class concurrent_vector : public std::vector<T> {
 public:
  using std::vector<T>::vector;
};
}  // namespace tbb
#endif
