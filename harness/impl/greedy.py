"""Adapter for the greedy policies: builds real Workload / WorkerPools from a generated case, runs the
real EDFScheduler / FIFOScheduler / LSFScheduler .schedule() and reports, canonicalised:
  init     availability of every resource entry of every worker before the call (the model's input)
  offered  the tasks the policy is offered (workload.get_schedulable_tasks with the policy's arguments)
  result   [0, decisions] | [1, error code] (2 AttributeError, 3 ValueError, 99 other); a decision is [0,t] cancel | [1,t,pool,strategy,time] | [2,t]
  virtual  availability of the policy's virtual pools after the call (captured copy()/deepcopy() result)
  unchanged / diff   every getter of the live cluster and of the tasks, compared before/after
Names, never UUIDs; indices are positions in the case's own lists.
"""
import logging
import random

import implutil

payload = implutil.begin()

lg = implutil.quiet_logger()
for _n in ("EDFScheduler", "FIFOScheduler", "LSFScheduler", "Resources", "Worker", "WorkerPool", "Workload",
           "TaskGraph", "dummy"):
    q = logging.getLogger(_n)
    q.handlers = [logging.NullHandler()]
    q.propagate = False
    q.setLevel(logging.CRITICAL + 1)

from utils import EventTime  # noqa: E402
from workers import Worker, WorkerPool, WorkerPools  # noqa: E402
from workload import (ExecutionStrategies, ExecutionStrategy, Job, Placement, Resource, Resources, Task,  # noqa: E402
                      TaskGraph, WorkProfile, Workload)
import schedulers.edf_scheduler as edf_mod  # noqa: E402
import schedulers.fifo_scheduler as fifo_mod  # noqa: E402
import schedulers.lsf_scheduler as lsf_mod  # noqa: E402

RES_NAMES = ["CPU", "GPU", "MEM", "TPU"]
US = EventTime.Unit.US


UNITS = [(EventTime.Unit.US, 1), (EventTime.Unit.MS, 1000), (EventTime.Unit.S, 10 ** 6)]


def et(x, u=0):
    """The instant / duration of x MICROSECONDS, expressed in unit code u (0 us, 1 ms, 2 s) when that is exact."""
    unit, f = UNITS[u or 0]
    x = int(x)
    if x % f != 0:
        unit, f = UNITS[0]
    return EventTime(x // f, unit)


def us(t):
    return t.to(US).time


def build(case):
    pools = []
    for pi, p in enumerate(case["pools"]):
        workers = []
        for wi, w in enumerate(p["workers"]):
            vec = {}
            for ei, (n, tot) in enumerate(w["res"]):
                vec[Resource(name=RES_NAMES[n], _id="p%dw%de%d" % (pi, wi, ei))] = tot
            workers.append(Worker(name="p%dw%d" % (pi, wi), resources=Resources(resource_vector=vec, _logger=lg), _logger=lg))
        pools.append(WorkerPool(name="pool%d" % pi, workers=workers, _logger=lg))
    wps = WorkerPools(pools)
    tasks = []
    graphs = {}
    for ti, t in enumerate(case["tasks"]):
        strategies = []
        for s in t["strats"]:
            vec = {}
            for rq in s["req"]:      # [name, quantity] = `any`;  [name, quantity, [pool, worker, entry]] = that resource id
                rid = "any" if len(rq) == 2 else "p%dw%de%d" % tuple(rq[2])
                vec[Resource(name=RES_NAMES[rq[0]], _id=rid)] = rq[1]
            strategies.append(ExecutionStrategy(resources=Resources(resource_vector=vec, _logger=lg), batch_size=1,
                                                runtime=et(s["runtime"], s.get("runtime_u"))))
        prof = WorkProfile(name="prof%02d" % ti, execution_strategies=ExecutionStrategies(strategies=strategies))
        gname = "g%d" % t["graph"]
        task = Task(name="t%02d" % t.get("name_of", ti), task_graph=gname, job=Job(name="job%02d" % ti, profile=prof), deadline=et(t["deadline"], t.get("deadline_u")),
                    profile=prof, timestamp=t.get("ts", 0), release_time=et(t["release"], t.get("release_u")), _logger=lg)
        task.release(et(t["release"], t.get("release_u")))
        tasks.append(task)
        graphs.setdefault(gname, {})[task] = []
    resident = []
    for ti, t in enumerate(case["tasks"]):
        r = t.get("resident")
        if r is None:
            continue
        task = tasks[ti]
        pool = pools[r["pool"] % len(pools)]
        worker = pool.workers[r["worker"] % len(pool.workers)]
        strategies = list(task.available_execution_strategies)
        if not strategies:
            continue
        s = strategies[r["strat"] % len(strategies)]
        if not worker.can_accomodate_strategy(s):
            continue
        try:        # (a refused or raising placement only means: this task is not resident in this case)
            ok = pool.place_task(task, execution_strategy=s, worker_id=worker.id)
        except (ValueError, RuntimeError):
            ok = False
        if not ok:
            continue
        start = max(r["start"], t["release"])
        su = r.get("start_u") if start == r["start"] else t.get("release_u")
        task.schedule(et(start, su), Placement.create_task_placement(task=task, placement_time=et(start, su),
                                                                     worker_pool_id=pool.id, execution_strategy=s))
        task.start(et(start, su))
        task.update_remaining_time(et(r["remaining"], r.get("remaining_u")))
        resident.append(ti)
    tgs = {}
    for g in sorted(graphs):
        tgs[g] = TaskGraph(name=g, tasks=graphs[g])
    wl = Workload.from_task_graphs(tgs)
    return wps, pools, tasks, wl, resident


def avail(pools_iter):
    out = []
    for p in pools_iter:
        ws = []
        for w in p.workers:
            ws.append([[RES_NAMES.index(r.name), w.resources.get_available_quantity(r)] for r, _ in w.resources.resources])
        out.append(ws)
    return out


def snapshot(wps, pools, tasks, wl):
    """Every getter of the live state, by name."""
    tn = {id(t): i for i, t in enumerate(tasks)}

    def names(ts):
        return [tn.get(id(t), t.unique_name) for t in ts]
    snap = {"npools": len(wps), "pool_order": [p.name for p in wps.worker_pools], "placed_all": names(wps.get_placed_tasks()),
            "full": wps.is_full(), "pools": [], "tasks": []}
    for p in pools:
        ps = {"name": p.name, "placed": names(p.get_placed_tasks()), "len": len(p), "full": p.is_full(),
              "util": [",".join(x.split(",")[:1] + x.split(",")[2:]) for x in p.get_utilization()], "workers": []}
        for w in p.workers:
            res = w.resources
            ws = {"name": w.name, "placed": names(w.get_placed_tasks()), "full": w.is_full(),
                  "strategies": [[tn.get(id(t), -1), list(t.available_execution_strategies).index(s) if s in list(t.available_execution_strategies) else -1]
                                 for t, s in w._placed_tasks.items()],
                  "res": [[r.name, r.id, tot, res.get_available_quantity(r), res.get_allocated_quantity(r)] for r, tot in res.resources],
                  "alloc": [[tn.get(id(t), -1), [[r.name, r.id, q] for r, q in w.get_allocated_resources(t)]] for t in w.get_placed_tasks()],
                  "profiles": [len(w.get_available_profiles()), len(w.get_pending_profiles())]}
            ps["workers"].append(ws)
        snap["pools"].append(ps)
    for t in tasks:
        snap["tasks"].append([t.unique_name, t.state.name, us(t.deadline), us(t.release_time),
                              None if t.remaining_time is None else us(t.remaining_time),
                              us(t.start_time), us(t.completion_time), t.worker_pool_id is not None,
                              None if t.current_placement is None else 1, len(t.available_execution_strategies)])
    snap["workload_len"] = len(wl)
    snap["graphs"] = sorted(wl.task_graphs.keys()) if hasattr(wl, "task_graphs") else []
    return snap


class Capture:
    """copy()/deepcopy() as the scheduler modules see them, remembering the virtual WorkerPools."""
    def __init__(self, fn):
        self.fn = fn
        self.last = None

    def __call__(self, x, *a):
        r = self.fn(x, *a)
        if isinstance(x, WorkerPools):
            self.last = r
        return r


def run_case(case):
    random.seed(case.get("rseed", 0))
    wps, pools, tasks, wl, resident = build(case)
    pol = case["policy"]
    now = et(case["now"], case.get("now_u"))
    if pol == 0:
        mod, sched = edf_mod, edf_mod.EDFScheduler(preemptive=case["preemptive"], runtime=EventTime.zero(),
                                                   enforce_deadlines=case["enforce"])
    elif pol == 1:
        mod, sched = fifo_mod, fifo_mod.FIFOScheduler(preemptive=False, runtime=EventTime.zero(),
                                                      enforce_deadlines=case["enforce"])
    else:
        mod, sched = lsf_mod, lsf_mod.LSFScheduler(preemptive=case["preemptive"], runtime=EventTime.zero())
    sched._logger = lg
    tn = {id(t): i for i, t in enumerate(tasks)}
    pool_idx = {p.id: i for i, p in enumerate(pools)}
    out = {"resident": resident, "init": avail(pools)}
    offered = wl.get_schedulable_tasks(time=now, preemption=sched.preemptive, worker_pools=wps)
    out["offered"] = [tn[id(t)] for t in offered]
    out["offered_attrs"] = [[us(t.deadline), us(t.release_time), us(t.remaining_time)] for t in offered]
    before = snapshot(wps, pools, tasks, wl)
    caps = []
    saved = {}
    for nm in ("copy", "deepcopy"):
        if hasattr(mod, nm):
            saved[nm] = getattr(mod, nm)
            c = Capture(saved[nm])
            caps.append(c)
            setattr(mod, nm, c)
    try:
        try:
            placements = sched.schedule(now, wl, wps)
            decs = []
            for pl in placements:
                t = tn.get(id(pl.task), 999)
                if pl.placement_type == Placement.PlacementType.CANCEL_TASK:
                    decs.append([0, t])
                elif pl.placement_type == Placement.PlacementType.PLACE_TASK and pl.is_placed():
                    strategies = list(pl.task.available_execution_strategies)
                    k = [i for i, s in enumerate(strategies) if s is pl.execution_strategy]
                    decs.append([1, t, pool_idx.get(pl.worker_pool_id, 999), k[0] if k else 999,
                                 us(pl.placement_time) if pl.placement_time is not None else -999])
                elif pl.placement_type == Placement.PlacementType.PLACE_TASK:
                    decs.append([2, t])
                else:
                    decs.append([3, t])
            out["result"] = [0, decs]
            out["runtime_us"] = us(placements.runtime)
        except AttributeError as e:
            out["result"] = [1, 2]
            out["error"] = repr(e)[:200]
        except ValueError as e:
            out["result"] = [1, 3]
            out["error"] = repr(e)[:300]
        except Exception as e:  # noqa: BLE001  any other exception is a value, too
            out["result"] = [1, 99]
            out["error"] = repr(e)[:300]
    finally:
        for nm, f in saved.items():
            setattr(mod, nm, f)
    virt = [c.last for c in caps if c.last is not None]
    out["virtual"] = avail(virt[-1].worker_pools) if virt else None
    out["virtual_ids_same"] = [p.id for p in virt[-1].worker_pools] == [p.id for p in pools] if virt else None
    after = snapshot(wps, pools, tasks, wl)
    out["unchanged"] = before == after
    if before != after:
        out["diff"] = {k: [before[k], after[k]] for k in before if before[k] != after[k]}
    return out


implutil.end({"cases": [run_case(c) for c in payload["cases"]]})
