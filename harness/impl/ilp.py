"""Adapter for the ILP parts of C10/C11/C12/C14: builds real Workload / WorkerPools objects from a
world description, runs the real ILPScheduler.schedule() with gurobipy.Model.optimize wrapped so
that the LIVE model is dumped (variables with bounds, linear rows, indicator / AND general
constraints, quadratic rows, objective), the solver's values are read, and a few probing
objectives are optimised on copies of the live model (feasible points of the implementation's
own constraint system other than the one the solver happens to return).
"""
import re
import implutil

payload = implutil.begin()

import gurobipy as gp  # noqa: E402
from gurobipy import GRB  # noqa: E402

from schedulers import ILPScheduler  # noqa: E402
from utils import EventTime  # noqa: E402
from workers import Worker, WorkerPool, WorkerPools  # noqa: E402
from workload import (  # noqa: E402
    ExecutionStrategies, ExecutionStrategy, Job, Placement, Resource, Resources, Task, TaskGraph,
    TaskState, Workload, WorkProfile,
)

class AdapterError(Exception):
    """The adapter itself cannot interpret what the implementation built (unknown name, non-integral coefficient ...)."""


LG = implutil.quiet_logger()
US = EventTime.Unit.US
ORIG_OPT = gp.Model.optimize
ORIG_ADD = ILPScheduler._add_variables
CUR = {}


MIXED_UNITS = [False]


def et(x):
    """x microseconds as an EventTime; in worlds flagged `units` a positive multiple of 1000 is expressed in ms (of 10^6
    in s): the strategies, deadlines and placements of one world then carry different units"""
    x = int(x)
    if MIXED_UNITS[0] and x > 0 and x % 10 ** 6 == 0:
        return EventTime(x // 10 ** 6, EventTime.Unit.S)
    if MIXED_UNITS[0] and x > 0 and x % 1000 == 0:
        return EventTime(x // 1000, EventTime.Unit.MS)
    return EventTime(x, US)


# ----------------------------------------------------------------------------- names -> keys
T = r"t(\d+)@g\d+"
VAR_PATTERNS = [
    (re.compile(r"^%s_start$" % T), lambda m: [0, int(m[1])]),
    (re.compile(r"^%s_placed_on_w(\d+)_with_batch_size_(\d+)_runtime_(-?\d+)$" % T),
     lambda m: [1, int(m[1]), int(m[2]), int(m[3]) - 1]),
    (re.compile(r"^%s_all_parents_placed$" % T), lambda m: [2, int(m[1])]),
    (re.compile(r"^Overlap\[%s,%s\]$" % (T, T)), lambda m: [3, int(m[1]), int(m[2])]),
    (re.compile(r"^%s_starts_after_%s_ends$" % (T, T)), lambda m: [4, int(m[1]), int(m[2])]),
    (re.compile(r"^%s_ends_before_%s_starts$" % (T, T)), lambda m: [5, int(m[1]), int(m[2])]),
    (re.compile(r"^g(\d+)_reward$"), lambda m: [6, int(m[1])]),
    (re.compile(r"^%s_reward$" % T), lambda m: [7, int(m[1])]),
]
ROW_PATTERNS = [
    (re.compile(r"^%s_enforce_deadlines$" % T), lambda m: [10, int(m[1])]),
    (re.compile(r"^%s_consistent_placement$" % T), lambda m: [11, int(m[1])]),
    (re.compile(r"^%s_previously_scheduled_required_placement$" % T), lambda m: [12, int(m[1])]),
    (re.compile(r"^%s_start_after_%s_on_worker_w(\d+)_with_batch_size_(\d+)_runtime_(-?\d+)$" % (T, T)),
     lambda m: [20, int(m[1]), int(m[2]), int(m[3]), int(m[4]) - 1]),
    (re.compile(r"^%s_parents_placed_False$" % T), lambda m: [21, int(m[1])]),
    (re.compile(r"^%s_parents_placed_True$" % T), lambda m: [22, int(m[1])]),
    (re.compile(r"^%s_placement_False$" % T), lambda m: [23, int(m[1])]),
    (re.compile(r"^%s_no_overlap_%s_dependent$" % (T, T)), lambda m: [30, int(m[1]), int(m[2])]),
    (re.compile(r"^%s_starts_after_%s_ends_False$" % (T, T)), lambda m: [31, int(m[1]), int(m[2])]),
    (re.compile(r"^%s_starts_after_%s_ends_True$" % (T, T)), lambda m: [32, int(m[1]), int(m[2])]),
    (re.compile(r"^%s_ends_before_%s_starts_False$" % (T, T)), lambda m: [33, int(m[1]), int(m[2])]),
    (re.compile(r"^%s_ends_before_%s_starts_True$" % (T, T)), lambda m: [34, int(m[1]), int(m[2])]),
    (re.compile(r"^%s_overlap_%s$" % (T, T)), lambda m: [35, int(m[1]), int(m[2])]),
    (re.compile(r"^%s_w(\d+)_r(\d+)_constraint$" % T), lambda m: [40, int(m[1]), int(m[2]), int(m[3])]),
    (re.compile(r"^%s_reward_constraint$" % T), lambda m: [50, int(m[1])]),
    (re.compile(r"^g(\d+)_reward_constraint$"), lambda m: [51, int(m[1])]),
]


def key_of(name, patterns):
    for rx, f in patterns:
        m = rx.match(name)
        if m:
            return f(m)
    raise AdapterError("ilp adapter: cannot parse the name %r" % name)


def vkey(v):
    return key_of(v.VarName, VAR_PATTERNS)


def zint(x):
    r = int(round(x))
    if abs(x - r) > 1e-9:
        raise AdapterError("ilp adapter: non-integral coefficient %r" % x)
    return r


def terms(pairs):
    """[(key, coef)] -> sorted by key, merged, zeros dropped"""
    acc = {}
    for k, c in pairs:
        acc[tuple(k)] = acc.get(tuple(k), 0) + c
    return [[list(k), c] for k, c in sorted(acc.items()) if c != 0]


def lin_terms(e):
    return terms([(vkey(e.getVar(i)), zint(e.getCoeff(i))) for i in range(e.size())])


def quad_terms(e):
    acc = {}
    for i in range(e.size()):
        a, b = vkey(e.getVar1(i)), vkey(e.getVar2(i))
        if a > b:
            a, b = b, a
        k = (tuple(a), tuple(b))
        acc[k] = acc.get(k, 0) + zint(e.getCoeff(i))
    return [[list(a), list(b), c] for (a, b), c in sorted(acc.items(), key=lambda x: x[0][0] + x[0][1]) if c != 0]


SENSE = {"<": 0, ">": 1, "=": 2}


def bound(x):
    return [] if abs(x) >= 1e30 else [zint(x)]


def dump_model(m):
    m.update()
    vs = []
    for v in m.getVars():
        if v.VType not in ("B", "I"):
            raise AdapterError("ilp adapter: variable %s has type %s" % (v.VarName, v.VType))
        vs.append([vkey(v), 0 if v.VType == "B" else 1, bound(v.LB), bound(v.UB)])
    vs.sort()
    lin = []
    for c in m.getConstrs():
        row = m.getRow(c)
        lin.append([key_of(c.ConstrName, ROW_PATTERNS), lin_terms(row), SENSE[c.Sense], zint(c.RHS - row.getConstant())])
    lin.sort()
    ind, ands = [], []
    for g in m.getGenConstrs():
        k = key_of(g.GenConstrName, ROW_PATTERNS)
        if g.GenConstrType == GRB.GENCONSTR_INDICATOR:
            b, bv, expr, sense, rhs = m.getGenConstrIndicator(g)
            ind.append([k, vkey(b), int(bv), lin_terms(expr), SENSE[sense], zint(rhs - expr.getConstant())])
        elif g.GenConstrType == GRB.GENCONSTR_AND:
            r, ops = m.getGenConstrAnd(g)
            ands.append([k, vkey(r), sorted(vkey(o) for o in ops)])
        else:
            raise AdapterError("ilp adapter: unexpected general constraint type %s" % g.GenConstrType)
    ind.sort()
    ands.sort()
    qs = []
    for q in m.getQConstrs():
        e = m.getQCRow(q)
        le = e.getLinExpr()
        qs.append([key_of(q.QCName, ROW_PATTERNS), lin_terms(le), quad_terms(e), SENSE[q.QCSense], zint(q.QCRHS - le.getConstant())])
    qs.sort()
    o = m.getObjective()
    if m.ModelSense != GRB.MAXIMIZE:
        raise AdapterError("ilp adapter: the objective is not maximised")
    if isinstance(o, gp.QuadExpr):
        le = o.getLinExpr()
        obj = [lin_terms(le), quad_terms(o), zint(le.getConstant())]
    else:
        obj = [lin_terms(o), [], zint(o.getConstant())]
    sizes = [m.NumVars, m.NumConstrs, m.NumGenConstrs, m.NumQConstrs]
    return [vs, lin, ind, ands, qs, obj], sizes


def values(m):
    """[(key, value)] or None when some value is not integral within 1e-6"""
    out = []
    for v in m.getVars():
        x = v.X
        r = int(round(x))
        if abs(x - r) > 1e-6:
            return None
        out.append([vkey(v), r])
    out.sort()
    return out


def solve_quiet(m):
    m.Params.LogToConsole = 0
    m.Params.Threads = 1
    m.Params.MIPGap = 0
    m.Params.TimeLimit = 20
    ORIG_OPT(m)
    return m.Status == GRB.OPTIMAL and m.SolCount > 0


def run_probes(m, spec):
    """Optimise other objectives over the live constraint system; returns [(tag, values)]."""
    out = []
    m.update()
    byname = {v.VarName: v for v in m.getVars()}
    starts = [v for n, v in byname.items() if n.endswith("_start")]
    placed = [v for n, v in byname.items() if "_placed_on_" in n]

    def placed_of(t):
        return [v for n, v in byname.items() if n.startswith(t + "_placed_on_")]

    def rt_of(v):
        return int(v.VarName.rsplit("_runtime_", 1)[1])

    def attempt(tag, build):
        c = m.copy()
        c.update()
        cv = {v.VarName: v for v in c.getVars()}
        try:
            ok = build(c, cv)
            if ok is False:
                return
            if solve_quiet(c):
                vals = values(c)
                if vals is not None:
                    out.append([tag, vals])
        except gp.GurobiError:
            pass

    big = 1000

    def pack(c, cv):
        c.setObjective(gp.quicksum(big * cv[v.VarName] for v in placed) - gp.quicksum(cv[v.VarName] for v in starts), GRB.MAXIMIZE)
        for v in starts:      # keep the probe bounded whatever the deadlines are
            cv[v.VarName].UB = spec["horizon"]
    attempt("pack", pack)

    def late(c, cv):
        c.setObjective(gp.quicksum(big * cv[v.VarName] for v in placed) + gp.quicksum(cv[v.VarName] for v in starts), GRB.MAXIMIZE)
        for v in starts:
            cv[v.VarName].UB = spec["horizon"]
    attempt("late", late)

    for (child, parent) in spec["pairs"][:4]:
        def prec(c, cv, child=child, parent=parent):
            pc, pp = placed_of(child), placed_of(parent)
            if not pc or (child + "_start") not in cv:
                return False
            c.addConstr(gp.quicksum(cv[v.VarName] for v in pc) == 1)
            e = cv[child + "_start"] - gp.quicksum(cv[v.VarName] * rt_of(v) for v in pp)
            if (parent + "_start") in cv:
                e = e - cv[parent + "_start"]
            for v in starts:
                cv[v.VarName].UB = spec["horizon"]
            c.setObjective(e, GRB.MINIMIZE)
        attempt("prec:%s:%s" % (child, parent), prec)

    for t in spec["tasks"][:4]:
        def dl(c, cv, t=t):
            pt = placed_of(t)
            if not pt or (t + "_start") not in cv:
                return False
            c.addConstr(gp.quicksum(cv[v.VarName] for v in pt) == 1)
            for v in starts:
                cv[v.VarName].UB = spec["horizon"]
            c.setObjective(cv[t + "_start"] + gp.quicksum(cv[v.VarName] * rt_of(v) for v in pt), GRB.MAXIMIZE)
        attempt("deadline:%s" % t, dl)

        def early(c, cv, t=t):
            pt = placed_of(t)
            if not pt or (t + "_start") not in cv:
                return False
            c.addConstr(gp.quicksum(cv[v.VarName] for v in pt) == 1)
            for v in starts:
                cv[v.VarName].UB = spec["horizon"]
            c.setObjective(cv[t + "_start"], GRB.MINIMIZE)
        attempt("early:%s" % t, early)
    return out


def wrapped_optimize(self, callback=None):
    if CUR.get("nodump"):      # batching worlds: the batch variables are outside the modelled name space
        self.Params.Threads = 1
        self.Params.Seed = 1
        return ORIG_OPT(self, callback)
    CUR["dump"], CUR["sizes"] = dump_model(self)
    if CUR.get("probe_spec") is not None:
        CUR["probes"] = run_probes(self, CUR["probe_spec"])
    if CUR.get("exact"):
        self.Params.MIPGap = 0
    self.Params.Threads = 1
    self.Params.Seed = 1
    r = ORIG_OPT(self, callback)
    CUR["status"] = int(self.Status)
    if self.SolCount > 0:
        CUR["sol"] = values(self)
        CUR["objval"] = self.ObjVal
    return r


gp.Model.optimize = wrapped_optimize


# ----------------------------------------------------------------------------- world construction
def build_world(w):
    MIXED_UNITS[0] = bool(w.get("units"))
    workers = []
    pools = []
    widx = 1
    for pi, pool in enumerate(w["pools"]):
        ws = []
        for wd in pool:
            rv = {}
            for rid, q in wd["res"]:
                rv[Resource(name="r%d" % rid)] = q       # a worker's own resource (fresh id)
            wk = Worker(name="w%d" % widx, resources=Resources(rv, _logger=LG), _logger=LG)
            ws.append(wk)
            workers.append(wk)
            widx += 1
        pools.append(WorkerPool(name="p%d" % pi, workers=ws, _logger=LG))
    wps = WorkerPools(pools)
    pool_of = {}
    for p in pools:
        for wk in p.workers:
            pool_of[wk.id] = p

    tasks = {}
    for td in w["tasks"]:
        strategies = []
        for k, (rt, res) in enumerate(td["strats"]):
            strategies.append(ExecutionStrategy(
                resources=Resources(resource_vector={Resource(name="r%d" % rid, _id="any"): q for rid, q in res}, _logger=LG),
                batch_size=k + 1, runtime=et(rt)))
        prof = WorkProfile(name="t%d_profile" % td["id"], execution_strategies=ExecutionStrategies(strategies=strategies))
        tasks[td["id"]] = Task(name="t%d" % td["id"], task_graph="g%d" % td["graph"], job=Job(name="t%d" % td["id"], profile=prof),
                               profile=prof, deadline=et(td["deadline"]), timestamp=0,
                               release_time=et(td["release"]), _logger=LG)
    graphs = {}
    for gd in w["graphs"]:
        children = {n: [] for n in gd["nodes"]}
        for p, c in gd["edges"]:
            children[p].append(c)
        graphs["g%d" % gd["id"]] = TaskGraph(name="g%d" % gd["id"],
                                             tasks={tasks[n]: [tasks[c] for c in children[n]] for n in gd["nodes"]})
    workload = Workload.from_task_graphs(graphs)

    for td in w["tasks"]:
        t = tasks[td["id"]]
        st = td["state"]
        if st == "V":
            continue
        t.release(et(td["release"]))
        if st == "R":
            continue
        wi, ki, when = td["prev"]
        wk = workers[wi - 1]
        strat = t.available_execution_strategies[ki]
        pool = pool_of[wk.id]
        t.schedule(et(max(td["release"], 0)), Placement.create_task_placement(t, et(when), pool.id, wk.id, strat))
        if st == "S":
            continue
        t.start(et(when))
        if st == "X":
            try:
                pool.place_task(t, strat, wk.id)
            except Exception:      # the ILP planner never reads the live occupancy
                pass
            t.update_remaining_time(et(td["remaining"]))
            continue
        if st == "C":
            t.update_remaining_time(EventTime.zero())
            t.finish(et(td["completed"]))
            continue
        raise AdapterError("unknown task state %r" % st)
    return workload, wps, workers, tasks


def state_code(st):
    for s_, c in ((TaskState.VIRTUAL, "V"), (TaskState.RELEASED, "R"), (TaskState.SCHEDULED, "S"), (TaskState.RUNNING, "X"),
                  (TaskState.COMPLETED, "C")):
        if st == s_:
            return c
    return "?"


def snapshot(workers, tasks):
    snap = []
    for wk in workers:
        snap.append(sorted((r.name, q) for r, q in wk.resources._resource_vector.items()))
    for i in sorted(tasks):
        t = tasks[i]
        snap.append([i, str(t.state), t.release_time.to(US).time, t.deadline.to(US).time,
                     None if t.state not in (TaskState.SCHEDULED, TaskState.RUNNING) else t.remaining_time.to(US).time])
    return snap


def run_case(w):
    CUR.clear()
    cfg = w["cfg"]
    workload, wps, workers, tasks = build_world(w)
    CUR["exact"] = bool(cfg.get("exact"))
    sched = ILPScheduler(preemptive=False, runtime=et(cfg.get("sched_runtime", 0)), lookahead=et(cfg.get("lookahead", 0)),
                         enforce_deadlines=cfg["enforce"], retract_schedules=cfg["retract"],
                         release_taskgraphs=cfg["release_tg"], goal=cfg["goal"], batching=False)
    sched._logger = LG
    sched._allowed_to_miss_deadlines = set("g%d" % g for g in cfg.get("allowed0", []))
    seen = {}
    orig_add = ORIG_ADD

    def spy(self, sim_time, optimizer, workload_, tlist, workers_):
        seen["order"] = [int(t.name[1:]) for t in tlist]
        return orig_add(self, sim_time, optimizer, workload_, tlist, workers_)
    ILPScheduler._add_variables = spy
    offered = workload.get_schedulable_tasks(time=et(w["now"]), lookahead=sched.lookahead, preemption=False,
                                             retract_schedules=sched.retract_schedules, worker_pools=wps,
                                             policy=sched.policy, branch_prediction_accuracy=sched.branch_prediction_accuracy,
                                             release_taskgraphs=sched.release_taskgraphs)
    noffered = len(offered)
    # the probes need to know which pairs are parent/child and which tasks are decided
    if w.get("probe"):
        names = {i: tasks[i].unique_name for i in tasks}
        pairs = []
        for gd in w["graphs"]:
            for p, c in gd["edges"]:
                pairs.append([names[c], names[p]])
        CUR["probe_spec"] = {"pairs": pairs, "tasks": [names[i] for i in sorted(names)], "horizon": w["horizon"]}
    before = snapshot(workers, tasks)
    res = {"noffered": noffered}
    prev = workload.filter((lambda t: t.state == TaskState.RUNNING) if sched.retract_schedules
                           else (lambda t: t.state in (TaskState.RUNNING, TaskState.SCHEDULED)))
    res["order"] = [int(t.name[1:]) for t in offered + prev]
    res["state"] = {str(i): {"state": state_code(tasks[i].state), "release": tasks[i].release_time.to(US).time,
                             "deadline": tasks[i].deadline.to(US).time,
                             "remaining": tasks[i].remaining_time.to(US).time}
                    for i in tasks}
    try:
        placements = sched.schedule(et(w["now"]), workload, wps)
    except AdapterError as e:
        ILPScheduler._add_variables = orig_add
        res["adapter_error"] = str(e)[:600]
        if "order" in seen:
            res["seen_order"] = seen["order"]
        return res
    except Exception as e:      # noqa: BLE001
        ILPScheduler._add_variables = orig_add
        import traceback
        res["error"] = "%s: %s" % (type(e).__name__, str(e)[:300])
        res["traceback"] = traceback.format_exc()[-1500:]
        if "order" in seen:
            res["seen_order"] = seen["order"]
        return res
    ILPScheduler._add_variables = orig_add
    after = snapshot(workers, tasks)
    res["unchanged"] = int(before == after)
    if "order" in seen:
        # what the planner fed to its model; compared by the harness with offered + previously placed (res["order"])
        res["seen_order"] = seen["order"]
    widx = {wk.id: i + 1 for i, wk in enumerate(workers)}
    pool_ids = {p.id for p in wps.worker_pools}
    plan = []
    bad_pool = 0
    for p in placements:
        t = p.task
        tid = int(t.name[1:])
        if p.is_placed():
            ks = [k for k, s in enumerate(t.available_execution_strategies) if s is p.execution_strategy]
            if p.worker_pool_id not in pool_ids or p.worker_id not in widx or len(ks) != 1:
                bad_pool += 1
                plan.append([tid, [p.placement_time.to(US).time, 0, -1]])
            else:
                plan.append([tid, [p.placement_time.to(US).time, widx[p.worker_id], ks[0]]])
        else:
            plan.append([tid, []])
    res["plan"] = plan
    res["bad_ids"] = bad_pool
    res["types"] = sorted({str(p.placement_type) for p in placements})
    for k in ("dump", "sizes", "status", "sol", "objval", "probes"):
        if k in CUR:
            res[k] = CUR[k]
    return res


def run_batch_case(w):
    """Batching mode (not modelled): a batch of SCHEDULED members sharing one WorkProfile and one BatchStrategy, planned
    for `start`, and a newly released task; the planner is invoked with batching on.  Only the returned Placements are
    reported: [task, placed, time, runtime of the returned strategy]."""
    import random
    from workload import BatchStrategy
    random.seed(w["seed"])      # the ids (and with them the iteration order of the planner's sets) are reproducible
    CUR.clear()
    CUR["nodump"] = True

    def prof(name, rt, bsize, q):
        return WorkProfile(name=name, execution_strategies=ExecutionStrategies(strategies=[ExecutionStrategy(
            resources=Resources(resource_vector={Resource(name="r0", _id="any"): q}, _logger=LG), batch_size=bsize, runtime=et(rt))]))

    def task(tid, pr, dl, rel):
        return Task(name="t%d" % tid, task_graph="g%d" % tid, job=Job(name="t%d" % tid, profile=pr), profile=pr, deadline=et(dl),
                    timestamp=0, release_time=et(rel), _logger=LG)
    pm = prof("members", w["rt"], len(w["members"]), w["demand"])
    tasks = {}
    for m in w["members"]:
        tasks[m["id"]] = task(m["id"], pm, m["deadline"], 0)
    for n in w["new"]:
        tasks[n["id"]] = task(n["id"], prof("p%d" % n["id"], n["rt"], 1, n["demand"]), n["deadline"], n["release"])
    workload = Workload.from_task_graphs({"g%d" % i: TaskGraph(name="g%d" % i, tasks={t: []}) for i, t in tasks.items()})
    wk = Worker(name="w1", resources=Resources({Resource(name="r0"): w["cap"]}, _logger=LG), _logger=LG)
    pool = WorkerPool(name="p0", workers=[wk], _logger=LG)
    wps = WorkerPools([pool])
    for i, t in tasks.items():
        t.release(et(0 if i in [m["id"] for m in w["members"]] else [n for n in w["new"] if n["id"] == i][0]["release"]))
    bs = BatchStrategy(execution_strategy=pm.execution_strategies[0])
    for m in w["members"]:
        tasks[m["id"]].schedule(et(0), Placement.create_task_placement(tasks[m["id"]], et(w["start"]), pool.id, wk.id, bs))
    sched = ILPScheduler(preemptive=False, runtime=EventTime.zero(), enforce_deadlines=True, retract_schedules=False,
                         release_taskgraphs=False, goal="max_goodput", batching=True)
    sched._logger = LG
    res = {}
    try:
        placements = sched.schedule(et(w["now"]), workload, wps)
    except Exception as e:      # noqa: BLE001
        import traceback
        res["error"] = "%s: %s" % (type(e).__name__, str(e)[:300])
        res["traceback"] = traceback.format_exc()[-1500:]
        return res
    res["plan"] = [[int(p.task.name[1:]), int(bool(p.is_placed())),
                    p.placement_time.to(US).time if p.is_placed() else -1,
                    p.execution_strategy.runtime.to(US).time if p.is_placed() else -1] for p in placements]
    res["status"] = CUR.get("status")
    return res


out = []
for w in payload["cases"]:
    try:
        out.append(run_batch_case(w) if w.get("kind") == "batch" else run_case(w))
    except BaseException as e:      # noqa: BLE001  a failure on one world is recorded for that world only
        import traceback
        out.append({"adapter_error": "%s: %s" % (type(e).__name__, str(e)[:400]), "traceback": traceback.format_exc()[-1500:]})
        try:
            ILPScheduler._add_variables = ORIG_ADD
        except Exception:      # noqa: BLE001
            pass
implutil.end({"results": out})
