"""Adapter for C04 / C01(worker half): runs histories of operations on the REAL Resources, Worker and
WorkerPool classes of /repo (and their copies) and reports, after every operation, the outcome and an
observation of EVERY live object (public getters plus the private ledger cells), in the layout of
Model/Worker.v `world_obs`."""
import logging
from copy import copy, deepcopy

import implutil

payload = implutil.begin()
logging.disable(logging.CRITICAL)

from utils import EventTime  # noqa: E402
from workers import Worker, WorkerPool, WorkerPools  # noqa: E402
from workload import (BatchStrategy, ExecutionStrategies, ExecutionStrategy, Job, Resource, Resources,  # noqa: E402
                      Task, WorkProfile)

LG = implutil.quiet_logger()
ERRS = (ValueError, RuntimeError, AttributeError, KeyError)


def errcode(e):
    for i, t in enumerate(ERRS):
        if isinstance(e, t):
            return i + 1
    raise e


def us(t):
    return EventTime(t, EventTime.Unit.US)


def mk_res(k):
    return Resource(name="R%d" % k[0], _id="any" if k[1] is None else "i%d" % k[1])


def key_of(r):
    return [int(r.name[1:]), [] if r.id == "any" else [int(r.id[1:])]]


def mk_vec(v):
    return {mk_res(k): q for k, q in v}


def vrvec(items):
    return [[key_of(r), q] for r, q in items]


class Case:
    def __init__(self, case):
        self.case = case
        self.strats = {}
        for s in case["strats"]:
            es = ExecutionStrategy(resources=Resources(resource_vector=mk_vec(s["req"]), _logger=LG),
                                   batch_size=s["bsize"], runtime=us(s["runtime"]))
            self.strats[s["id"]] = BatchStrategy(execution_strategy=es) if s["batch"] else es
        self.sid = {id(v): k for k, v in self.strats.items()}
        self.profiles = {p: WorkProfile(name="p%d" % p) for p in case["profs"]}
        self.pid = {v.id: k for k, v in self.profiles.items()}
        self.tasks = {}
        for t, sids in case["tasks"]:
            prof = WorkProfile(name="wp%d" % t,
                               execution_strategies=ExecutionStrategies([self.strats[s] for s in sids]))
            self.tasks[t] = Task(name="t%d" % t, task_graph="G", job=Job(name="j%d" % t, profile=prof),
                                 deadline=us(1000), profile=prof, _logger=LG)
        self.tid = {v.id: k for k, v in self.tasks.items()}
        self.comps = {}          # computations used directly on a Resources object
        self.wid = {}            # python worker id -> model id
        self.objs = [self.mk_obj(o) for o in case["objs"]]
        self.probe_keys = [mk_res(k) for k in case["keys"]]

    # ---------------- construction
    def mk_worker(self, wid, vec):
        w = Worker(name="w%d" % wid, resources=Resources(resource_vector=mk_vec(vec), _logger=LG), _logger=LG)
        self.wid[w.id] = wid
        return w

    def mk_obj(self, o):
        if o[0] == "res":
            return ["res", Resources(resource_vector=mk_vec(o[1]), _logger=LG)]
        if o[0] == "worker":
            return ["worker", self.mk_worker(o[1], o[2])]
        if o[0] == "pool":
            return ["pool", WorkerPool(name="pool%d" % o[1], workers=[self.mk_worker(w[0], w[1]) for w in o[2]],
                                       _logger=LG)]
        raise SystemExit("bad object %r" % (o,))

    def comp(self, c):
        kind, i = c
        if kind == 0:
            return self.tasks[i]
        if kind == 2:
            return self.profiles[i]
        key = (kind, i)
        if key not in self.comps:    # a stand-in for a batch placeholder used directly on a Resources
            self.comps[key] = Task(name="B%d" % i, task_graph="G", job=Job(name="jb%d" % i, profile=None),
                                   deadline=us(1000), _logger=LG)
        return self.comps[key]

    # ---------------- observation
    def vcomp(self, c, worker):
        if isinstance(c, WorkProfile):
            return [2, self.pid[c.id]]
        if c.id in self.tid:
            return [0, self.tid[c.id]]
        for (kind, i), v in self.comps.items():
            if v is c:
                return [1, i]
        if worker is not None:
            for bs, bt in worker._batch_tasks_for_strategy.items():
                if bt is c:
                    return [1, self.sid[id(bs)]]
        return [1, -1]

    def obs_res(self, R, worker=None):
        getters = []
        for r in self.probe_keys:
            getters.append([R.get_available_quantity(r), R.get_allocated_quantity(r), R.get_total_quantity(r),
                            sum(q for _, q in R.get_allocated_computation(r))])
        fits = [int(R > self.strats[s["id"]].resources) for s in self.case["strats"]]
        allocs = [[self.vcomp(c, worker), vrvec(l)] for c, l in R._current_allocations.items()]
        return [getters, int(R.empty()), fits, allocs, vrvec(R._resource_vector.items())]

    def obs_worker(self, w):
        strats = [self.strats[s["id"]] for s in self.case["strats"]]
        probe_tasks = [t for t, _ in self.case["tasks"]]

        def avail(p):
            return w.is_available(self.profiles[p]).to(EventTime.Unit.US).time
        return [self.obs_res(w.resources, w),
                [[self.tid[t.id], self.sid[id(w._placed_tasks[t])]] for t in w.get_placed_tasks()],
                [int(bool(w.can_accomodate_strategy(s))) for s in strats],
                [self.pid[p.id] for p in w.get_available_profiles()],
                [self.pid[p.id] for p in w.get_pending_profiles()],
                [avail(p) for p in self.case["profs"]],
                int(w.is_full()),
                [[self.sid[id(bs)], [int(self.tasks[t] in mem) for t in probe_tasks]]
                 for bs, mem in w._placed_batches.items()],
                [self.sid[id(bs)] for bs in w._batch_tasks_for_strategy],
                [[self.pid[p.id], vrvec(st.resources._resource_vector.items())]
                 for p, st in list(w._available_profiles.items()) + list(w._pending_profiles.items())]]

    def obs_pool(self, P):
        strats = [self.strats[s["id"]] for s in self.case["strats"]]
        util = []
        for row in P.get_utilization():
            name, rid, alloc, av = row.split(",")
            util.append([[int(name[1:]), [] if rid == "any" else [int(rid[1:])]], int(alloc), int(av)])
        return [[self.obs_worker(w) for w in P.workers],
                [[self.tid[t.id], self.wid[P._placed_tasks[t]]] for t in P.get_placed_tasks()],
                [int(bool(P.can_accomodate_strategy(s))) for s in strats],
                int(P.is_full()),
                util]

    def obs_obj(self, o):
        if o[0] == "res":
            return [0, self.obs_res(o[1])]
        if o[0] == "worker":
            return [1, self.obs_worker(o[1])]
        if o[0] == "pool":
            return [2, self.obs_pool(o[1])]
        return [3, o[1]]

    def observe(self):
        return [self.obs_obj(o) for o in self.objs]

    # ---------------- commands
    def find_wid(self, P, wid):
        if wid is None:
            return None
        for w in P.workers:
            if self.wid[w.id] == wid:
                return w.id
        return "no-such-worker-%d" % wid

    def run_cmd(self, c):
        kind = c[0]
        if kind in ("copy", "deepcopy"):
            o = self.objs[c[1]]
            if o[0] == "dead":
                return -2
            try:
                n = copy(o[1]) if kind == "copy" else deepcopy(o[1])
            except ERRS as e:
                self.objs.append(["dead", errcode(e)])
                return errcode(e)
            if o[0] == "worker":
                self.wid[n.id] = self.wid[o[1].id]
            self.objs.append([o[0], n])
            return 0
        o = self.objs[c[1]]
        op = c[2]
        if o[0] != kind:
            return -2
        x = o[1]
        try:
            if kind == "res":
                if op[0] == "alloc":
                    x.allocate(mk_res(op[1]), self.comp(op[2]), op[3])
                elif op[0] == "allocm":
                    x.allocate_multiple(Resources(resource_vector=mk_vec(op[1]), _logger=LG), self.comp(op[2]))
                elif op[0] == "dealloc":
                    x.deallocate(self.comp(op[1]))
                elif op[0] == "getalloc":
                    x.get_allocated_resources(self.comp(op[1]))
                else:
                    raise SystemExit("bad op %r" % (op,))
                return 0
            if kind == "worker":
                if op[0] == "place":
                    x.place_task(self.tasks[op[1]], self.strats[op[2]])
                elif op[0] == "remove":
                    x.remove_task(us(0), self.tasks[op[1]])
                elif op[0] == "load":
                    x.load_profile(self.profiles[op[1]], self.strats[op[2]])
                elif op[0] == "evict":
                    x.evict_profile(self.profiles[op[1]])
                elif op[0] == "step":
                    x.step(us(0), us(op[1]))
                elif op[0] == "getalloc":
                    x.get_allocated_resources(self.tasks[op[1]])
                else:
                    raise SystemExit("bad op %r" % (op,))
                return 0
            if kind == "pool":
                if op[0] == "place":
                    t = self.tasks[op[1]]
                    assert [self.sid[id(s)] for s in t.available_execution_strategies] == op[2]
                    ok = x.place_task(t, execution_strategy=None if op[3] is None else self.strats[op[3]],
                                      worker_id=self.find_wid(x, op[4]))
                    return 0 if ok else -1
                if op[0] == "remove":
                    x.remove_task(us(0), self.tasks[op[1]])
                elif op[0] == "load":
                    x.load_profile(self.profiles[op[1]], self.strats[op[2]], self.find_wid(x, op[3]))
                elif op[0] == "evict":
                    x.evict_profile(self.profiles[op[1]], self.find_wid(x, op[2]))
                elif op[0] == "step":
                    x.step(us(0), us(op[1]))
                else:
                    raise SystemExit("bad op %r" % (op,))
                return 0
        except ERRS as e:
            return errcode(e)
        raise SystemExit("bad command %r" % (c,))

    # ---------------- auxiliary facts used as input signatures by the harness
    def pending_objs(self, o):
        if o[0] == "worker":
            return [id(s) for s in o[1]._pending_profiles.values()]
        if o[0] == "pool":
            return [id(s) for w in o[1].workers for s in w._pending_profiles.values()]
        return []

    def shares_pending(self, i):
        mine = set(self.pending_objs(self.objs[i]))
        return int(any(mine & set(self.pending_objs(o)) for j, o in enumerate(self.objs) if j != i))

    def cleanup(self, o):
        """remove every placed task, evict every profile / deallocate every computation"""
        codes = []

        def do(f):
            try:
                f()
                codes.append(0)
            except ERRS as e:
                codes.append(errcode(e))
        if o[0] == "res":
            for c in list(o[1]._current_allocations):
                do(lambda c=c: o[1].deallocate(c))
        elif o[0] == "worker":
            for t in o[1].get_placed_tasks():
                do(lambda t=t: o[1].remove_task(us(0), t))
            for p in o[1].get_available_profiles() + o[1].get_pending_profiles():
                do(lambda p=p: o[1].evict_profile(p))
        elif o[0] == "pool":
            for t in o[1].get_placed_tasks():
                do(lambda t=t: o[1].remove_task(us(0), t))
            for w in o[1].workers:
                for p in w.get_available_profiles() + w.get_pending_profiles():
                    do(lambda p=p, w=w: o[1].evict_profile(p, w.id))
        return codes

    def run(self):
        last_only = self.case.get("last_only")
        out = [] if last_only else [self.observe()]
        codes = []
        shared = []
        for c in self.case["cmds"]:
            shared.append(self.shares_pending(c[1]) if c[0] in ("worker", "pool") and c[2][0] == "step" else 0)
            code = self.run_cmd(c)
            codes.append(code)
            if not last_only:
                out.append([code, self.observe()])
        res = {"obs": [codes, self.observe()] if last_only else out, "shared": shared}
        if self.case.get("cleanup"):
            res["cleanup"] = [self.cleanup(o) for o in self.objs]
            res["final"] = self.observe()
        return res


res = {"runs": [Case(c).run() for c in payload.get("cases", [])]}
implutil.end(res)
