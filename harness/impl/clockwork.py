"""Adapter for C15 / C10_cw / C12_cw: drives the REAL ClockworkScheduler over histories of schedule()
invocations on an evolving workload and cluster (real Task / TaskGraph / Workload / Worker /
WorkerPool(s) objects), and reports, per invocation, what the scheduler was offered, what it saw,
what it returned (canonicalised) and whether any getter of the live cluster / of the tasks changed."""
import logging

import implutil

payload = implutil.begin()
logging.disable(logging.CRITICAL)
import random  # noqa: E402
random.seed(20260923)     # /repo draws its uuids (hence the hashes of Task/Worker/...) from `random`: fix them

from schedulers import ClockworkScheduler  # noqa: E402
from schedulers.clockwork_scheduler import Model  # noqa: E402
from utils import EventTime  # noqa: E402
from workers import Worker, WorkerPool, WorkerPools  # noqa: E402
from workload import (ExecutionStrategies, ExecutionStrategy, Job, Placement, Resource, Resources, Task,  # noqa: E402
                      TaskGraph, Workload, WorkProfile)

LG = implutil.quiet_logger()
ERR = {"ValueError": 2, "RuntimeError": 3, "IndexError": 5, "KeyError": 6, "AttributeError": 7}
PT = Placement.PlacementType


def us(t):
    return EventTime(int(t), EventTime.Unit.US)


def rid(i):
    return "any" if i == 0 else "r%d" % i


def rid_back(s):
    return 0 if s == "any" else int(s[1:])


def mk_resources(vec):
    return Resources(resource_vector={Resource(name="N%d" % n, _id=rid(i)): q for (n, i, q) in vec}, _logger=LG)


def run_history(h):
    # ---- world
    profiles = {}
    strat_of = {}          # (mid, id(strategy object)) -> sid
    for p in h["world"]:
        strs = []
        for s in p["strategies"]:
            es = ExecutionStrategy(resources=mk_resources(s["res"]), batch_size=s["bs"], runtime=us(s["rt"]))
            strs.append(es)
        prof = WorkProfile(name="M%d" % p["mid"], execution_strategies=ExecutionStrategies(strategies=strs),
                           loading_strategies=ExecutionStrategies(strategies=[
                               ExecutionStrategy(resources=mk_resources([[9, 0, 1]]), batch_size=1, runtime=us(p.get("load_rt", 10)))]))
        profiles[p["mid"]] = prof
        for s, es in zip(p["strategies"], strs):
            strat_of[(p["mid"], id(es))] = s["sid"]
    mid_of_profile = {prof.id: mid for mid, prof in profiles.items()}
    # ---- cluster
    pools, pool_ix, worker_ix = [], {}, {}
    workers_by_wid = {}
    for p in h["pools"]:
        ws = []
        for w in p["workers"]:
            wk = Worker(name="W%d" % w["wid"], resources=mk_resources(w["res"]), _logger=LG)
            for (mid, rem) in w["loaded"]:
                wk.load_profile(profiles[mid], ExecutionStrategy(resources=mk_resources([[9, 0, 1]]), batch_size=1, runtime=us(rem)))
                if rem == 0 and w.get("settle", True):
                    wk.step(us(0), us(1))      # moves a finished load to the available profiles
            ws.append(wk)
            worker_ix[wk.id] = w["wid"]
            workers_by_wid[w["wid"]] = wk
        wp = WorkerPool(name="P%d" % p["pid"], workers=ws, _logger=LG)
        pools.append(wp)
        pool_ix[wp.id] = p["pid"]
    worker_pools = WorkerPools(pools)
    pool_of_worker = {w.id: wp for wp in pools for w in wp.workers}
    # ---- workload
    tasks, tid_of = {}, {}
    graphs = {}
    for t in h["tasks"]:
        rel = {}
        if h.get("mode") == "sim":
            rel = {"release_time": us(t["release"])}
        tk = Task(name="T%d" % t["tid"], task_graph="G%d" % t["graph"], job=Job(name="J%d" % t["tid"], profile=profiles[t["mid"]]),
                  deadline=us(t["deadline"]), profile=profiles[t["mid"]], timestamp=t["tid"], _logger=LG, **rel)
        tasks[t["tid"]] = tk
        tid_of[tk.id] = t["tid"]
        graphs.setdefault("G%d" % t["graph"], {})[tk] = []
    if h.get("mode") == "sim":
        from workload import JobGraph
        workload = Workload.from_task_graphs({g: TaskGraph(name=g, tasks=ts, job_graph=JobGraph(name="J" + g))
                                              for g, ts in graphs.items()})
    else:
        workload = Workload.from_task_graphs({g: TaskGraph(name=g, tasks=ts) for g, ts in graphs.items()})
    offered_log = []
    orig_gst = workload.get_schedulable_tasks

    def gst(*a, **k):
        r = orig_gst(*a, **k)
        offered_log.append([tid_of[t.id] for t in r])
        return r
    workload.get_schedulable_tasks = gst

    class F:
        scheduler_run_load = bool(h.get("run_load"))
        log_dir = None
        log_file_name = None
        log_level = "info"
    sched = ClockworkScheduler(runtime=us(0), goal=h["goal"], _flags=F() if h.get("run_load") else None)
    sched._logger = LG
    load_log = []
    if h.get("run_load"):
        orig_rl = sched.run_load

        def rl(current_time, worker_pools):
            r = orig_rl(current_time=current_time, worker_pools=worker_pools)
            load_log.append(view(worker_pools))
            return r
        sched.run_load = rl
    if h["started"]:
        sched.start(us(0), [profiles[m] for m in h["started"]], worker_pools)

    def view(wps):
        out = []
        for wp in wps.worker_pools:
            ws = []
            for w in wp.workers:
                vec = [[int(r.name[1:]), rid_back(r.id), q] for r, q in w.resources._resource_vector.items()]
                ld = []
                for mid, prof in profiles.items():
                    a = w.is_available(prof).to(EventTime.Unit.US).time
                    if a != -1:
                        ld.append([mid, a])
                pa = []
                for mid, prof in profiles.items():
                    if prof in w.resources._current_allocations:
                        pa.append([mid, [[int(r.name[1:]), rid_back(r.id), q] for r, q in w.resources._current_allocations[prof]]])
                ws.append({"wid": worker_ix[w.id], "res": vec, "loaded": ld, "palloc": pa,
                           "placed": [tid_of[t.id] for t in w.get_placed_tasks() if t.id in tid_of]})
            out.append({"pid": pool_ix[wp.id], "workers": ws})
        return out

    def rnum(r):
        return [int(r.name[1:]), rid_back(r.id)]

    def getters():
        """every getter of the live cluster and of the tasks, as nested integers"""
        g = []
        for wp in worker_pools.worker_pools:
            g.append([1, pool_ix[wp.id], sorted(tid_of.get(t.id, -1) for t in wp.get_placed_tasks()), int(wp.is_full())])
            for w in wp.workers:
                g.append([2, worker_ix[w.id],
                          [rnum(r) + [q] for r, q in w.resources._resource_vector.items()],
                          sorted(tid_of.get(t.id, -1) for t in w.get_placed_tasks()),
                          sorted(mid_of_profile[p.id] for p in w.get_available_profiles()),
                          sorted([mid_of_profile[p.id], w.is_available(p).to(EventTime.Unit.US).time] for p in w.get_pending_profiles()),
                          sorted([tid_of.get(t.id, -1), sorted(rnum(r) + [q] for r, q in w.get_allocated_resources(t))]
                                 for t in w.get_placed_tasks()),
                          len(w._placed_batches), int(w.is_full())])
        for tid, t in tasks.items():
            g.append([3, tid, t.state.value, t.deadline.time, t.release_time.time,
                      -2 if t._remaining_time is None else t._remaining_time.time,
                      -3 if t.worker_pool_id is None else pool_ix[t.worker_pool_id],
                      -2 if t.scheduling_time is None else t.scheduling_time.time, t.start_time.time, t.completion_time.time])
        return g

    def canon(placements):
        out, batch_no = [], {}
        for p in placements:
            ty = p.placement_type
            if ty == PT.CANCEL_TASK:
                out.append([3, tid_of[p.task.id]])
            elif ty == PT.PLACE_TASK:
                st = p.execution_strategy
                mid = mid_of_profile[p.task.profile.id]
                # the BatchStrategy is a copy: identify the profile's strategy by its content; ties by position
                cands = [s["sid"] for s, es in zip(world_strats[mid], profiles[mid].execution_strategies)
                         if es.batch_size == st.batch_size and es.runtime == st.runtime
                         and res_key(es.resources) == res_key(st.resources)]
                b = batch_no.setdefault(st.id, len(batch_no))
                out.append([4, tid_of[p.task.id], p.placement_time.to(EventTime.Unit.US).time,
                            pool_ix.get(p.worker_pool_id, -1), worker_ix.get(p.worker_id, -1),
                            cands[0] if len(cands) == 1 else cands, b])
            else:
                out.append([ty.value, mid_of_profile[p.work_profile.id], pool_ix.get(p.worker_pool_id, -1),
                            worker_ix.get(p.worker_id, -1)])
        return out

    def res_key(r):
        # order-sensitive: BatchStrategy copies the Resources entry by entry, in order
        return [(x.name, x.id, q) for x, q in r._resource_vector.items()]

    world_strats = {p["mid"]: p["strategies"] for p in h["world"]}
    steps = []
    if h.get("mode") == "sim":
        return run_sim(h, profiles, tasks, tid_of, worker_pools, workload, sched, view, getters, canon, offered_log, strat_of,
                       mid_of_profile)
    for step in h["script"]:
        now = us(step["now"])
        for tid in step.get("release", []):
            tasks[tid].release(now)
        for tid in step.get("finish", []):
            t = tasks[tid]
            if t.state.name == "RUNNING":
                worker_pools.get_worker_pool(t.worker_pool_id).remove_task(now, t)
                t._remaining_time = us(0)
                t.finish(now)
        for (wid, mid, rem) in step.get("load", []):
            w = workers_by_wid[wid]
            if w.is_available(profiles[mid]).time == -1:
                w.load_profile(profiles[mid], ExecutionStrategy(resources=mk_resources([[9, 0, 1]]), batch_size=1, runtime=us(rem)))
        for (wid, mid) in step.get("evict", []):
            w = workers_by_wid[wid]
            if w.is_available(profiles[mid]).time != -1:
                w.evict_profile(profiles[mid])
        for tid in step.get("unschedule", []):      # an environment that offers a decided task again
            t = tasks[tid]
            if t.state.name == "SCHEDULED":
                t.unschedule(now)
        rec = {"now": step["now"], "view": view(worker_pools)}
        before = getters()
        n_off = len(offered_log)
        n_ld = len(load_log)
        try:
            res = sched.schedule(sim_time=now, workload=workload, worker_pools=worker_pools)
            rec["result"] = [0, canon(res)]
        except (ValueError, RuntimeError, IndexError, KeyError, AttributeError) as e:
            rec["result"] = [1, ERR[type(e).__name__]]
            rec["error_text"] = "%s: %s" % (type(e).__name__, str(e)[:200])
            res = None
        if res is not None:
            rec["starts"] = [[tid_of[p.task.id], p.placement_time.to(EventTime.Unit.US).time,
                              p.task.release_time.to(EventTime.Unit.US).time]
                             for p in res if p.placement_type == PT.PLACE_TASK]
        rec["offered"] = offered_log[n_off] if len(offered_log) > n_off else []
        rec["load_view"] = load_log[n_ld] if len(load_log) > n_ld else None
        after = getters()
        rec["unchanged"] = before == after
        rec["getters"] = [before, after]
        rec["task_states"] = {str(tid): t.state.value for tid, t in tasks.items()}
        steps.append(rec)
        if res is None:
            break
        if step.get("apply", True):
            for p in res:
                if p.placement_type == PT.CANCEL_TASK:
                    if p.task.state.name in ("VIRTUAL", "RELEASED", "SCHEDULED"):
                        p.task.cancel(now)
                elif p.placement_type == PT.PLACE_TASK and p.task.state.name in ("RELEASED", "VIRTUAL"):
                    p.task.schedule(now, p)
                    if step.get("run", True):
                        wp = worker_pools.get_worker_pool(p.worker_pool_id)
                        try:
                            ok = wp.place_task(p.task, execution_strategy=p.execution_strategy, worker_id=p.worker_id)
                        except (ValueError, RuntimeError):
                            ok = False        # the live cluster refused (only possible when schedule() itself touched it)
                        if ok and step.get("start", True):
                            p.task.start(now)
                        rec.setdefault("live_place", []).append([tid_of[p.task.id], bool(ok)])
    # final internal state of the scheduler (queues, task map, counters)
    final = []
    for m in sched._models:
        mid = mid_of_profile[m.profile.id]
        qs = []
        for es, q in m._request_queues.items():
            qs.append([strat_of[(mid, id(es))], [tid_of[r.task.id] for r in q]])
        final.append([mid, qs, [[tid_of[t.id], r.num_strategies] for t, r in m._tasks.items()]])
    return {"steps": steps, "final": final}


class _Enough(Exception):
    pass


def run_sim(h, profiles, tasks, tid_of, worker_pools, workload, sched, view, getters, canon, offered_log, strat_of, mid_of_profile):
    """The REAL Simulator drives the scheduler: every schedule() call it makes is recorded (what was offered, the
    cluster as seen, the decisions), up to `max_inv` calls."""
    from data import BaseWorkloadLoader
    from simulator import Simulator

    class OneShot(BaseWorkloadLoader):
        def __init__(self, wl):
            self.wl = wl

        def get_next_workload(self, current_time):
            wl, self.wl = self.wl, None
            return wl

    steps = []
    state = {"in": False}
    orig_schedule = sched.schedule
    # the Simulator also asks the workload for schedulable tasks on its own: only the calls made by schedule() count
    inner = workload.get_schedulable_tasks

    def gst(*a, **k):
        r = inner(*a, **k)
        if not state["in"]:
            offered_log.pop()
        return r
    workload.get_schedulable_tasks = gst

    def schedule(sim_time, workload, worker_pools):
        rec = {"now": sim_time.to(EventTime.Unit.US).time, "view": view(worker_pools), "load_view": None}
        before = getters()
        n_off = len(offered_log)
        state["in"] = True
        try:
            res = orig_schedule(sim_time=sim_time, workload=workload, worker_pools=worker_pools)
            rec["result"] = [0, canon(res)]
            rec["starts"] = [[tid_of[p.task.id], p.placement_time.to(EventTime.Unit.US).time,
                              p.task.release_time.to(EventTime.Unit.US).time] for p in res if p.placement_type == PT.PLACE_TASK]
        except (ValueError, RuntimeError, IndexError, KeyError, AttributeError) as e:
            rec["result"] = [1, ERR[type(e).__name__]]
            rec["error_text"] = "%s: %s" % (type(e).__name__, str(e)[:200])
            res = None
        finally:
            state["in"] = False
        rec["offered"] = offered_log[n_off] if len(offered_log) > n_off else []
        after = getters()
        rec["unchanged"] = before == after
        rec["getters"] = [before, after]
        rec["task_states"] = {str(tid): t.state.value for tid, t in tasks.items()}
        steps.append(rec)
        if res is None or len(steps) >= h.get("max_inv", 30):
            raise _Enough()
        return res
    sched.schedule = schedule
    sim = Simulator(worker_pools=worker_pools, scheduler=sched, workload_loader=OneShot(workload),
                    loop_timeout=us(h.get("loop_timeout", 150)), scheduler_frequency=us(h.get("frequency", 5)))
    ended = "end"
    try:
        sim.simulate()
    except _Enough:
        ended = "cut"
    final = []
    if ended == "end" or True:
        for m in sched._models:
            mid = mid_of_profile[m.profile.id]
            qs = [[strat_of[(mid, id(es))], [tid_of[r.task.id] for r in q]] for es, q in m._request_queues.items()]
            final.append([mid, qs, [[tid_of[t.id], r.num_strategies] for t, r in m._tasks.items()]])
    return {"steps": steps, "final": final, "ended": ended,
            "end_states": {str(tid): t.state.value for tid, t in tasks.items()}}


implutil.end({"histories": [run_history(h) for h in payload["histories"]]})
