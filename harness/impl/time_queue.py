"""Adapter for C16: runs the real EventTime operators and the real EventQueue."""
import implutil

payload = implutil.begin()
DOC_NAMES = payload.get("doc_names", [])

from utils import EventTime  # noqa: E402

U = {0: EventTime.Unit.US, 1: EventTime.Unit.MS, 2: EventTime.Unit.S}
UC = {v: k for k, v in U.items()}


def et(p):
    return EventTime(p[0], U[p[1]])


def vet(x):
    return [x.time, UC[x.unit]]


def guard(f):
    try:
        return [0, f()]
    except ValueError:
        return [1, 1]


def time_op(op):
    k = op[0]
    if k == "add":
        return guard(lambda: vet(et(op[1]) + et(op[2])))
    if k == "sub":
        return guard(lambda: vet(et(op[1]) - et(op[2])))
    if k == "eq":
        return guard(lambda: int(et(op[1]) == et(op[2])))
    if k == "lt":
        return guard(lambda: int(et(op[1]) < et(op[2])))
    if k == "le":
        return guard(lambda: int(et(op[1]) <= et(op[2])))
    if k == "gt":
        return guard(lambda: int(et(op[1]) > et(op[2])))
    if k == "ge":
        return guard(lambda: int(et(op[1]) >= et(op[2])))
    if k == "ne":
        return guard(lambda: int(et(op[1]) != et(op[2])))
    if k == "hash":
        return guard(lambda: et(op[1]).__hash__())  # hash() itself maps -1 to -2 in CPython
    if k == "to":
        return guard(lambda: vet(et(op[1]).to(U[op[2]])))
    if k == "mul":
        return guard(lambda: vet(et(op[1]) * op[2]))
    if k == "inv":
        return guard(lambda: int(et(op[1]).is_invalid()))
    if k == "assoc":   # (a+b)+c  and  a+(b+c)
        return guard(lambda: [vet((et(op[1]) + et(op[2])) + et(op[3])), vet(et(op[1]) + (et(op[2]) + et(op[3])))])
    if k == "dict":    # hash-consistency as a user relies on it: dict/set membership
        return guard(lambda: int(et(op[2]) in {et(op[1]): 1}))
    raise SystemExit("unknown time op %r" % (k,))


def queue_histories(hists):
    from simulator import Event, EventQueue, EventType
    from workload import Placement, Task, Job
    lg = implutil.quiet_logger()
    ETY = {DOC_NAMES[i]: EventType[DOC_NAMES[i]] for i in range(len(DOC_NAMES))}
    ETY = {i: ETY[DOC_NAMES[i]] for i in range(len(DOC_NAMES))}
    out = []
    tasks = {}

    def task(name):
        if name not in tasks:
            tasks[name] = Task(name=name, task_graph="G", job=Job(name=name, profile=None),
                               deadline=EventTime(100, EventTime.Unit.US), _logger=lg)
        return tasks[name]

    for h in hists:
        q = EventQueue()
        evs = {}
        obs = []
        poplog = []
        for op in h:
            k = op[0]
            if k == "push":
                _, i, t, ty, name = op
                ety = ETY[ty]
                tk = task(name) if name is not None else None
                pl = None
                if ety in (EventType.TASK_PLACEMENT, EventType.TASK_MIGRATION):
                    pl = Placement.create_task_placement(task=tk, placement_time=EventTime(t, EventTime.Unit.US),
                                                         worker_pool_id="p", worker_id="w", execution_strategy=None)
                e = Event(event_type=ety, time=EventTime(t, EventTime.Unit.US), task=tk,
                          task_graph="G" if ety == EventType.TASK_GRAPH_RELEASE else None, placement=pl)
                evs[i] = e
                q.add_event(e)
            elif k == "remove":
                if any(x is evs[op[1]] for x in q._event_queue):   # (a no-op in the model otherwise)
                    q.remove_event(evs[op[1]])
            elif k == "retime":
                evs[op[1]]._time = EventTime(op[2], EventTime.Unit.US)
                q.reheapify()
            elif k == "pop":
                if len(q) == 0:
                    obs.append([])
                else:
                    pending = [key(e) for e in q._event_queue]
                    e = q.next()
                    obs.append(key(e))
                    poplog.append([key3(e), [key3(x) for x in q._event_queue] + [key3(e)]])
            elif k == "peek":
                e = q.peek()
                obs.append([] if e is None else [key(e)])
            elif k == "next":
                e = q.get_next_event_of_type(ETY[op[1]])
                obs.append([] if e is None else [key(e)])
            elif k == "len":
                obs.append(len(q))
        out.append({"obs": obs, "pops": poplog})
    return out


def key(e):
    # the event type is reported by NAME and numbered by the documented priority table
    return [e.time.to(EventTime.Unit.US).time, DOC_NAMES.index(e.event_type.name), [] if e.task is None else [e.task.name]]


def key3(e):
    return [e.time.to(EventTime.Unit.US).time, DOC_NAMES.index(e.event_type.name), None if e.task is None else e.task.name]


res = {}
if "time_ops" in payload:
    res["time"] = [time_op(o) for o in payload["time_ops"]]
if "queue" in payload:
    res["queue"] = queue_histories(payload["queue"])
implutil.end(res)
