import argparse
import importlib
import json
import os
import sys
import time
import traceback

sys.path.insert(0, os.path.dirname(os.path.abspath(__file__)))
import core  # noqa: E402


def setup():
    """MANIFEST.setup_cmd: regenerate Gen/ from /repo and build the whole development."""
    ctx = core.Ctx("setup", "quick", 0)
    fails = ctx.translate()
    for f in fails:
        print("translator failed (fail-closed):", f)
    bad = core.grep_gate()
    if bad:
        print("forbidden constructs:", bad)
        return 1
    with core.BuildLock():
        ok, log = core.make(["all"])
    open(os.path.join(core.BUILD, "setup.log"), "w").write(log)
    built = [f for f in core.coq_sources() if os.path.exists(os.path.join(core.COQ, f + "o"))]
    missing = [f for f in core.coq_sources() if f not in built]
    if not ok:
        # every check rebuilds what its property needs and reports a broken obligation itself, so a file that does
        # not compile fails exactly the properties that depend on it; the set-up only fails if nothing could be built
        print(log[-2500:])
        print("setup: %d of %d coq files built; NOT built: %s" % (len(built), len(core.coq_sources()), ", ".join(missing)))
        return 0 if os.path.exists(os.path.join(core.COQ, "Model", "Val.vo")) else 1
    print("setup ok: %d coq files built in %.0fs" % (len(core.coq_sources()), time.time() - ctx.t0))
    return 0


def main():
    ap = argparse.ArgumentParser()
    ap.add_argument("pid", nargs="?")
    ap.add_argument("--tier", default=os.environ.get("VERIF_TIER", "quick"), choices=["quick", "thorough"])
    ap.add_argument("--replay")
    ap.add_argument("--setup", action="store_true")
    a = ap.parse_args()
    if a.setup:
        sys.exit(setup())
    seed = int(os.environ.get("VERIF_SEED", "1"))
    if a.replay:   # a replay re-runs the check with the seed and tier recorded in the replay file
        try:
            rp = json.load(open(a.replay))
            seed = int(rp.get("seed", seed))
            a.tier = rp.get("tier", a.tier)
        except (OSError, ValueError) as e:
            print("cannot read replay file: %s" % e)
            sys.exit(2)
    mod = importlib.import_module("props.%s" % a.pid.lower())
    ctx = core.Ctx(a.pid, a.tier, seed)
    ctx.replay_file = a.replay
    try:
        mod.run(ctx)
    except Exception as e:  # the machinery itself failed: never a silent pass
        traceback.print_exc()
        ctx.broken.append({"kind": "machinery", "name": type(e).__name__, "detail": str(e)[-2000:]})
    # a property decided mainly on a unit-level model may have a whole-simulation part as well; it runs even when the
    # unit-level part broke (it is then the search for a concrete failing input)
    simpart = os.path.join(os.path.dirname(os.path.abspath(__file__)), "props", "%s_sim.py" % a.pid.lower())
    if os.path.exists(simpart) and not getattr(mod, "RUNS_SIM_PART_ITSELF", False):
        try:
            importlib.import_module("props.%s_sim" % a.pid.lower()).run(ctx)
        except Exception as e:
            traceback.print_exc()
            ctx.broken.append({"kind": "machinery", "name": "sim part: " + type(e).__name__, "detail": str(e)[-2000:]})
    sys.exit(ctx.finish(trusted_extra=getattr(mod, "TRUSTED", ()), explanation=getattr(mod, "EXPLANATION", None)))


if __name__ == "__main__":
    main()
