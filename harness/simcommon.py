"""Shared by the S-sim properties (C01 C02 C03 C05 C06 C08): world generation, cached execution of
the real simulator (harness/impl/sim.py), conversion of call logs into events of the abstract
machine (coq/Model/Sim.v), evaluation of the machine inside Coq."""
import hashlib
import json
import os
import random
from concurrent.futures import ThreadPoolExecutor

import core
import simgen
from core import gz, glist, gopt, gbool

SIM_FILES = ["simulator.py", "workload/tasks.py", "workload/workload.py", "workload/jobs.py", "workload/graph.py",
             "workload/resources.py", "workload/resource.py", "workload/strategy.py", "workers/workers.py", "utils.py",
             "schedulers/base_scheduler.py", "schedulers/edf_scheduler.py", "schedulers/fifo_scheduler.py",
             "schedulers/lsf_scheduler.py", "data/workload_loader.py", "data/worker_loader.py", "main.py"]
STATE_CODE = {"VIRTUAL": 1, "RELEASED": 2, "SCHEDULED": 3, "RUNNING": 4, "PREEMPTED": 5, "EVICTED": 6, "COMPLETED": 7,
              "CANCELLED": 8}
HEADER = "From Verif Require Import Gen.Src_Task Gen.Src_Event Model.Sim."
MAX_LOG = 12000        # call logs beyond this size are not fed to Coq (the monitors still read them)


def n_worlds(ctx):
    return 160 if ctx.tier == "quick" else 2000


def corpus_worlds(pid_dirs=("C05", "C07", "C10", "S-sim")):
    out = []
    for d in pid_dirs:
        p = os.path.join(core.ROOT, "corpus", d)
        if os.path.isdir(p):
            for f in sorted(os.listdir(p)):
                if f.endswith(".json"):
                    try:
                        w = json.load(open(os.path.join(p, f)))
                        if "workload" in w and "flags" in w and "known_finding" not in w:
                            w["corpus"] = "%s/%s" % (d, f)
                            out.append(w)
                    except ValueError:
                        pass
    return out


def gen_worlds(seed, n):
    rng = random.Random("S-sim/%s" % seed)
    ws = corpus_worlds()
    n_plan = max(4, n // 6)        # worlds driven by the optimisation-backed planners
    plan = ["ILP", "TetriSched_Gurobi", "ILP", "TetriSched_Gurobi", "TetriSched_CPLEX"]   # Z3: known finding F20
    k = 0
    while len(ws) < n:
        if len(ws) >= n - n_plan:
            if k % 6 == 5:
                w = simgen.gen_tight_world(rng)      # back-to-back plans with exactly tight deadlines
            else:
                w = simgen.gen_planner_world(rng, plan[k % len(plan)])
            k += 1
        elif len(ws) % 12 == 7:
            w = simgen.gen_clockwork_world(rng)       # batches and profile loading: monitors only (not fed to the machine)
        elif len(ws) % 12 == 4:
            w = simgen.gen_direct_world(rng)          # TaskGraphs built directly, sources of one graph released at different times
        elif len(ws) % 3 == 2:
            w = simgen.gen_fuzz_world(rng)
        else:
            w = simgen.gen_world(rng, closed_loop=rng.random() < 0.15)
        sg = simgen.signature(w)
        if "zero_runtime" in sg:
            continue           # F8: a zero-runtime strategy livelocks simulate(); exercised in its own stream (C05)
        if "branch_sink" in sg:
            continue           # F42: a sink inside an untaken branch makes the whole graph count as cancelled (C07 replays it)
        if "join_direct_edge_cancelling" in sg:
            continue           # FTG3: the join reached by a direct edge survives the cancellation of the taken branch (C06 replays it)
        ws.append(w)
    return ws


def repo_fingerprint():
    h = hashlib.sha256()
    for r in SIM_FILES:
        p = os.path.join(core.REPO, r)
        h.update(open(p, "rb").read() if os.path.exists(p) else b"MISSING")
    for f in ("harness/impl/sim.py", "harness/simgen.py"):
        h.update(open(os.path.join(core.ROOT, f), "rb").read())
    return h.hexdigest()[:20]


def run_worlds(worlds, jobs=14, chunk=12, timeout=1800):
    """Run the real simulator on the worlds (parallel subprocesses)."""
    # solver-backed worlds take seconds each: small chunks so that no adapter process runs for long
    order = sorted(range(len(worlds)), key=lambda i: worlds[i]["flags"]["scheduler"] in simgen.PLANNERS)
    light = [i for i in order if worlds[i]["flags"]["scheduler"] not in simgen.PLANNERS]
    heavy = [i for i in order if worlds[i]["flags"]["scheduler"] in simgen.PLANNERS]
    idx_chunks = [light[i:i + chunk] for i in range(0, len(light), chunk)] + [heavy[i:i + 2] for i in range(0, len(heavy), 2)]
    chunks = [[worlds[i] for i in c] for c in idx_chunks]

    def one(ws):
        try:
            return core.run_impl("sim.py", {"worlds": ws}, timeout=timeout)["runs"]
        except Exception as e:      # a crashed adapter process: report every world of the chunk
            st = "harness-timeout" if "rc=124" in str(e) or "TIMEOUT" in str(e) else "adapter-error"
            return [{"status": st, "error": str(e)[-800:], "log": [], "rows": [], "final": [],
                     "idle": [], "counters": [], "graphs": [], "sim_time": None} for _ in ws]
    with ThreadPoolExecutor(max_workers=jobs) as ex:
        res = list(ex.map(one, chunks))
    out = [None] * len(worlds)
    for c, rs in zip(idx_chunks, res):
        for i, r in zip(c, rs):
            out[i] = r
    for r in out:
        # the solvers installed here are size-limited: a model over the limit is a limit of the sandbox, not of /repo
        if r["status"] == "exception" and any(m in (r.get("error") or "") for m in
                                              ("size-limited license", "Promotional version", "DOcplexLimitsExceeded")):
            r["status"] = "solver-licence-limit"
    return out


def cached_runs(ctx):
    """(worlds, runs) for this seed/tier, computed once per source fingerprint and shared by the S-sim checks."""
    n = n_worlds(ctx)
    key = "%s_%s_%s_%s" % (ctx.seed, ctx.tier, n, repo_fingerprint())
    d = os.path.join(core.BUILD, "simcache")
    os.makedirs(d, exist_ok=True)
    p = os.path.join(d, key + ".json")
    worlds = gen_worlds(ctx.seed, n)
    with core.BuildLock():
        pass
    lock = open(p + ".lock", "w")
    import fcntl
    fcntl.flock(lock, fcntl.LOCK_EX)
    try:
        if os.path.exists(p):
            try:
                return worlds, json.load(open(p))
            except ValueError:
                pass
        runs = run_worlds(worlds)
        # keep the cache directory small
        for f in os.listdir(d):
            if f.endswith(".json") and not f.endswith(".model.json") and f != key + ".json":
                try:
                    os.remove(os.path.join(d, f))
                except OSError:
                    pass
        with open(p + ".tmp", "w") as f:
            json.dump(runs, f)
        os.replace(p + ".tmp", p)
        return worlds, runs
    finally:
        fcntl.flock(lock, fcntl.LOCK_UN)
        lock.close()


# ------------------------------------------------------------------ log -> machine events
class Names:
    def __init__(self):
        self.t = {}
        self.w = {}
        self.r = {}

    def tid(self, n):
        if n not in self.t:
            self.t[n] = len(self.t)
        return self.t[n]

    def wid(self, n):
        if n not in self.w:
            self.w[n] = len(self.w)
        return self.w[n]

    def rid(self, n):
        if n not in self.r:
            self.r[n] = len(self.r)
        return self.r[n]


def g_req(nm, desc):
    agg = {}
    for (name, _id, q) in desc:
        agg[name] = agg.get(name, 0) + q
    return glist(["(%s, %s)" % (gz(nm.rid(k)), gz(v)) for k, v in sorted(agg.items())])


def convert(run, world):
    """returns (gallina world, gallina event list, names, unsupported reason or None, dom order)"""
    nm = Names()
    evs = []
    caps = []
    dom = []
    unsupported = None
    for e in run["log"]:
        k = e[0]
        if k == "cluster":
            for pool in e[1]:
                for (wname, res) in pool[2]:
                    agg = {}
                    for (rn, _id, q) in res:
                        agg[rn] = agg.get(rn, 0) + q
                    caps.append("(%s, %s)" % (gz(nm.wid(wname)), glist(["(%s, %s)" % (gz(nm.rid(a)), gz(b)) for a, b in sorted(agg.items())])))
        elif k == "graph":
            ts = []
            ids = []
            for t in e[1]["tasks"]:
                nm.tid(t["name"])
            for t in e[1]["tasks"]:
                ts.append("(%s, mkTI %s %s, %s, %s)" % (gz(nm.tid(t["name"])), glist([gz(nm.tid(p)) for p in t["parents"]]),
                                                       gbool(t["terminal"]), gz(t["release"]), gz(t["deadline"])))
                ids.append(nm.tid(t["name"]))
            evs.append("EGraph %s" % glist(ts))
            dom = ids + dom
        elif k == "step":
            if e[3] is None:
                unsupported = "step with an empty event queue"
                break
            evs.append("EStep %s %s" % (gz(e[2]), gz(e[3])))
        elif k == "handle":
            evs.append("EHandle %s %s %s" % (e[2], gz(e[1]), gopt(None if e[3] is None else nm.tid(e[3]), gz)))
        elif k == "handled":
            evs.append("EHandled")
        elif k == "task":
            op, tn, tm = e[1], e[2], e[3]
            if tn not in nm.t:
                unsupported = "operation on a task of an unknown graph (%s)" % tn
                break
            t = nm.tid(tn)
            if op == "release":
                evs.append("ERelease %s %s" % (gz(t), gz(tm if tm is not None else -1)))
            elif op == "schedule":
                x = e[6] if e[5] != "ERR" else [tm, None, None, 0]
                evs.append("ESchedule %s %s %s %s" % (gz(t), gz(tm), gz(x[0] if x[0] is not None else -1), gz(x[3] if x[3] is not None else 0)))
            elif op == "unschedule":
                evs.append("EUnschedule %s %s" % (gz(t), gz(tm)))
            elif op == "start":
                draw = e[6][0] if e[5] != "ERR" else 0
                evs.append("EStart %s %s %s" % (gz(t), gz(tm if tm is not None else -1), gz(draw)))
            elif op == "finish":
                evs.append("EFinish %s" % gz(t))
            elif op == "cancel":
                evs.append("ECancel %s %s" % (gz(t), gz(tm if tm is not None else -1)))
            else:
                unsupported = "task operation %s (preemption is outside the machine)" % op
                break
        elif k == "worker":
            op, wn, tn, desc, ok = e[1], e[2], e[3], e[4], e[5]
            if ok != "ok":
                continue        # a refused Worker.place_task changes nothing (C04); the pool then reports False
            if tn not in nm.t:
                unsupported = "worker operation on a task of an unknown graph (%s)" % tn
                break
            if op == "place":
                if desc[2] != 1:
                    unsupported = "batch strategy"
                    break
                evs.append("EPlace %s %s %s" % (gz(nm.tid(tn)), gz(nm.wid(wn)), g_req(nm, desc[1])))
            elif op == "remove":
                evs.append("ERemove %s %s" % (gz(nm.tid(tn)), gz(nm.wid(wn))))
    gworld = "(mkWorld (mk_cap %s) %s)" % (glist(caps), gz(world["flags"].get("runtime_variance", 0)))
    return gworld, glist(evs), nm, unsupported, dom


def expected_observation(run, nm, dom):
    fin = {f[0]: f for f in run["final"]}
    tasks = []
    for t in reversed(dom):
        name = [k for k, v in nm.t.items() if v == t][0]
        f = fin.get(name)
        if f is None:
            tasks.append([])
        else:
            tasks.append([t, STATE_CODE[f[1]], f[2] if f[2] is not None else -1, f[3] if f[3] is not None else -1,
                          f[4] if f[4] is not None else -1])
    resident = sum(len(w[2]) for w in run["idle"])
    return [[], run["sim_time"], tasks, run["counters"][0], run["counters"][1], resident]


def machine_stream(ctx, worlds, runs, deps_built=True):
    """Feed every run's call log to the abstract machine; returns list of (world index, detail) disagreements,
    plus bookkeeping in ctx.cov."""
    cases = []
    idx = []
    skipped = {}
    statuses = {}
    for i, (w, r) in enumerate(zip(worlds, runs)):
        statuses[r["status"]] = statuses.get(r["status"], 0) + 1
        if r["status"] == "adapter-error" or not r["log"]:
            skipped["adapter"] = skipped.get("adapter", 0) + 1
            continue
        if len(r["log"]) > MAX_LOG:
            skipped["log longer than %d entries" % MAX_LOG] = skipped.get("log longer than %d entries" % MAX_LOG, 0) + 1
            continue
        gworld, gevs, nm, unsup, dom = convert(r, w)
        if unsup:
            skipped[unsup.split(" (")[0]] = skipped.get(unsup.split(" (")[0], 0) + 1
            continue
        if r["sim_time"] is None or not r["counters"]:
            skipped["no simulator"] = skipped.get("no simulator", 0) + 1
            continue
        cases.append(("(%s, %s)" % (gworld, gevs), expected_observation(r, nm, dom), i))
        idx.append(i)
    ctx.cov.setdefault("input_distribution", {})["sim_run_status"] = statuses
    ctx.cov["input_distribution"]["sim_runs_not_fed_to_machine"] = skipped
    mism = cached_model_stream(ctx, "S-sim", HEADER, "world * list ev", "(fun p => observe (fst p) (snd p))", cases, 12,
                               ["Model/Sim.v", "Gen/Src_Task.v", "Gen/Src_TaskGraph.v", "Gen/Src_Event.v", "Model/Val.v"])
    return [(idx[k], mv, cases[k][1]) for k, mv in mism], len(cases)


def cached_model_stream(ctx, stream, header, in_type, fn, cases, shard, sources):
    """model_stream, memoised on the exact case text and the exact model sources: the S-sim checks feed the same call logs
    to the same machine, so the evaluation inside Coq is done once per (runs, model) and its result shared."""
    h = hashlib.sha256()
    for src in sources:
        p = os.path.join(core.COQ, src)
        h.update(open(p, "rb").read() if os.path.exists(p) else b"MISSING")
    h.update((header + in_type + fn).encode())
    for c in cases:
        h.update(c[0].encode())
        h.update(json.dumps(c[1]).encode())
    d = os.path.join(core.BUILD, "simcache")
    os.makedirs(d, exist_ok=True)
    p = os.path.join(d, "%s_%s.model.json" % (stream.replace("-", "_"), h.hexdigest()[:24]))
    if os.path.exists(p):
        try:
            mism = [tuple(x) for x in json.load(open(p))]
            st = ctx.cov["streams"].setdefault(stream, {"cases": 0, "disagreements": 0})
            st["cases"] += len(cases)
            st["disagreements"] += len(mism)
            st["evaluated_by"] = "an earlier check of this run set (same call logs, same model sources)"
            ctx.cov["evaluations"] += len(cases)
            ctx.cov["traces_validated_against_impl"] += len(cases)
            return mism
        except ValueError:
            pass
    mism = ctx.model_stream(stream, header, in_type, fn, cases, shard=shard)
    for f in os.listdir(d):
        if f.startswith(stream.replace("-", "_") + "_") and f.endswith(".model.json"):
            try:
                os.remove(os.path.join(d, f))
            except OSError:
                pass
    json.dump(mism, open(p, "w"))
    return mism


# ------------------------------------------------------------------ log -> events of the machine with the event queue
HEADER_Q = "From Verif Require Import Gen.Src_Task Gen.Src_Event Model.EventQ Model.Sim Model.SimQ."


def convert_q(run, world, positions=None):
    """like convert, for Model/SimQ.v: machine events wrapped in QSim plus the queue operations.
    positions (a list, optional) receives, per entry of run["log"], the number of machine entries generated before it."""
    names = set()
    for e in run["log"]:
        if e[0] in ("qpush", "qpop", "qremove") and e[3] is not None:
            names.add(e[3])
        elif e[0] == "qsync":
            names.update(x[2] for x in e[1] if x[2] is not None)
        elif e[0] == "graph":
            names.update(t["name"] for t in e[1]["tasks"])
    rank = {n: i for i, n in enumerate(sorted(names))}
    gworld, gevs, nm, unsup, dom = convert(run, world)
    if unsup:
        return gworld, None, nm, unsup, dom
    # second pass in log order, interleaving queue operations with the machine events
    nm2 = Names()
    nm2.t, nm2.w, nm2.r = nm.t, nm.w, nm.r
    out = []

    def pev(time, ty, task):
        return "(mkPev %s %s %s)" % (gz(time), ty, "None" if task is None else "(Some (%s, %s))" % (gz(nm2.tid(task)), gz(rank[task])))
    sub = {"log": []}
    for e in run["log"]:
        k = e[0]
        if positions is not None:
            positions.append(len(out))
        if k == "qpush":
            out.append("QPush %s" % pev(e[1], e[2], e[3]))
        elif k == "qpop":
            out.append("QPop %s" % pev(e[1], e[2], e[3]))
        elif k == "qremove":
            out.append("QRemove %s" % pev(e[1], e[2], e[3]))
        elif k == "qsync":
            out.append("QSync %s" % glist([pev(x[0], x[1], x[2]) for x in e[1]]))
        else:
            one = dict(run)
            one["log"] = [e]
            _, g1, _, u1, _ = convert_with(one, world, nm2)
            for x in g1:
                out.append("QSim (%s)" % x)
    return gworld, glist(out), nm2, None, dom


def convert_with(run, world, nm):
    """convert() on a log fragment with a given name table; returns the event strings as a list"""
    saved = Names
    evs_holder = []
    # reuse convert by temporarily substituting the name table
    class _N(Names):
        def __init__(self):
            self.t, self.w, self.r = nm.t, nm.w, nm.r
    globals()["Names"] = _N
    try:
        gworld, gevs, nm_, unsup, dom = convert(run, world)
    finally:
        globals()["Names"] = saved
    body = gevs[1:-1]
    items = split_top(body)
    return gworld, items, nm_, unsup, dom


def split_top(s):
    """split a Gallina list body at top-level semicolons"""
    out = []
    depth = 0
    cur = ""
    for ch in s:
        if ch in "([":
            depth += 1
        elif ch in ")]":
            depth -= 1
        if ch == ";" and depth == 0:
            if cur.strip():
                out.append(cur.strip())
            cur = ""
        else:
            cur += ch
    if cur.strip():
        out.append(cur.strip())
    return out


def machine_q_stream(ctx, worlds, runs, stream="S-simq", every=2):
    cases = []
    idx = []
    for i, (w, r) in enumerate(zip(worlds, runs)):
        if ctx.tier == "quick" and every > 1 and i % every == 1:
            continue            # quick tier: every other run (the thorough tier feeds them all)
        if r["status"] == "adapter-error" or not r["log"] or r["sim_time"] is None or not r["counters"] or len(r["log"]) > MAX_LOG:
            continue
        gworld, gevs, nm, unsup, dom = convert_q(r, w)
        if unsup or gevs is None:
            continue
        exp = expected_observation(r, nm, dom)
        # the number of events still pending at the end, as the implementation's queue reports it
        pend = None
        for e in reversed(r["log"]):
            if e[0] == "handle":
                pend = len(e[5])
                break
        exp.append(pend if pend is not None else 0)
        cases.append(("(%s, %s)" % (gworld, gevs), exp, i))
        idx.append(i)
    mism = cached_model_stream(ctx, stream, HEADER_Q, "world * list qev", "(fun p => observe_q (fst p) (snd p))", cases, 10,
                               ["Model/Sim.v", "Model/SimQ.v", "Model/EventQ.v", "Gen/Src_Task.v", "Gen/Src_TaskGraph.v", "Gen/Src_Event.v", "Model/Val.v"])
    return [(idx[k], mv, cases[k][1]) for k, mv in mism], len(cases)


# ------------------------------------------------------------------ CSV rows as an output of the machine (Model/SimRows.v)
HEADER_ROWS = "From Verif Require Import Gen.Src_Task Gen.Src_Event Model.Sim Model.SimRows."
ROW_KINDS = ("WORKER_POOL_UTILIZATION", "TASK_RELEASE", "TASK_PLACEMENT", "TASK_FINISHED", "MISSED_DEADLINE", "TASK_CANCEL",
             "SIMULATOR_END")


def rows_expected(run, nm):
    """the implementation's captured CSV rows of the modelled kinds, canonicalised: task names -> machine ids, pool ids ->
    position in the cluster description, resources aggregated by name; each contiguous block of utilisation rows is sorted
    by (pool, resource) because the order inside a block follows dict insertion order.  Returns (rows, layout text, reason
    the trace cannot be judged or None)."""
    pools = {}
    layout = []
    for e in run["log"]:
        if e[0] == "cluster":
            for k, pool in enumerate(e[1]):
                pools[pool[1]] = k
                rs = sorted({nm.rid(rn) for (_w, res) in pool[2] for (rn, _i, _q) in res})
                layout.append("(%s, %s, %s)" % (gz(k), glist([gz(nm.wid(w)) for (w, _r) in pool[2]]), glist([gz(r) for r in rs])))
    raw = [r.split(",") for r in run["rows"]]
    id2name = {}
    for r in raw:
        if len(r) > 8 and r[1] == "TASK_RELEASE":
            id2name[r[7]] = "%s@%s" % (r[2], r[8])
        elif len(r) > 7 and r[1] == "TASK_FINISHED":
            id2name[r[7]] = "%s@%s" % (r[2], r[4])
        elif len(r) > 5 and r[1] == "TASK_PLACEMENT":
            id2name[r[5]] = "%s@%s" % (r[2], r[3])
        elif len(r) > 5 and r[1] == "TASK_CANCEL":
            id2name[r[4]] = "%s@%s" % (r[2], r[5])
    out = []
    block = []

    def flush():
        if block:
            out.extend(sorted(block))
            del block[:]

    def tid(name):
        return nm.t.get(name, -2)

    for r in raw:
        kind = r[1] if len(r) > 1 else None
        if kind == "WORKER_POOL_UTILIZATION":
            if r[2] not in pools or r[3] not in nm.r:
                return None, None, "utilisation row for an unknown pool or resource"
            block.append([0, int(r[0]), pools[r[2]], nm.r[r[3]], int(float(r[4])), int(float(r[5]))])
            continue
        flush()
        if kind == "TASK_RELEASE":
            out.append([1, int(r[0]), tid("%s@%s" % (r[2], r[8])), int(r[5]), int(r[6])])
        elif kind == "TASK_PLACEMENT":
            agg = {}
            for i in range(8, len(r) - 2, 3):
                agg[r[i]] = agg.get(r[i], 0) + int(float(r[i + 2]))
            req = [[nm.rid(k), v] for k, v in sorted(agg.items())]
            out.append([2, int(r[0]), tid("%s@%s" % (r[2], r[3])), int(r[7]), req])
        elif kind == "TASK_FINISHED":
            out.append([3, int(r[0]), tid("%s@%s" % (r[2], r[4])), int(r[5]), int(r[6])])
        elif kind == "MISSED_DEADLINE":
            out.append([4, int(r[0]), tid(id2name.get(r[5], "?")), int(r[4])])
        elif kind == "TASK_CANCEL":
            out.append([5, int(r[0]), tid("%s@%s" % (r[2], r[5]))])
        elif kind == "SIMULATOR_END":
            out.append([6, int(r[0]), int(r[2]), int(r[3]), int(r[4])])
    flush()
    return out, glist(layout), None


def rows_stream(ctx, worlds, runs, outside=lambda w: False):
    """S-rows: the rows the machine emits for the run's call log vs the rows the simulator wrote.
    Returns list of (world index, index of the first differing row, model row, implementation row)."""
    cases = []
    idx = []
    skipped = {}
    for i, (w, r) in enumerate(zip(worlds, runs)):
        if r["status"] != "ended" or not r["log"] or not r.get("rows") or len(r["log"]) > MAX_LOG or outside(w):
            skipped["not ended / too long / outside the claim"] = skipped.get("not ended / too long / outside the claim", 0) + 1
            continue
        gworld, gevs, nm, unsup, _dom = convert(r, w)
        if unsup:
            skipped[unsup.split(" (")[0]] = skipped.get(unsup.split(" (")[0], 0) + 1
            continue
        exp, layout, why = rows_expected(r, nm)
        if why:
            skipped[why] = skipped.get(why, 0) + 1
            continue
        cases.append(("(%s, %s, %s)" % (gworld, layout, gevs), exp, i))
        idx.append(i)
    ctx.cov.setdefault("input_distribution", {})["sim_runs_not_fed_to_rows_model"] = skipped
    kinds = {}
    for c in cases:
        for row in c[1]:
            kinds[row[0]] = kinds.get(row[0], 0) + 1
    ctx.cov["input_distribution"]["rows_compared_by_kind"] = {ROW_KINDS[k]: v for k, v in sorted(kinds.items())}
    mism = cached_model_stream(ctx, "S-rows", HEADER_ROWS, "world * layout * list ev",
                               "(fun p => observe_rows (fst (fst p)) (snd (fst p)) (snd p))", cases, 12,
                               ["Model/Sim.v", "Model/SimRows.v", "Gen/Src_Task.v", "Gen/Src_TaskGraph.v", "Gen/Src_Event.v", "Model/Val.v"])
    out = []
    for k, mv in mism:
        exp = cases[k][1]
        j = 0
        while isinstance(mv, list) and j < min(len(mv), len(exp)) and mv[j] == exp[j]:
            j += 1
        out.append((idx[k], j, mv[j] if isinstance(mv, list) and j < len(mv) else None, exp[j] if j < len(exp) else None))
    return out, len(cases)


# ------------------------------------------------------------------ graph-level rows as an output of the machine (Model/SimGraphRows.v)
HEADER_GROWS = "From Verif Require Import Gen.Src_Task Gen.Src_Event Model.Sim Model.SimGraphRows."
GROW_KINDS = ("TASK_GRAPH_FINISHED", "MISSED_TASK_GRAPH_DEADLINE", "SIMULATOR_END(graphs)")


def grows_expected(run, nm):
    """(expected rows, gallina list of ginfo): the graphs as the workload handed them to the simulator (deadline, sinks,
    members from the graph objects at load time) and the captured graph-level rows, graph names -> position of the graph."""
    gid = {}
    infos = []
    for e in run["log"]:
        if e[0] == "graph":
            g = e[1]
            if g["graph"] in gid:
                continue
            gid[g["graph"]] = len(gid)
            members = [nm.t[t["name"]] for t in g["tasks"] if t["name"] in nm.t]
            sinks = [nm.t[t["name"]] for t in g["tasks"] if not t["children"] and t["name"] in nm.t]
            infos.append("(mkG %s %s %s %s)" % (gz(gid[g["graph"]]), gz(g["deadline"]), glist([gz(x) for x in sinks]),
                                               glist([gz(x) for x in members])))
    out = []
    for r in (x.split(",") for x in run["rows"]):
        kind = r[1] if len(r) > 1 else None
        if kind == "TASK_GRAPH_FINISHED":
            out.append([0, int(r[0]), gid.get(r[2], -2), int(r[3]), int(r[4])])
        elif kind == "MISSED_TASK_GRAPH_DEADLINE":
            out.append([1, int(r[0]), gid.get(r[2], -2), int(r[3])])
        elif kind == "SIMULATOR_END":
            out.append([2, int(r[0]), int(r[5]), int(r[6]), int(r[7])])
    return out, glist(infos)


def grows_stream(ctx, worlds, runs, outside=lambda w: False):
    """S-grows: graph-level rows and graph counters the machine emits for the run's call log vs the simulator's."""
    cases = []
    idx = []
    skipped = {}
    for i, (w, r) in enumerate(zip(worlds, runs)):
        if r["status"] != "ended" or not r["log"] or not r.get("rows") or len(r["log"]) > MAX_LOG or outside(w):
            skipped["not ended / too long / outside the claim"] = skipped.get("not ended / too long / outside the claim", 0) + 1
            continue
        gworld, gevs, nm, unsup, _dom = convert(r, w)
        if unsup:
            skipped[unsup.split(" (")[0]] = skipped.get(unsup.split(" (")[0], 0) + 1
            continue
        exp, ginfos = grows_expected(r, nm)
        cases.append(("(%s, %s, %s)" % (gworld, ginfos, gevs), exp, i))
        idx.append(i)
    ctx.cov.setdefault("input_distribution", {})["sim_runs_not_fed_to_graph_rows_model"] = skipped
    kinds = {}
    for c in cases:
        for row in c[1]:
            kinds[row[0]] = kinds.get(row[0], 0) + 1
    ctx.cov["input_distribution"]["graph_rows_compared_by_kind"] = {GROW_KINDS[k]: v for k, v in sorted(kinds.items())}
    mism = cached_model_stream(ctx, "S-grows", HEADER_GROWS, "world * list ginfo * list ev",
                               "(fun p => observe_grows (fst (fst p)) (snd (fst p)) (snd p))", cases, 12,
                               ["Model/Sim.v", "Model/SimGraphRows.v", "Gen/Src_Task.v", "Gen/Src_TaskGraph.v", "Gen/Src_Event.v",
                                "Model/Val.v"])
    out = []
    for k, mv in mism:
        exp = cases[k][1]
        j = 0
        while isinstance(mv, list) and j < min(len(mv), len(exp)) and mv[j] == exp[j]:
            j += 1
        out.append((idx[k], j, mv[j] if isinstance(mv, list) and j < len(mv) else None, exp[j] if j < len(exp) else None))
    return out, len(cases)


# ------------------------------------------------------------------ handlers as functions of the machine state (Model/SimHandlers.v)
HEADER_HANDLERS = ("From Verif Require Import Gen.Src_Task Gen.Src_Event Model.EventQ Model.Sim Model.SimRows Model.SimQ "
                   "Model.SimHandlers.")


def handlers_expected(run, nm):
    """for every TASK_PLACEMENT event handled in the run: the place_in record the model needs (Gallina text) and the outcome
    OBSERVED on the implementation ([1, worker] started / [2, time] re-queued / [3] consumed / [0] outside the exact part).
    Returns (layout text, slowest text, place_in texts, outcomes, reason the run cannot be judged or None)."""
    pools = {}
    layout = []
    slow = []
    for e in run["log"]:
        if e[0] == "cluster":
            for k, pool in enumerate(e[1]):
                pools[pool[0]] = k
                rs = sorted({nm.rid(rn) for (_w, res) in pool[2] for (rn, _i, _q) in res})
                layout.append("(%s, %s, %s)" % (gz(k), glist([gz(nm.wid(w)) for (w, _r) in pool[2]]), glist([gz(r) for r in rs])))
        elif e[0] == "graph":
            for t in e[1]["tasks"]:
                if t["name"] in nm.t and t["strategies"]:
                    slow.append("(%s, %s)" % (gz(nm.t[t["name"]]), gz(max(s[0] for s in t["strategies"]))))
    pis, outs = [], []
    log = run["log"]
    i = 0
    while i < len(log):
        e = log[i]
        if e[0] == "handle" and e[2] == "TASK_PLACEMENT" and e[3] is not None:
            if len(e) < 7 or "error" in e[6] or e[6].get("pool") not in pools or e[6].get("gcancelled") is None:
                return None, None, None, None, "placement event without a readable placement"
            x = e[6]
            tn = e[3]
            if tn not in nm.t:
                return None, None, None, None, "placement of a task of an unknown graph"
            strat = x["strategy"]
            exact = strat is not None and strat[2] == 1 and all(i_ == "any" for (_n, i_, _q) in strat[1])
            if x["worker"] == "?" or (x["worker"] is not None and x["worker"] not in nm.w):
                return None, None, None, None, "placement names a worker outside the cluster"
            # the sub-log of this handler
            j = i + 1
            started, retry, wplace = None, None, None
            while j < len(log) and log[j][0] != "handled":
                f = log[j]
                if f[0] == "worker" and f[1] == "place" and f[3] == tn and f[5] == "ok":
                    wplace = f[2]
                elif f[0] == "pool" and f[1] == "place" and f[3] == tn and f[4]:
                    started = wplace
                elif f[0] == "qpush" and f[2] == "TASK_PLACEMENT" and f[3] == tn:
                    retry = f[1]
                j += 1
            if j >= len(log):
                break                   # the handler did not return (the run was aborted): nothing to compare
            if not exact:
                out = [0]
            elif started is not None:
                out = [1, nm.wid(started)]
            elif retry is not None:
                out = [2, retry]
            else:
                out = [3]
            req = g_req(nm, strat[1]) if strat is not None else "[]"
            pis.append("(mkPI %s %s %s %s %s %s)" % (
                gz(nm.t[tn]), gz(pools[x["pool"]]), gopt(None if x["worker"] is None else nm.wid(x["worker"]), gz), req,
                gbool(x["gcancelled"]), gbool(exact)))
            outs.append(out)
        i += 1
    return glist(layout), glist(slow), pis, outs, None


def handlers_stream(ctx, worlds, runs, outside=lambda w: False, stream="S-handlers"):
    """S-handlers: the outcome of every TASK_PLACEMENT handler computed by Model/SimHandlers.v from the machine state vs
    the outcome observed on the implementation.  Returns ([(world index, ordinal of the handler, model outcome,
    implementation outcome)], number of runs fed, number of handlers compared by outcome kind)."""
    cases, idx = [], []
    skipped = {}
    kinds = {"outside-exact-part": 0, "started": 0, "re-queued": 0, "consumed": 0}
    for i, (w, r) in enumerate(zip(worlds, runs)):
        if r["status"] == "adapter-error" or not r["log"] or len(r["log"]) > MAX_LOG or outside(w):
            skipped["no log / too long / outside the claim"] = skipped.get("no log / too long / outside the claim", 0) + 1
            continue
        gworld, gevs, nm, unsup, _dom = convert_q(r, w)
        if unsup or gevs is None:
            skipped[(unsup or "?").split(" (")[0]] = skipped.get((unsup or "?").split(" (")[0], 0) + 1
            continue
        layout, slow, pis, outs, why = handlers_expected(r, nm)
        if why:
            skipped[why] = skipped.get(why, 0) + 1
            continue
        if not pis:
            skipped["no placement event handled"] = skipped.get("no placement event handled", 0) + 1
            continue
        # the log may end inside a handler that never returned: feed the machine only up to the last compared handler's end
        for o in outs:
            kinds[("outside-exact-part", "started", "re-queued", "consumed")[o[0]]] += 1
        cases.append(("(%s, %s, %s, %s, %s)" % (gworld, layout, slow, glist(pis), gevs), [1, outs], i))
        idx.append(i)
    ctx.cov.setdefault("input_distribution", {})["sim_runs_not_fed_to_handler_model"] = skipped
    ctx.cov["input_distribution"]["placement_handlers_by_observed_outcome"] = dict(kinds)
    mism = cached_model_stream(
        ctx, stream, HEADER_HANDLERS, "world * layout * list (Z * Z) * list place_in * list qev",
        "(fun p => match p with (W, Ly, SL, pis, l) => observe_handlers W Ly SL pis l end)", cases, 10,
        ["Model/Sim.v", "Model/SimQ.v", "Model/SimRows.v", "Model/SimHandlers.v", "Model/EventQ.v", "Gen/Src_Task.v",
         "Gen/Src_TaskGraph.v", "Gen/Src_Event.v", "Model/Val.v"])
    out = []
    for k, mv in mism:
        exp = cases[k][1]
        if not (isinstance(mv, list) and len(mv) == 2 and mv[0] == 1):
            out.append((idx[k], None, mv, None))      # the machine rejected the log (reported by S-simq) or place_in records ran out
            continue
        j = 0
        while j < min(len(mv[1]), len(exp[1])) and mv[1][j] == exp[1][j]:
            j += 1
        out.append((idx[k], j, mv[1][j] if j < len(mv[1]) else None, exp[1][j] if j < len(exp[1]) else None))
    return out, len(cases), kinds


def cancels_stream(ctx, worlds, runs, stream="S-cancel-handlers"):
    """every TASK_CANCEL event handled: the pending placement event the handler removed (its time) or nothing, as computed by
    Model/SimHandlers.v cancel_outcome from the machine-with-queue state vs as observed on the implementation's queue."""
    cases, idx = [], []
    n_removed = n_none = 0
    for i, (w, r) in enumerate(zip(worlds, runs)):
        if r["status"] == "adapter-error" or not r["log"] or len(r["log"]) > MAX_LOG:
            continue
        log = r["log"]
        outs = []
        k = 0
        complete = True
        while k < len(log):
            e = log[k]
            if e[0] == "handle" and e[2] == "TASK_CANCEL" and e[3] is not None:
                j = k + 1
                rem = None
                while j < len(log) and log[j][0] != "handled":
                    f = log[j]
                    if f[0] == "qremove" and f[2] == "TASK_PLACEMENT" and f[3] == e[3]:
                        rem = f[1]
                    j += 1
                if j >= len(log):
                    complete = False
                    break
                outs.append(rem)
            k += 1
        if not outs or not complete:
            continue
        gworld, gevs, nm, unsup, _dom = convert_q(r, w)
        if unsup or gevs is None:
            continue
        n_removed += sum(1 for o in outs if o is not None)
        n_none += sum(1 for o in outs if o is None)
        cases.append(("(%s, %s)" % (gworld, gevs), [1, [[] if o is None else [o] for o in outs]], i))
        idx.append(i)
    ctx.cov.setdefault("input_distribution", {})["cancel_handlers_compared"] = {"placement_removed": n_removed, "nothing_pending": n_none}
    mism = cached_model_stream(ctx, stream, HEADER_HANDLERS, "world * list qev", "(fun p => observe_cancels (fst p) (snd p))", cases, 10,
                               ["Model/Sim.v", "Model/SimQ.v", "Model/SimRows.v", "Model/SimHandlers.v", "Model/EventQ.v",
                                "Gen/Src_Task.v", "Gen/Src_TaskGraph.v", "Gen/Src_Event.v", "Model/Val.v"])
    ctx.cov["streams"].setdefault(stream, {}).update({"handlers_with_a_placement_removed": n_removed, "handlers_with_nothing_pending": n_none})
    return [(idx[k], mv, cases[k][1]) for k, mv in mism], len(cases)


def decisions_stream(ctx, worlds, runs, stream="S-decisions", outside=lambda w: False):
    """every decision of a policy as the simulator processes it (Simulator.__create_events_from_task_placement(_skip)):
    outcome computed by Model/SimHandlers.v decision_outcome from the machine-with-queue state at the moment the processing of
    the decision begins vs the outcome observed ([1] scheduled, new event / [2] scheduled, pending event re-timed / [3, time]
    pending event at `time` removed and the task unscheduled / [4] nothing / [5] TaskGraph.cancel / [0] outside)."""
    cases, idx = [], []
    kinds = {}
    skipped = {}
    for i, (w, r) in enumerate(zip(worlds, runs)):
        if r["status"] == "adapter-error" or not r["log"] or len(r["log"]) > MAX_LOG or outside(w):
            continue
        log = r["log"]
        if not any(e[0] == "decision" for e in log):
            continue
        pos = []
        gworld, gevs, nm, unsup, _dom = convert_q(r, w, positions=pos)
        if unsup or gevs is None:
            skipped[(unsup or "?").split(" (")[0]] = skipped.get((unsup or "?").split(" (")[0], 0) + 1
            continue
        ds, outs = [], []
        ok = True
        k = 0
        while k < len(log):
            e = log[k]
            if e[0] == "decision":
                if e[1] is None or e[1] not in nm.t:
                    ok = False
                    break
                tn = e[1]
                j = k + 1
                sched = sync = unsched = tgc = False
                removed = None
                while j < len(log) and log[j][0] not in ("decision", "handled"):
                    f = log[j]
                    if f[0] == "task" and f[2] == tn and f[1] == "schedule" and f[5] != "ERR":
                        sched = True
                    elif f[0] == "task" and f[2] == tn and f[1] == "unschedule" and f[5] != "ERR":
                        unsched = True
                    elif f[0] == "qsync":
                        sync = True
                    elif f[0] == "qremove" and f[2] == "TASK_PLACEMENT" and f[3] == tn:
                        removed = f[1]
                    elif f[0] == "tgcancel" and f[1] == tn:
                        tgc = True
                    elif f[0] == "qpush":
                        break           # the events are queued after ALL decisions were processed
                    j += 1
                if j >= len(log):
                    break               # the handler never returned
                state = e[5]
                if state in ("RUNNING", "PREEMPTED", "EVICTED"):
                    out = [0]
                elif tgc:
                    out = [5]
                elif sched:
                    out = [2] if sync else [1]
                elif unsched or removed is not None:
                    out = [3, removed if removed is not None else -1]
                else:
                    out = [4]
                d = "DCancel" if e[2] == "cancel" else ("DUnplaced" if e[2] == "unplaced" else
                                                       "(DPlace %s %s)" % (gz(e[3] if e[3] is not None else -1), gz(e[4] if e[4] is not None else 0)))
                ds.append("(%s, %s, %s)" % (gz(pos[k]), gz(nm.t[tn]), d))
                outs.append(out)
                kinds[out[0]] = kinds.get(out[0], 0) + 1
            k += 1
        if not ok or not ds:
            skipped["decision for a task of an unknown graph"] = skipped.get("decision for a task of an unknown graph", 0) + (0 if ok else 1)
            continue
        drop = bool(w["flags"].get("drop_skipped_tasks"))
        cases.append(("(%s, %s, %s, %s)" % (gworld, gbool(drop), glist(ds), gevs), [1, outs], i))
        idx.append(i)
    names = {0: "outside (running / preempted)", 1: "scheduled, new event", 2: "scheduled, pending event re-timed",
             3: "retracted: event removed, unscheduled", 4: "nothing", 5: "dropped: TaskGraph.cancel"}
    mism = cached_model_stream(
        ctx, stream, HEADER_HANDLERS, "world * bool * list (Z * Z * dec) * list qev",
        "(fun p => match p with (W, drop, ds, l) => observe_decisions W drop ds l end)", cases, 10,
        ["Model/Sim.v", "Model/SimQ.v", "Model/SimRows.v", "Model/SimHandlers.v", "Model/EventQ.v", "Gen/Src_Task.v",
         "Gen/Src_TaskGraph.v", "Gen/Src_Event.v", "Model/Val.v"])
    ctx.cov["streams"].setdefault(stream, {}).update({"decisions_by_observed_outcome": {names[k]: v for k, v in sorted(kinds.items())},
                                                      "runs_not_fed": skipped})
    out = []
    for k, mv in mism:
        exp = cases[k][1]
        if not (isinstance(mv, list) and len(mv) == 2 and mv[0] == 1):
            out.append((idx[k], None, mv, None))
            continue
        j = 0
        while j < min(len(mv[1]), len(exp[1])) and mv[1][j] == exp[1][j]:
            j += 1
        out.append((idx[k], j, mv[1][j] if j < len(mv[1]) else None, exp[1][j] if j < len(exp[1]) else None))
    return out, len(cases)
