"""Generator of small simulation worlds for the S-sim stream (cluster x workload x flags).
Every choice comes from the rng handed in (seeded by VERIF_SEED)."""
import random

RUNTIMES = [1, 2, 3, 5, 10, 50]
RES = ["CPU", "GPU", "MEM"]


def gen_cluster(rng):
    pools = []
    names = RES[:rng.randint(1, 3)]
    for p in range(rng.randint(1, 2)):
        workers = []
        for w in range(rng.randint(1, 2)):
            res = []
            for n in names:
                if rng.random() < 0.8 or not res:
                    q = rng.randint(1, 3)
                    if rng.random() < 0.25 and q >= 2:
                        # the same type as individually addressable units (explicit ids)
                        for i in range(q):
                            res.append({"name": "%s:%s%d" % (n, n.lower()[0], i), "quantity": 1})
                    else:
                        res.append({"name": n, "quantity": q})
            workers.append({"name": "W%d_%d" % (p, w), "resources": res})
        pools.append({"name": "P%d" % p, "workers": workers})
    # make sure every resource name exists somewhere
    have = {r["name"].split(":")[0] for p in pools for w in p["workers"] for r in w["resources"]}
    for n in names:
        if n not in have:
            pools[0]["workers"][0]["resources"].append({"name": n, "quantity": rng.randint(1, 3)})
    return pools, names


def capacity(pools):
    caps = []
    for p in pools:
        for w in p["workers"]:
            c = {}
            for r in w["resources"]:
                n = r["name"].split(":")[0]
                c[n] = c.get(n, 0) + r["quantity"]
            caps.append(c)
    return caps


def unit_ids(pools):
    """explicit unit ids per resource type, e.g. {'GPU': ['g0', 'g1']}"""
    out = {}
    for p in pools:
        for w in p["workers"]:
            for r in w["resources"]:
                if ":" in r["name"]:
                    n, i = r["name"].split(":")
                    out.setdefault(n, [])
                    if i not in out[n]:
                        out[n].append(i)
    return out


def gen_profile(rng, name, names, caps, runtimes, force_fit=True, ids=None):
    strategies = []
    for _ in range(rng.choice([1, 1, 2, 3])):
        cap = rng.choice(caps)
        req = {}
        keys = list(cap)
        rng.shuffle(keys)
        for n in keys[:rng.randint(1, len(keys))]:
            hi = cap[n] if force_fit or rng.random() < 0.85 else cap[n] + 1
            if ids and n in ids and rng.random() < 0.35:
                req["%s:%s" % (n, rng.choice(ids[n]))] = 1        # a specific unit (never mixed with `any` of its type)
            else:
                req["%s:any" % n] = rng.randint(1, max(1, hi))
        strategies.append({"batch_size": 1, "runtime": rng.choice(runtimes), "resource_requirements": req})
    if rng.random() < 0.12:
        # a FIRST-listed strategy that no worker can ever hold, followed by strategies that fit: a policy must go on to
        # the next strategy
        n = rng.choice(sorted(caps[0]))
        strategies.insert(0, {"batch_size": 1, "runtime": rng.choice(runtimes),
                              "resource_requirements": {"%s:any" % n: max(c.get(n, 0) for c in caps) + 1}})
    return {"name": name, "execution_strategies": strategies}


SHAPES = ["single", "chain", "fork", "join", "diamond", "skip", "two_sources", "two_sinks", "cond", "cond_nested", "wide",
          "cond_skip"]      # ("cond_sink" exists for the witness of known finding F42 only)


def gen_shape(rng, shape):
    """returns list of (name, children, attrs)"""
    if shape == "single":
        return [("A", [], {})]
    if shape == "chain":
        n = rng.randint(2, 4)
        ns = ["N%d" % i for i in range(n)]
        return [(ns[i], [ns[i + 1]] if i + 1 < n else [], {}) for i in range(n)]
    if shape == "fork":
        return [("A", ["B", "C"], {}), ("B", [], {}), ("C", [], {})]
    if shape == "join":
        return [("A", ["C"], {}), ("B", ["C"], {}), ("C", [], {})]
    if shape == "diamond":
        return [("A", ["B", "C"], {}), ("B", ["D"], {}), ("C", ["D"], {}), ("D", [], {})]
    if shape == "skip":
        return [("A", ["B", "C"], {}), ("B", ["C"], {}), ("C", [], {})]
    if shape == "two_sources":
        return [("A", ["C"], {}), ("B", ["C", "D"], {}), ("C", [], {}), ("D", [], {})]
    if shape == "two_sinks":
        return [("A", ["B"], {}), ("B", ["C", "D"], {}), ("C", [], {}), ("D", [], {})]
    if shape == "wide":
        return [("A", ["B", "C", "D"], {}), ("B", ["E"], {}), ("C", ["E"], {}), ("D", [], {}), ("E", [], {})]
    if shape == "cond":
        p = rng.choice([0.5, 0.25, 1.0])
        # S -> X (conditional) -> {L (p), R1 -> R2 (1-p)} -> T (terminal) -> Z
        return [("S", ["X"], {}), ("X", ["L", "R1"], {"conditional": True}),
                ("L", ["T"], {"probability": p}), ("R1", ["R2"], {"probability": round(1.0 - p, 2)}),
                ("R2", ["T"], {}), ("T", ["Z"], {"terminal": True}), ("Z", [], {})]
    if shape == "cond_skip":
        # a conditional with a DIRECT edge to its own join: S -> X (conditional) -> {H (p) -> T, T (1-p)}; T terminal -> Z
        p = rng.choice([0.5, 0.75, 0.25])
        return [("S", ["X"], {}), ("X", ["H", "T"], {"conditional": True}), ("H", ["T"], {"probability": p}),
                ("T", ["Z"], {"terminal": True, "probability": round(1.0 - p, 2)}), ("Z", [], {})]
    if shape == "cond_sink":
        # a branch of the conditional ends in a sink of its own (a side output): S -> X -> {L -> T, R -> {T, Rout}}, T terminal -> Z
        p = rng.choice([0.5, 0.25, 0.75])
        return [("S", ["X"], {}), ("X", ["L", "R"], {"conditional": True}), ("L", ["T"], {"probability": p}),
                ("R", ["T", "Rout"], {"probability": round(1.0 - p, 2)}), ("Rout", [], {}),
                ("T", ["Z"], {"terminal": True}), ("Z", [], {})]
    if shape == "cond_fork":
        # a conditional WITHOUT a join: each branch ends in a sink of its own: S -> X -> {L -> Lz, R1 -> R2 -> Rz}
        p = rng.choice([0.5, 0.25, 0.75, 1.0])
        return [("S", ["X"], {}), ("X", ["L", "R1"], {"conditional": True}),
                ("L", ["Lz"], {"probability": p}), ("Lz", [], {}),
                ("R1", ["R2"], {"probability": round(1.0 - p, 2)}), ("R2", ["Rz"], {}), ("Rz", [], {})]
    if shape == "cond_root_fork":
        # the conditional is the source and nothing joins: X -> {L, R -> Rz}
        p = rng.choice([0.5, 0.25, 0.75])
        return [("X", ["L", "R"], {"conditional": True}), ("L", [], {"probability": p}),
                ("R", ["Rz"], {"probability": round(1.0 - p, 2)}), ("Rz", [], {})]
    if shape == "cond_nested":
        return [("X", ["L", "Y"], {"conditional": True}), ("L", ["T"], {"probability": 0.5}),
                ("Y", ["M", "N"], {"conditional": True, "probability": 0.5}),
                ("M", ["U"], {"probability": 0.5}), ("N", ["U"], {"probability": 0.5}),
                ("U", ["T"], {"terminal": True}), ("T", [], {"terminal": True})]
    raise ValueError(shape)


def gen_world(rng, policy=None, allow_zero_runtime=False, closed_loop=False, conditionals=True):
    pools, names = gen_cluster(rng)
    caps = capacity(pools)
    ids = unit_ids(pools)
    runtimes = RUNTIMES if not allow_zero_runtime else [0] + RUNTIMES
    graphs = []
    profiles = []
    shapes = [s for s in SHAPES if conditionals or not s.startswith("cond")]
    for g in range(rng.randint(1, 3)):
        shape = rng.choice(shapes)
        nodes = []
        for (n, children, attrs) in gen_shape(rng, shape):
            pname = "prof_G%d_%s" % (g, n)
            profiles.append(gen_profile(rng, pname, names, caps, runtimes, force_fit=rng.random() < 0.9, ids=ids))
            node = {"name": n, "work_profile": pname}
            if children:
                node["children"] = children
            node.update(attrs)
            nodes.append(node)
        r = rng.random()
        graph = {"name": "G%d" % g, "graph": nodes}
        if closed_loop and (g == 0 or rng.random() < 0.5):
            graph.update({"release_policy": "closed_loop", "concurrency": rng.randint(1, 2), "invocations": rng.randint(1, 4)})
        elif r < 0.6:
            graph.update({"release_policy": "fixed", "period": rng.choice([0, 1, 5, 10, 50]), "invocations": rng.randint(1, 3)})
        elif r < 0.8:
            graph.update({"release_policy": "periodic", "period": rng.choice([5, 10, 50])})
        elif r < 0.9:
            graph.update({"release_policy": "poisson", "rate": rng.choice([0.05, 0.2, 1.0]), "invocations": rng.randint(1, 3)})
        else:
            graph.update({"release_policy": "gamma", "rate": rng.choice([0.05, 0.2]), "coefficient": rng.choice([1.0, 2.0]),
                          "invocations": rng.randint(1, 3)})
        if rng.random() < 0.5:
            graph["start"] = rng.choice([0, 1, 5, 20])
        lo = rng.choice([0, 10, 100, 400])
        graph["deadline_variance"] = [lo, lo + rng.choice([0, 50, 300])]
        graphs.append(graph)
    policy = policy or rng.choice(["EDF", "FIFO", "LSF", "EDF", "FIFO"])
    flags = {
        "scheduler": policy,
        "scheduler_runtime": 0,
        "random_seed": rng.randint(0, 10 ** 6),
        "scheduler_frequency": rng.choice([-1, -1, 0, 1, 7]),
        "scheduler_delay": rng.choice([0, 0, 1, 3]),
        "runtime_variance": rng.choice([0, 0, 10, 50]),
        "loop_timeout": rng.choice([10 ** 6, 10 ** 6, 200, 60]),
        "scheduler_run_at_worker_free": rng.random() < 0.2,
        "drop_skipped_tasks": rng.random() < 0.25,
        "resolve_conditionals_at_submission": rng.random() < 0.3,
        "decompose_deadlines": rng.random() < 0.15,      # per-task deadlines that differ from the graph's deadline
    }
    if any(g.get("release_policy") == "periodic" for g in graphs):
        flags["loop_timeout"] = rng.choice([100, 60, 120])      # periodic releases run until the horizon
        for g in graphs:
            if g.get("release_policy") == "periodic" and g["period"] < 10:
                g["period"] = rng.choice([10, 25, 50])
    if policy == "EDF":
        flags["enforce_deadlines"] = rng.random() < 0.4
    if closed_loop:
        # replicas of one description share nothing but the description (workload_loader.py --replication_factor)
        flags["replication_factor"] = rng.choice([1, 2, 3])
        # invocations that are DROPPED (not finished) also unlock their successors
        if rng.random() < 0.5:
            flags["drop_skipped_tasks"] = True
        # a bound on the deadline slack that binds: every invocation, also the ones created while the run goes on, obeys it
        if rng.random() < 0.5:
            flags["min_deadline"] = rng.choice([300, 1000])
    return {"workload": {"graphs": graphs, "profiles": profiles}, "workers": pools, "flags": flags,
            "policy": policy}


def gen_branch_world(rng):
    """a feasible world under a work-conserving policy (EDF / FIFO / LSF, nothing cancels, generous timeout) in which at least
    one job graph is a conditional WITHOUT a join (every branch ends in its own sink) or with a side output inside a branch.
    Such graphs match the input signature of known finding F42 when a policy plans ahead; under policies that place ready
    tasks `now` nothing is ever placed early, so the liveness clause of C05 can be judged on them."""
    w = gen_world(rng, policy=rng.choice(["EDF", "FIFO", "LSF"]), conditionals=False)
    g0 = w["workload"]["graphs"][0]
    pools = w["workers"]
    names = sorted({r["name"].partition(":")[0] for p in pools for wk in p["workers"] for r in wk["resources"]})
    caps = capacity(pools)
    nodes = []
    for (n, children, attrs) in gen_shape(rng, rng.choice(["cond_fork", "cond_fork", "cond_root_fork", "cond_sink"])):
        pname = "prof_B_%s" % n
        w["workload"]["profiles"].append(gen_profile(rng, pname, names, caps, RUNTIMES, force_fit=True))
        node = {"name": n, "work_profile": pname}
        if children:
            node["children"] = children
        node.update(attrs)
        nodes.append(node)
    g0["graph"] = nodes
    if g0.get("release_policy") == "periodic":
        g0.update({"release_policy": "fixed", "period": 10, "invocations": 2})
    f = w["flags"]
    f.update({"loop_timeout": 10 ** 6, "drop_skipped_tasks": False, "enforce_deadlines": False,
              "resolve_conditionals_at_submission": rng.random() < 0.3})
    for g in w["workload"]["graphs"]:
        if g.get("release_policy") == "periodic":
            g.update({"release_policy": "fixed", "period": g.get("period", 10), "invocations": 2})
    return w


def gen_retract_world(rng):
    """many small graphs released at staggered instants on one roomy cluster, driven by the fuzzing policy in its RETRACTING
    mode with frequent invocations: queued placement events of several earlier invocations are withdrawn (EventQueue.remove_event)
    and re-issued while other events are pending - the queue-maintenance paths a single invocation never reaches"""
    w = gen_world(rng, policy="EDF", conditionals=False)
    g0 = w["workload"]["graphs"][0]
    prof0 = g0["graph"][0]["work_profile"]
    graphs = []
    for k in range(rng.randint(8, 18)):
        graphs.append({"name": "R%d" % k, "graph": [{"name": "T", "work_profile": prof0}], "release_policy": "fixed",
                       "period": rng.choice([3, 5, 10]), "invocations": rng.randint(1, 2), "start": rng.choice([0, 0, 1, 2, 5, 8, 13, 20]),
                       "deadline_variance": [400, 400]})
    w["workload"]["graphs"] = graphs
    used = {prof0}
    w["workload"]["profiles"] = [p_ for p_ in w["workload"]["profiles"] if p_["name"] in used]
    for p_ in w["workload"]["profiles"]:
        p_["execution_strategies"] = p_["execution_strategies"][:1]
    f = w["flags"]
    f.update({"runtime_variance": 0, "scheduler_run_at_worker_free": False, "drop_skipped_tasks": False, "enforce_deadlines": False,
              "scheduler_frequency": rng.choice([1, 2, 3, 7]), "scheduler_delay": 0, "loop_timeout": rng.choice([300, 600]),
              "resolve_conditionals_at_submission": False, "decompose_deadlines": False})
    f.pop("replication_factor", None)
    w["fuzz"] = {"seed": rng.randint(0, 10 ** 6), "lookahead": 0, "retract": True, "release_taskgraphs": False,
                 "p_cancel": rng.choice([0.0, 0.03]), "p_unplaced": rng.choice([0.3, 0.5]), "p_future": 0.9, "p_keep": 0.0,
                 "p_worker": 0.0, "coarse_units": False, "future_choices": [5, 10, 25, 40, 60, 90]}
    w["policy"] = "FUZZ"
    return w


def gen_fuzz_world(rng):
    """a world driven by the harness's adversarial (but contract-respecting) scheduler"""
    w = gen_world(rng, policy="EDF", conditionals=rng.random() < 0.5, closed_loop=rng.random() < 0.1)
    f = w["flags"]
    f.update({"runtime_variance": rng.choice([0, 0, 10]), "scheduler_run_at_worker_free": False,
              "drop_skipped_tasks": rng.random() < 0.3, "enforce_deadlines": False})
    w["fuzz"] = {"seed": rng.randint(0, 10 ** 6), "lookahead": rng.choice([0, 5, 50, 200, 200]),
                 "retract": rng.random() < 0.5, "release_taskgraphs": rng.random() < 0.3,
                 "p_cancel": rng.choice([0.0, 0.05, 0.15]), "p_unplaced": rng.choice([0.05, 0.15, 0.4]),
                 "p_future": rng.choice([0.0, 0.4, 0.8])}
    w["fuzz"]["p_keep"] = rng.choice([0.0, 0.5, 0.9]) if w["fuzz"]["retract"] else 0.0
    w["fuzz"]["p_worker"] = rng.choice([0.0, 0.5, 1.0])       # placements that name a worker of the pool
    w["fuzz"]["coarse_units"] = rng.random() < 0.3            # placement times given in ms / s when exact
    f["loop_timeout"] = min(f["loop_timeout"], rng.choice([300, 1000, 3000]))   # refused placements are retried every microsecond
    w["policy"] = "FUZZ"
    w["flags"]["scheduler"] = "EDF"         # unused: the harness substitutes its own policy
    return w


def gen_tight_world(rng):
    """single-task graphs competing for one slot with EXACTLY tight cumulative deadlines under an enforcing TetriSched
    planner: the only plan that meets every deadline runs them back to back (one task starts at the instant the previous
    one ends)"""
    k = rng.randint(2, 3)
    n = rng.choice(["CPU", "GPU"])
    graphs, profiles = [], []
    total = 0
    for i in range(k):
        rt = rng.choice([2, 3, 5, 10])
        total += rt
        profiles.append({"name": "prof_T%d" % i, "execution_strategies": [
            {"batch_size": 1, "runtime": rt, "resource_requirements": {"%s:any" % n: 1}}]})
        graphs.append({"name": "T%d" % i, "graph": [{"name": "A", "work_profile": "prof_T%d" % i}], "release_policy": "fixed",
                       "period": 0, "invocations": 1, "start": 0,
                       # (the variance is a percentage of the critical path: deadline = release + rt + rt * v / 100 = total)
                       "deadline_variance": [100.0 * (total - rt) / rt] * 2})
    policy = rng.choice(["TetriSched_Gurobi", "TetriSched_CPLEX"])
    flags = {"scheduler": policy, "scheduler_runtime": 0, "random_seed": rng.randint(0, 10 ** 6), "scheduler_frequency": -1,
             "scheduler_delay": 0, "runtime_variance": 0, "loop_timeout": 300, "scheduler_run_at_worker_free": False,
             "scheduler_lookahead": 0, "release_taskgraphs": False, "retract_schedules": rng.random() < 0.3,
             "enforce_deadlines": True, "scheduler_time_discretization": 1, "scheduler_plan_ahead": -1}
    return {"workload": {"graphs": graphs, "profiles": profiles},
            "workers": [{"name": "P0", "workers": [{"name": "W0", "resources": [{"name": n, "quantity": 1}]}]}],
            "flags": flags, "policy": policy, "wall_limit": 240}


def gen_direct_world(rng):
    """a workload handed to the simulator as TaskGraphs built directly (Workload.from_task_graphs, the way the task loaders
    do it): the dependency-free tasks of ONE graph carry DIFFERENT release times (successive frames of a pipelined source)"""
    pools, names = gen_cluster(rng)
    caps = capacity(pools)
    profiles, graphs = [], []
    for g in range(rng.randint(1, 2)):
        shape = rng.choice(["two_sources", "join", "two_sources", "wide", "fork", "single"])
        tasks = []
        extra = rng.randint(0, 2)        # further parent-less tasks (frames) released later
        nodes = gen_shape(rng, shape) + [("F%d" % i, [], {}) for i in range(extra)]
        has_parent = {c for (_n, cs, _a) in nodes for c in cs}
        for (n, children, _attrs) in nodes:
            pname = "prof_D%d_%s" % (g, n)
            prof = gen_profile(rng, pname, names, caps, RUNTIMES, force_fit=True)
            prof["execution_strategies"] = [st for st in prof["execution_strategies"]
                                            if all(":any" in k for k in st["resource_requirements"])][:1] or \
                [{"batch_size": 1, "runtime": rng.choice(RUNTIMES), "resource_requirements": {"%s:any" % sorted(caps[0])[0]: 1}}]
            profiles.append(prof)
            t = {"name": n, "profile": pname, "children": children, "deadline": rng.choice([400, 1000, 5000, 100000])}
            if n not in has_parent:
                t["release"] = rng.choice([0, 0, 5, 20, 45, 85])
            tasks.append(t)
        graphs.append({"name": "D%d" % g, "tasks": tasks})
    policy = rng.choice(["EDF", "FIFO", "LSF"])
    flags = {"scheduler": policy, "scheduler_runtime": 0, "random_seed": rng.randint(0, 10 ** 6),
             "scheduler_frequency": rng.choice([-1, -1, 1, 7]), "scheduler_delay": rng.choice([0, 0, 1]),
             "runtime_variance": 0, "loop_timeout": rng.choice([10 ** 6, 400]),
             "scheduler_run_at_worker_free": rng.random() < 0.2}
    world = {"workload": {"graphs": [], "profiles": profiles}, "direct": {"graphs": graphs}, "workers": pools, "flags": flags,
             "policy": policy}
    # (choices below come from a generator derived from the state of `rng`, so that the worlds drawn after this one are the
    # ones drawn before these options existed)
    r2 = random.Random(repr(rng.getstate()[1][:4]))
    if r2.random() < 0.45:
        # strategy runtimes that are whole milliseconds, handed to the simulator as EventTime(k, MS) — the way a task loader
        # with coarse profiles does; other strategies of the same world stay in microseconds
        for prof in profiles:
            if r2.random() < 0.6:
                for st in prof["execution_strategies"]:
                    st["runtime"] = r2.choice([1000, 1000, 2000, 3000])
        world["direct"]["coarse_runtimes"] = True
        flags["loop_timeout"] = 10 ** 6
    if r2.random() < 0.5:
        # an adversarial but contract-respecting policy that plans ahead (future start times, retraction, unplaced decisions)
        world["fuzz"] = {"seed": r2.randint(0, 10 ** 6), "lookahead": 0, "retract": r2.random() < 0.4, "p_cancel": 0.0,
                         "p_unplaced": 0.1, "p_future": 0.6, "p_keep": 0.3, "release_taskgraphs": False}
    return world


def gen_clockwork_world(rng):
    """inference-serving worlds for the Clockwork policy: models with loading strategies and several batch sizes"""
    models = []
    for m in range(rng.randint(1, 2)):
        strategies = []
        base = rng.choice([2, 3, 5])
        for b in [1, 2, 4][:rng.randint(1, 3)]:
            strategies.append({"batch_size": b, "runtime": base + b * rng.choice([1, 2]), "resource_requirements": {"GPU:any": 1}})
        models.append({"name": "M%d" % m,
                       "loading_strategies": [{"batch_size": 1, "runtime": rng.choice([2, 4, 6]),
                                               "resource_requirements": {"RAM:any": rng.randint(1, 3)}}],
                       "execution_strategies": strategies})
    graphs = []
    for g in range(rng.randint(1, 2)):
        m = rng.choice(models)
        pol = rng.choice(["fixed", "fixed", "poisson"])
        graph = {"name": "Inf%d" % g, "graph": [{"name": "R", "work_profile": m["name"]}],
                 "deadline_variance": [rng.choice([50, 200, 1000])] * 2}
        if pol == "fixed":
            graph.update({"release_policy": "fixed", "period": rng.choice([0, 1, 3, 10]), "invocations": rng.randint(2, 7)})
        else:
            graph.update({"release_policy": "poisson", "rate": rng.choice([0.2, 1.0]), "invocations": rng.randint(2, 6)})
        graphs.append(graph)
    workers = [{"name": "P0", "workers": [{"name": "W%d" % i, "resources": [{"name": "GPU", "quantity": 1},
                                                                           {"name": "RAM", "quantity": rng.randint(3, 5)}]}
                                          for i in range(rng.randint(1, 2))]}]
    flags = {"scheduler": "Clockwork", "scheduler_runtime": 0, "random_seed": rng.randint(0, 10 ** 6),
             "scheduler_frequency": rng.choice([1, 2, 5]), "scheduler_delay": 0, "runtime_variance": 0,
             "loop_timeout": rng.choice([200, 400]), "scheduler_run_load": rng.random() < 0.8,
             "clockwork_goal": rng.choice(["clockwork", "least_slack"])}
    return {"workload": {"graphs": graphs, "profiles": models}, "workers": workers, "flags": flags, "policy": "Clockwork"}


PLANNERS = ["ILP", "TetriSched_Gurobi", "TetriSched_CPLEX", "Z3"]


def gen_planner_world(rng, policy):
    """a small world driven by one of the optimisation-backed planners (kept tiny: size-limited solver licences)"""
    w = gen_world(rng, policy=policy, conditionals=rng.random() < 0.3)
    # at most 2 graphs, few invocations, short horizons
    gs = w["workload"]["graphs"][:2]
    for g in gs:
        if g.get("release_policy") == "periodic":
            g.update({"release_policy": "fixed", "invocations": 2})
        if "invocations" in g:
            g["invocations"] = min(g["invocations"], 2)
        g["deadline_variance"] = [rng.choice([0, 2, 10, 50, 200, 400])] * 2      # exactly tight to loose
    w["workload"]["graphs"] = gs
    used = {n["work_profile"] for g in gs for n in g["graph"]}
    w["workload"]["profiles"] = [p for p in w["workload"]["profiles"] if p["name"] in used]
    for p in w["workload"]["profiles"]:
        for st in p["execution_strategies"]:
            st["runtime"] = rng.choice([1, 2, 3, 5, 10])
    f = w["flags"]
    f.update({"scheduler_runtime": 0, "runtime_variance": 0, "loop_timeout": rng.choice([1500, 3000]),
              "scheduler_lookahead": rng.choice([0, 0, 5, 50]), "release_taskgraphs": rng.random() < 0.3,
              "retract_schedules": rng.random() < 0.3, "scheduler_run_at_worker_free": False,
              "scheduler_frequency": rng.choice([-1, 1, 7]), "scheduler_delay": rng.choice([0, 1])})
    f.pop("drop_skipped_tasks", None)
    if policy == "ILP":
        f["ilp_goal"] = rng.choice(["max_goodput", "max_slack"])
        f["enforce_deadlines"] = True if f["ilp_goal"] == "max_goodput" else rng.random() < 0.5
    elif policy == "Z3":
        f["ilp_goal"] = "max_slack"
        f["enforce_deadlines"] = rng.random() < 0.5
        f["release_taskgraphs"] = False
    else:
        f["enforce_deadlines"] = rng.random() < 0.5
        f["scheduler_time_discretization"] = rng.choice([1, 2, 5])
        f["scheduler_plan_ahead"] = rng.choice([-1, 20])
    w["wall_limit"] = 240
    return w


def signature(world):
    """input signatures of known findings (used to keep them out of the ordinary stream)"""
    sig = set()
    for p in world["workload"]["profiles"]:
        if any(s["runtime"] == 0 for s in p["execution_strategies"]):
            sig.add("zero_runtime")
    if any(g.get("release_policy") == "closed_loop" for g in world["workload"]["graphs"]):
        sig.add("closed_loop")
    # known finding FTG3: a conditional with a DIRECT edge to its own join, in a run where a policy can cancel tasks
    direct = False
    for g in world["workload"]["graphs"]:
        nodes = {n["name"]: n for n in g["graph"]}
        for n in g["graph"]:
            if n.get("conditional") and any(nodes.get(c, {}).get("terminal") for c in n.get("children", [])):
                direct = True
    f = world["flags"]
    fz = world.get("fuzz")
    cancels = bool(f.get("enforce_deadlines")) or bool(f.get("drop_skipped_tasks")) or bool(fz and fz.get("p_cancel", 0) > 0) \
        or (not fz and (f.get("scheduler") in PLANNERS or f.get("scheduler") == "Clockwork"))
    if direct and cancels:
        sig.add("join_direct_edge_cancelling")
    # known finding F42: a conditional branch that contains a sink of the graph (any policy: the join is offered early
    # through the lookahead, or through an overdue estimate as in F36)
    def branch_sink(g):
        nodes = {n["name"]: n for n in g["graph"]}
        for n in g["graph"]:
            if not n.get("conditional"):
                continue
            todo = list(n.get("children", []))
            seen_ = set()
            while todo:
                c = todo.pop()
                if c in seen_ or c not in nodes:
                    continue
                seen_.add(c)
                if nodes[c].get("terminal"):
                    continue
                if not nodes[c].get("children"):
                    return True
                todo += nodes[c].get("children", [])
        return False
    if any(branch_sink(g) for g in world["workload"]["graphs"]):
        sig.add("branch_sink")
    # known finding F41: time values that are not expressed in microseconds reach the CSV rows as raw magnitudes
    if world.get("direct", {}).get("coarse_runtimes") or (fz and fz.get("coarse_units")) or any(t.get("deadline", 1) % 1000 == 0 for g in world.get("direct", {}).get("graphs", [])
                                               for t in g["tasks"]):
        sig.add("non_us_times")
    return sig
