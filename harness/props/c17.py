"""C17 — graph algorithms of workload/graph.py agree with their definitions on every DAG."""
import itertools
import json
import os

import core
from core import gz, glist, gnat

FILES = ["workload/graph.py", "workload/tasks.py", "workload/jobs.py"]
TRUSTED = [
    "coq/Model/Graph.v is a hand-written Gallina transcription of workload/graph.py (dicts as insertion-ordered "
    "association lists, generators as (yielded list, exception code), loops with fuel proved adequate); it is tied to "
    "the source by the S-graph correspondence stream, and its decisive expressions (relaxation test and back-tracking "
    "test of get_longest_path, default weights, branch of are_dependent, default func / source depth / increment of "
    "get_node_depth, the mark dispatch of visit()) are regenerated from the source by translator/frag_graph.py and "
    "bridged to the model in Proofs/GraphPBridge.v; the loop structure of the traversals is checked structurally only",
    "Python's recursion limit (visit() recurses once per node of a path) and set/dict hashing of node objects are "
    "not modelled; `if node:` in breadth_first is modelled for truthy node objects",
    "TaskGraph/JobGraph wrappers (critical_path_runtime, completion_time, get_source_tasks, get_sink_tasks) are tied "
    "by correspondence only; task graphs of one timestamp with distinct task names",
]
HEADER = "From Verif Require Import Model.Graph."


# ------------------------------------------------------------------ generators
def all_dags(n):
    """All labelled DAGs on nodes 0..n-1 as sorted edge lists (built by adding node n-1 to every
    DAG on n-1 nodes with in-edges I and out-edges O such that no O-node reaches an I-node)."""
    if n == 0:
        return [[]]
    if n == 1:
        return [[]]
    out = []
    k = n - 1
    for edges in all_dags(n - 1):
        reach = [[i == j for j in range(k)] for i in range(k)]
        for (u, v) in edges:
            reach[u][v] = True
        for m in range(k):
            for i in range(k):
                if reach[i][m]:
                    for j in range(k):
                        if reach[m][j]:
                            reach[i][j] = True
        for imask in range(1 << k):
            ins = [i for i in range(k) if imask >> i & 1]
            for omask in range(1 << k):
                outs = [o for o in range(k) if omask >> o & 1]
                if any(reach[o][i] for o in outs for i in ins):
                    continue
                out.append(sorted(edges + [(i, k) for i in ins] + [(k, o) for o in outs]))
    return out


def mapping_of(n, edges, rng=None):
    """dict order: keys ascending with ascending children, or a seeded shuffle of both; nodes without
    children are keys too unless the shuffle drops them (then they enter as children only)."""
    ch = {i: [] for i in range(n)}
    for u, v in edges:
        ch[u].append(v)
    keys = list(range(n))
    if rng is not None:
        rng.shuffle(keys)
        for k in keys:
            rng.shuffle(ch[k])
        haspar = {v for _, v in edges}
        keys = [k for k in keys if ch[k] or k not in haspar or rng.random() < 0.5]
    return [[k, ch[k]] for k in keys]


def node_order(m):
    order = []
    for n, cs in m:
        for x in [n] + list(cs):
            if x not in order:
                order.append(x)
    return order


def weights(rng, ns, zero=False):
    style = rng.randrange(5)
    if style == 0:
        return []                                   # all 1: every path ties with the equally long ones
    if style == 4:
        # magnitudes that the adapter expresses in DIFFERENT EventTime units (us / ms / s): 2 ms must outweigh 700 us
        lo = 0 if zero else 1
        return [[n, rng.choice([rng.randint(lo, 999), 1000 * rng.randint(1, 3), 10 ** 6 * rng.randint(1, 2)])]
                for n in ns if rng.random() < 0.85]
    hi = [2, 3, 9, 1000][rng.randrange(4)]
    lo = 0 if zero else 1
    return [[n, rng.randint(lo, hi)] for n in ns if rng.random() < 0.85]


def full_case(m, rng, fuel=400, zero=False):
    ns = node_order(m)
    unk = max(ns + [0]) + 1
    return {"map": m, "w": weights(rng, ns, zero), "nodes": ns + [unk],
            "pairs": [[u, v] for u in ns for v in ns] + ([[ns[0], unk], [unk, ns[0]]] if ns else [[unk, unk]]),
            "fuel": fuel}


def random_dag(rng, n, p):
    perm = list(range(n))
    rng.shuffle(perm)
    edges = [(perm[i], perm[j]) for i in range(n) for j in range(i + 1, n) if rng.random() < p]
    return edges


def sampled_case(m, rng, fuel, zero=False):
    ns = node_order(m)
    qs = rng.sample(ns, min(len(ns), 5))
    pairs = [[rng.choice(ns), rng.choice(ns)] for _ in range(10)] if ns else []
    # bias towards related pairs
    for n, cs in m:
        if cs and rng.random() < 0.3:
            pairs.append([n, rng.choice(cs)])
    unk = max(ns + [0]) + 1
    if ns:
        pairs = pairs[:13] + [[rng.choice(ns), unk] if rng.random() < 0.5 else [unk, rng.choice(ns)]]
    return {"map": m, "w": weights(rng, ns, zero), "nodes": qs + [unk], "pairs": pairs, "fuel": fuel}


def g_case(c):
    return "(mkCase %s %s %s %s %s)" % (
        g_map(c["map"]),
        glist(["(%s, %s)" % (gz(n), gz(x)) for n, x in c["w"]]),
        glist([gz(n) for n in c["nodes"]]),
        glist(["(%s, %s)" % (gz(u), gz(v)) for u, v in c["pairs"]]),
        gnat(c["fuel"]))


def g_map(m):
    return glist(["(%s, %s)" % (gz(n), glist([gz(x) for x in cs])) for n, cs in m])


def g_nodes(l):
    return glist([gz(x) for x in l])


def is_simple(m):
    return all(len(set(cs)) == len(cs) for _, cs in m)


def is_acyclic(m):
    ns = node_order(m)
    ch = {n: [] for n in ns}
    for n, cs in m:
        ch[n] += cs
    state = {}

    def go(x):
        if state.get(x) == 1:
            return False
        if state.get(x) == 2:
            return True
        state[x] = 1
        ok = all(go(c) for c in ch[x])
        state[x] = 2
        return ok
    return all(go(n) for n in ns)


def nontrivial(m):
    ns = node_order(m)
    par = {}
    ne = 0
    for n, cs in m:
        for c in cs:
            par.setdefault(c, set()).add(n)
            ne += 1
    sources = [n for n in ns if n not in par]
    return len(ns) >= 3 and ne >= 2 and (len(sources) >= 2 or any(len(p) >= 2 for p in par.values()))


# ------------------------------------------------------------------ query-after-mutation histories
SORT_USERS = ("topo", "depth", "dep", "long", "longw", "bfsn")


def gen_history(rng, via_tg=False):
    """One live object: build, query, mutate through a public mutator, query again, ...  Every mutation is
    preceded by a query that sorts the graph and followed by queries, so an answer remembered across a
    mutation shows."""
    n = rng.randint(1, 5)
    edges = random_dag(rng, n, rng.choice([0.3, 0.5]))
    m = mapping_of(n, edges, rng)
    live = node_order(m)
    nxt = [max(live + [0]) + 1]
    order = list(live)              # a topological-ish order used to keep most added edges acyclic
    ops = []
    with_remove = (not via_tg) and rng.random() < 0.4

    def fresh():
        nxt[0] += 1
        return nxt[0] - 1

    def query(k=None):
        k = k or rng.choice(["topo", "topo", "depth", "dep", "long", "longw", "bfs", "bfsn", "dfs", "dfsn", "nodes", "sources"])
        pick = (lambda: rng.choice(live)) if live else (lambda: 0)
        if k == "depth":
            return ["depth", pick(), rng.random() < 0.8]
        if k == "dep":
            return ["dep", pick(), pick()]
        if k == "bfs":
            return ["bfs", None]
        if k == "bfsn":
            return ["bfs", pick()]
        if k == "dfs":
            return ["dfs", None]
        if k == "dfsn":
            return ["dfs", pick()]
        return [k]

    for _ in range(rng.randint(2, 4)):
        ops.append(query(rng.choice(SORT_USERS)))
        for _ in range(rng.randint(0, 1)):
            ops.append(query())
        r = rng.random()
        if r < 0.30 and len(live) >= 2:          # add_child between existing nodes (mostly forward)
            i, j = sorted(rng.sample(range(len(order)), 2))
            u, v = (order[i], order[j]) if rng.random() < 0.85 else (order[j], order[i])
            ops.append(["add_child", u, v])
        elif r < 0.60 and live:                  # add_child to a new node
            v = fresh()
            ops.append(["add_child", rng.choice(live), v])
            live.append(v)
            order.append(v)
        elif r < 0.75:                           # add_node: a new node with existing / new children
            u = fresh()
            cs = rng.sample(live, min(len(live), rng.randint(0, 2)))
            if rng.random() < 0.3:
                c = fresh()
                cs.append(c)
                live.append(c)
                order.append(c)
            ops.append(["add_node", u, cs])
            live.append(u)
            order.insert(0, u)
        elif r < 0.85 and live:                  # add_node on an existing node with more children
            u = rng.choice(live)
            later = order[order.index(u) + 1:]
            cs = rng.sample(later, min(len(later), rng.randint(1, 2)))
            ops.append(["add_node", u, cs])
        elif r < 0.90:                           # add_child from a node that is not in the graph (ValueError)
            ops.append(["add_child", fresh() + 50, rng.choice(live) if live else 0])
        elif with_remove and live:
            u = rng.choice(live)
            ops.append(["remove", u])
            live.remove(u)
            order.remove(u)
        else:
            ops.append(["add_child", rng.choice(live), fresh()] if live else ["add_node", fresh(), []])
            if live:
                live.append(ops[-1][2])
                order.append(ops[-1][2])
            else:
                live.append(ops[-1][1])
                order.append(ops[-1][1])
        for _ in range(rng.randint(2, 3)):
            ops.append(query())
        ops.append(query(rng.choice(SORT_USERS)))
    c = {"map": m, "w": weights(rng, live), "ops": ops}
    if via_tg:
        c["via"] = "taskgraph"
    return c


def g_hop(op):
    k = op[0]
    if k == "add_node":
        return "HAddNode %s %s" % (gz(op[1]), g_nodes(op[2]))
    if k == "add_child":
        return "HAddChild %s %s" % (gz(op[1]), gz(op[2]))
    if k == "remove":
        return "HRemove %s" % gz(op[1])
    if k == "depth":
        return "HDepth %s %s" % (gz(op[1]), "true" if op[2] else "false")
    if k == "dep":
        return "HDep %s %s" % (gz(op[1]), gz(op[2]))
    if k in ("bfs", "dfs"):
        return "%s %s" % ("HBfs" if k == "bfs" else "HDfs", "None" if op[1] is None else "(Some %s)" % gz(op[1]))
    return {"nodes": "HNodes", "sources": "HSources", "topo": "HTopo", "long": "HLong", "longw": "HLongW"}[k]


def g_history(c):
    return "(%s, %s, %s)" % (g_map(c["map"]), glist(["(%s, %s)" % (gz(n), gz(x)) for n, x in c["w"]]),
                             glist([g_hop(o) for o in c["ops"]]))


# ------------------------------------------------------------------ findings (corpus/C17)
def load_corpus():
    d = os.path.join(core.ROOT, "corpus", "C17")
    out = []
    for f in sorted(os.listdir(d)) if os.path.isdir(d) else []:
        if f.endswith(".json"):
            out.append(json.load(open(os.path.join(d, f))))
    return out


def replay_corpus(ctx, corpus, obs):
    """Each witness is replayed on the implementation; the KNOWN-FINDING line is printed only if it still fails."""
    still = {}
    for wit, o in zip(corpus, obs):
        fid = wit["id"]
        fails = False
        if o[0] == 0:
            if fid == "C17-bfs-parallel-edge":
                fails = len(set(o[6][0])) != len(o[6][0])
            elif fid == "C17-bfs-from-node":
                fails = any(set(pn[5][0]) - set(pn[6][0]) for pn in o[11])
            elif fid == "C17-zero-weight-note":
                par = {c for _, cs in wit["case"]["map"] for c in cs}
                fails = o[9][0] == 0 and bool(o[9][1]) and o[9][1][0] in par
        still[fid] = fails
        if fails and not fid.endswith("-note"):
            ctx.known(fid, wit["what"])
    ctx.cov.setdefault("input_distribution", {})
    ctx.corpus_status = still


# ------------------------------------------------------------------ the check
def gen_cases(ctx):
    rng = ctx.rng
    quick = ctx.tier == "quick"
    cases = []     # (kind, case)
    exhaustive_n = 4 if quick else 5
    for n in range(0, exhaustive_n + 1):
        for edges in all_dags(n):
            c = full_case(mapping_of(n, edges), rng)
            if n >= 5:      # thorough only: 29281 graphs; a seeded dozen of the 25 pairs and 3 of the 5 nodes each
                c["pairs"] = rng.sample(c["pairs"][:-2], 12) + c["pairs"][-2:]
                c["nodes"] = rng.sample(c["nodes"][:-1], 3) + c["nodes"][-1:]
            cases.append(("exh%d" % n, c))
    # seeded sample of the next size(s), in shuffled dict order
    for n, cnt in ([(5, 150)] if quick else [(6, 1000)]):
        ds = all_dags(n) if n <= 5 else None
        for _ in range(cnt):
            if ds is not None:
                edges = rng.choice(ds)
            else:
                edges = random_dag(rng, n, rng.choice([0.2, 0.4, 0.6, 0.8]))
            cases.append(("samp%d" % n, full_case(mapping_of(n, edges, rng), rng)))
    # thorough: every 6-node DAG shape (all 2^15 edge sets that are forward w.r.t. a fixed order cover every
    # unlabelled 6-node DAG), each in a seeded labelling and dict order
    if not quick:
        pairs6 = [(i, j) for i in range(6) for j in range(i + 1, 6)]
        for mask in range(1 << len(pairs6)):
            perm = list(range(6))
            rng.shuffle(perm)
            edges = [(perm[i], perm[j]) for b, (i, j) in enumerate(pairs6) if mask >> b & 1]
            c = full_case(mapping_of(6, edges, rng), rng)
            c["pairs"] = rng.sample(c["pairs"][:-2], 12) + c["pairs"][-2:]
            c["nodes"] = rng.sample(c["nodes"][:-1], 3) + c["nodes"][-1:]
            cases.append(("shape6", c))
    # shuffled dict orders of small DAGs
    small = all_dags(4)
    for _ in range(60 if quick else 800):
        cases.append(("shuf4", full_case(mapping_of(4, rng.choice(small), rng), rng)))
    # random DAGs up to 40 nodes
    for _ in range(40 if quick else 900):
        n = rng.randint(6, 40)
        p = rng.choice([1.5 / n, 3.0 / n, 0.15, 0.3])
        if n > 25:
            p = min(p, 0.15)
        m = mapping_of(n, random_dag(rng, n, p), rng)
        cases.append(("rand", sampled_case(m, rng, 400)))
    # cyclic graphs: a DAG plus back edges / self loops
    for _ in range(40 if quick else 800):
        n = rng.randint(1, 8)
        edges = random_dag(rng, n, rng.choice([0.3, 0.6]))
        for _ in range(rng.randint(1, 2)):
            if edges and rng.random() < 0.7:
                u, v = rng.choice(edges)
                edges.append((v, u))
            else:
                u = rng.randrange(n)
                edges.append((u, u))
        edges = sorted(set(edges))
        m = mapping_of(n, edges, rng)
        cases.append(("cyclic", sampled_case(m, rng, 400)))
    # parallel edges (the constructor accepts them)
    for _ in range(20 if quick else 300):
        n = rng.randint(2, 5)
        edges = random_dag(rng, n, 0.5)
        edges = edges + [e for e in edges if rng.random() < 0.4]
        m = mapping_of(n, edges, rng)
        cases.append(("multi", sampled_case(m, rng, 4000)))
    # non-negative weights including zeros (probability-0 jobs, zero-runtime tasks)
    for _ in range(25 if quick else 500):
        n = rng.randint(2, 7)
        m = mapping_of(n, random_dag(rng, n, 0.4), rng)
        cases.append(("zero", sampled_case(m, rng, 400, zero=True)))
    return cases


def monitor_items(kind, c, o):
    """Gallina `sobs` terms for the implementation's outputs of one case: (tag, term)."""
    items = []
    if o[0] != 0:
        return items
    topo = o[5]
    if topo[0] == 0:
        items.append(("topo", "STopo %s" % g_nodes(topo[1])))
    else:
        items.append(("topo-error", "STopoErr %s" % gz(topo[1])))
    acyc = is_acyclic(c["map"])
    simple = is_simple(c["map"])
    if acyc and simple:
        items.append(("bfs", "SBfs %s %s" % (g_nodes(o[6][0]), gz(o[6][1]))))
    positive = all(x > 0 for _, x in c["w"])
    small = len(node_order(c["map"])) <= 9
    if acyc and positive and o[9][0] == 0:
        items.append(("longest", "SLong %s %s" % (g_nodes(o[9][1]), "true" if small else "false")))
        if o[10][0] == 0:
            items.append(("critical", "SCrit %s" % gz(o[10][1])))
    if acyc and o[8][0] == 0:
        items.append(("longest-default", "SLongDefault %s %s" % (g_nodes(o[8][1]), "true" if small else "false")))
    known = set(node_order(c["map"]))
    for n, pn in zip(c["nodes"], o[11]):
        if n in known:
            items.append(("dfs", "SDfs %s %s %s" % (gz(n), g_nodes(pn[5][0]), gz(pn[5][1]))))
            if acyc and pn[3][0] == 0:
                items.append(("depth", "SDepth %s %s" % (gz(n), gz(pn[3][1]))))
    for (u, v), r in zip(c["pairs"], o[12]):
        if acyc and u in known and v in known:
            items.append(("dependent", "SDep %s %s %s %s" % (gz(u), gz(v), gz(r[0]), gz(r[1]))))
    return items


def g_mon_case(c, items):
    w = glist(["(%s, %s)" % (gz(n), gz(x)) for n, x in c["w"]])
    return "(%s, %s, %s)" % (g_map(c["map"]), w, glist([t for _, t in items]))


def run(ctx):
    ctx.fingerprint(FILES)
    ctx.translate(["Graph"])      # Gen/Src_Graph.v: the decisive expressions of graph.py (bridge: Proofs/GraphPBridge.v)
    built = ctx.build("C17", deps=["Model/Graph.v"])
    cases = gen_cases(ctx)
    if getattr(ctx, "replay_file", None):
        try:
            rp = json.load(open(ctx.replay_file))
            if "case" in rp and isinstance(rp["case"], dict) and "map" in rp["case"]:
                cases.insert(0, ("replay", rp["case"]))
        except (OSError, ValueError):
            pass
    payload = {"cases": [c for _, c in cases]}
    corpus = load_corpus()
    payload["cases"] += [w["case"] for w in corpus]
    # the wrappers: positive weights, acyclic, simple graphs only (Task/Job objects)
    wr = [c for k, c in cases if k in ("exh3", "exh4", "samp5", "samp6", "shape6", "rand", "shuf4")]
    wr = wr[:: max(1, len(wr) // (100 if ctx.tier == "quick" else 1500))]
    payload["wrappers"] = wr
    # Graph.remove (dead code in the simulator: only TaskGraph.clean calls it): correspondence only
    rm = []
    small3 = all_dags(3) + all_dags(4)[:: (7 if ctx.tier == "quick" else 1)]
    for edges in small3:
        n = 1 + max([max(e) for e in edges] + [0])
        m = mapping_of(max(n, 1), edges, ctx.rng)
        for k in node_order(m):
            rm.append({"map": m, "remove": k})
    rm = rm[:: max(1, len(rm) // (100 if ctx.tier == "quick" else 2500))]
    payload["remove"] = rm
    # JobGraph with probability-0 jobs (weight 0 in the path search) and slo's
    jgs = []
    for _ in range(60 if ctx.tier == "quick" else 1200):
        n = ctx.rng.randint(1, 7)
        m = mapping_of(n, random_dag(ctx.rng, n, ctx.rng.choice([0.3, 0.5])), ctx.rng)
        ns = node_order(m)
        jgs.append({"map": m, "w": [[k, ctx.rng.randint(1, 4)] for k in ns if ctx.rng.random() < 0.8],
                    "p0": [k for k in ns if ctx.rng.random() < 0.3],
                    "slo": [[k, ctx.rng.randint(1, 9)] for k in ns if ctx.rng.random() < 0.3]})
    payload["jobgraphs"] = jgs
    # query-after-mutation histories on one live Graph / TaskGraph object
    hists = [gen_history(ctx.rng) for _ in range(220 if ctx.tier == "quick" else 5000)]
    hists += [gen_history(ctx.rng, via_tg=True) for _ in range(60 if ctx.tier == "quick" else 1000)]
    payload["histories"] = hists
    impl = core.run_impl("graph.py", payload, timeout=1500)
    obs = impl["obs"][:len(cases)]
    replay_corpus(ctx, corpus, impl["obs"][len(cases):])

    ctx.rules.append(
        "S-graph: every labelled DAG on <= %d nodes (exhaustive, ascending dict order) + seeded samples of the next size in "
        "shuffled dict/children order (thorough: every unlabelled 6-node DAG shape in a seeded labelling), random DAGs on 6..40 nodes, cyclic graphs (back edges, self loops), graphs with "
        "parallel edges, zero weights; weights 1 (all ties) or random in 1..{2,3,9,1000}; every public routine of Graph "
        "observed for every node / node pair (a seeded sample of them on graphs of >= 5 nodes) incl. a node outside the graph; "
        "distinct = distinct (mapping, weights); non-trivial = >= 3 nodes, >= 2 edges and (>= 2 sources or a node "
        "with >= 2 parents)" % (4 if ctx.tier == "quick" else 5))
    seen = set()
    nt = 0
    kinds = {}
    for k, c in cases:
        kinds[k] = kinds.get(k, 0) + 1
        key = repr((c["map"], c["w"]))
        if key in seen:
            continue
        seen.add(key)
        if nontrivial(c["map"]):
            nt += 1
    ctx.cov["distinct_nontrivial"] += nt
    ctx.cov["input_distribution"] = {"corpus_witness_still_fails": getattr(ctx, "corpus_status", {}), "cases_by_kind": kinds,
                                     "cyclic_reported": sum(1 for o in obs if o[0] == 0 and o[5][0] == 1)}
    ctx.sample({"stream": "S-graph", "case": cases[len(cases) // 2][1]["map"], "impl_topological_sort": obs[len(cases) // 2][5]})

    # ---------------- correspondence
    try:
        mcases = [(g_case(c), o, c) for (_, c), o in zip(cases, obs)]
        mism = ctx.model_stream("S-graph", HEADER, "gcase", "g_observe", mcases, shard=200)
        for idx, mv in mism[:3]:
            ctx.violation("graph%d" % idx, {"stream": "S-graph", "kind": cases[idx][0], "case": cases[idx][1],
                                            "implementation": obs[idx], "model": mv,
                                            "layout": "[0, nodes, edges, sources, sinks, topological_sort, breadth_first, "
                                                      "depth_first, longest_path(default), longest_path(w), critical path, "
                                                      "per node [children, parents, is_source, depth(max), depth(min), "
                                                      "depth_first(n), breadth_first(n)], are_dependent per pair]",
                                            "what": "a routine of workload/graph.py disagrees with the model the theorems are about"})
    except core.ModelEvalError as e:
        ctx.broken.append({"kind": "correspondence", "name": "S-graph", "detail": str(e)[-600:]})

    try:
        rcases = [("(%s, %s)" % (g_map(c["map"]), gz(c["remove"])), o, c) for c, o in zip(rm, impl["remove"])]
        mism = ctx.model_stream("S-graph-remove", HEADER, "adj * node", "g_observe_remove", rcases, shard=400)
        for idx, mv in mism[:2]:
            ctx.violation("remove%d" % idx, {"stream": "S-graph-remove", "case": rm[idx], "implementation": impl["remove"][idx],
                                             "model": mv, "what": "Graph.remove followed by the traversals disagrees with the model"})
    except core.ModelEvalError as e:
        ctx.broken.append({"kind": "correspondence", "name": "S-graph-remove", "detail": str(e)[-600:]})

    try:
        jcases = []
        for c, r in zip(jgs, impl["jobgraphs"]):
            if "job_error" in r:
                ctx.violation("jobgraph_error", {"stream": "S-graph-jobgraph", "case": c, "implementation": r})
                break
            jcases.append(("(%s, %s, %s, %s)" % (g_map(c["map"]), glist(["(%s, %s)" % (gz(k), gz(x)) for k, x in c["w"]]),
                                                 g_nodes(c["p0"]), glist(["(%s, %s)" % (gz(k), gz(x)) for k, x in c["slo"]])),
                           [r["job_cp"], r["job_ct"], r["job_path"]], c))
        mism = ctx.model_stream("S-graph-jobgraph", HEADER, "adj * list (node * Z) * list node * list (node * Z)",
                                "g_observe_jobgraph", jcases, shard=400)
        for idx, mv in mism[:2]:
            ctx.violation("jobgraph%d" % idx, {"stream": "S-graph-jobgraph", "case": jcases[idx][2], "implementation": jcases[idx][1],
                                               "model": mv, "layout": "[critical_path_runtime, completion_time, longest path]",
                                               "what": "JobGraph critical path with probability-0 jobs / slo's disagrees with the model"})
    except core.ModelEvalError as e:
        ctx.broken.append({"kind": "correspondence", "name": "S-graph-jobgraph", "detail": str(e)[-600:]})

    ctx.rules.append(
        "S-graph-history: ONE live Graph (or TaskGraph of Task objects) per history: built from a mapping, then 2-4 rounds of "
        "[a query that sorts the graph (topological_sort / get_node_depth / are_dependent / get_longest_path / breadth_first(n)), "
        "a public mutator (add_child between existing nodes, add_child to a new node, add_node / add_task with existing and new "
        "children, add_node on an existing node, add_child from an unknown node, remove), 3-4 queries]; every answer (and every "
        "mutator's exception) is compared with the model applied to the graph as it is at that moment; "
        "distinct = distinct history; non-trivial = a successful mutation that changes the adjacency between two sorting queries")
    try:
        hcases = [(g_history(c), r, c) for c, r in zip(hists, impl["histories"])]
        mism = ctx.model_stream("S-graph-history", HEADER, "adj * list (node * Z) * list hop", "g_observe_history", hcases, shard=150)
        for idx, mv in mism[:3]:
            c, r = hists[idx], impl["histories"][idx]
            first = None
            if isinstance(mv, list) and isinstance(r, list):
                first = next((i for i, (a, b) in enumerate(zip(core.norm_val(mv), core.norm_val(r))) if a != b), None)
            ctx.violation("history%d" % idx,
                          {"stream": "S-graph-history", "history": c, "implementation": r, "model": mv,
                           "first_differing_step": None if first is None else {"index": first, "op": c["ops"][first],
                                                                              "implementation": r[first], "model": mv[first]},
                           "what": "an answer of a live %s object after a mutation differs from the routine applied to its "
                                   "current adjacency" % ("TaskGraph" if c.get("via") else "Graph")})
        seenh = set()
        nth = 0
        for c in hists:
            k = repr(c)
            if k in seenh:
                continue
            seenh.add(k)
            muts = [i for i, o in enumerate(c["ops"]) if o[0] in ("add_node", "add_child", "remove")]
            if any(any(q[0] in ("topo", "depth", "dep", "long", "longw") for q in c["ops"][:i])
                   and any(q[0] in ("topo", "depth", "dep", "long", "longw") for q in c["ops"][i + 1:]) for i in muts):
                nth += 1
        ctx.cov["distinct_nontrivial"] += nth
        ctx.cov["input_distribution"]["histories"] = {"graph": sum(1 for c in hists if not c.get("via")),
                                                      "taskgraph": sum(1 for c in hists if c.get("via")),
                                                      "with_remove": sum(1 for c in hists if any(o[0] == "remove" for o in c["ops"]))}
    except core.ModelEvalError as e:
        ctx.broken.append({"kind": "correspondence", "name": "S-graph-history", "detail": str(e)[-600:]})

    # ---------------- wrappers (compared with the model's values computed above by the implementation-independent monitor
    # and with the Graph routines they wrap)
    try:
        wcases = []
        for c, r in zip(wr, impl["wrappers"]):
            if "job_error" in r or "task_error" in r:
                ctx.violation("wrapper_error", {"stream": "S-graph wrappers", "case": c, "implementation": r})
                break
            exp = [r["job_cp"], r["job_ct"], r["task_cp"], r["job_bfs"], r["job_sources"], r["task_sources"], r["task_sinks"],
                   r["task_topo"], r["task_dfs"]]
            wcases.append(("(%s, %s)" % (g_map(c["map"]), glist(["(%s, %s)" % (gz(n), gz(x)) for n, x in c["w"]])), exp, c))
        mism = ctx.model_stream("S-graph-wrappers", HEADER, "adj * list (node * Z)", "g_observe_wrappers", wcases, shard=200)
        for idx, mv in mism[:3]:
            ctx.violation("wrapper%d" % idx, {"stream": "S-graph wrappers", "case": wcases[idx][2], "implementation": wcases[idx][1],
                                              "model": mv,
                                              "layout": "[JobGraph.critical_path_runtime, JobGraph.completion_time, "
                                                        "TaskGraph.critical_path_runtime, JobGraph.breadth_first, JobGraph.get_sources, "
                                                        "get_source_tasks, get_sink_tasks, TaskGraph.topological_sort, TaskGraph.depth_first]",
                                              "what": "a TaskGraph/JobGraph wrapper disagrees with the model"})
    except core.ModelEvalError as e:
        ctx.broken.append({"kind": "correspondence", "name": "S-graph-wrappers", "detail": str(e)[-600:]})

    # ---------------- monitors on the implementation's own outputs: one term per case (all its
    # observations), then the failing cases once more item by item to name the violated definition
    per_case = [monitor_items(k, c, o) for (k, c), o in zip(cases, obs)]
    idxs = [i for i, it in enumerate(per_case) if it]
    try:
        bad = ctx.monitor_stream("S-graph", HEADER, "adj * list (node * Z) * list sobs", "mon_case",
                                 [g_mon_case(cases[i][1], per_case[i]) for i in idxs], shard=150)
        n_items = sum(len(per_case[i]) for i in idxs)
        ctx.cov["input_distribution"]["monitor_observations"] = n_items
        shown = set()
        for b in bad[:40]:
            i = idxs[b]
            c = cases[i][1]
            single = [g_mon_case(c, [it]) for it in per_case[i]]
            bad1 = ctx.monitor_stream("S-graph-locate", HEADER, "adj * list (node * Z) * list sobs", "mon_case", single)
            for j in bad1:
                tag, term = per_case[i][j]
                if tag in shown:
                    continue
                shown.add(tag)
                ctx.violation("mon_%s_%d" % (tag.replace("-", "_"), i),
                              {"stream": "S-graph monitor", "monitor": tag, "kind": cases[i][0], "case": c,
                               "implementation": obs[i], "observation": term,
                               "what": "the implementation's output violates the definition (%s)" % tag})
        if bad and not shown:
            ctx.violation("mon_case_%d" % idxs[bad[0]], {"stream": "S-graph monitor", "case": cases[idxs[bad[0]]][1],
                                                         "implementation": obs[idxs[bad[0]]],
                                                         "what": "the implementation's outputs violate a definition"})
    except core.ModelEvalError as e:
        ctx.broken.append({"kind": "monitor", "name": "S-graph", "detail": str(e)[-600:]})
