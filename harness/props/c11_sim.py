"""C11, whole-simulation part: precedence of the plans returned by the planners during generated simulations."""
import simcheck
import simmon

TRUSTED = simcheck.TRUSTED_SIM


def run(ctx):
    simcheck.run_sim_property(ctx, [], simmon.mon_c11,
                              "a planner placed a task before a co-decided or running predecessor ends, or placed it although a "
                              "co-decided predecessor was left unplaced", machine=False)
