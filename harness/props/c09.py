"""C09 — runs are reproducible from the random seed (PARTIAL, see tools/claims/C09.json).

Proof side (Props/C09.v over Gen/Src_Repro.v, regenerated from /repo by translator/frag_repro.py): non-interference of
the hidden inputs (OS entropy, set-iteration order, wall clock) with the random tape and with the utilisation rows.
Correspondence side (this file):
  S-repro  every generated world runs as fresh `python main.py` processes under different PYTHONHASHSEEDs, working
           directories and log directories; the CSV traces must be identical after masking the measured wall-clock
           field of SCHEDULER_FINISHED rows and the run directory inside input_flag rows (-> concrete failing world)
  S-tape   one more fresh process per world through harness/impl/repro.py, which records where every random-looking
           value came from; the observed stream/position of every draw is compared INSIDE COQ with the model's
           `plan_of` on the generated program (observe_plan), and the ids are checked by the monitor ids_from_draws
"""
import json
import os
import shutil
import subprocess
import sys
import tempfile
from concurrent.futures import ThreadPoolExecutor

import core
import simgen
import yaml
from core import gz, glist

sys.path.insert(0, os.path.join(core.ROOT, "translator"))

TRUSTED = [
    "translator/frag_repro.py: the anchor-site extraction and the syntactic audit (what counts as a set expression is "
    "syntactic: literals, set()/frozenset(), names/attributes assigned from or annotated as sets, set operators, "
    "functions annotated `-> Set[..]`); the class of every allow-listed occurrence is a reviewer's one-line "
    "justification, not a proved fact",
    "CPython: random.Random / numpy Generator streams are functions of (seed, number of previous calls, arguments) — "
    "modelled as the oracle `prng : Z -> nat -> Z`; integer (uuid) hashing is unsalted, so sets of objects hashed by a "
    "seeded uuid iterate in an order that is a function of the tape (class C_iter_idhash)",
    "that the trace is a function of the tape (the simulator is a deterministic `controller`) is NOT proved: it is "
    "checked by the two-process differential S-repro on generated worlds",
    "not modelled: hash randomisation or threads inside third-party libraries (solvers), floating-point or library "
    "version differences between machines, policies other than EDF/FIFO/LSF, a measured (not fixed) --scheduler_runtime",
]
EXPLANATION = ("PARTIAL: Coq non-interference theorems over a model generated from the source sites + two-process "
               "differential of whole runs; see tools/claims/C09.json")
HEADER = "From Verif Require Import Model.Repro Gen.Src_Repro."
JOBS = int(os.environ.get("VERIF_C09_JOBS", "12"))
WALL = 300


# ------------------------------------------------------------------------------------------------- worlds
def gen_worlds(rng, n):
    out = []
    tries = 0
    while len(out) < n and tries < 20 * n:
        tries += 1
        w = simgen.gen_world(rng, policy=rng.choice(["EDF", "FIFO", "LSF"]))
        if simgen.signature(w):          # zero-runtime strategies (known livelock), closed loops (known reader finding)
            continue
        f = w["flags"]
        f["scheduler_runtime"] = 0
        f["runtime_variance"] = rng.choice([0, 10, 10, 50])
        if rng.random() < 0.45:          # make sure the per-policy numpy generators are exercised
            g = rng.choice(w["workload"]["graphs"])
            for k in ("period", "rate", "coefficient", "invocations"):
                g.pop(k, None)
            if rng.random() < 0.5:
                g.update({"release_policy": "poisson", "rate": rng.choice([0.05, 0.2, 1.0]), "invocations": rng.randint(2, 4)})
            else:
                g.update({"release_policy": "gamma", "rate": rng.choice([0.05, 0.2]), "coefficient": rng.choice([1.0, 2.0]),
                          "invocations": rng.randint(2, 4)})
        if rng.random() < 0.3:
            f["scheduler_policy"] = rng.choice(["best", "worst", "random", "max"])
        if rng.random() < 0.15:
            f["random_seed"] = rng.choice([0, 0, 1, 2 ** 31 - 1, 2 ** 32 - 1])      # boundary seeds (0 is a legal seed)
        # some worlds with replicas of one description (--replication_factor): replicas share the description only
        if rng.random() < 0.2:
            f["replication_factor"] = rng.choice([2, 3])
        out.append(w)
    return out


def features(w):
    gs = w["workload"]["graphs"]
    names = set()
    for p in w["workers"]:
        for wk in p["workers"]:
            for r in wk["resources"]:
                names.add(r["name"].split(":")[0])
    return {
        "deadline_variance": any(g["deadline_variance"][1] > 0 for g in gs),
        "poisson_or_gamma": any(g.get("release_policy") in ("poisson", "gamma") for g in gs),
        "conditional": any(n.get("conditional") for g in gs for n in g["graph"]),
        "runtime_variance": w["flags"]["runtime_variance"] > 0,
        "several_resource_names": len(names) >= 2,
    }


def string_sets(w):
    """the sets of strings whose iteration order could matter: resource names, graph names, task names"""
    names = sorted({r["name"].split(":")[0] for p in w["workers"] for wk in p["workers"] for r in wk["resources"]})
    graphs = sorted({g["name"] for g in w["workload"]["graphs"]})
    tasks = sorted({n["name"] for g in w["workload"]["graphs"] for n in g["graph"]})
    return [names, graphs, tasks]


def set_orders(hashseed, sets):
    env = dict(os.environ, PYTHONHASHSEED=str(hashseed))
    p = subprocess.run([core.PY, "-c", "import json,sys; print(json.dumps([[list(set(s)) for s in w] for w in json.load(sys.stdin)]))"],
                       input=json.dumps(sets), capture_output=True, text=True, env=env, timeout=120)
    return json.loads(p.stdout)


# ------------------------------------------------------------------------------------------------- processes
def argv_of(world, wl, wk, rundir):
    argv = ["--execution_mode=yaml", "--workload_profile_path=" + wl, "--worker_profile_path=" + wk, "--log_level=info",
            "--log_dir=" + rundir, "--csv_file_name=out.csv", "--log_file_name=log.txt"]
    for k, v in world["flags"].items():
        argv.append(("--%s%s" % ("" if v else "no", k)) if isinstance(v, bool) else "--%s=%s" % (k, v))
    return argv


def canon_rows(lines, rundir):
    rows = []
    for line in lines:
        f = line.rstrip("\n").split(",")
        if f[0] == "input_flag":
            f = [x.replace(rundir, "<rundir>") for x in f]
        if len(f) > 5 and f[1] == "SCHEDULER_FINISHED":
            f[5] = "<wall>"
        rows.append(",".join(f))
    return rows


def last_error(stderr):
    ls = [l for l in stderr.strip().split("\n") if l.strip()]
    for l in reversed(ls):
        if l and not l.startswith(" ") and ":" in l and "Traceback" not in l:
            return l.split(":")[0][:80]      # exception type only
    return ls[-1][:80] if ls else ""


def run_plain(world, wl, wk, rundir, hashseed):
    os.makedirs(rundir, exist_ok=True)
    env = dict(os.environ, PYTHONHASHSEED=str(hashseed), PYTHONPATH=core.REPO)
    argv = [core.PY, os.path.join(core.REPO, "main.py")] + argv_of(world, wl, wk, rundir)
    try:
        p = subprocess.run(argv, cwd=rundir, env=env, capture_output=True, text=True, timeout=WALL)
    except subprocess.TimeoutExpired:
        return {"status": "timeout"}
    rows = []
    csvp = os.path.join(rundir, "out.csv")
    if os.path.exists(csvp):
        with open(csvp) as f:
            rows = canon_rows(f.readlines(), rundir)
    return {"status": "ok" if p.returncode == 0 else "failed", "rc": p.returncode, "rows": rows,
            "error": last_error(p.stderr) if p.returncode else None}


def run_traced(world, wl, wk, rundir, hashseed):
    os.makedirs(rundir, exist_ok=True)
    env = dict(os.environ, PYTHONHASHSEED=str(hashseed), ERDOS_SIM_VERIF="1",
               PYTHONPATH=core.REPO + os.pathsep + os.path.join(core.ROOT, "harness") + os.pathsep + os.path.join(core.ROOT, "harness", "impl"))
    payload = {"argv": argv_of(world, wl, wk, rundir), "csv": os.path.join(rundir, "out.csv")}
    try:
        p = subprocess.run([core.PY, os.path.join(core.ROOT, "harness", "impl", "repro.py")], input=json.dumps(payload),
                           cwd=rundir, env=env, capture_output=True, text=True, timeout=WALL)
    except subprocess.TimeoutExpired:
        return {"status": "timeout"}
    if p.returncode != 0:
        return {"status": "adapter-error", "error": p.stderr[-1500:]}
    r = json.loads(p.stdout)
    r["status"] = "ok" if r["rc"] == 0 else "failed"
    r["rows"] = canon_rows(r["rows"], rundir)
    if r["rc"]:
        r["error"] = (r.get("error") or "").split(":")[0][:80]
    return r


def run_all(worlds, seeds, base):
    """seeds[i] = (hashseed A, hashseed B, hashseed C); returns per world {'a','b','t'}"""
    jobs = []
    for i, w in enumerate(worlds):
        wd = os.path.join(base, "w%03d" % i)
        os.makedirs(wd, exist_ok=True)
        wl, wk = os.path.join(wd, "workload.yaml"), os.path.join(wd, "workers.yaml")
        with open(wl, "w") as f:
            yaml.safe_dump(w["workload"], f)
        with open(wk, "w") as f:
            yaml.safe_dump(w["workers"], f)
        jobs.append((i, "a", run_plain, (w, wl, wk, os.path.join(wd, "run_a"), seeds[i][0])))
        jobs.append((i, "b", run_plain, (w, wl, wk, os.path.join(wd, "other", "place_b"), seeds[i][1])))
        jobs.append((i, "t", run_traced, (w, wl, wk, os.path.join(wd, "traced"), seeds[i][2])))
    out = [{} for _ in worlds]
    with ThreadPoolExecutor(max_workers=JOBS) as ex:
        futs = [(i, tag, ex.submit(fn, *args)) for (i, tag, fn, args) in jobs]
        for i, tag, fu in futs:
            out[i][tag] = fu.result()
    return out


def first_diff(a, b):
    k = next((j for j, (x, y) in enumerate(zip(a, b)) if x != y), min(len(a), len(b)))
    return {"row_index": k, "rows_a": a[max(0, k - 1):k + 3], "rows_b": b[max(0, k - 1):k + 3], "len_a": len(a), "len_b": len(b)}


# ------------------------------------------------------------------------------------------------- S-tape
class Sites:
    def __init__(self, d):
        self.files = d["files"]
        self.occ = d["occ"]

    def fcode(self, f):
        return self.files.index(f) if f in self.files else 999

    def canon(self, f, line):
        for o in self.occ:
            if o["file"] == f and o["line"] <= line <= o["end"] and o["scope"] and \
                    (o["class"].startswith("C_draw") or o["class"].startswith("C_ctor_fuzz")):
                return o["line"]
        return line

    def cls(self, f, line):
        for o in self.occ:
            if o["file"] == f and o["line"] <= line <= o["end"] and o["kind"] in ("global_random", "entropy", "numpy_global", "rng_method"):
                return o["class"]
        return None


def tape_case(events, sites, flag_seed):
    """-> (gallina input, expected value, problems, id pairs, stats)"""
    problems = []
    imports, reqs, plan = [], [], []
    phase = "import"
    g = {"seed": None, "pos": 0}
    epos = 0
    rinst, ninst = {}, {}
    pol_of_np, pols = {}, []
    fuzz_inst = None
    pending_np = []
    ids = []
    stats = {}
    seed_flag = None

    def cell(st):
        nonlocal epos
        if st["seed"] is None:
            c = [2, 0, epos]
            epos += 1
        else:
            c = [1, st["seed"], st["pos"]]
        st["pos"] += 1
        return c

    def src(st):
        return [2, 0] if st["seed"] is None else [1, st["seed"]]

    for e in events:
        k = e[0]
        if k == "phase":
            phase = "main"
            continue
        if k in ("seed", "new_random", "new_np") and isinstance(e[1], str):
            problems.append({"what": "a generator was seeded with a value that is not a plain integer", "event": e})
            e = list(e)
            e[1] = None
        tgt = imports if phase == "import" else reqs
        if k == "seed":
            if phase == "import":
                problems.append({"what": "random.seed called while importing", "event": e})
            g = {"seed": e[1], "pos": 0}
            seed_flag = e[1]
            stats["seed_calls"] = stats.get("seed_calls", 0) + 1
        elif k == "g":
            stats[k] = stats.get(k, 0) + 1
            if phase == "import":
                if sites.cls(e[2], e[3]) != "C_import_time_unused":
                    problems.append({"what": "a value is drawn from the global generator while importing, at a site that is "
                                             "not allow-listed as unused", "event": e[:4]})
                continue
            reqs.append("(ODraw %d %d 0%%nat)" % (sites.fcode(e[2]), sites.canon(e[2], e[3])))
            plan.append(cell(g))
        elif k == "new_random":
            rinst[e[4]] = {"seed": e[1], "pos": 0}
            tgt.append("(ONewFuzz %d %d)" % (sites.fcode(e[2]), sites.canon(e[2], e[3])))
            if fuzz_inst is None:
                fuzz_inst = e[4]
        elif k == "r":
            stats[k] = stats.get(k, 0) + 1
            tgt.append("(ODraw %d %d 0%%nat)" % (sites.fcode(e[3]), sites.canon(e[3], e[4])))
            plan.append(cell(rinst[e[1]]))
        elif k == "new_np":
            ninst[e[4]] = {"seed": e[1], "pos": 0}
            pending_np.append(e)
        elif k == "policy":
            if e[2] is None or not pending_np or pending_np[-1][4] != e[2]:
                problems.append({"what": "a release policy without exactly one numpy generator of its own", "event": e})
            else:
                pending_np.pop()
                pol_of_np[e[2]] = len(pols)
                pols.append(e[2])
            tgt.append("(ONewPolicy %s)" % gz(e[1]))
            stats["policies"] = stats.get("policies", 0) + 1
        elif k == "n":
            stats[k] = stats.get(k, 0) + 1
            if e[1] not in pol_of_np:
                problems.append({"what": "a numpy generator that does not belong to a release policy is read", "event": e})
                continue
            tgt.append("(ODraw %d %d %d%%nat)" % (sites.fcode(e[3]), sites.canon(e[3], e[4]), pol_of_np[e[1]]))
            plan.append(cell(ninst[e[1]]))
        elif k in ("os", "npg"):
            stats[k] = stats.get(k, 0) + 1
            f, ln = (e[2], e[3])
            tgt.append("(ODraw %d %d 0%%nat)" % (sites.fcode(f), sites.canon(f, ln)))
            plan.append([2, 0, epos])
            epos += 1
        elif k == "obj":
            if e[2] is not None:                      # string ids ("any", explicit unit ids) are inputs, not draws
                ids.append((e[3] if e[3] is not None else -1, e[2], e[1]))
    for e in pending_np:
        problems.append({"what": "numpy.random.default_rng called outside a release policy", "event": e})
    fuzz = [] if fuzz_inst is None else [src(rinst[fuzz_inst])]
    pol_src = [src(ninst[i]) for i in pols]
    expected = [0, plan, fuzz, pol_src]
    if seed_flag is not None and seed_flag != flag_seed:
        problems.append({"what": "the global generator was seeded with a value other than --random_seed", "event": ["seed", seed_flag, flag_seed]})
    inp = "(%s, (%s, %s))" % (gz(flag_seed), glist(imports), glist(reqs))
    stats["draws"] = len(plan)
    stats["entropy_cells"] = sum(1 for c in plan if c[0] == 2)
    return inp, expected, problems, ids, stats


def py_uuid4(v):
    v &= ~(0xc000 << 48)
    v |= 0x8000 << 48
    v &= ~(0xf000 << 64)
    v |= 4 << 76
    return v


# ------------------------------------------------------------------------------------------------- replayed traces
WRITE_TRACE = """
import json, pickle, sys
sys.path.insert(0, sys.argv[1])
from data.alibaba_loader import Task
dags = json.load(sys.stdin)
out = {}
for job, tasks in dags.items():
    out[job] = [Task(name=n, job=job, instances=1, status="Terminated", start_time=0, end_time=0, expected_duration=d,
                     actual_duration=d, cpu_requested=c, cpu_usage=c, mem_requested=0.1, mem_usage=0.1) for (n, d, c) in tasks]
pickle.dump(out, open(sys.argv[2], "wb"))
"""


def gen_trace(rng):
    """a small Alibaba-style trace: task names are <type><id>_<parent id>_..; DAGs with joins, listed in a random order (as
    in the shipped traces a task may be listed before its parents)"""
    dags = {}
    for j in range(rng.randint(2, 4)):
        n = rng.randint(3, 6)
        tasks = []
        for i in range(1, n + 1):
            parents = sorted(rng.sample(range(1, i), min(i - 1, rng.choice([0, 1, 2, 2, 3])))) if i > 1 else []
            name = "%s%d%s" % (rng.choice("MRJ"), i, "".join("_%d" % q for q in parents))
            tasks.append([name, rng.choice([20, 30, 40, 50, 60, 80]), rng.choice([50.0, 100.0])])
        rng.shuffle(tasks)
        dags["j_%d" % (j + 1)] = tasks
    return dags


def replay_stream(ctx, n):
    """S-repro-replay: `--execution_mode=replay --replay_trace=alibaba` on generated traces, two fresh processes with
    different hash salts; the traces must be identical (wall-clock field masked)."""
    import tempfile
    base = tempfile.mkdtemp(prefix="c09replay_", dir=core.BUILD if os.path.isdir(core.BUILD) else None)
    ran = conclusive = 0
    normal, minrows = 0, None
    try:
        for k in range(n):
            dags = gen_trace(ctx.rng)
            d = os.path.join(base, "t%d" % k)
            os.makedirs(d)
            tp = os.path.join(d, "trace.pkl")
            w = subprocess.run([core.PY, "-c", WRITE_TRACE, core.REPO, tp], input=json.dumps(dags), capture_output=True, text=True,
                               timeout=120)
            if w.returncode != 0:
                ctx.broken.append({"kind": "correspondence", "name": "S-repro-replay (cannot write a trace with data.alibaba_loader.Task)",
                                   "detail": w.stderr[-400:]})
                return
            wk = os.path.join(d, "workers.yaml")
            open(wk, "w").write("- name: WorkerPool_1\n  workers:\n      - name: Worker_1_1\n        resources:\n"
                                "            - name: Slot_1\n              quantity: %d\n" % ctx.rng.choice([4, 8]))
            seed = ctx.rng.randrange(1, 10 ** 6)
            flags = ["--execution_mode=replay", "--replay_trace=alibaba", "--workload_profile_path=" + tp,
                     "--worker_profile_path=" + wk, "--scheduler=%s" % ctx.rng.choice(["EDF", "FIFO", "LSF"]), "--scheduler_runtime=0",
                     "--runtime_variance=%d" % ctx.rng.choice([0, 20]), "--random_seed=%d" % seed,
                     "--override_release_policy=poisson", "--override_poisson_arrival_rate=0.01",
                     "--override_num_invocation=%d" % ctx.rng.randint(3, 6), "--min_deadline_variance=50",
                     "--max_deadline_variance=150", "--log_level=info", "--csv_file_name=out.csv", "--log_file_name=log.txt"]
            outs = []
            hs = ctx.rng.sample(range(1, 4000), 3)
            for h in hs:
                rd = os.path.join(d, "run%d" % h)
                os.makedirs(rd)
                env = dict(os.environ, PYTHONHASHSEED=str(h), PYTHONPATH=core.REPO)
                try:
                    pr = subprocess.run([core.PY, os.path.join(core.REPO, "main.py")] + flags + ["--log_dir=" + rd], cwd=rd, env=env,
                                        capture_output=True, text=True, timeout=WALL)
                except subprocess.TimeoutExpired:
                    outs.append(None)
                    continue
                rows = canon_rows(open(os.path.join(rd, "out.csv")).readlines(), rd) if os.path.exists(os.path.join(rd, "out.csv")) else []
                outs.append({"rc": pr.returncode, "rows": rows, "error": last_error(pr.stderr) if pr.returncode else None})
            ran += 1
            if any(o is None for o in outs):
                continue
            conclusive += 1
            normal += outs[0]["rc"] == 0
            minrows = len(outs[0]["rows"]) if minrows is None else min(minrows, len(outs[0]["rows"]))
            for o, h in zip(outs[1:], hs[1:]):
                if o["rc"] != outs[0]["rc"] or o["rows"] != outs[0]["rows"]:
                    ctx.violation("replay_t%d" % k, {
                        "stream": "S-repro-replay", "trace": dags, "flags": [f for f in flags if "profile_path" not in f],
                        "hashseeds": [hs[0], h],
                        "what": "two fresh processes replaying the same Alibaba-style trace with the same flags and --random_seed wrote "
                                "different traces (wall-clock field masked)",
                        "first_difference": first_diff(outs[0]["rows"], o["rows"])})
                    break
    finally:
        import shutil
        shutil.rmtree(base, ignore_errors=True)
    ctx.cov["streams"]["S-repro-replay"] = {"traces": ran, "conclusive": conclusive, "processes": 3 * ran,
                                            "ended_normally": normal, "fewest_rows_in_a_trace": minrows}
    ctx.cov["evaluations"] += 3 * ran


# ------------------------------------------------------------------------------------------------- the check
def run(ctx):
    import frag_repro
    ctx.fingerprint(frag_repro.files(core.REPO))
    ctx.translate(["Repro"])
    sites = None
    try:
        d = frag_repro.classify(core.REPO)
        sites = Sites(d)
        uncl = [o for o in d["occ"] if o["class"] == "C_unclassified" or
                (o["scope"] and o["class"] in ("C_draw G_os", "C_iter_set_order", "C_wall_decision", "C_hash_value_used",
                                               "C_ctor_fuzz SE_none"))]
        for o in uncl[:8]:
            ctx.broken.append({"kind": "audit", "name": "%s:%d %s" % (o["file"], o["line"], o["func"]),
                               "detail": "%s `%s` is %s: it reads a hidden input (OS entropy / hash order / wall clock / "
                                         "object address) and is not in the allow-list of translator/frag_repro.py"
                                         % (o["kind"], o["text"][:120], o["class"])})
        ctx.cov.setdefault("input_distribution", {})["audited_occurrences"] = len(d["occ"])
        ctx.cov["input_distribution"]["audited_in_scope"] = sum(1 for o in d["occ"] if o["scope"])
        ctx.cov["input_distribution"]["audited_files"] = len(d["files"])
        ctx.cov["input_distribution"]["out_of_scope_sites_reading_hidden_inputs"] = [
            "%s:%d %s" % (o["file"], o["line"], o["class"]) for o in d["occ"]
            if not o["scope"] and o["class"] in ("C_draw G_os", "C_iter_set_order")]
    except Exception as e:  # noqa: BLE001   (TranslateError: already recorded by ctx.translate)
        if not ctx.broken:
            ctx.broken.append({"kind": "translator", "name": "Src_Repro", "detail": str(e)[-600:]})
    built = ctx.build("C09")
    model_ok = os.path.exists(os.path.join(core.COQ, "Gen", "Src_Repro.vo")) and os.path.exists(os.path.join(core.COQ, "Model", "Repro.vo"))

    n = 36 if ctx.tier == "quick" else 260
    worlds = gen_worlds(ctx.rng, n)
    # hash seeds: A from the rng; B one that iterates this world's string sets in a different order; C for the traced run
    cands = [ctx.rng.randint(1, 2 ** 32 - 1) for _ in range(8)]
    sets = [string_sets(w) for w in worlds]
    orders = {c: set_orders(c, sets) for c in cands}
    seeds = []
    differing = 0
    for i, w in enumerate(worlds):
        a = cands[ctx.rng.randrange(len(cands))]
        others = [c for c in cands if c != a]
        ctx.rng.shuffle(others)
        b = next((c for c in others if orders[c][i][0] != orders[a][i][0]), None)      # resource names first
        if b is None:
            b = next((c for c in others if orders[c][i] != orders[a][i]), others[0])
        if orders[b][i][0] != orders[a][i][0]:
            differing += 1
        c3 = next((c for c in others if c != b), others[0])
        seeds.append((a, b, c3))
    base = tempfile.mkdtemp(prefix="verif_c09_")
    try:
        res = run_all(worlds, seeds, base)
    finally:
        shutil.rmtree(base, ignore_errors=True)

    ctx.rules.append(
        "S-repro: worlds from simgen.gen_world (EDF/FIFO/LSF, scheduler_runtime=0, 1-3 graphs of 11 shapes incl. conditionals, "
        "fixed/periodic/poisson/gamma releases, deadline variance, runtime variance, random branch-prediction policy) each run "
        "as two fresh `python main.py` processes with different PYTHONHASHSEED/cwd/log dir (+ a third, traced one); "
        "a world is non-trivial if it uses randomness (deadline variance>0, poisson/gamma, a conditional or runtime variance) "
        "and both runs ended normally with >= 10 rows; distinct = distinct (workload, workers, flags) JSON")
    ctx.rules.append(
        "S-tape: the traced run's generator events, compared inside Coq with plan_of on the generated program; "
        "non-trivial if it draws from >= 3 different generator objects")
    dist = ctx.cov.setdefault("input_distribution", {})
    feat = {}
    status = {}
    seen = set()
    nontrivial = 0
    conclusive = 0
    n_viol = 0
    for i, (w, r) in enumerate(zip(worlds, res)):
        a, b, t = r["a"], r["b"], r["t"]
        st = "/".join(x["status"] for x in (a, b, t))
        status[st] = status.get(st, 0) + 1
        if "timeout" in (a["status"], b["status"]):
            continue                    # inconclusive under load: never a verdict
        conclusive += 1
        fs = features(w)
        for k, v in fs.items():
            feat[k] = feat.get(k, 0) + (1 if v else 0)
        key = json.dumps([w["workload"], w["workers"], w["flags"]], sort_keys=True)
        if a["status"] == "ok" and b["status"] == "ok" and len(a["rows"]) >= 10 and any(
                fs[k] for k in ("deadline_variance", "poisson_or_gamma", "conditional", "runtime_variance")) and key not in seen:
            nontrivial += 1
        seen.add(key)
        pairs = [("a", "b", a, b)]
        if t["status"] in ("ok", "failed"):
            pairs.append(("a", "traced", a, t))
        for (na, nb, x, y) in pairs:
            same = x["status"] == y["status"] and x["rows"] == y["rows"] and (x.get("error") or None) == (y.get("error") or None)
            if not same and n_viol < 4:
                n_viol += 1
                ctx.violation("repro_w%d_%s_%s" % (i, na, nb), {
                    "stream": "S-repro", "world": w, "hashseeds": dict(zip(("a", "b", "traced"), seeds[i])),
                    "what": "two fresh processes with the same workload, cluster, flags and --random_seed wrote different traces "
                            "(only the wall-clock field of SCHEDULER_FINISHED rows and the run directory are masked)",
                    "status": {na: x["status"], nb: y["status"]}, "errors": {na: x.get("error"), nb: y.get("error")},
                    "first_difference": first_diff(x["rows"], y["rows"]),
                    "how_to_rerun": "write world.workload / world.workers as yaml and run `PYTHONHASHSEED=<a|b> /venv/bin/python "
                                    "main.py --execution_mode=yaml --workload_profile_path=.. --worker_profile_path=.. <world.flags>` twice"})
        if len(ctx.cov["samples"]) < 3 and a["status"] == "ok":
            ctx.sample({"world": w, "hashseeds": seeds[i], "rows": len(a["rows"]), "first_rows": a["rows"][-3:]})
    ctx.cov["evaluations"] += 3 * len(worlds)
    ctx.cov["traces_validated_against_impl"] += conclusive
    ctx.cov["streams"]["S-repro"] = {"worlds": len(worlds), "conclusive": conclusive, "processes": 3 * len(worlds),
                                     "hashseed_pairs_ordering_resource_names_differently": differing}
    dist["worlds_by_status(a/b/traced)"] = status
    dist["worlds_with_feature"] = feat
    dist["policies"] = {p: sum(1 for w in worlds if w["policy"] == p) for p in ("EDF", "FIFO", "LSF")}

    # ---- S-repro-replay: the trace-replay path (data/alibaba_loader.py), two hash salts per generated trace
    ctx.rules.append("S-repro-replay: generated Alibaba-style traces (2-4 DAGs of 3-6 tasks, joins, tasks listed before their parents) "
                     "replayed by `python main.py --execution_mode=replay --replay_trace=alibaba` (EDF/FIFO/LSF, poisson arrivals, "
                     "deadline and runtime variance) as three fresh processes with different PYTHONHASHSEED; traces must be identical")
    replay_stream(ctx, 4 if ctx.tier == "quick" else 24)

    # ---- S-tape
    cases, id_cases, where = [], [], []
    tape_nontrivial = 0
    agg = {}
    if sites is not None:
        for i, (w, r) in enumerate(zip(worlds, res)):
            t = r["t"]
            if t["status"] == "adapter-error":
                ctx.broken.append({"kind": "correspondence", "name": "S-tape adapter", "detail": t.get("error", "")[-600:]})
                break
            if t["status"] == "timeout" or "events" not in t:
                continue
            inp, expected, problems, ids, stats = tape_case(t["events"], sites, w["flags"]["random_seed"])
            for pr in problems[:2]:
                ctx.violation("tape_w%d" % i, {"stream": "S-tape", "world": w, "what": pr["what"], "event": pr["event"]})
            cases.append((inp, expected, {"world": i}))
            where.append(i)
            id_cases.append(ids)
            for k, v in stats.items():
                agg[k] = agg.get(k, 0) + v
            gens = (1 if stats.get("g") else 0) + (1 if stats.get("r") else 0) + min(2, stats.get("policies", 0) if stats.get("n") else 0)
            if gens >= 3:
                tape_nontrivial += 1
        dist["tape_events"] = agg
    ctx.cov["distinct_nontrivial"] = nontrivial
    dist["tape_nontrivial_worlds"] = tape_nontrivial
    if cases and model_ok:
        try:
            mism = ctx.model_stream("S-tape", HEADER, "Z * (list obs_req * list obs_req)",
                                    "(observe_plan Src_Repro.audit Src_Repro.prog)", cases, shard=6)
            for idx, mv in mism[:3]:
                exp = core.norm_val(cases[idx][1])
                k = None
                if isinstance(mv, list) and len(mv) == 4 and isinstance(mv[1], list):
                    k = next((j for j, (x, y) in enumerate(zip(mv[1], exp[1])) if x != y), None)
                ctx.violation("tape_plan_w%d" % where[idx], {
                    "stream": "S-tape", "world": worlds[where[idx]],
                    "what": "the generator / stream position a value was drawn from in the implementation differs from the "
                            "program translated from the source ([1;seed;n] = n-th value of the stream seeded with seed, "
                            "[2;0;k] = k-th value of OS entropy; model status 1/2/3 = request the model cannot perform)",
                    "model_status_or_plan_head": mv[0] if isinstance(mv, list) and mv else mv,
                    "first_differing_draw": None if k is None else {"index": k, "model": mv[1][k], "implementation": exp[1][k]},
                    "model_generators": mv[2:] if isinstance(mv, list) else None, "implementation_generators": exp[2:]})
        except core.ModelEvalError as e:
            ctx.broken.append({"kind": "correspondence", "name": "S-tape", "detail": str(e)[-500:]})
    elif cases:
        ctx.broken.append({"kind": "correspondence", "name": "S-tape", "detail": "the model could not be built; stream not evaluated"})
    # ---- monitor: ids are the uuid4 form of the bits drawn for them from the global generator
    flat = []
    for ids in id_cases:
        flat.append("[" + "; ".join("(%s, %s)" % (gz(b), gz(i)) for (b, i, _) in ids) + "]")
    bad = None
    if flat and model_ok:
        try:
            bad = ctx.monitor_stream("S-ids", HEADER, "list (Z * Z)", "ids_from_draws", flat, shard=6)
        except core.ModelEvalError as e:
            ctx.broken.append({"kind": "monitor", "name": "S-ids", "detail": str(e)[-400:]})
    if bad is None:      # pure-Python fallback of the monitor
        bad = [j for j, ids in enumerate(id_cases) if not all(0 <= b < 2 ** 128 and py_uuid4(b) == i for (b, i, _) in ids)]
    for j in bad[:3]:
        wrong = [(c, i) for (b, i, c) in id_cases[j] if not (0 <= b < 2 ** 128 and py_uuid4(b) == i)]
        ctx.violation("ids_w%d" % where[j], {
            "stream": "S-ids", "world": worlds[where[j]],
            "what": "an object id is not the uuid4 form of 128 bits drawn inside its constructor from the process-global "
                    "(seeded) generator", "objects": [{"class": c, "id": str(i)} for (c, i) in wrong[:5]], "count": len(wrong)})
    dist["ids_checked"] = sum(len(x) for x in id_cases)
    return built
