"""C06, clause (d) — cancellation is closed downstream (a PART of C06: exposes run(ctx), uses ctx.pid).

Theorems: coq/Props/C06_closure.v about Model/TaskGraph.v tg_cancel.
Streams: S-cancel (real TaskGraph.cancel vs the model: returned list in order, all states, probabilities and
remaining times afterwards, errors), and the monitors closure_check / closure_err_check applied to the
implementation's own results on states that are closed under earlier cancellations.
"""
import itertools

import core
from core import gz, glist
from props import c18 as tg

FILES = ["workload/tasks.py", "workload/graph.py"]
TRUSTED = tg.TRUSTED


# reference (Python) doomed set by fixpoint iteration; used to BUILD closed states and as the fallback monitor
def py_doomed(adj, tasks, t):
    ca = tg.canon_adj(adj)
    par = tg.parents_of(adj)
    s = {t}
    while True:
        new = set()
        for n, _ in ca:
            if n in s or not any(p in s for p in par[n]):
                continue
            if not tasks[n][5] or all(p in s or tasks[p][0] == 8 for p in par[n]):
                new.add(n)
        if not new:
            return s
        s |= new


def py_closed(adj, tasks):
    par = tg.parents_of(adj)
    for n, cs in tg.canon_adj(adj):
        if tasks[n][0] == 8 and any(not tasks[c][5] and tasks[c][0] != 8 for c in cs):
            return False
        if tasks[n][5] and par[n] and all(tasks[p][0] == 8 for p in par[n]) and tasks[n][0] != 8:
            return False
    return True


def mark_cancelled(tasks, ns):
    for n in ns:
        tasks[n][0] = 8
        tasks[n][3] = 0
        tasks[n][4] = 0


def closed_case(rng):
    """a state closed under earlier cancellations, and a new request"""
    if rng.random() < 0.5:
        adj, flags = tg.cond_dag(rng)
    else:
        adj, flags = tg.rand_dag(rng, rng.choice([2, 3, 4, 4, 5, 5, 6]), rng.choice([0.3, 0.5, 0.7])), None
    tasks = tg.gen_tasks(rng, adj, flags, rng.choice(["fresh", "cancelable", "any"]))
    nodes = tg.key_order(adj)
    for n in nodes:
        if tasks[n][0] == 8:
            tasks[n][0] = 1
            tasks[n][4] = tg.DEN
    for _ in range(rng.choice([0, 0, 1, 1, 2])):
        mark_cancelled(tasks, py_doomed(adj, tasks, rng.choice(nodes)))
    return adj, tasks, ["cancel", rng.choice(nodes), rng.choice([0, 7])]


def exhaustive(nmax, states):
    """all DAGs on ids 1..n (edges i->j for i<j) x requested node x terminal subsets, states cycling through `states`"""
    out = []
    k = 0
    for n in range(1, nmax + 1):
        pairs = [(i, j) for i in range(1, n + 1) for j in range(i + 1, n + 1)]
        for mask in range(1 << len(pairs)):
            ch = {i: [] for i in range(1, n + 1)}
            for b, (i, j) in enumerate(pairs):
                if mask >> b & 1:
                    ch[i].append(j)
            adj = [[i, ch[i]] for i in range(1, n + 1)]
            for term in range(1 << n):
                for t in range(1, n + 1):
                    tasks = {}
                    for i in range(1, n + 1):
                        st = states[(k + i) % len(states)]
                        tasks[i] = [st, -1, 100, 0, 0 if st == 8 else tg.DEN, bool(term >> (i - 1) & 1), False,
                                    5 if st == 3 else None, -1, [5]]
                    k += 1
                    out.append((adj, tasks, ["cancel", t, 7]))
    return out


def g_after(vec):
    return glist(["(%s, %s)" % (gz(v[0]), gz(v[1])) for v in vec])


def run(ctx):
    ctx.fingerprint(FILES)
    ctx.translate(["Task", "TaskGraph"])
    built = ctx.build("C06_closure", deps=["Model/TaskGraph.v"])
    quick = ctx.tier == "quick"
    rng = ctx.rng
    n_rand = 350 if quick else 6000
    triples = [tg.rand_case(rng, ["cancel"]) for _ in range(n_rand)]
    triples += [closed_case(rng) for _ in range(n_rand)]
    ex = exhaustive(3 if quick else 4, [1, 1, 2, 3, 8, 1, 4, 1, 7, 1, 1])
    if quick:
        ex = rng.sample(ex, min(len(ex), 400))
    triples += ex
    ctx.rules.append("S-cancel: TaskGraph.cancel on (DAG x state vector x requested task): random DAGs (1-6 nodes, random key "
                     "and children order), structured conditional/join graphs, states closed under earlier cancellations "
                     "(built with a reference fixpoint), and every DAG on <= %d nodes x requested node x terminal subsets "
                     "(sampled in quick); distinct = distinct (mapping, tasks, request); non-trivial = >= 3 tasks and an edge"
                     % (3 if quick else 4))
    ctx.cov["distinct_nontrivial"] += tg.count_nontrivial(triples)
    res = tg.run_correspondence(ctx, "S-cancel", triples,
                                "TaskGraph.cancel and the model disagree (returned tasks in order / states, probabilities, "
                                "remaining times afterwards / error)")
    # ---- monitors on the implementation's own results
    ok_cases, ok_where, err_cases, err_where = [], [], [], []
    nerr = nok = 0
    for i, ((adj, tasks, op), r) in enumerate(zip(triples, res)):
        if not py_closed(adj, tasks):
            continue
        (code, val), after = r
        if code == 0:
            ok_cases.append("(%s, %s, %s, %s)" % (tg.g_graph(adj, tasks), gz(op[1]), glist([gz(x) for x in val]), g_after(after)))
            ok_where.append(i)
        elif val == 1:
            err_cases.append("(%s, %s)" % (tg.g_graph(adj, tasks), gz(op[1])))
            err_where.append(i)
    ctx.cov["input_distribution"] = {"cancel_requests": len(triples), "closed_states_monitored_ok": len(ok_cases),
                                     "closed_states_monitored_err": len(err_cases),
                                     "requests_cancelling_>=2": sum(1 for r in res if r[0][0] == 0 and len(r[0][1]) >= 2)}
    ctx.sample({"stream": "S-cancel", "mapping": triples[0][0], "op": triples[0][2], "impl": res[0]})

    def report(idx, what):
        adj, tasks, op = triples[idx]
        ctx.violation("closure%d" % idx, {"stream": "S-cancel monitor", "mapping": adj,
                                          "tasks(state,release,deadline,raw_remaining,prob/16,terminal,conditional,"
                                          "expected_start,completion,runtimes)": tasks,
                                          "request": op, "implementation": res[idx],
                                          "doomed(reference)": sorted(py_doomed(adj, tasks, op[1])), "what": what})
    try:
        bad = ctx.monitor_stream("S-cancel", tg.HEADER, "tgraph * Z * list Z * list (Z * Z)", "closure_check", ok_cases)
        for b in bad[:3]:
            report(ok_where[b], "TaskGraph.cancel did not cancel exactly the doomed tasks that were not yet cancelled "
                                "(or changed another task)")
        bad = ctx.monitor_stream("S-cancel-err", tg.HEADER, "tgraph * Z", "closure_err_check", err_cases)
        for b in bad[:3]:
            report(err_where[b], "TaskGraph.cancel raised although every doomed task was cancellable")
    except core.ModelEvalError as e:
        ctx.broken.append({"kind": "monitor", "name": "closure_check", "detail": str(e)[-600:]})
        for i in ok_where:      # fallback: the same check in Python
            adj, tasks, op = triples[i]
            (code, val), after = res[i]
            want = {n for n in py_doomed(adj, tasks, op[1]) if tasks[n][0] != 8}
            st = {v[0]: v[1] for v in after}
            if set(val) != want or any(st[n] != (8 if n in want else tasks[n][0]) for n in st):
                report(i, "TaskGraph.cancel did not cancel exactly the doomed tasks (Python fallback of the monitor)")
                break
