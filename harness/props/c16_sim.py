"""C16, whole-simulation part: the order in which the simulator's own event queue hands out events during generated
simulations (re-timed placements, removed events, retries), judged by the documented key."""
import simcheck
import simmon

TRUSTED = simcheck.TRUSTED_SIM


def run(ctx):
    simcheck.run_sim_property(ctx, [], simmon.mon_c16,
                              "the simulator's event queue handed out an event while an event that precedes it (time, then "
                              "documented type priority) was pending", machine=False)
