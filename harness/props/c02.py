"""C02 — tasks start only after release and after all predecessors finish; at most one start / completion."""
import simcheck
import simmon

TRUSTED = simcheck.TRUSTED_SIM


def run(ctx):
    simcheck.run_sim_property(ctx, ["C02"], lambda r, w: simmon.mon_c02(r),
                              "a task started before its release or before a predecessor completed, or started/completed twice")
