"""C10 (Z3 part) — every satisfying assignment of the system Z3Scheduler asserts is a well-formed,
jointly feasible decision; schedule() changes nothing.  Also the library shared by the Z3 parts
(c11_z3, c12_z3): world generator, Gallina rendering, adapter driver, finding signatures."""
import json
import os
from concurrent.futures import ThreadPoolExecutor

import core
from core import gz, glist, gbool, gval

FILES = ["schedulers/z3_scheduler.py", "schedulers/base_scheduler.py", "workload/tasks.py", "workload/graph.py",
         "workload/resources.py", "workload/resource.py", "workload/strategy.py", "workers/workers.py",
         "workload/placement.py", "utils.py"]
TRUSTED = [
    "z3 (z3-solver 5.1) is trusted to return an assignment that satisfies the assertions it was given; the theorems are "
    "about every satisfying assignment of those assertions",
    "the instance (what schedule() reads: offered tasks, strategies, release/remaining/deadline in us, parents, depths, "
    "are_dependent pairs, per-key total/available worker resources) is extracted from the live objects through /repo's own "
    "getters by harness/impl/z3sched.py; Workload.get_schedulable_tasks, Worker.get_compatible_strategies, "
    "TaskGraph.are_dependent/get_node_depth are other properties' subjects and are taken as observed, except that "
    "compatibility / fastest strategy / available quantity are recomputed by the model from the observed strategies and keys "
    "and therefore compared through the rows",
    "translator frag_z3.py (precedence rows, parent filter, timing rows, one-hot rows, soft rows, constants) and the "
    "serialisation of z3 ASTs by the adapter (operator kinds -> codes, variable names -> codes)",
    "python `set` iteration order (resource types, task_resource_dependencies) only permutes the asserted rows: rows are "
    "compared as multisets",
]
HEADER = "From Verif Require Import Gen.Src_Z3 Model.Z3Model."

# ----------------------------------------------------------------------------------------------
# world generator (specs consumed by harness/impl/z3sched.py:build)
# ----------------------------------------------------------------------------------------------


def gen_spec(rng, profile="mixed"):
    """profiles: mixed | dag (one graph, deeper DAG, offered ahead through lookahead / release_taskgraphs) |
    busy (running / scheduled / completed tasks holding resources) | odd (zero quantities, two keys of one
    name, equal worker names, zero-quantity requests) | single (one worker)"""
    nres = rng.choice([1, 1, 2])
    now = rng.randint(0, 8)
    npools = rng.choice([1, 1, 2])
    nworkers = 1 if profile == "single" else rng.choice([1, 1, 2, 2, 3])
    pools = [[] for _ in range(npools)]
    for k in range(nworkers):
        res = []
        for r in range(nres):
            if rng.random() < 0.85 or (r == nres - 1 and not res):
                q = rng.choice([1, 1, 2, 2, 3])
                if profile == "odd" and rng.random() < 0.15:
                    q = 0
                res.append([r, q])
        if profile == "odd" and rng.random() < 0.25:
            res.append([rng.randrange(nres), rng.choice([1, 2])])      # a second key with the same name
        name = k if not (profile == "odd" and rng.random() < 0.1) else 0
        pools[rng.randrange(npools)].append({"name": name, "res": res})
    pools = [p for p in pools if p]
    # position of each worker: (pool index, index inside the pool); flat order = schedule()'s order
    pos = [(pi, wi) for pi, p in enumerate(pools) for wi, _ in enumerate(p)]
    flat = [w for p in pools for w in p]
    free = []
    for w in flat:
        av = {}
        for r, q in w["res"]:
            av[r] = av.get(r, 0) + q
        free.append(av)
    ng = 1 if profile == "dag" else rng.choice([1, 1, 1, 2])
    graphs = []
    busy = profile == "busy" or (profile in ("mixed", "odd", "single") and rng.random() < 0.3)
    for g in range(ng):
        nt = rng.randint(2, 4) if profile == "dag" else rng.randint(1, 4 if ng == 1 else 2)
        edges = []
        for j in range(1, nt):
            for i in range(j):
                if rng.random() < ((0.7 if profile == "dag" else 0.55) if i == j - 1 else 0.3):
                    edges.append([i, j])
        tasks = []
        done = []
        for j in range(nt):
            ns = 1 if rng.random() < 0.75 else 2
            strats = []
            for _ in range(ns):
                names = [r for r in range(nres) if rng.random() < 0.7] or [rng.randrange(nres)]
                strats.append([rng.randint(1, 6), [[r, rng.choice([1, 1, 1, 2, 2, 0] if profile == "odd" else [1, 1, 1, 2])]
                                                   for r in names]])
            t = {"strats": strats, "deadline": now + rng.randint(-2, 25), "release": rng.randint(0, now), "state": "released"}
            parents = [i for i, k in edges if k == j]
            parents_done = all(done[i] for i in parents)
            if not parents_done:
                st = "virtual"
            else:
                x = rng.random()
                if busy:
                    st = ("running" if x < 0.35 else "completed" if x < 0.5 else "scheduled" if x < 0.6
                          else "released" if x < 0.95 else "virtual")
                else:
                    st = "completed" if x < 0.1 else "virtual" if x < 0.14 else "released"
            if st in ("running", "scheduled"):
                # needs a worker and a strategy that fits right now
                opts_ = [(wk, si) for wk in range(len(flat)) for si, s in enumerate(strats)
                         if all(free[wk].get(r, 0) >= q for r, q in s[1])]
                if not opts_:
                    st = "released"
                else:
                    wk, si = rng.choice(opts_)
                    t["on"] = list(pos[wk])
                    t["strat"] = si
                    if st == "running":
                        t["at"] = rng.randint(t["release"], now)
                        if rng.random() < 0.4:
                            t["rem"] = rng.randint(1, strats[si][0])
                        for r, q in strats[si][1]:
                            free[wk][r] = free[wk].get(r, 0) - q
                    else:
                        t["at"] = now + rng.randint(0, 5)
            if st == "completed":
                if strats[0][0] > now or not flat:
                    st = "released"
                else:
                    t["release"] = 0
                    t["at"] = 0
                    t["on"] = [0, 0]
                    t["strat"] = 0
            if st == "released" and rng.random() < 0.1:
                t["release"] = now + rng.randint(1, 3)
            t["state"] = st
            done.append(st == "completed")
            tasks.append(t)
        graphs.append({"tasks": tasks, "edges": edges})
    look = rng.choice([0, 3, 100, 100]) if profile == "dag" else rng.choice([0, 0, 3, 100])
    opts = {"enforce": rng.random() < 0.5, "lookahead": look, "retract": rng.random() < 0.3,
            "release_taskgraphs": rng.random() < (0.5 if profile == "dag" else 0.3),
            "preemptive": (ng == 1 and rng.random() < 0.08)}
    return {"now": now, "opts": opts, "pools": pools or [[]], "graphs": graphs}


# ----------------------------------------------------------------------------------------------
# rendering
# ----------------------------------------------------------------------------------------------
VARC = ["VStart", "VPlaced", "VWorker", "VRes", "VEnds", "VOverlap", "VIndep", "VPenalty", "VSlack", "VGoal"]


def g_var(code):
    if len(code) == 1:
        return VARC[code[0]]
    return "(%s %s)" % (VARC[code[0]], " ".join(gz(x) for x in code[1:]))


def g_asg(codes):
    return glist(["(%s, %s)" % (g_var(c), gz(v)) for c, v in codes])


def g_pairs(ps):
    return glist(["(%s, %s)" % (gz(a), gz(b)) for a, b in ps])


def g_instance(inst):
    ts = []
    for t in inst["tasks"]:
        strats = glist(["(mkStrat %s %s)" % (gz(s[0]), g_pairs(s[1])) for s in t["strats"]])
        ts.append("(mkTask %s %s %s %s %s %s %s %s)" % (gz(t["id"]), gz(t["graph"]), gz(t["release"]), gz(t["remaining"]),
                                                       gz(t["deadline"]), strats, glist([gz(p) for p in t["parents"]]),
                                                       gz(t["depth"])))
    ws = []
    for w in inst["workers"]:
        ws.append("(mkWorker %s %s %s)" % (gz(w["name"]), gz(w["pool"]),
                                          glist(["(%s, %s, %s)" % (gz(a), gz(b), gz(c)) for a, b, c in w["res"]])))
    return "(mkInst %s %s %s %s %s %s)" % (gz(inst["now"]), gbool(inst["enforce"]), glist(ts), glist(ws),
                                          g_pairs(inst["dependent"]), g_pairs(inst["graph_deadline"]))


# ----------------------------------------------------------------------------------------------
# findings about the unchanged /repo: signatures over INPUTS (the extracted instance)
# ----------------------------------------------------------------------------------------------
def _avail(w, r):
    return sum(a for n, _, a in w["res"] if n == r)


def _rtypes(t):
    out = []
    for s in t["strats"]:
        for r, _ in s[1]:
            if r not in out:
                out.append(r)
    return out


def _compatible(w, t):
    return [s for s in t["strats"] if all(_avail(w, r) >= q for r, q in s[1])]


def _any_compatible(inst, t):
    return any(_compatible(w, t) for w in inst["workers"])


def sig_width_zero(inst):
    """FZ3-B: some offered task makes z3.BitVec(.., 0): no worker at all, or a resource type named by one of its
    strategies is not available on any worker while another strategy fits somewhere."""
    if inst["tasks"] and not inst["workers"]:
        return True
    for t in inst["tasks"]:
        if _any_compatible(inst, t):
            for r in _rtypes(t):
                if max(_avail(w, r) for w in inst["workers"]) <= 0:
                    return True
    return False


def sig_extract(inst):
    """FZ3-A: two co-decided tasks that may run in parallel share a resource type r, and some worker has a key of
    r whose TOTAL quantity exceeds the widest AVAILABLE quantity of r over all workers (a partially occupied
    cluster) or is zero: z3.Extract(total - 1, 0, <vector of max-available bits>) is ill-formed."""
    dep = {(a, b) for a, b in inst["dependent"]}
    ts = [t for t in inst["tasks"] if _any_compatible(inst, t)]
    for i, t1 in enumerate(ts):
        for t2 in ts[i + 1:]:
            if t1["graph"] == t2["graph"] and (t1["id"], t2["id"]) in dep:
                continue
            shared = [r for r in _rtypes(t1) if r in _rtypes(t2)]
            for r in shared:
                size = max(_avail(w, r) for w in inst["workers"])
                for w in inst["workers"]:
                    for n, tot, _ in w["res"]:
                        if n == r and (tot > size or tot <= 0):
                            return True
    return False


def sig_outside_parent(inst):
    """FZ3-C: an offered task has a predecessor that is not offered and not completed (running / scheduled)."""
    return any(o[2] != 7 for o in inst["outside_parents"])


def sig_duplicates(inst):
    ids = [t["id"] for t in inst["tasks"]]
    return len(ids) != len(set(ids))


# ----------------------------------------------------------------------------------------------
# running the adapter
# ----------------------------------------------------------------------------------------------
def run_specs(ctx, specs, n_models=6, n_rand=10, jobs=4):
    chunks = [specs[i::jobs] for i in range(jobs)]
    seeds = [ctx.rng.randrange(1 << 30) for _ in range(jobs)]

    def one(k):
        if not chunks[k]:
            return []
        return core.run_impl("z3sched.py", {"cases": chunks[k], "seed": seeds[k], "n_models": n_models,
                                            "n_rand": n_rand}, timeout=900)["cases"]
    with ThreadPoolExecutor(max_workers=jobs) as ex:
        res = list(ex.map(one, range(jobs)))
    out = [None] * len(specs)
    for k in range(jobs):
        for j, r in enumerate(res[k]):
            out[k + j * jobs] = r
    return out


def placements_asg(r):
    """the returned placements as an assignment of the placement / start variables"""
    out = []
    for p in r.get("placements") or []:
        out.append([[1, p[0]], 1 if p[2] else 0])
        if p[2]:
            out.append([[0, p[0]], p[3]])
    return out


def canon_placements(r):
    return [[p[0], 1, p[3], p[4], p[5]] if p[2] else [p[0], 0] for p in r["placements"]]


def corpus_dir(name):
    d = os.path.join(core.ROOT, "corpus", name)
    os.makedirs(d, exist_ok=True)
    return d


def load_corpus(name):
    d = os.path.join(core.ROOT, "corpus", name)
    out = []
    if os.path.isdir(d):
        for f in sorted(os.listdir(d)):
            if f.endswith(".json"):
                out.append((f, json.load(open(os.path.join(d, f)))))
    return out


def tiers(ctx):
    return ctx.tier == "quick"


def describe(spec, inst):
    return {"spec": spec, "offered": [[t["id"], t["state"]] for t in inst["tasks"]]}


def chain_closed(inst):
    """every are_dependent pair of offered tasks is connected by a chain of OFFERED parents (so that the
    precedence rows order the pair); if not, neither precedence nor exclusivity rows relate the two tasks"""
    byid = {t["id"]: t for t in inst["tasks"]}
    anc = {}

    def ancestors(i):
        if i not in anc:
            anc[i] = set()
            for p in byid[i]["parents"]:
                if p in byid:
                    anc[i].add(p)
                    anc[i] |= ancestors(p)
        return anc[i]
    for a, b in inst["dependent"]:
        if a in byid and b in byid and not (a in ancestors(b) or b in ancestors(a)):
            return False
    return True


def sig_multikey(inst):
    """FZ3-D: a worker has two keys of the same resource name (e.g. GPU:0 and GPU:1 in the worker profile)"""
    for w in inst["workers"]:
        names = [n for n, _, _ in w["res"]]
        if len(names) != len(set(names)):
            return True
    return False


def wf_capacity(inst):
    """hypotheses of C10_z3_capacity (wf_inst, wf_worker), on the extracted instance"""
    return (chain_closed(inst) and not sig_multikey(inst) and all(t["remaining"] >= 0 for t in inst["tasks"])
            and all(0 <= a <= tot for w in inst["workers"] for _, tot, a in w["res"]))


def sig_same_worker_name(inst):
    names = [w["name"] for w in inst["workers"]]
    return len(names) != len(set(names))


def tie_streams(ctx, specs, res, dist):
    """S-z3-rows / S-z3-sat / S-z3-readback for the given runs.  Returns {case index: gallina instance}."""
    rows_cases, sat_cases, rb_cases = [], [], []
    gis = {}
    for i, (spec, r) in enumerate(zip(specs, res)):
        inst = r["instance"]
        if sig_duplicates(inst):
            continue                      # F10 (other property): a task offered twice; the dict keeps one entry
        gi = g_instance(inst)
        if r["error"]:
            rows_cases.append(("(%s, [])" % gi, [1, r["error"][0]], {"spec": spec, "error": r["error"]}))
            continue
        if r.get("formulas") is None:
            ctx.violation("dump%d" % i, {"stream": "S-z3-rows", "spec": spec, "what": "the scheduler asserted a row outside the "
                                          "modelled language: " + str(r.get("dump_error"))})
            continue
        gis[i] = gi
        dist["rows"] = dist.get("rows", 0) + len(r["formulas"])
        rows_cases.append(("(%s, %s)" % (gi, glist([gval(f) for f in r["formulas"]])), [0, [], []],
                           {"spec": spec, "n_rows": len(r["formulas"])}))
        cands = r["candidates"]
        dist["candidates"] = dist.get("candidates", 0) + len(cands)
        dist["candidates_sat"] = dist.get("candidates_sat", 0) + sum(c[1] for c in cands)
        sat_cases.append(("(%s, %s)" % (gi, glist([g_asg(c[0]) for c in cands])), [0, [c[1] for c in cands]],
                          {"spec": spec, "n_candidates": len(cands)}))
        if r.get("solver_model") is not None:
            rb_cases.append(("(%s, %s)" % (gi, g_asg(r["solver_model"])), [0, canon_placements(r)], {"spec": spec}))

    def stream(name, in_type, fn, cases, what):
        try:
            mism = ctx.model_stream(name, HEADER, in_type, fn, cases, shard=80)
            for idx, mv in mism[:3]:
                ctx.violation("%s%d" % (name.replace("-", ""), idx),
                              {"stream": name, "case": cases[idx][2], "expected_from_implementation": cases[idx][1],
                               "model": mv, "what": what})
        except core.ModelEvalError as e:
            ctx.broken.append({"kind": "correspondence", "name": name, "detail": str(e)[-600:]})

    stream("S-z3-rows", "instance * list val", "obs_rows", rows_cases,
           "the rows asserted by Z3Scheduler differ from gen_z3 (model rows missing in the implementation / implementation "
           "rows missing in the model), or one side raises and the other does not")
    stream("S-z3-sat", "instance * list (list (var * Z))", "obs_sat", sat_cases,
           "z3's evaluation of the asserted rows and the model's sat disagree on a candidate assignment")
    stream("S-z3-readback", "instance * list (var * Z)", "obs_readback", rb_cases,
           "the returned placements differ from readback of the solver's values")
    return gis


def points_of(r):
    pts = [("feasible", a) for a in r["feasible"]] + [("adversarial:" + k, a) for k, a in r["adversarial"]]
    if r.get("solver_model") is not None:
        pts.append(("optimum", r["solver_model"]))
    return pts


RULE = ("S-z3: generated worlds (1-3 workers in 1-2 pools, 1-2 resource types with per-key totals 1-3 (profile `odd`: zero "
        "quantities, two keys of one name, equal worker names), 1-2 task graphs of 1-4 tasks with random DAG edges and 1-2 "
        "strategies each, states released / virtual / running (holding resources) / scheduled / completed, lookahead, "
        "retract_schedules, release_taskgraphs, enforce_deadlines, rarely preemptive) are built as real "
        "Task/TaskGraph/Workload/Worker/WorkerPools objects; the real Z3Scheduler.schedule() runs with z3.Optimize.check "
        "wrapped; candidate assignments = models enumerated by z3 from the captured rows, one-variable perturbations of them "
        "(with and without recomputing the defined variables from their documented meaning) and random points; "
        "distinct = distinct extracted instance")


def run(ctx):
    quick = ctx.tier == "quick"
    ctx.fingerprint(FILES)
    ctx.translate(["Z3"])
    ctx.build("C10_z3", deps=["Model/Z3Model.v"])   # the part's own statements, whatever property id runs it
    n = 80 if quick else 500
    specs = [gen_spec(ctx.rng, ["mixed", "busy", "mixed", "odd", "single"][i % 5]) for i in range(n)]
    res = run_specs(ctx, specs, n_models=5 if quick else 8, n_rand=8 if quick else 16)
    ctx.rules.append(RULE + "; non-trivial = at least two offered tasks that can be placed on a common worker, or a partially "
                            "occupied worker, or the call raises")
    dist = {"offered": {}, "errors": 0, "busy_workers": 0, "multikey": 0, "known_crash_signature": 0,
            "adversarial_found": {}, "unchanged_checked": 0}
    gis = tie_streams(ctx, specs, res, dist)
    seen = set()
    nontriv = 0
    pts, where = [], []
    ret, ret_where = [], []
    for i, (spec, r) in enumerate(zip(specs, res)):
        inst = r["instance"]
        key = json.dumps(inst, sort_keys=True)
        busyw = any(a != t for w in inst["workers"] for _, t, a in w["res"])
        common = sum(1 for t in inst["tasks"] if _any_compatible(inst, t)) >= 2
        if key not in seen:
            seen.add(key)
            nontriv += bool(common or busyw or r["error"])
        dist["offered"][len(inst["tasks"])] = dist["offered"].get(len(inst["tasks"]), 0) + 1
        dist["busy_workers"] += busyw
        dist["multikey"] += sig_multikey(inst)
        dist["open_chain"] = dist.get("open_chain", 0) + (not chain_closed(inst))
        dist["wf_for_capacity_theorem"] = dist.get("wf_for_capacity_theorem", 0) + wf_capacity(inst)
        # ---- returns normally
        if r["error"]:
            dist["errors"] += 1
            if sig_width_zero(inst) or sig_extract(inst):
                dist["known_crash_signature"] += 1
            else:
                ctx.violation("raise%d" % i, {"stream": "S-z3 returns-normally", "spec": spec, "instance": inst,
                                               "error": r["error"], "what": "Z3Scheduler.schedule() raised"})
        elif (sig_width_zero(inst) or sig_extract(inst)) and not sig_duplicates(inst):
            ctx.violation("sig%d" % i, {"stream": "S-z3 returns-normally", "spec": spec, "instance": inst,
                                         "what": "finding signature FZ3-A/B matches an input on which schedule() returned: the "
                                                 "signature is wider than the finding"})
        # ---- side effects
        dist["unchanged_checked"] += 1
        if not r["unchanged"]:
            ctx.violation("effect%d" % i, {"stream": "S-z3 getters before/after", "spec": spec, "diff": r.get("diff"),
                                            "what": "schedule() changed the live cluster / task state"})
        if i not in gis:
            continue
        for k, a in r["adversarial"]:
            dist["adversarial_found"][k] = dist["adversarial_found"].get(k, 0) + 1
        for why, a in points_of(r):
            pts.append("(%s, %s)" % (gis[i], g_asg(a)))
            where.append((i, why, a))
        # ---- the returned decisions themselves
        if r.get("placements") is not None:
            ds = ["(Placed %s %s %s %s)" % (gz(p[0]), gz(p[3]), gz(p[4]), gz(p[5])) if p[2] else "(Unplaced %s)" % gz(p[0])
                  for p in r["placements"]]
            ret.append("(%s, %s)" % (gis[i], glist(ds)))
            ret_where.append(i)
            if any(p[1] != 4 for p in r["placements"]):
                ctx.violation("ptype%d" % i, {"spec": spec, "placements": r["placements"], "what": "a decision that is not PLACE_TASK"})
    ctx.cov["distinct_nontrivial"] = nontriv
    ctx.cov["input_distribution"] = dist
    ctx.sample({"stream": "S-z3", "spec": specs[0], "instance": res[0]["instance"], "placements": res[0].get("placements")})

    def monitor(name, fn, cases, wh, what, known_sig=None, known_name=None, only=None):
        """apply a Gallina monitor; `only` restricts it to a subset of case indices (second pass)"""
        idx = list(range(len(cases))) if only is None else sorted(only)
        if not idx:
            return []
        try:
            bad = ctx.monitor_stream(name, HEADER, "instance * list (var * Z)" if cases is pts else "instance * list decision",
                                     fn, [cases[k] for k in idx], shard=150)
        except core.ModelEvalError as e:
            ctx.broken.append({"kind": "monitor", "name": name, "detail": str(e)[-500:]})
            return []
        bad = [idx[b] for b in bad]
        if what is None:
            return bad
        n_known = 0
        shown = 0
        for b in bad:
            i = wh[b][0] if isinstance(wh[b], tuple) else wh[b]
            if known_sig and known_sig(res[i]["instance"]):
                n_known += 1
                continue
            if shown < 3:
                shown += 1
                rep = {"stream": name, "spec": specs[i], "instance": res[i]["instance"], "what": what}
                if isinstance(wh[b], tuple):
                    rep["point"] = wh[b][1]
                    rep["assignment"] = wh[b][2]
                else:
                    rep["placements"] = res[i]["placements"]
                ctx.violation("%s_%d" % (name.replace("-", ""), b), rep)
        if known_name:
            dist["failing_under_signature_" + known_name] = n_known
        return bad

    # first pass: the conjunction of the three point monitors on every point; second pass: each monitor on the
    # points that failed the conjunction (on the unchanged tree: only points of instances outside the capacity
    # theorem's hypotheses)
    suspects = monitor("S-z3-points", "(fun p => let a := asg_of (snd p) in andb (decisions_ok (fst p) a) (andb (slots_ok (fst p) a) "
                                      "(capacity_ok (fst p) a)))", pts, where, None)
    dist["points"] = len(pts)
    dist["points_failing_some_monitor"] = len(suspects)
    monitor("S-z3-decisions", "(fun p => decisions_ok (fst p) (asg_of (snd p)))", pts, where,
            "a feasible point of the asserted system does not read back as one well-formed decision per offered task "
            "(existing worker of the named pool, start >= now and >= release)", only=suspects)
    monitor("S-z3-returned", "(fun p => returned_ok (fst p) (snd p))", ret, ret_where,
            "the returned placements are not exactly one well-formed decision per offered task")
    monitor("S-z3-slots", "(fun p => slots_ok (fst p) (asg_of (snd p)))", pts, where,
            "two tasks whose executions touch on one worker hold the same resource slot in a feasible point",
            known_sig=lambda ins: not chain_closed(ins), known_name="open_chain", only=suspects)
    monitor("S-z3-capacity", "(fun p => capacity_ok (fst p) (asg_of (snd p)))", pts, where,
            "the demand of the tasks executing at some start instant exceeds a worker's available quantity in a feasible point",
            known_sig=lambda ins: not wf_capacity(ins), known_name="FZ3-D", only=suspects)
    replay_known(ctx)


def replay_known(ctx):
    for fname, w in load_corpus("C10_z3"):
        r = core.run_impl("z3sched.py", {"cases": [w["spec"]], "seed": 0, "n_models": 1, "n_rand": 0})["cases"][0]
        f = w.get("finding")
        if f in ("FZ3-A", "FZ3-B"):
            if r["error"] and r["error"][0] == 1 and w["expect"] in r["error"][1]:
                ctx.known(f, "Z3Scheduler.schedule() raises Z3Exception %s (%s)" % (w["expect"], fname))
        elif f == "FZ3-D":
            # returned placements exceed the worker's capacity
            inst = r["instance"]
            pl = [p for p in (r.get("placements") or []) if p[2]]
            byid = {t["id"]: t for t in inst["tasks"]}
            over = False
            for p in pl:
                for k, wk in enumerate(inst["workers"]):
                    for rn in {n for n, _, _ in wk["res"]}:
                        load = sum(sum(q for rr, q in byid[o[0]]["strats"][0][1] if rr == rn)
                                   for o in pl if o[5] == k and o[3] <= p[3] < o[3] + byid[o[0]]["remaining"])
                        if load > _avail(wk, rn):
                            over = True
            if over:
                ctx.known(f, "the placements returned by Z3Scheduler exceed a worker's capacity when the worker has two keys "
                             "of one resource name (%s)" % fname)
