"""C01 — no worker is ever oversubscribed during a simulation.

Two halves.  Simulator half: whole simulations (S-sim) under the machine of Model/Sim.v and the monitor of simmon.
Worker/pool half: the refusal that keeps a worker within its capacity lives in Worker.place_task / WorkerPool.place_task;
the theorems are C04's (C04_worker_demand_le_capacity, C04_pool_no_oversubscription, for ALL operation histories), so this
check re-establishes them and their tie on every run: the S-ledger differential on worker/pool histories (refused requests
retried, batches, profiles, copies) and the Gallina monitors M-worker (demand of the residents <= configured capacity,
every resident holds exactly its allocation) and M-pool (a task is resident on one worker only) on the implementation's
own observations after every operation."""
import core
import simcheck
import simmon

TRUSTED = simcheck.TRUSTED_SIM


def worker_half(ctx):
    from props import c04 as L
    ctx.fingerprint(L.FILES)
    ctx.build("C04", deps=["Model/Worker.v"])
    quick = ctx.tier == "quick"
    n = 150 if quick else 1500
    cases = [L.gen_case(ctx.rng, 10 if quick else 14, kinds=("worker", "pool")) for _ in range(n)]
    runs = core.run_impl("ledger.py", {"cases": cases})["runs"]
    impl = [r["obs"] for r in runs]
    ctx.rules.append("C01 worker half: S-ledger histories restricted to Worker and WorkerPool objects (place plain/batch, remove, "
                     "load, evict, step, copies; refused requests are retried), generated as for C04")
    nt = 0
    for o in impl:
        codes = [x[0] for x in o[1:]]
        if any(x > 0 or x == -1 for x in codes) and any(x == 0 for x in codes):
            nt += 1
    ctx.cov["distinct_nontrivial"] += nt
    ctx.cov.setdefault("input_distribution", {})["worker_half"] = {"histories": n, "with_refusal_and_success": nt}
    try:
        mcases = [(L.g_case(c), o, c) for c, o in zip(cases, impl)]
        mism = ctx.model_stream("S-ledger(C01)", L.HDR, "world_case", "world_obs", mcases, shard=60)
        for idx, mv in mism[:3]:
            ctx.violation("ledger%d" % idx, {"stream": "S-ledger", "case": cases[idx], "implementation": impl[idx], "model": mv,
                                              "what": "Worker/WorkerPool observations differ from the model the capacity theorems are about"})
    except core.ModelEvalError as e:
        ctx.broken.append({"kind": "correspondence", "name": "S-ledger(C01)", "detail": str(e)[-600:]})
    mon = L.Mon()
    stats = {"inside_hypotheses": 0, "outside_hypotheses": 0, "tainted_objects": 0, "objects": 0}
    for ci, (c, r) in enumerate(zip(cases, runs)):
        L.analyse(ci, c, r, mon, stats)
    for k in list(mon.items):
        if k not in ("M-worker", "M-pool"):
            mon.items[k] = []
    try:
        L.run_monitors(ctx, cases, mon, "(C01)")
    except core.ModelEvalError as e:
        ctx.broken.append({"kind": "monitor", "name": "C01 worker-half monitors", "detail": str(e)[-600:]})
    ctx.extra_assumptions += list(L.TRUSTED)


def run(ctx):
    simcheck.run_sim_property(ctx, ["C01"], lambda r, w: simmon.mon_c01(r, w),
                              "a worker's resident tasks demand more than its capacity, or the ledger disagrees with the sum of requests")
    worker_half(ctx)
