"""C01 — no worker is ever oversubscribed during a simulation."""
import simcheck
import simmon

TRUSTED = simcheck.TRUSTED_SIM


def run(ctx):
    simcheck.run_sim_property(ctx, ["C01"], lambda r, w: simmon.mon_c01(r, w),
                              "a worker's resident tasks demand more than its capacity, or the ledger disagrees with the sum of requests")
