"""C11 — aggregated from its per-policy parts (see harness/parts.py)."""
import parts


def run(ctx):
    parts.run_parts(ctx, "C11", "ilp,tetri,z3".split(","))
